"""Known findings (DESIGN.md §11). /verif/known_findings.json is committed and never written at run
time. Each `known` entry names a signature implemented here: a predicate over the failing case, so
that a different violation of the same property is still reported. `fixed` entries suppress nothing."""
import json
import os

_F = json.load(open(os.environ.get('VERIF_HOME', '/verif') + '/known_findings.json'))

SIGNATURES = {}


def signature(name):
    def deco(f):
        SIGNATURES[name] = f
        return f
    return deco


@signature('dup_header_names_shadow')
def _s13(case, msg):
    # the driver classifies a header mismatch as S13 only when (a) two supported conditions of the route share a
    # header name, (b) every decoded condition was sent, (c) the decoded set is smaller than what was sent; any other
    # failure of the same case is reported first (never masked)
    return case.get('op') == 'decode' and msg.startswith('S13 C11.headers_preserved')


@signature('evict_between_filter_and_apply')
def _s15(case, msg):
    # S15: the reported name was evicted between the interest filter and UpdateResource of a torn response handler;
    # any other way of reaching "cached but not subscribed" is still a violation
    if case.get('op') != 'sys' or not msg.startswith('C07.atomic_update: '):
        return False
    names = msg[len('C07.atomic_update: '):].split(' ', 1)[0].split(',')
    explained = set()
    between = False
    for st in case.get('steps', []):
        o = st.get('o')
        if o == 'filter':
            between = True
        elif o == 'apply':
            between = False
        elif o == 'evict' and between:
            explained.add(f"{st.get('rt')}/{st.get('n')}")
    return bool(names) and all(x in explained for x in names)


@signature('adopt_while_channel_full')
def _s12(case, msg):
    # S12: after a reconnect the sender waits for the client lock in reqWhenReconnect while the lock is held by a lookup
    # that waits for room in the full request channel; the witness is read from the goroutine dump. Any other hang
    # (another scenario, other goroutines involved) is still a violation
    if case.get('op') != 'flow' or case.get('kind') != 'flood' or ': S12: ' not in msg:
        return False
    o = case.get('obs', {})
    return bool(o.get('hang') and o.get('senderInAdopt') and o.get('producerInSend')
                and o.get('returnedWhileStalled', 0) >= 1024)


@signature('enqueue_ignores_deadline')
def _s16(case, msg):
    # S16: the lookup that finds the request channel full (number capacity+1 of a burst against a stalled transport) waits for
    # room past its deadline. Any other late lookup (another position, another scenario, a transport that is not stalled) is
    # still a violation
    if case.get('op') != 'flow' or case.get('kind') != 'burst' or ': S16: ' not in msg:
        return False
    o = case.get('obs', {})
    return bool(case.get('holdMs', 0) >= 1500 and o.get('returnedWhileStalled') == 1024 and o.get('slowestLookup') == 1025
                and not o.get('hang'))


def match(pid, case, msg):
    """the known finding that explains this spec failure, or None"""
    for e in _F.get('findings', []):
        if e.get('kind') != 'known' or e.get('property') != pid:
            continue
        f = SIGNATURES.get(e.get('signature'))
        if f is not None and case is not None and f(case, msg):
            return e
    return None


def match_mismatch(pid, case, msg):
    return None
