#!/usr/bin/env python3
"""Regenerates /verif/MANIFEST.json from bin/propmeta.py (claimed checks) and properties.jsonl."""
import json, subprocess, sys
sys.path.insert(0, '/verif/bin')
import propmeta

ids = [json.loads(l)['id'] for l in open('/verif/properties.jsonl')]
hooks = subprocess.run(['git', '-C', '/repo', 'log', '--format=%H %s'], capture_output=True, text=True).stdout.strip().split('\n')
hook_commits = [l.split(' ')[0] for l in hooks if l.split(' ', 1)[1].startswith('verif:')]
checks = []
na = []
for i in ids:
    m = propmeta.PROPS.get(i)
    if not m or not m.get('claimed', True):
        na.append({'property_id': i, 'reason': (m or {}).get('na_reason', 'check not built yet (work in progress); the design for it is in DESIGN.md §9')})
        continue
    checks.append({
        'property_id': i,
        'quick_cmd': f'bin/check {i} --tier quick',
        'thorough_cmd': f'bin/check {i} --tier thorough',
        'evidence_file': f'/verif/evidence/{i}.json',
        'replay_cmd_template': f'bin/check {i} --replay {{path}}',
        'engine': 'lean4-proof+correspondence',
        'level_claimed': {'category': 'proof', 'text': m['level_text'], 'design_ref': m.get('design_ref', 'DESIGN.md §9 ' + i)},
        'level_note': m['level_note'],
        'technique': m.get('technique', 'Lean 4 theorems over a hand-written executable model; model tied to the source by regenerated go/ast facts (bridge lemmas) and by differential correspondence runs of the real code against the model and the executable spec'),
    })
man = {
    'version': 1,
    'setup_cmd': 'bin/setup',
    'hooks': {
        'guard': 'verif',
        'enable': 'go build -tags verif (the harness module under /verif/harness replaces github.com/kitex-contrib/xds with /repo)',
        'baseline_off_cmd': 'cd /repo && go test -mod=mod -json -vet=off -count=1 -timeout 25m ./...',
        'source_commits': hook_commits,
        'add_only': True,
    },
    'engines': [
        {'name': 'lean4-proof+correspondence', 'path': '/verif/lean', 'serves_properties': [c['property_id'] for c in checks],
         'kind_free_text': 'Lean 4.33 (core only) model + theorems; go/ast fact extractor (/verif/extract) regenerates Generated/Facts.lean on every run; Go harness (/verif/harness, -tags verif) runs the real code and pipes cases through the compiled Lean driver (xdsdrv)'},
    ],
    'checks': checks,
    'notes': 'bin/check <id>: extract facts -> lake build Properties.<id> -> axiom audit -> harness|driver -> search on break -> evidence. See DESIGN.md.',
    'not_applicable': na,
}
json.dump(man, open('/verif/MANIFEST.json', 'w'), indent=1)
print(f'{len(checks)} checks, {len(na)} not claimed')
