"""Per-property metadata used by bin/check when writing evidence (rule for non-trivial cases,
assumptions, additions to the trusted base)."""

COMMON_ASSUME = [
    'the theorem is about the Lean model; it reaches the Go code only through the regenerated facts and the correspondence runs',
]

PROPS = {
    'C09': {
        'rule': 'weight vectors: all permutations of fixed small multisets, boundary weights (2^30..2^32-1), random vectors with '
                'total <= 16 and random large vectors, each routed 20000 times through the real XDSRouter.Route; a case is '
                'non-trivial when it lists >= 2 clusters with a zero weight or unequal weights; distinct by weight vector',
        'assumptions': COMMON_ASSUME + [
            'fastrand.Uint32n(n) is uniform on [0,n) (trusted)',
            'domain: the weights of one route sum below 2^32 (NoWrap); Envoy rejects larger totals',
            'the frequency band (12 sigma + 40) is validation of the tie between model and code, not the proof; false-alarm probability per comparison < 1e-25',
        ],
        'trusted': ['fastrand uniformity'],
        'level_text': 'Theorems (all weight vectors below 2^32 in total, all draws, unbounded lengths): the selected index is the one whose cumulative '
                      'interval contains the draw (pick_interval), exactly w_k of the total draw values select cluster k (pick_count), zero weight is never '
                      'selected, a cluster holding all the weight always is, one listed cluster always is, empty / zero-total routes are errors, the draw primitive '
                      'is never called outside its domain. Stated for the model instantiated with the comparison operator, draw primitive and guard order read '
                      'from xdssuite/router.go on every run (bridge lemma facts_pick); the model is validated against XDSRouter.Route by exact-support and frequency runs.',
        'level_note': 'Trusted: Lean kernel; fastrand.Uint32n uniform on [0,n); the go/ast extractor; the statistical correspondence (validation only). '
                      'Domain restriction NoWrap (sum of weights < 2^32).',
    },
    'C14': {
        'rule': 'expansion: every label tuple of length 1..3 over a 4-label alphabet for 3 namespace/domain configurations plus random hosts of 1..5 labels '
                '(each also re-expanded); binding: real client with scripted control plane, 4 successive name tables per client (fqdn keys, literal keys, '
                'both, keys without addresses, upper-case keys), 40 lookups per table with case flips and port forms (none, :80, :8888, empty, two colons); '
                'end to end: subscribe by host name, push listeners named ip_port, look up. Non-trivial: a host that needs expansion, resolves, or differs from its lower-case form'
            + ' Six hosts live through all four table updates of a client (their key form - literal, qualified, both with different addresses, none - changes from table to table).',
        'assumptions': COMMON_ASSUME + [
            'domain: ASCII host names (Go strings.ToLower is Unicode-aware, the model lower-cases ASCII only); name-table addresses are non-empty strings',
            'the name table is a Go map (unique keys)',
        ],
        'level_text': 'Theorems over all strings, tables and namespace/domain configurations: expansion leaves names containing ".svc." unchanged, is idempotent, '
                      'appends exactly namespace/".svc."/domain by label count (expand_shape); resolution depends on the host only through its lower-case form, '
                      'consults the expanded name first and the literal host as the only fall-back; the listener name is <ip>_<port> with port 80 by default and '
                      'more than one colon rejected; a host neither form of which the table resolves is never bound. The literals are re-read from the source on every run '
                      '(bridge facts_fqdn). The binding of the *served* listener over update histories is carried by C01 (its LDS filter is this function applied to the table current at the push). '
                      'Model validated against tryExpandFQDN / resolveAddr / getListenerName of the real client and end to end through NDS+LDS pushes.',
        'level_note': 'Trusted: Lean kernel, extractor, correspondence harness. Domain: ASCII hosts, non-empty addresses.',
    },
    'C08': {
        'rule': 'random listeners (0-3 filter chains, Thrift-proxy and HTTP filters in any order, inline and/or named tables, missing listener / missing named table), '
                'tables of 0-3 virtual hosts x 0-4 routes with overlapping path and header predicates (exact / prefix / regex, unique header names), nil matches, '
                'metadata maps with present / absent / empty values, gRPC and non-gRPC, default (metainfo) and custom metadata extractor; every case is routed through '
                'the real XDSRouter.Route; routes are distinguishable by a unique single cluster and timeout. Non-trivial: at least two routes of the case are eligible for the call'
            + ' The regex alphabet includes three expressions that accept the empty string; the truth table always includes "".',
        'assumptions': COMMON_ASSUME + [
            'the regular-expression engine (Go regexp) is a parameter of the model; the theorems hold for every engine; in correspondence runs the harness supplies the truth table',
            'with several filter chains the router uses the last HTTP and the last Thrift-proxy filter (modelled as is; the property does not say which)',
            'header conditions with duplicate names and unsupported patterns are the subject of C11',
        ],
        'level_text': 'Theorems for every regex semantics, table, metadata map and call: matchHTTP returns r iff r is at index i of the virtual-host-then-route flattening, '
                      'matches, and no earlier index matches (first_match, index form); a route matches iff its path condition (exact path, else prefix exactly "/") and every '
                      'header condition hold, a condition on an absent key being false; the path is /<pkg>.<svc>/<method> or /<svc>/<method>; for non-gRPC calls a matching Thrift-proxy '
                      'route wins; gRPC calls do not depend on Thrift filters at all; inline before named; when nothing matches the result is an error; every returned route satisfies its own conditions. '
                      'Model validated against XDSRouter.Route on generated listeners, tables and calls.',
        'level_note': 'Trusted: Lean kernel; Go regexp (parameter); metainfo.GetAllValues; correspondence harness. No facts are extracted for this property: the tie is the correspondence run.',
    },
    'C20': {
        'rule': 'environments: 15 fixed cases (each required variable missing/empty, domains, INSTANCE_IPS lists whose entries are textual prefixes/suffixes/extensions of the pod IP, '
                'empty and non-string INSTANCE_IPS and NAMESPACE, invalid JSON) then random environments (variables present/absent/empty, 4 pod IPs incl. IPv6, 0-3 listed addresses, '
                'extra keys, nested values, truncated JSON) through newBootstrapConfig with the process environment set; 3 managers built from environment-derived configs (node on every request); '
                '2 child processes for the process-wide singleton (Init with a variable missing, SetXDSResourceManager twice then Init). Non-trivial: the metadata JSON is present and parses',
        'assumptions': COMMON_ASSUME + [
            'protojson.Unmarshal is external: the theorems quantify over its result (an error, or an object whose string values are kept and other values are opaque)',
            'the pod IP contains no comma (hypothesis of instance_ips_member)',
            'xds.Init against a reachable control plane is not exercised (no network): only the failing path and the first-wins singleton are',
        ],
        'level_text': 'Theorems for every environment and every parser result: the node id has the stated format; no/invalid metadata gives exactly {ISTIO_VERSION}; when INSTANCE_IPS is supplied '
                      'the pod IP is an element of the comma-separated result (not merely a substring) and the supplied value is kept or extended by ",<ip>"; every other key is unchanged; a non-empty '
                      'NAMESPACE string overrides the namespace used for name expansion; construction fails iff namespace, name or IP is empty, and then installs nothing; setting a manager twice keeps the first. '
                      'The INSTANCE_IPS membership test, node-id format, default domain, key names and the order of the required-variable checks are re-read from bootstrap.go on every run (bridge facts_boot). '
                      'Model validated against newBootstrapConfig, the requests of real managers and child processes.',
        'level_note': 'Trusted: Lean kernel; protojson; os.Getenv; the extractor; the correspondence harness.',
    },
    'C10': {
        'rule': 'random clusters (EDS / STATIC / LOGICAL_DNS, with and without EDS service name, with and without an inline assignment, cluster absent) and load assignments '
                '(0-3 localities x 0-4 endpoints, empty localities, IPv4 / IPv6, ports 0/80/8888/65535, weights 0..2^20; named assignment present, absent or empty), built as protos, decoded by the '
                'repo decoders and served to the real XDSResolver.Resolve / Target through a stub manager. Non-trivial: >= 2 endpoints returned, or an error path',
        'assumptions': COMMON_ASSUME + [
            'an inline assignment counts as present when it has at least one locality (the decoder stores nil otherwise)',
            'discovery.NewInstance / utils.NewNetAddr / net.JoinHostPort are Kitex / standard library (trusted)',
            'update histories of clusters and assignments are carried by C01 (the cache the lookups read)',
        ],
        'level_text': 'Theorems for every pair of lookup results and every name: Resolve succeeds with list `is` iff the cluster is fetched, `is` is the concatenation in order of the localities of '
                      'the chosen assignment (inline if present, else the one named by the EDS service name, i.e. the cluster name when none is given) and `is` is non-empty (resolve_exact); hence no empty '
                      'success; fetch errors propagate; an empty or absent assignment gives the no-endpoints error; the result is cacheable under the cluster name; Target is the routed-cluster tag. '
                      'The emptiness check, the inline-first order, Cacheable/CacheKey and Target are re-read from resolver.go on every run (bridge facts_resolver). Model (with the CDS/EDS decoder model) validated '
                      'against the real decoders + resolver.',
        'level_note': 'Trusted: Lean kernel; Kitex discovery types; the extractor; the correspondence harness.',
    },
    'C15': {
        'rule': 'every combination of: listener lookup and named-route-table lookup each answered with a value / an error / absent / a typed nil / (nil,nil); inline table present, empty or absent; '
                'routes that match or not; cluster lists empty, zero-total, single, or with exactly one non-zero weight (deterministic pick); destination already decided or not; step = routing middleware or '
                'retry-key computation (with and without method matching; the key used is observed through marker policies); plus 4 end-to-end cases through the real manager and scripted control plane '
                '(listener supplied / withheld, name table required / not). Non-trivial: anything but the plain "undecided and routable" case',
        'assumptions': COMMON_ASSUME + [
            'typed-nil and (nil,nil) lookup answers are outside the property: the resource manager never produces them (C05); there only model == implementation is checked (both panic)',
            'Kitex remoteinfo tag locking, rpcinfo and retry.Container are trusted',
        ],
        'level_text': 'Theorems: undecided + route found => tag = cluster, locked, timeout = route timeout, passed on exactly once; decided => nothing changes and the router is not consulted; no route => ErrRoute, '
                      'not passed on, still undecided; the retry-key computation makes the same decision; and for all lookup answers that are errors or values of the requested kind, all tables, metadata and '
                      'draws, Route / the middleware / the retry key never panic (uses C09.never_panics and the regenerated pick facts). The composite XDSRouter.Route = matchRoute ; pickCluster is the C08 and C09 models. '
                      'Validated against the real middleware and retry container with a stub manager failing each lookup in each way, and end to end through the real manager.',
        'level_note': 'Trusted: Lean kernel; Kitex rpcinfo/remoteinfo/retry; correspondence harness. Resolver no-panic is covered by C10 (its lookups are typed in the model) and by the harness recovering panics.',
    },
    'C01': {
        'rule': 'histories of 30-50 steps against a real manager and the scripted control plane, two thirds with the name table required (Istio) and one third without: lookups (hits, misses, repeated) of 3-5 names per type, full and partial pushes of all four cached types with random subsets, unsolicited extras, duplicate names and undecodable slots (wrong type URL / invalid bytes), name-table updates (4 tables, empty and undecodable ones), unknown-type responses, stream failures (Recv error with reconnect, Send failure, creation failure in the thorough tier) and authentication stops; after every step the client is brought to quiescence and requests (per stream), cache snapshot, interest sets, versions, nonces, name table are observed and the whole trace is validated step by step against the state machine. ' + 'Non-trivial: the history has at least two accepted responses; distinct by the full step list',
        'assumptions': COMMON_ASSUME + ['resource content is a stamp (one decoded field per type); field fidelity is C11/C12',
                                         'each operation of the state machine is one critical section of the code; concurrency inside Get is C05-C07'],
        'level_text': 'Theorem served_eq_fold: for every valid history of the client+manager state machine (pushes of any shape, subscriptions, touches, evictions, stream faults, sender steps, both configurations, '
                      'unbounded length) and every type and name, the cache equals a declarative backward scan of the history: the most recent decisive operation (an accepted response of that type that carries the name '
                      'through the interest filter and, for listeners, the C14 binding with the name table current at that response; an accepted full-type response that does not; an eviction). Corollaries: full types replace, '
                      'merge types keep, latest wins, rejected and other-type responses are not in the fold, never_unsolicited (anything served was carried by an accepted response while subscribed), lds_binding / lds_literal, '
                      'duplicate names count once. Stated for the facts regenerated from client.go / manager.go / xdsresource.go (bridge facts_seq: full types, handler shapes, UpdateResource statement order, capacities). '
                      'The state machine is validated by replaying real histories step by step (trace validation) and the backward-scan spec is evaluated directly on the implementation snapshots.'
            + ' With concurrent lookups (composed model Sys = Seq x Conc, Model/Sys.lean): served_eq_fold_concurrent and lookups_read_the_served_cache hold for every schedule whose response handlers run their three lock sections back to back, any number of lookup threads; cached_is_subscribed: in every reachable state a cached name is in the interest set.',
        'level_note': 'Trusted: Lean kernel; extractor (syntactic shape recognisers); scripted control plane and quiescence detection (verif hooks); decoders at stamp level.',
    },
    'C02': {
        'rule': 'histories of 30-50 steps against a real manager and the scripted control plane, two thirds with the name table required (Istio) and one third without: lookups (hits, misses, repeated) of 3-5 names per type, full and partial pushes of all four cached types with random subsets, unsolicited extras, duplicate names and undecodable slots (wrong type URL / invalid bytes), name-table updates (4 tables, empty and undecodable ones), unknown-type responses, stream failures (Recv error with reconnect, Send failure, creation failure in the thorough tier) and authentication stops; after every step the client is brought to quiescence and requests (per stream), cache snapshot, interest sets, versions, nonces, name table are observed and the whole trace is validated step by step against the state machine. ' + 'Generator biased to 40% undecodable pushes. Non-trivial: the history contains a rejected response'
            + ' Undecodable slots are of three kinds: wrong type URL, invalid bytes, and valid protobuf of the right type rejected for its content with the error attributed to the resource name (route without action; filter chain whose connection-manager payload does not parse).',
        'assumptions': COMMON_ASSUME + ['E2: the control plane answers, it does not speak first (scripted so)'],
        'level_text': 'Theorems about one response in an arbitrary state: exactly one request is enqueued, of that type, echoing the nonce, listing the interest set, with the response version and no error iff every slot decoded, else with '
                      'the previous version and an error (ack_exact); a rejected response leaves cache, name table, version, interest and access bookkeeping unchanged (nack_frame); unknown and never-subscribed types change nothing and enqueue nothing; '
                      'the acknowledged version after any history is that of the most recent accepted response. Validated by trace replay and by the executable spec on every response step.',
        'level_note': 'Trusted: Lean kernel; extractor (ackShape, earlyReturn); harness. The non-empty error message of a failed decode is carried by the ackShape fact + C13.',
    },
    'C03': {
        'rule': 'histories of 30-50 steps against a real manager and the scripted control plane, two thirds with the name table required (Istio) and one third without: lookups (hits, misses, repeated) of 3-5 names per type, full and partial pushes of all four cached types with random subsets, unsolicited extras, duplicate names and undecodable slots (wrong type URL / invalid bytes), name-table updates (4 tables, empty and undecodable ones), unknown-type responses, stream failures (Recv error with reconnect, Send failure, creation failure in the thorough tier) and authentication stops; after every step the client is brought to quiescence and requests (per stream), cache snapshot, interest sets, versions, nonces, name table are observed and the whole trace is validated step by step against the state machine. ' + 'Generator biased to 60% lookups. Non-trivial: at least 10 steps'
            + ' Plus one stalled burst: the connection stalls (Send blocks) while 1040 lookups miss distinct names - more than the request channel holds - and resumes; request i must list the first i names, none may be lost.',
        'assumptions': COMMON_ASSUME + ['lookups in these histories are sequential; concurrent lookups are C05-C07 (each registration is one critical section under m.mu and c.mu)'],
        'level_text': 'Theorems: a request built by a subscription change or an acknowledgement lists exactly the interest set after the change; only subscribe (a lookup missed) and evict change the interest set, and membership after any history '
                      'is decided by the most recent subscribe/evict of the name; invariant over all reachable states (with stream faults at any position): unless a reconnect is in progress or the sender lost its stream, the last request of every watched type '
                      'on the live stream - sent or queued - lists the interest set (last_request_tracks_interest), hence at quiescence the last request on the wire equals the interest set; the queue is never stale.'
            + ' Concurrent forms through the composed model (quiescent_last_request_concurrent, interest_is_history_concurrent, only_notifier_creation_subscribes).',
        'level_note': 'Trusted: Lean kernel; extractor (watchShape); harness.',
    },
    'C04': {
        'rule': 'histories of 30-50 steps against a real manager and the scripted control plane, two thirds with the name table required (Istio) and one third without: lookups (hits, misses, repeated) of 3-5 names per type, full and partial pushes of all four cached types with random subsets, unsolicited extras, duplicate names and undecodable slots (wrong type URL / invalid bytes), name-table updates (4 tables, empty and undecodable ones), unknown-type responses, stream failures (Recv error with reconnect, Send failure, creation failure in the thorough tier) and authentication stops; after every step the client is brought to quiescence and requests (per stream), cache snapshot, interest sets, versions, nonces, name table are observed and the whole trace is validated step by step against the state machine. ' + 'Generator biased to 22% faults; plus one stop-flood case (1030 missed lookups after an authentication stop, then a cached lookup, under a watchdog). Non-trivial: the history contains a reconnect or a stop'
            + ' Plus: 6 stalled reconnects (the sender is stuck in Send on the dying stream while the receiver reconnects and 3-7 lookups miss; whichever the sender picks first afterwards, nothing on the new stream may carry a nonce of the old one and the re-subscription lists every name), and two outages (stream creation fails for 1 and 3 whole reconnect budgets - back-off policy replaced through a verif hook - then succeeds: the client must open a new stream and re-subscribe; the cache is served meanwhile).',
        'assumptions': COMMON_ASSUME + ['E1: a stream whose Send fails will fail Recv; E2: the control plane answers, it does not speak first; back-off timing is not modelled'],
        'level_text': 'Theorems for faults at any position, repeated: nonce_per_stream (16-field invariant of every reachable state: no request on a stream carries a nonce not issued on that stream), resubscribe_on_adopt (one request per watched type, '
                      'full names, kept version, nonce empty or of the new stream), reconnect resets nonces and drains the queue atomically, faults leave cache/versions/interest/table untouched and are not part of the C01 fold, stop is final '
                      '(closed stays closed, nothing more reaches the wire), lookups never block after the stop (with the regenerated fact that sendRequest gives up on a stopped client).'
            + ' nonce_per_stream_concurrent: the same with lookups racing the failure at section granularity (composed model).',
        'level_note': 'Trusted: Lean kernel; extractor (reconnectShape, sendAborts, reqCap); scripted control plane.',
    },
    'C19': {
        'rule': '8 real managers (16 in the thorough tier), half with the name table, observed around real cleaner ticks (30 s after creation; the thorough tier waits for the second tick at 60 s): every name of the '
                'rds/cds/eds (and lds without name table) universes is subscribed, cached and put at random into a class: old (looked up, last access back-dated 40 s through a verif hook), fresh (looked up again 1.2 s before the tick), '
                'never (cached after its lookup timed out, never looked up again), plain (looked up at set-up only); the reserved inbound listener is looked up and back-dated. Evictions are read off the requests of the sweep and replayed '
                'in the state machine; afterwards an evicted name is looked up again, pushed and looked up. Non-trivial: the sweep evicted something'
            + ' Class "relooked": back-dated 10 s, looked up again, moved 5 s forward - 25 s idle at the tick, must stay.'
            + ' Class "dropped" (listeners, clusters): looked up, removed by a complete update of the control plane, never looked up again - still subscribed, 40 s idle at the tick: the sweep withdraws it.'
            + ' After the ticks up to two evicted route-configuration / endpoint names per manager are looked up again (must subscribe again, a request naming them follows, and return the value pushed afterwards);'
            + ' for every second one an update naming it, sent before the control plane saw the unsubscription, arrives first and must not bring the entry back.',
        'assumptions': COMMON_ASSUME + ['tick timing is the Go runtime ticker; the model sweeps at logical instants (creation = 100, ticks = 130, 160)',
                                         'that the cleaner visits every entry at every tick is the regenerated shape fact cleanerShape plus these runs'],
        'level_text': 'Theorems: the cleaner can remove an entry only if its last access is more than 30 s old and it is not the reserved inbound listener (recent_kept, reserved_kept), and exactly such an entry is removable; '
                      'removal deletes the cache entry and its bookkeeping, withdraws the name from the interest set and enqueues one request of that type omitting it; a lookup refreshes the idle clock; every newly cached entry '
                      'has an idle clock (regenerated fact metaInitNow) so nothing cached escapes the cleaner; after eviction, subscribe + an accepted response serve the name again (in the C01 specification).',
        'level_note': 'Trusted: Lean kernel; extractor (cleanerShape, expireSec, reserved, metaInitNow); verif hook VerifBackdate; real-time ticker.',
    },
    'C16': {
        'rule': '120 real managers with the scripted control plane, four subscribed clusters; 2-6 cluster updates each (a cluster present with probability 0.65, outlier detection absent / threshold in {0,1,20,50,100} x volume in {0,1,10,1000}); '
                'the breaker (NewCircuitBreaker through client.Options) is created before the first update or after a random one; after every update CBSuite.Dump() is compared. Non-trivial: at least two updates',
        'assumptions': COMMON_ASSUME + ['the update the handler sees is the accepted cluster set filtered by the interest set (C01); evictions are outside this property',
                                         'rates are compared as round(rate*100); Kitex CBSuite is trusted'],
        'level_text': 'Theorem cb_latest: for every sequence of update maps and every destination, the handler state equals a specification that looks at the latest update alone (enabled thr/100 with minimum sample = volume when both are non-zero; '
                      'disabled when outlier detection has a zero; disabled when an earlier update configured it and the latest does not; no entry otherwise) - proved by an invariant over arbitrary sequences; late registration starts from the current '
                      'cluster map (fact replayOnRegister). Validated end to end: protos -> real decoder -> real manager -> real handler -> CBSuite.',
        'level_note': 'Trusted: Lean kernel; Kitex circuitbreak.CBSuite; extractor (handlers facts); harness.',
    },
    'C17': {
        'rule': '120 real managers, three subscribed route tables; 2-6 route-table updates each, every table present with probability 0.45 (0.8 in the first) so most updates are partial; 0-2 routes per table with attempts 0-5, per-try timeout, '
                'error rate in {0.1,0.2,0.25,0.3}, back-off absent / base=max / base<max, kitexRetryMethods lists, single and weighted clusters, cluster renames; cluster names distinct across tables; after every update retry.Container.Dump() is compared. '
                'Non-trivial: the history contains a partial update',
        'assumptions': COMMON_ASSUME + ['policy fields are within the ranges Kitex accepts (Kitex validation is trusted and not modelled)',
                                         'when several tables mention the same key the surviving policy depends on Go map iteration order; the generator keeps keys distinct across tables',
                                         'evictions of route tables are outside the property quantifier'],
        'level_text': 'Theorem retry_tracks_cache: with the regenerated fact that UpdateResource hands merge-type handlers the merged cache, after any sequence of full and partial updates the installed policies are exactly derive(cached tables) '
                      '(invariant Tracks preserved by every update); corollaries: unreferenced keys are removed, a table omitted from a partial update keeps its policies, the policy shape (attempts, uint32 duration attempts x per-try ms, error rate, '
                      'back-off none/fixed/random by max > base) and no wrap within Kitex ranges. A decide-checked example shows the property fails for the update-map view (the defect S10 that was repaired). Validated end to end through the real decoder, manager and retry container.',
        'level_note': 'Trusted: Lean kernel; Kitex retry.Container; extractor (mergeView, rdsBackoffBaseOk); harness.',
    },
    'C18': {
        'rule': '120 real managers (half with the name table); service port in {8080, 9090, 0}; 2-6 listener updates each: inbound listener present (80%) with 0-3 filter chains of distinct ports from {0,8080,9090,7070}, RDS / inline / no route specifier, '
                'rate-limit bucket absent / 0 / 5 / 100 / 100000, or absent; sometimes another listener; the limiter (NewLimiter through server.Options) is created before or after a random update and the server installs a recording limit.Updater at or after creation. '
                'Non-trivial: at least two updates',
        'assumptions': COMMON_ASSUME + ['two chains with the same port: the later wins (modelled; outside the property); the rate-limit filter is the first HTTP filter here (its position is C11)'],
        'level_text': 'Theorems: after any non-empty update sequence the limit is limitOf(port, latest inbound listener): the chain of the configured port, else the chain without port, else unlimited; zero and a missing listener mean unlimited; with distinct '
                      'chain ports tokensFor is the tokens-per-fill of the chain; once an updater is installed every update pushes exactly one limit; late creation starts from the current listener. Validated end to end.',
        'level_note': 'Trusted: Lean kernel; Kitex limit.Option / Updater; extractor; harness. MaxConnections is observed to stay unlimited in every run (spec check), not modelled further.',
    },
    'C11': {
        'rule': 'type-directed generator over every field the decoders read, built with the real proto types and marshalled: listeners (0-3 filter chains + optional default chain, destination port wrapper present/absent, filters: config discovery / other URL / Thrift proxy (route config absent, 0-3 routes, match absent, method/service/other, cluster / weighted / header / absent action) / HTTP connection manager (RDS with empty and non-empty name, inline route config, no specifier; 0-3 HTTP filters: discovery, unset, other URL, LocalRateLimit with/without bucket and tokens-per-fill wrapper, TypedStruct with fields present/missing, in every position)), route configurations (0-3 virtual hosts x 0-3 routes; match absent; prefix/path/regex/unset path; 0-3 header matchers of every kind incl. empty patterns, non-compiling regex, suffix, present, unset, duplicate names; action absent/redirect/route with cluster/weighted/header specifier; timeout; retry policy with wrappers present/absent, retriable headers, back-off base/max present/absent), clusters (all discovery types and LB policies, service name, inline assignment, outlier wrappers), load assignments (0-3 localities x 0-4 endpoints, IPv4/IPv6), name tables; 0-3 resources per response with duplicate names; nested and top-level payloads corrupted (truncation, bit flips, appended garbage, wrong type URL). Every response is parsed back by a reference parse (proto.Unmarshal + recursive Any parse) into the message tree the model decodes; the per-field coverage counters are in generator_distribution. ' + 'Listeners and route configurations, 6% of responses with a corrupted/wrongly typed slot. Non-trivial: a response with at least one route or filter chain',
        'assumptions': COMMON_ASSUME + ['proto.Unmarshal is trusted; the regular-expression compiler and strconv.ParseFloat are oracles of the model (the harness supplies their answers)',
                                         'durations within the range of time.Duration',
                                         'KNOWN FINDING S13: two supported conditions on one header name keep only the last (Matchers is a Go map keyed by header name); headers_preserved is stated under distinct names'],
        'level_text': 'Theorems over all message trees: under distinct names of the supported header conditions the decoded matcher set is exactly the supported conditions in order (headers_preserved; supported = non-empty exact/prefix, non-empty compiling regex); '
                      'a route keeps its path condition, clusters with weights (single cluster = weight 1), timeout and retry policy (attempts, per-try timeouts, retry-on, back-off base and maximum as sent - with the regenerated fact backoffBaseOk; the two retriable-header extensions); '
                      'routes and virtual hosts are decoded one for one in order with their names; the rate-limit bucket is found at any position of the HTTP filter chain behind any filters that carry no bucket, in both the typed and TypedStruct form '
                      '(regenerated fact rateLimitScansAll); an HTTP connection manager yields the named or inline table with the bucket attached; Thrift routes are decoded one for one. A decide-checked theorem exhibits the duplicate-name shadowing (S13).',
        'level_note': 'Trusted: Lean kernel; proto.Unmarshal; regexp / ParseFloat oracles; extractor (decode facts, direct-access inventory); reference parse of the harness.',
    },
    'C12': {
        'rule': 'type-directed generator over every field the decoders read, built with the real proto types and marshalled: listeners (0-3 filter chains + optional default chain, destination port wrapper present/absent, filters: config discovery / other URL / Thrift proxy (route config absent, 0-3 routes, match absent, method/service/other, cluster / weighted / header / absent action) / HTTP connection manager (RDS with empty and non-empty name, inline route config, no specifier; 0-3 HTTP filters: discovery, unset, other URL, LocalRateLimit with/without bucket and tokens-per-fill wrapper, TypedStruct with fields present/missing, in every position)), route configurations (0-3 virtual hosts x 0-3 routes; match absent; prefix/path/regex/unset path; 0-3 header matchers of every kind incl. empty patterns, non-compiling regex, suffix, present, unset, duplicate names; action absent/redirect/route with cluster/weighted/header specifier; timeout; retry policy with wrappers present/absent, retriable headers, back-off base/max present/absent), clusters (all discovery types and LB policies, service name, inline assignment, outlier wrappers), load assignments (0-3 localities x 0-4 endpoints, IPv4/IPv6), name tables; 0-3 resources per response with duplicate names; nested and top-level payloads corrupted (truncation, bit flips, appended garbage, wrong type URL). Every response is parsed back by a reference parse (proto.Unmarshal + recursive Any parse) into the message tree the model decodes; the per-field coverage counters are in generator_distribution. ' + 'Clusters, load assignments and name tables. Non-trivial: several resources, or optional sub-messages present',
        'assumptions': COMMON_ASSUME + ['proto.Unmarshal is trusted; net.JoinHostPort is modelled (brackets for hosts containing ":" or "%")',
                                         'Go map iteration order is irrelevant: results are compared as maps'],
        'level_text': 'Theorems over all message trees: a cluster keeps name, discovery type (with the default for unknown enum values), LB policy, EDS service name defaulting to the cluster name, outlier percentages and inline endpoints; a load assignment keeps localities and '
                      'endpoints in order with address, port and weight, an assignment without localities is the explicit no-endpoints value; the name table keeps every host with its addresses; with pairwise distinct names every resource is stored under its own name with its own content, '
                      'none lost or duplicated (cds_keyed_by_own_name, by induction over the response), duplicates count once (last wins); a response is rejected iff some slot has the wrong type URL or does not decode.',
        'level_note': 'Trusted: Lean kernel; proto.Unmarshal; harness reference parse.',
    },
    'C13': {
        'rule': 'type-directed generator over every field the decoders read, built with the real proto types and marshalled: listeners (0-3 filter chains + optional default chain, destination port wrapper present/absent, filters: config discovery / other URL / Thrift proxy (route config absent, 0-3 routes, match absent, method/service/other, cluster / weighted / header / absent action) / HTTP connection manager (RDS with empty and non-empty name, inline route config, no specifier; 0-3 HTTP filters: discovery, unset, other URL, LocalRateLimit with/without bucket and tokens-per-fill wrapper, TypedStruct with fields present/missing, in every position)), route configurations (0-3 virtual hosts x 0-3 routes; match absent; prefix/path/regex/unset path; 0-3 header matchers of every kind incl. empty patterns, non-compiling regex, suffix, present, unset, duplicate names; action absent/redirect/route with cluster/weighted/header specifier; timeout; retry policy with wrappers present/absent, retriable headers, back-off base/max present/absent), clusters (all discovery types and LB policies, service name, inline assignment, outlier wrappers), load assignments (0-3 localities x 0-4 endpoints, IPv4/IPv6), name tables; 0-3 resources per response with duplicate names; nested and top-level payloads corrupted (truncation, bit flips, appended garbage, wrong type URL). Every response is parsed back by a reference parse (proto.Unmarshal + recursive Any parse) into the message tree the model decodes; the per-field coverage counters are in generator_distribution. ' + 'All five types, 35% of responses with corrupted or wrongly typed slots plus nested corruption. Recovered panics are observations. Thorough tier: 20x the cases over several seeds (structured mutation; no coverage-guided fuzzing engine is used: go test -fuzz needs a writable build cache for instrumentation and was left out)',
        'assumptions': COMMON_ASSUME + ['the byte level belongs to proto.Unmarshal (trusted, total, oneof wrappers carry non-nil payloads): the theorems start at its output',
                                         'which field accesses are direct (not nil-safe getters) is re-read from the decoder sources on every run: an access that is not in the inventory the model was written against breaks the bridge facts_derefs'],
        'level_text': 'Theorems: for every response proto.Unmarshal can produce (predicate ...Wire: the three directly dereferenced pointers are non-nil), UnmarshalRDS and UnmarshalLDS - including nested HttpConnectionManager, ThriftProxy, LocalRateLimit and TypedStruct payloads - never panic '
                      '(a non-wire tree does panic in the model, so the hypothesis is not decoration); UnmarshalRDS rejects a response iff a slot has the wrong URL, is not a valid encoding, or contains a route without match or action (rds_error_iff_invalid, both directions); '
                      'for listeners a bad slot is always an error; clusters / assignments / name table are total by construction and rejected iff a slot is bad (or the name-table response is empty). The executable spec additionally checks error-iff-invalid for listeners with nested payloads on every case.',
        'level_note': 'Trusted: Lean kernel; proto.Unmarshal; extractor (direct-access inventory); harness reference parse. Coverage-guided fuzzing is not part of the check (structured mutations only).',
    },
    'C05': {
        'extra_seed_args': ['-noenum'],
        'rule': "deterministic schedules of real Get goroutines parked at four verif yield points (after the first miss, before the select, after the notifier arm, after the deadline arm), real UpdateResource through the scripted control plane, caller cancellation as the deadline, real eviction body: systematic enumeration (stateless search with re-execution) of all interleavings of four scenarios - one lookup x delivery x deadline; two lookups of one name x delivery x first caller's deadline; two lookups of different names x one delivery x deadline; delivery x eviction racing the wake-up - capped per scenario in the quick tier and complete in the thorough tier (which adds three lookups of one name with two deadlines, and two deliveries with eviction), plus random schedules with 3-6 lookups over two names. The select arm that fired is reported by the hooks; every trace is validated step by step against the interleaving model (each reported step must be enabled and lead to the reported result). " + 'Non-trivial: a delivery falls strictly between some lookup start and its return'
            + ' Also: a listener lookup whose first response carries only another listener (a placeholder must never be served), an update arriving while the lookup is stalled inside Watch (client lock held through a verif hook), and five wall-clock cases (fetch timeout / caller deadline / cancellation in each order: error within min + 1.5 s).',
        'assumptions': COMMON_ASSUME + ['wall-clock slack is not a theorem: the model has a deadline event; after it the thread needs one own step that waits only for m.mu',
                                         'kinds: the kind check is the first statement of Get (regenerated fact kindCheckFirst); cached values have the dynamic type of their kind because each decoder produces one type (C11/C12) and the cache is keyed by type',
                                         'Go scheduler, channels, select and sync.RWMutex are trusted'],
        'level_text': 'Theorems over all schedules and any number of threads: no finished lookup has neither value nor error (invariant NoNil, result_shape); a value is returned only by a step of the lookup that reads exactly that value from the cache '
                      '(value_was_served: never a placeholder; with C01 the cache holds only what an accepted response supplied); once the deadline fired the lookup ends with an error in exactly one own step that is always enabled (deadline_bounded); '
                      'every unfinished lookup always has an enabled own step (always_progress). The shape of Get (re-check under the lock, last-waiter cleanup, checked re-read, kind check first) is re-read from manager.go on every run. '
                      'A decide-checked schedule shows the unchecked re-read returned neither (S8, repaired).'
            + ' In the composed model (lookups x client x receiver sections): result_shape_sys, value_is_served_content (the value returned is what the client cache holds at the returning step). Bridge facts_get_body: fingerprint of the bodies of Get / getFromCache / notify.',
        'level_note': 'Trusted: Lean kernel; Go runtime; extractor (getVariant, kindCheckFirst); yield hooks and scheduler of the harness.',
    },
    'C06': {
        'extra_seed_args': ['-noenum'],
        'rule': "deterministic schedules of real Get goroutines parked at four verif yield points (after the first miss, before the select, after the notifier arm, after the deadline arm), real UpdateResource through the scripted control plane, caller cancellation as the deadline, real eviction body: systematic enumeration (stateless search with re-execution) of all interleavings of four scenarios - one lookup x delivery x deadline; two lookups of one name x delivery x first caller's deadline; two lookups of different names x one delivery x deadline; delivery x eviction racing the wake-up - capped per scenario in the quick tier and complete in the thorough tier (which adds three lookups of one name with two deadlines, and two deliveries with eviction), plus random schedules with 3-6 lookups over two names. The select arm that fired is reported by the hooks; every trace is validated step by step against the interleaving model (each reported step must be enabled and lead to the reported result). " + 'Non-trivial: a delivery falls strictly between some lookup start and its return. The enumerated shapes are exhaustive at yield-point granularity in the thorough tier'
            + ' Also the update-during-registration schedule (lookup stalled inside Watch while UpdateResource is called).',
        'assumptions': COMMON_ASSUME + ['when the notifier is closed and the deadline has fired before the goroutine runs, Go picks either select arm: both outcomes are accepted for that lookup',
                                         'an update is "accepted" for the names subscribed when it arrives (C01)'],
        'level_text': 'Theorems over all schedules, any number of threads and names (not 2..3): WaitInv holds in every reachable state (8-field invariant incl. a lower bound of the notifier waiter count by any duplicate-free list of attached threads); '
                      'a delivery that carries the name of a waiting thread closes its notifier in that very step, its wake-up step is enabled and the re-read finds the content (no_lost_wakeup); a delivery landing between the unlocked miss and the registration is returned by the '
                      'registration step (update_before_registration); a timed-out or cancelled caller leaves every other waiter attached to its notifier (timeout_is_private). decide-checked schedules show both lost wake-ups of the shape before the repairs (S6, S7).'
            + ' sys_no_lost_wakeup: the same guarantee end to end against the real response handling (the delivery is the UpdateResource section of a handler applied to the map its interest filter produced), for every schedule including torn handler sections.',
        'level_note': 'Trusted: Lean kernel; Go runtime (select, channels, RWMutex); extractor (getVariant); yield hooks and scheduler of the harness.',
    },
    'C07': {
        'extra_seed_args': ['-noenum'],
        'rule': "deterministic schedules of real Get goroutines parked at four verif yield points (after the first miss, before the select, after the notifier arm, after the deadline arm), real UpdateResource through the scripted control plane, caller cancellation as the deadline, real eviction body: systematic enumeration (stateless search with re-execution) of all interleavings of four scenarios - one lookup x delivery x deadline; two lookups of one name x delivery x first caller's deadline; two lookups of different names x one delivery x deadline; delivery x eviction racing the wake-up - capped per scenario in the quick tier and complete in the thorough tier (which adds three lookups of one name with two deadlines, and two deliveries with eviction), plus random schedules with 3-6 lookups over two names. The select arm that fired is reported by the hooks; every trace is validated step by step against the interleaving model (each reported step must be enabled and lead to the reported result). " + 'Non-trivial: a delivery falls strictly between some lookup start and its return. Thorough tier additionally runs the history harness of C01/C03/C04 under the Go race detector (supporting evidence only)'
            + ' Plus (a) receiver at lock-section granularity (yield points 5/6): every type x every single extra operation (evict, subscribe, lookup) x every position around the three sections of a response, and random pairs, trace-validated against the composed model; spec: a cached name is subscribed, and no step hangs; (b) handler order: an update parked inside a registered handler while a lookup and a second registration are started - when the lookup exposes the resource every handler registered by then has completed for that update.',
        'assumptions': COMMON_ASSUME + ['DATA RACES ARE NOT EXPRESSIBLE IN THE MODEL (sequentially consistent atomic steps): the claim is partial; what is proved is linearizability of lookups, absence of stuck lookups and of lock-order cycles, and handlers-before-write',
                                         'the lock-nesting edges come from a syntactic intra-package call graph (function names); a full request channel while the sender adopts a stream (needs 1024 unsent requests) is outside the model (documented limitation S12)',
                                         'goroutine leaks and runtime starvation are out of reach'],
        'level_text': 'Theorems over all schedules: a returned value is read by a step of the lookup itself at which the cache holds exactly that value (linearization_point); the cache of a name changes only by an accepted update or an eviction (one atomic register per name); '
                      'an error has a witness (deadline fired, or the resource was gone at the re-read); handlers run before the cache write inside one locked region (regenerated statement order); the regenerated lock-nesting edges (m.mu -> c.mu -> r.mu) are acyclic (decide on an executable '
                      'topological peel); no reachable state has a stuck lookup. The executable spec checks on every trace that each value was current between start and return and each timeout had a fired deadline.'
            + ' Composed model: cached_is_subscribed_atomic (no ghost entries when handlers are not torn), s15_ghost_entry (decide-checked torn schedule: known finding S15), ordered_locks_no_circular_wait (general lemma: a lock order excludes circular waits for any number of threads) with lock_edges_ranked for the regenerated edges.',
        'level_note': 'PARTIAL: data-race freedom is the Go memory model (not modelled); deadlock freedom is proved for the model (mutex order + progress of lookups), not for the request channel at capacity. Trusted: Lean kernel; Go runtime; extractor (lockEdges, updateOrder); harness.',
    },
}


# ---- additions of the Flow / Reg layers and the later scenarios (DESIGN.md 16.1, 16.2) ----
_ADD = {
    'C02': (' Request path (Flow layer): ack_reaches_wire_once (on a stream that has not failed, at quiescence the wire is exactly the sequence of requests handed to sendRequest, the acknowledgement once, in its place), ack_never_discarded.',
            ' Plus: a response acknowledged while Send is stalled and 1 040 lookups of another type fill the request channel (stalledAck, flowCase ack), per-stream nonce numbering, empty load assignments, recurring version strings.'),
    'C03': (' Request path (Flow layer, bounded channel, any number of producers): request_never_discarded, wire_in_production_order, quiescent_wire_complete, quiescent_last_on_wire_is_last_produced, wire_follows_lock_order / enqueue_order_is_lock_order (requests enter the channel in the order of the client-lock sections, which are the operations of the sequential model), channel_bounded.',
            ' Plus: flowCase burst (trace validation of the Flow model: 1 024 lookups get through while Send is stalled), parkedAck (yield point 7: a lookup racing the acknowledgement), stalled reconnects racing a single lookup.'),
    'C04': (' Request path (Flow layer): nonce_per_stream_goroutines (every request on the wire of stream k was built under the client lock in the epoch of k; 13-clause epoch invariant), nothing_stale_queued.',
            ' Plus: doubleFailure, parkedWatchReconnect (yield point 7), flowCase stop (authentication stop while a lookup is parked on the full channel), outage with 1 040 lookups.'),
    'C05': (' Request path (Flow layer): watch_returns_partial (the only state in which a lookup inside Watch waits for ever, transport not stalled, is S12), watch_returns_below_capacity, watch_returns_after_stop, watch_released_in_bounded_steps (termination measure: no livelock). Known findings S12 (deadlock after a reconnect with the channel full) and S16 (a lookup that finds the channel full ignores its deadline while the transport is stalled).',
            ' Plus: lookups of cached and uncached names at every position around the three lock sections of a response handler (deadlock watchdog), burst during an outage, flowCase outage / flood / stop / burst with the transport held stalled (S16).'),
    'C07': (' Request path (Flow layer): no_deadlock_partial (the S12 shape is the ONLY stuck state), no_deadlock_below_capacity, s12_deadlock_reachable (for the capacity the source has), s12_is_forever, comes_to_rest_or_s12 (every execution of the program alone is finite and ends quiescent or in S12). Registration (Reg layer): policy_before_data_interleaved over all interleavings of updates and registrations, torn_registration_breaks_it.',
            ' Plus: flowCase flood (S12 reproduced: sender in reqWhenReconnect, lookup in sendRequest), registrationRace, a lookup WAITING when the update parked in a handler arrives, dumpRace (a dump parked while rendering the cache vs an update), stale-detach schedules, a waiting lookup cancelled between handler sections.'),
    'C08': ('', ' Plus: sessions (router and listener object live across calls while named tables change), literal-only regular expressions, routeOverlap (a call held up in the middle of its walk while another is routed).'),
    'C09': ('', ' Plus: the same vectors through the decoder (four weighted routes in one virtual host), the cached table rendered as JSON before sampling; for every fourth vector the calls alternate strictly with calls served by a second weighted route ([1,1]) of the same table, whose own split is judged too (nothing may be shared between routes); shares below one per cent with a never-picked rule.'),
    'C10': ('', ' Plus: a lookup of an endpoint set / cluster that waits across the sections of a response handler (a response to an older subscription first; cancel at each gap) with the stale-read / ended-early spec.'),
    'C11': ('', ' Plus: listeners with up to 9 filter chains, nested type URLs without authority, literal-only regular expressions; the spec covers the retriable-header extensions of each route.'),
    'C13': ('', ' Plus: nested Any values with empty / authority-less / mangled type URLs.'),
    'C14': ('', ' Plus: configurations built from the environment (metadata NAMESPACE), two spellings of one service, recurring name-table version strings.'),
    'C15': ('', ' Plus: sessions (one middleware across table versions), a real-manager run with a rejected and an accepted new table version, a Thrift-proxy filter with failing cluster selection.'),
    'C16': (' Registration (Reg layer): created_anytime_tracks_latest over all interleavings of updates and registrations (any number of breakers).', ' Plus: two breakers per manager, registration racing an update, recurring version strings.'),
    'C17': (' Registration (Reg layer): created_anytime_tracks_latest.', ' Plus: two retry containers with late registration, returning table generations, routes sharing a cluster, registration racing an update.'),
    'C18': (' Registration (Reg layer): created_anytime_tracks_latest.', ' Plus: rejected listener responses between accepted ones, registration racing an update.'),
    'C19': (' The whole tick (Proofs/Sweep): sweep_exact - a fold of the loop body over the entries in ANY visiting order (with repetitions) removes exactly the visited entries idle for longer than the period and not reserved, withdraws them from the interest set with a request omitting each, and keeps every other entry and subscription; sweep_any_order - the outcome does not depend on the map iteration order. dropped_keeps_clock: a name removed by a complete update keeps its idle clock (the cleaner still withdraws it); unsubscribed_update_ignored / evicted_stays_out: no update caches a name outside the interest set, so a response that crosses the unsubscription cannot bring an evicted entry back.', ' Plus: a world with 1 100 idle resources whose connection is stalled over the sweep (every withdrawal must reach the control plane).'),
    'C20': (' History of Init calls: init_failures_all_reported, init_after_success, init_first_success_wins (fact initShape); set_overlapping_one_winner: overlapping calls of SetXDSResourceManager, in any lock order, install one manager throughout.', ' Plus: 16 overlapping first calls of SetXDSResourceManager lined up at the holder\'s lock (verif hook VerifHoldManager, child processes): one manager for every caller and in the end; three Init calls on a partly repaired environment (child process), node identity on acknowledgement, rejection, re-subscription and changes on a second stream.'),
}
for _k, (_lt, _rule) in _ADD.items():
    PROPS[_k]['level_text'] = PROPS[_k]['level_text'] + _lt
    PROPS[_k]['rule'] = PROPS[_k]['rule'] + _rule
# round-4 additions (rule text only, appended after the addenda above)
_ADD4L = {
    'C15': ' cluster_less_match_fails: a matched route that selects no cluster ends the routing step in a routing error for every draw (no fall-through); clusters_play_no_part_in_matching.',
    'C01': ' push_touches_only_its_type: handling a response of one type changes neither cache, access records, interest set nor version of any other type (state level).',
    'C04': ' nonce_frame: the recorded nonce of a type changes only by a response of that type (to its nonce) or a reconnect (to empty); subscription_request_echoes_recorded_nonce: a subscription change echoes the recorded, i.e. latest, nonce.',
}
for _k, _t in _ADD4L.items():
    PROPS[_k]['level_text'] = PROPS[_k]['level_text'] + _t
_ADD4 = {
    'C01': ' Plus: clusters in the linked form (an EDS cluster naming an endpoint set of the universe): one type\'s responses never change what another type serves; whether a type is subscribed is the script\'s own knowledge (start-up, lookups), not read from the client.',
    'C02': ' Plus: the never-subscribed rule is judged against the history\'s knowledge of subscriptions (a client that wrongly believes a type subscribed cannot steer the check away), also after reconnects.',
    'C03': ' Plus: linked clusters; the script\'s own subscription knowledge in the generator.',
    'C04': ' Plus: drainRace - the stream fails while the sender works through 700 queued requests on a slow transport (the reconnect\'s drain must not wait; re-subscription and a later lookup within seconds).',
    'C05': ' Plus: lookups with kinds that are not resource kinds (-7, -1, 0, 6, 10, 2^20: rejected at once, nothing left behind; theorem unknown_kind_rejected over the regenerated knownKinds); a transient stream failure while lookups wait; a party blocked where nothing can release it (a lock never given back) ends the schedule and is reported.',
    'C06': ' Plus: a transient stream failure + reconnect while lookups wait (in the select and before it): they are not concerned, the response arrives on the new stream; stuck-party detection as in C05.',
    'C07': ' Plus: lockStress - a response with 900 subscribed names is filtered while two goroutines keep changing the interest set of its type (rds, eds, cds): both sides finish; stream failure while lookups wait; stuck-party detection.',
    'C08': ' Plus: regular expressions the engine rejects next to further conditions (the conditions go through the decoder\'s BuildMatchers model), up to three conditions per route, virtual hosts with 16-25 routes.',
    'C10': ' Plus: c10History - the resolver on the real manager across an update history: back-to-back partial endpoint pushes for different names behind a slow update handler, pushes that re-use the previous version string for new endpoints.',
    'C11': ' Plus: token buckets with fill intervals (absent, empty, sub-second, whole seconds); responses of 64-133 resources; every fourth response delivered twice.',
    'C12': ' Plus: responses of 64-133 resources (every resource keeps its own name and content); every fourth response delivered twice.',
    'C13': ' Plus: fill intervals; large responses; every fourth response delivered twice (the second verdict equals the first).',
    'C14': ' Plus: address lists in the control plane\'s own order (unsorted, with a repetition: the first binds), services the table knows under another domain only (unbound) or under both domains.',
    'C15': ' Plus: routes with header conditions - including expressions the engine rejects - and call metadata that carries the keys.',
    'C18': ' Plus: inbound chains in the usual Istio shape (TypedStruct filters of other kinds in front of the rate limit and a router behind it; the rate limit itself as a TypedStruct); a limiter option that has lost its UpdateControl when the server starts is a reported failure.',
    'C19': ' Plus: worlds whose sweep empties a whole type; the re-subscription after an eviction must echo the nonce of the latest response of its type (else a protocol-following control plane ignores it); a world whose stream fails while the sweep\'s first withdrawal is inside Send (40 idle names, one in use): after the reconnect the control plane\'s last word names exactly what Sweep.sweep leaves subscribed.',
}
for _k, _r in _ADD4.items():
    PROPS[_k]['rule'] = PROPS[_k]['rule'] + _r
# round-5 additions (rule text only)
_ADD5 = {
    'C01': ' Plus: the control plane re-sends the very same resources (byte for byte) under a new version and nonce; route tables that carry a universe name but cannot be converted.',
    'C04': ' Plus: slowOutage - three failed stream creations with the client\'s real back-off: a cached name is served at once and an unknown name gives up at its 50 ms fetch timeout while the client reconnects.',
    'C05': ' Plus: placeholder cases (two waiting lookups, a response carrying one resource well-formed and the other under its own name but not convertible: both end with an error, never a nil placeholder); slowOutage.',
    'C06': ' Plus: handlerOrder (an update that runs a slow registered handler while lookups of its name arrive and wait); two spellings of one listener (name table required) waiting for one response.',
    'C07': ' Plus: the suite\'s own circuit-breaker handler at the moment of exposure (12 rounds on one processor: the configuration of the delivering update is in force); a registered handler that panics inside an update leaves nothing locked.',
    'C08': ' Plus: routes that select no cluster (the first match fails the call, no fall-through); the listener is replaced right after it has been read (one call is routed by one state of its listener); every route carries a retry policy.',
    'C10': ' Plus: in the history the control plane follows the nonce rule (a subscription with an outdated nonce is not answered), an endpoint response is rejected before a new subscription, a cluster is removed and listed again with other endpoints.',
    'C11': ' Plus: struct values of any JSON kind in TypedStruct token buckets, locality priorities in no particular order.',
    'C12': ' Plus: locality priorities in no particular order (message order is kept), hosts spelt with capitals next to their lower-case twins in name tables.',
    'C13': ' Plus: TypedStruct token-bucket values that are not numbers (quoted numbers, null, booleans, structs, no kind).',
    'C14': ' Plus: two-slot name-table responses (an undecodable first slot rejects the response as a whole; a well-formed first slot is the table).',
    'C15': ' Plus: every route carries a retry policy whose per-try timeout differs from the route timeout (the call timeout is the route\'s).',
    'C16': ' Plus: cluster responses rejected as a whole between accepted ones (breakers and the cache a late breaker starts from stay as they are).',
    'C17': ' Plus: a destination cluster shared by several route tables (its policies stay while any cached table names it).',
    'C18': ' Plus: half of the chains carry inline route tables of one name with different buckets.',
    'C19': ' Plus: lookups of a name the control plane removed (they give up at their deadline); the name is listed again after the sweep and looked up again (subscribes again, obtains the value).',
    'C20': ' Plus: name expansion of two hosts under every generated configuration of the process; pod names with dots, also ending like the namespace.',
}
for _k, _r in _ADD5.items():
    PROPS[_k]['rule'] = PROPS[_k]['rule'] + _r
# round-6 additions (rule text only)
_ADD6 = {
    'C01': ' Plus: every seventh history runs with LDSNotRequired (the inbound listener is stored only if asked for); evictDuringUpdate (a partial update parked in a slow handler while the real eviction body runs for another name of the type); batches of 15-45 unusable resources in one response.',
    'C02': ' Plus: batches of 15-45 unusable resources in one response (the answer is a NACK with an error detail, however long the error list).',
    'C03': ' Plus: doubleFailure (two stream failures in a row: the live stream\'s last requests are the interest sets).',
    'C05': ' Plus: agedRecordCase (a resource delivered again after it had been removed and its access record aged 31 s); a harness process killed by the Go runtime inside the code under test, or blocked for a minute in one lock wait inside it, is reported as a violation with the report as replay.',
    'C06': ' Plus: agedRecordCase.',
    'C07': ' Plus: evictDuringUpdate; every second response of the policy-before-data rounds re-uses the previous version string; receiver-section cases stop after four steps that never came back.',
    'C08': ' Plus: routeAcrossPush (a new table version pushed - handlers, then data - while the router reads the old one: later calls follow the new table).',
    'C09': ' Plus: pickAcrossPush (a weight shift arriving during an earlier call); picks of a cluster the matched route does not list are counted and judged.',
    'C10': ' Plus: one resolver for the whole history; a second cluster backed by the same load assignment; endpoints whose address is not a socket address.',
    'C11': ' Plus: twin routes whose header conditions differ in kind only (same names and pattern texts).',
    'C12': ' Plus: the caller prunes the returned map between two deliveries of the same response; endpoint addresses that are not socket addresses.',
    'C14': ' Plus: a looked-up name spelt like a listener of the push (<ip>_<port>): bound to nothing.',
    'C15': ' Plus: a custom metadata extractor given as an option to middleware and retry policy alike; metadata that satisfies the route conditions.',
    'C16': ' Plus: replacement updates (one cluster goes, one comes) right before late registrations; updates that arrive while nothing is subscribed; every entry of the breaker is judged.',
    'C17': ' Plus: fully shifted splits and absent weights; route tables evicted between updates.',
    'C18': ' Plus: a server limiter that is slow for one value (changes still arrive in order).',
    'C20': ' Plus: metadata keys that equal NAMESPACE only when case is ignored.',
}
for _k, _r in _ADD6.items():
    PROPS[_k]['rule'] = PROPS[_k]['rule'] + _r
PROPS['C07']['level_note'] = 'PARTIAL: data-race freedom is the Go memory model (not modelled; the locking discipline, a dump-vs-update exclusion scenario and the race detector of the thorough tier are what is checked). Deadlock freedom: mutex order + progress of lookups + the request path at capacity (Flow layer); S12 and S15 are recorded findings. Trusted: Lean kernel; Go runtime; extractor (lockEdges, updateOrder, flow facts, regShape); harness.'
PROPS['C07']['assumptions'] = [a for a in PROPS['C07']['assumptions'] if 'outside the model (documented limitation S12)' not in a] + ['the lock-nesting edges come from a syntactic intra-package call graph (function names)']
