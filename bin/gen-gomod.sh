#!/bin/bash
# Regenerates /verif/harness/go.mod and go.sum from $R/go.mod (same requirements and replaces,
# plus a replace of the module under test to the /repo working tree). Offline.
set -e
V=${VERIF_HOME:-/verif}
R=${VERIF_REPO:-/repo}
H=$V/harness
{
  echo "module xdsverif/harness"
  echo
  echo "go 1.18"
  echo
  echo "require github.com/kitex-contrib/xds v0.0.0"
  echo
  awk '/^require \(/{p=1} p{print} /^\)/{if(p){p=0; print ""}}' $R/go.mod
  grep '^replace ' $R/go.mod || true
  echo "replace github.com/kitex-contrib/xds => $R"
} > $H/go.mod.new
if ! cmp -s $H/go.mod.new $H/go.mod; then mv $H/go.mod.new $H/go.mod; else rm $H/go.mod.new; fi
if ! cmp -s $R/go.sum $H/go.sum; then cp $R/go.sum $H/go.sum; fi
