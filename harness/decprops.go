package main

import (
	"fmt"
	"regexp"

	"google.golang.org/protobuf/types/known/anypb"

	"github.com/kitex-contrib/xds/core/xdsresource"
)

func init() {
	props["C11"] = func(c *ctx) { runDecoders(c, []string{"lds", "rds"}, 6, 1500) }
	props["C12"] = func(c *ctx) { runDecoders(c, []string{"cds", "eds", "nds"}, 6, 1500) }
	props["C13"] = func(c *ctx) { runDecoders(c, []string{"lds", "rds", "cds", "eds", "nds"}, 35, 2000) }
}

var decRegexes = []string{"^a.*", "v[12]", "(", "", "b$", ".*", "canary", "v2"}

// decodeObs runs the real decoder of rt over the resources and summarises what it returned.
func decodeObs(c *ctx, rt string, anys []*anypb.Any) obj {
	o := obj{}
	var derr error
	p, pmsg := recoverTo(func() {
		switch rt {
		case "lds":
			m, err := xdsresource.UnmarshalLDS(anys)
			derr = err
			e := obj{}
			for k, v := range m {
				e[k] = listenerSummary(v)
			}
			o["entries"] = e
		case "rds":
			m, err := xdsresource.UnmarshalRDS(anys)
			derr = err
			e := obj{}
			for k, v := range m {
				e[k] = routeCfgSummary(v.(*xdsresource.RouteConfigResource))
			}
			o["entries"] = e
		case "cds":
			m, err := xdsresource.UnmarshalCDS(anys)
			derr = err
			e := obj{}
			for k, v := range m {
				e[k] = clusterSummary(v.(*xdsresource.ClusterResource))
			}
			o["entries"] = e
		case "eds":
			m, err := xdsresource.UnmarshalEDS(anys)
			derr = err
			e := obj{}
			for k, v := range m {
				e[k] = obj{"eps": endpointsSummary(v.(*xdsresource.EndpointsResource))}
			}
			o["entries"] = e
		case "nds":
			nt, err := xdsresource.UnmarshalNDS(anys)
			derr = err
			if nt != nil {
				t := obj{}
				for k, v := range nt.NameTable {
					if v == nil {
						v = []string{}
					}
					t[k] = v
				}
				o["table"] = t
			}
		}
	})
	o["panic"], o["panicMsg"] = p, pmsg
	o["err"] = derr != nil
	o["errNonEmpty"] = derr != nil && derr.Error() != ""
	if derr != nil {
		c.count("rejected", 1)
	}
	if p {
		c.count("panics", 1)
	}
	return o
}

// runDecoders: one case = one response (a list of resource slots) of one type through the real decoder.
// pMut = percentage of responses that get an extra mutated / wrongly typed slot.
func runDecoders(c *ctx, types []string, pMut int, n int) {
	g := &decGen{r: c.rng, cover: map[string]int{}}
	var compiles []interface{}
	for _, re := range decRegexes {
		_, err := regexp.Compile(re)
		compiles = append(compiles, []interface{}{re, err == nil})
	}
	for i := 0; i < n*c.budget; i++ {
		rt := types[i%len(types)]
		nslots := 1 + g.r.intn(3)
		if g.r.chance(5) {
			nslots = 0
		}
		large := i%97 == 13
		if large {
			// a large response (a whole mesh in one push): every resource keeps its own name and content
			nslots = 64 + g.r.intn(70)
			c.count("large-responses", 1)
		}
		var anys []*anypb.Any
		names := []string{"a", "b", "c"}
		for s := 0; s < nslots; s++ {
			name := names[s%3]
			if large {
				name = fmt.Sprintf("n%03d", s)
			}
			if g.r.chance(8) && !large {
				name = "a" // duplicate resource name
			}
			var a *anypb.Any
			switch rt {
			case "lds":
				a = mustAny(g.listener(name))
			case "rds":
				a = mustAny(g.routeConfig(name))
			case "cds":
				a = mustAny(g.cluster(name))
			case "eds":
				a = mustAny(g.cla(name))
			case "nds":
				var tbl []kv
				for t := 0; t < g.r.intn(4); t++ {
					tbl = append(tbl, kv{fmt.Sprintf("host%d.default.svc.cluster.local", t), []string{fmt.Sprintf("10.0.0.%d", t+1), "10.9.9.9"}[:1+g.r.intn(2)]})
					if g.r.chance(25) {
						// a host spelt with capitals next to its lower-case twin: two hosts, each keyed by its own name
						tbl = append(tbl, kv{fmt.Sprintf("Host%d.Default.svc.cluster.local", t), []string{fmt.Sprintf("10.1.0.%d", t+1)}})
					}
				}
				a = anyNameTable(tbl)
			}
			if g.r.chance(pMut) {
				a = g.slot(a, "type.googleapis.com/envoy.config.core.v3.TypedExtensionConfig")
				if g.r.chance(50) {
					a = &anypb.Any{TypeUrl: a.TypeUrl, Value: mutateBytes(g.r, a.Value)}
					g.hit("slot.mutated")
				}
			}
			anys = append(anys, a)
		}
		// reference parse -> trees
		slots := make([]interface{}, 0, len(anys))
		for _, a := range anys {
			switch rt {
			case "lds":
				slots = append(slots, ldsSlotTree(a))
			case "rds":
				slots = append(slots, rdsSlotTree(a))
			case "cds":
				slots = append(slots, cdsSlotTree(a))
			case "eds":
				slots = append(slots, edsSlotTree(a))
			case "nds":
				slots = append(slots, ndsSlotTree(a))
			}
		}
		// the real decoder; a second delivery of the same resources (the control plane re-sends
		// what it was refused) must be judged exactly like the first: nothing a decoder remembers
		// from one response may change what it says about the next
		again := g.r.chance(25)
		o := decodeObs(c, rt, anys)
		c.count("type="+rt, 1)
		// regular expressions that occur in the trees (mutations can alter them): does regexp.Compile accept them?
		comp := append([]interface{}{}, compiles...)
		seenRe := map[string]bool{}
		var walk func(v interface{})
		walk = func(v interface{}) {
			switch x := v.(type) {
			case obj:
				if x["k"] == "regex" {
					if s, ok := x["v"].(string); ok && !seenRe[s] {
						seenRe[s] = true
						_, err := regexp.Compile(s)
						comp = append(comp, []interface{}{s, err == nil})
					}
				}
				for _, w := range x {
					walk(w)
				}
			case []interface{}:
				for _, w := range x {
					walk(w)
				}
			}
		}
		walk(slots)
		c.emit(obj{"op": "decode", "rt": rt, "slots": slots, "compiles": comp, "obs": o})
		if again {
			// (between the two deliveries the caller prunes what the first decode returned, as the client's interest filter
			// does in place: what a decoder hands out is the caller's to change, the next decode is complete again)
			recoverTo(func() {
				switch rt {
				case "lds":
					m, _ := xdsresource.UnmarshalLDS(anys)
					for k := range m {
						delete(m, k)
					}
				case "rds":
					m, _ := xdsresource.UnmarshalRDS(anys)
					for k := range m {
						delete(m, k)
					}
				case "cds":
					m, _ := xdsresource.UnmarshalCDS(anys)
					for k := range m {
						delete(m, k)
					}
				case "eds":
					m, _ := xdsresource.UnmarshalEDS(anys)
					for k := range m {
						delete(m, k)
					}
				}
			})
			c.count("redelivered", 1)
			c.emit(obj{"op": "decode", "rt": rt, "slots": slots, "compiles": comp, "obs": decodeObs(c, rt, anys), "redelivery": true})
		}
	}
	for k, v := range g.cover {
		c.count("gen:"+k, v)
	}
}
