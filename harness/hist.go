package main

import (
	"errors"
	"fmt"
	v3routepb "github.com/envoyproxy/go-control-plane/envoy/config/route/v3"
	"sort"
	"sync/atomic"
	"time"

	"github.com/cenkalti/backoff/v4"
	v3endpointpb "github.com/envoyproxy/go-control-plane/envoy/config/endpoint/v3"
	"google.golang.org/protobuf/types/known/anypb"

	"github.com/kitex-contrib/xds/core/xdsresource"
)

// Histories of the real client + manager against the scripted control plane (C01–C04).
// One case = one manager; each step is executed, the client is brought to quiescence, and the
// implementation's state is observed: requests that reached the control plane (with stream ids),
// cache snapshot (names -> stamps), interest sets, acknowledged versions / nonces, name table.

type histProfile struct {
	pEvict       int // an eviction by the cleaner (per cent of the steps)
	steps        int
	pFault       int // % of steps that are stream faults
	pBad         int // % of pushes with an undecodable slot
	pUnsolicited int
	pGet         int
	authStop     bool // may stop the client with an authentication error
	createFail   bool // stream creation may fail (costs real back-off time)
	sendFail     bool
}

var histUniverse = map[string][]string{
	// "echo" and "echo:80" are two spellings of one service and port: both bind to the same listener and both are served
	"lds": {"echo:80", "echo", "echo:8888", "Other", "missing.host", xdsresource.ReservedLdsResourceName},
	"rds": {"rc-a", "rc-b", "rc-c"},
	"cds": {"c1", "c2", "c3"},
	"eds": {"e1", "e2", "e3"},
}

var histTables = [][]kv{
	{{"echo.default.svc.cluster.local", []string{"10.0.0.1"}}, {"other.default.svc.cluster.local", []string{"10.0.0.2", "10.0.0.9"}}},
	{{"echo.default.svc.cluster.local", []string{"10.0.0.3"}}, {"other", []string{"10.0.0.4"}}},
	{{"echo", []string{"10.0.0.5"}}},
	{},
}

type histRun struct {
	c       *ctx
	w       *world
	nds     bool
	steps   []interface{}
	seq     int
	now     int
	hung    bool
	nonceOn map[int]int
	lastVer map[string]string
}

// versionOf: version strings are chosen by the control-plane instance; a restarted or failed-over instance may hand out a
// version string the client already holds for that type, with different content. One push in seven re-uses the last one.
func (h *histRun) versionOf(rt string, counter int) string {
	if h.lastVer == nil {
		h.lastVer = map[string]string{}
	}
	if v, ok := h.lastVer[rt]; ok && h.c.rng.chance(14) {
		h.c.count("push=version-reused", 1)
		return v
	}
	v := fmt.Sprintf("v%d", counter)
	h.lastVer[rt] = v
	return v
}

// nextNonce numbers the responses per stream, as go-control-plane does: the same nonce strings recur on the next stream.
func (h *histRun) nextNonce() string {
	h.w.ads.mu.Lock()
	sid := len(h.w.ads.streams)
	h.w.ads.mu.Unlock()
	if h.nonceOn == nil {
		h.nonceOn = map[int]int{}
	}
	h.nonceOn[sid]++
	return fmt.Sprintf("n%d", h.nonceOn[sid])
}

func (h *histRun) observe(mark int) obj {
	cache, acc := h.w.m.VerifSnapshot()
	co := obj{}
	ao := obj{}
	for _, rt := range []string{"lds", "rds", "cds", "eds"} {
		m := obj{}
		for n, r := range cache[rtOf(rt)] {
			m[n] = stampOf(r)
		}
		co[rt] = m
		a := obj{}
		for n, has := range acc[rtOf(rt)] {
			a[n] = has
		}
		ao[rt] = a
	}
	in := obj{}
	for rt, ns := range h.w.m.VerifInterest() {
		in[rtShort(xdsresource.ResourceTypeToURL[rt])] = ns
	}
	ver := obj{}
	for _, rt := range rtNames {
		v, n := h.w.m.VerifVersionNonce(rtOf(rt))
		ver[rt] = []string{v, n}
	}
	tbl := h.w.m.VerifNameTable()
	keys := make([]string, 0, len(tbl))
	for k := range tbl {
		keys = append(keys, k)
	}
	sort.Strings(keys)
	tj := make([]interface{}, 0, len(keys))
	for _, k := range keys {
		vs := tbl[k]
		if vs == nil {
			vs = []string{}
		}
		tj = append(tj, []interface{}{k, vs})
	}
	return obj{"reqs": h.w.since(mark), "cache": co, "acc": ao, "interest": in, "ver": ver, "table": tj,
		"closed": h.w.m.VerifClosed(), "streams": len(h.w.ads.streams)}
}

func (h *histRun) step(o obj, f func()) bool {
	mark := h.w.mark()
	h.now++
	o["now"] = h.now
	h.w.ads.mu.Lock()
	cur := h.w.ads.streams[len(h.w.ads.streams)-1]
	o["sendFail"] = cur.sendFail
	h.w.ads.mu.Unlock()
	f()
	if !h.w.settle() {
		o["obs"] = obj{"hang": true}
		h.steps = append(h.steps, o)
		h.hung = true
		return false
	}
	o["obs"] = h.observe(mark)
	h.steps = append(h.steps, o)
	return true
}

func slotsJSON(slots [][3]string) []interface{} {
	out := make([]interface{}, 0, len(slots))
	for _, s := range slots {
		if s[0] == "bad" {
			out = append(out, obj{"bad": true})
		} else {
			out = append(out, obj{"n": s[1], "v": s[2]})
		}
	}
	return out
}

// genHistory runs one history and emits one case line.
func genHistory(c *ctx, prof histProfile, ndsRequired bool, ldsNotRequired ...bool) {
	r := c.rng
	// (a third configuration: the inbound listener is not subscribed at start-up - LDSNotRequired; the listener type is then
	// subscribed by the first listener lookup only, and "virtualInbound" is a name like any other: stored only if asked for)
	noLds := len(ldsNotRequired) > 0 && ldsNotRequired[0]
	w, err := newWorld(worldOpts{ndsNotRequired: !ndsRequired, ldsNotRequired: noLds, fetchTimeout: 3 * time.Millisecond})
	if err != nil {
		fmt.Println("hist: world:", err)
		return
	}
	defer w.close()
	h := &histRun{c: c, w: w, nds: ndsRequired}
	// the start-up handshake as explicit steps (already executed by newWorld)
	var pre []interface{}
	if ndsRequired {
		pre = append(pre, obj{"o": "startup-nds"})
	}
	if !noLds {
		pre = append(pre, obj{"o": "startup-lds", "stamp": inboundStamp})
	} else {
		c.count("config=lds-not-required", 1)
	}
	obs0 := h.observe(0)
	version := 0
	curTable := []kv{}
	faults := 0
	type pushed struct {
		slots [][3]string
		anys  []*anypb.Any
	}
	lastPush := map[string]pushed{}
	ever := map[string]bool{"lds": !noLds} // the types subscribed so far, as the script knows them (start-up, lookups)
	for i := 0; i < prof.steps && !h.hung; i++ {
		closed := w.m.VerifClosed()
		x := r.intn(100)
		switch {
		case !closed && x < prof.pFault && faults < 3:
			faults++
			kind := r.intn(4)
			switch {
			case kind == 0 && prof.authStop && r.chance(40):
				c.count("fault=auth", 1)
				h.step(obj{"o": "authfail"}, func() { w.feedErr(authErr()) })
			case kind == 1 && prof.sendFail:
				c.count("fault=send", 1)
				// the stream starts failing Send; E1: it will fail Recv a little later (next fault step)
				w.ads.mu.Lock()
				w.ads.streams[len(w.ads.streams)-1].sendFail = true
				w.ads.mu.Unlock()
				h.steps = append(h.steps, obj{"o": "sendfail-on"})
			default:
				nfail := 0
				if prof.createFail && r.chance(25) {
					nfail = 1
				}
				c.count("fault=recv", 1)
				h.step(obj{"o": "recvfail", "createFails": nfail}, func() {
					w.ads.mu.Lock()
					w.ads.failCreate = nfail
					w.ads.mu.Unlock()
					w.feedErr(errors.New("verif: stream reset"))
				})
			}
		case !closed && x < prof.pFault+prof.pEvict:
			// the cleaner evicts (and unsubscribes) a cached name: the body of one firing iteration, through the verif hook;
			// later pushes may still carry the name (they were on the wire), later lookups subscribe it again
			rt := []string{"lds", "rds", "cds", "eds"}[r.intn(4)]
			cache, _ := w.m.VerifSnapshot()
			var cands []string
			for n := range cache[rtOf(rt)] {
				if n != xdsresource.ReservedLdsResourceName {
					cands = append(cands, n)
				}
			}
			if len(cands) == 0 {
				continue
			}
			sort.Strings(cands)
			n := cands[r.intn(len(cands))]
			h.now += 100 // the age test is about wall-clock time; the hook runs the body of an iteration whose test fired
			c.count("evict", 1)
			h.step(obj{"o": "evict", "rt": rt, "n": n}, func() { w.m.VerifEvict(rtOf(rt), n) })
		case x < prof.pFault+prof.pEvict+prof.pGet:
			rt := []string{"lds", "rds", "cds", "eds"}[r.intn(4)]
			u := histUniverse[rt]
			n := u[r.intn(len(u))]
			var res string
			c.count("get", 1)
			ever[rt] = true
			h.step(obj{"o": "get", "rt": rt, "n": n}, func() { res = w.get(rtOf(rt), n) })
			last := h.steps[len(h.steps)-1].(obj)
			if ob, ok := last["obs"].(obj); ok {
				ob["get"] = res
			}
		case !closed && x < prof.pFault+prof.pGet+4:
			c.count("push=unknown", 1)
			h.step(obj{"o": "pushUnknown"}, func() {
				w.feed(mkResp("type.googleapis.com/envoy.config.core.v3.TypedExtensionConfig", "u1", "un1", nil))
			})
		case !closed && x < prof.pFault+prof.pGet+14 && ndsRequired:
			// name-table update
			if w.countReq(len(w.ads.streams), xdsresource.NameTableTypeURL) == 0 {
				c.count("push-skipped-E2", 1)
				continue
			}
			version++
			ti := r.intn(len(histTables))
			bad := r.chance(prof.pBad)
			empty := !bad && r.chance(8)
			var anys []*anypb.Any
			switch {
			case bad:
				anys = []*anypb.Any{badAny("nds", r.intn(2))}
			case empty:
				anys = nil
			default:
				anys = []*anypb.Any{anyNameTable(histTables[ti])}
			}
			v, nonce := h.versionOf("nds", version), h.nextNonce()
			c.count("push=nds", 1)
			o := obj{"o": "push", "rt": "nds", "v": v, "nonce": nonce, "bad": bad, "empty": empty}
			if !bad && !empty {
				o["table"] = tableObj(histTables[ti])
				curTable = histTables[ti]
			}
			_ = curTable
			h.step(o, func() { w.feed(mkResp(xdsresource.NameTableTypeURL, v, nonce, anys)) })
		case !closed:
			rt := []string{"lds", "rds", "cds", "eds"}[r.intn(4)]
			// E2: the control plane answers, it does not speak first
			// (whether the type is subscribed is the script's own knowledge - start-up and lookups -, not read from the client:
			// a client that wrongly believes a type subscribed must not be able to steer the script away from it)
			if ever[rt] && w.countReq(len(w.ads.streams), urlOf(rt)) == 0 {
				c.count("push-skipped-E2", 1)
				continue
			}
			version++
			var slots [][3]string
			var anys []*anypb.Any
			var cands []string
			if rt == "lds" {
				if ndsRequired {
					cands = []string{"10.0.0.1_80", "10.0.0.1_8888", "10.0.0.2_80", "10.0.0.3_80", "10.0.0.3_8888", "10.0.0.4_80", "10.0.0.5_80", xdsresource.ReservedLdsResourceName}
				} else {
					cands = histUniverse["lds"]
				}
			} else {
				cands = histUniverse[rt]
			}
			for _, n := range cands {
				if r.chance(55) {
					st := fmt.Sprintf("%s#%d", n, version)
					if rt == "eds" && r.chance(15) {
						// the service was scaled to zero: an assignment without localities is content, too
						slots = append(slots, [3]string{"good", n, "typednil"})
						anys = append(anys, mustAny(&v3endpointpb.ClusterLoadAssignment{ClusterName: n}))
						c.count("push=eds-empty", 1)
						continue
					}
					slots = append(slots, [3]string{"good", n, st})
					anys = append(anys, anyStamped(rt, n, st))
				}
			}
			if r.chance(prof.pUnsolicited) {
				st := fmt.Sprintf("x#%d", version)
				slots = append(slots, [3]string{"good", "x-unsolicited", st})
				anys = append(anys, anyStamped(rt, "x-unsolicited", st))
			}
			if len(slots) > 0 && r.chance(6) { // duplicate name: the later slot wins
				d := slots[r.intn(len(slots))]
				st := d[2] + "dup"
				slots = append(slots, [3]string{"good", d[1], st})
				anys = append(anys, anyStamped(rt, d[1], st))
			}
			if r.chance(prof.pBad) {
				pos := r.intn(len(slots) + 1)
				slots = append(slots[:pos], append([][3]string{{"bad", "", ""}}, slots[pos:]...)...)
				bad := badAny(rt, r.intn(3))
				if rt == "rds" && r.chance(50) {
					// a route table that carries the NAME of a table of the universe (maybe one that lookups wait for) but cannot
					// be converted (a route without action): the response is rejected, nothing is stored under that name
					bad = mustAny(&v3routepb.RouteConfiguration{Name: histUniverse["rds"][r.intn(len(histUniverse["rds"]))],
						VirtualHosts: []*v3routepb.VirtualHost{{Name: "vh", Routes: []*v3routepb.Route{{Match: &v3routepb.RouteMatch{PathSpecifier: &v3routepb.RouteMatch_Prefix{Prefix: "/"}}}}}}})
					c.count("push=bad-named", 1)
				}
				anys = append(anys[:pos], append([]*anypb.Any{bad}, anys[pos:]...)...)
				c.count("push=bad", 1)
				if r.chance(15) {
					// a whole batch of unusable resources (a payload sent under the wrong type): however long the list of errors
					// gets, the answer is a NACK with an error detail
					for k := 0; k < 15+r.intn(30); k++ {
						slots = append([][3]string{{"bad", "", ""}}, slots...)
						anys = append([]*anypb.Any{badAny(rt, r.intn(2))}, anys...)
					}
					c.count("push=bad-batch", 1)
				}
			}
			if lp, ok := lastPush[rt]; ok && r.chance(20) {
				// the control plane sends the very same resources again (byte for byte) under a new version and nonce - after
				// a subscription change it re-sends its snapshot: whatever the client remembers of the earlier copy, the
				// response is folded like any other (a name subscribed meanwhile is stored now)
				slots, anys = lp.slots, lp.anys
				c.count("push=identical-bytes", 1)
			}
			lastPush[rt] = pushed{slots, anys}
			v, nonce := h.versionOf(rt, version), h.nextNonce()
			c.count("push="+rt, 1)
			h.step(obj{"o": "push", "rt": rt, "v": v, "nonce": nonce, "slots": slotsJSON(slots)}, func() {
				w.feed(mkResp(urlOf(rt), v, nonce, anys))
			})
		default:
			// closed: only lookups make sense
			rt := []string{"lds", "rds", "cds", "eds"}[r.intn(4)]
			u := histUniverse[rt]
			n := u[r.intn(len(u))]
			var res string
			h.step(obj{"o": "get", "rt": rt, "n": n}, func() { res = w.get(rtOf(rt), n) })
			last := h.steps[len(h.steps)-1].(obj)
			if ob, ok := last["obs"].(obj); ok {
				ob["get"] = res
			}
		}
	}
	uni := obj{}
	for rt, ns := range histUniverse {
		all := append([]string{}, ns...)
		all = append(all, "x-unsolicited")
		if rt == "lds" {
			all = append(all, "10.0.0.1_80", "10.0.0.1_8888", "10.0.0.2_80", "10.0.0.3_80", "10.0.0.3_8888", "10.0.0.4_80", "10.0.0.5_80")
		}
		uni[rt] = all
	}
	c.count("histories", 1)
	h.emitHist(c, obj{"op": "hist", "cfg": obj{"nds": ndsRequired, "ns": "default", "dom": "cluster.local"}, "universe": uni,
		"pre": pre, "obs0": obs0, "steps": h.steps})
}

// stopFlood: after an authentication rejection, more lookups miss than the request channel holds;
// every one of them (and a lookup of a cached resource afterwards) must still return.
func stopFlood(c *ctx, misses int) {
	w, err := newWorld(worldOpts{ndsNotRequired: true, fetchTimeout: time.Millisecond})
	if err != nil {
		fmt.Println("hist: world:", err)
		return
	}
	defer w.close()
	h := &histRun{c: c, w: w}
	pre := []interface{}{obj{"o": "startup-lds", "stamp": inboundStamp}}
	obs0 := h.observe(0)
	h.step(obj{"o": "get", "rt": "cds", "n": "c1"}, func() { _ = w.get(rtOf("cds"), "c1") })
	h.steps[len(h.steps)-1].(obj)["obs"].(obj)["get"] = "err:timeout"
	h.step(obj{"o": "push", "rt": "cds", "v": "v1", "nonce": "n1", "slots": slotsJSON([][3]string{{"good", "c1", "c1#1"}})}, func() {
		w.feed(mkResp(urlOf("cds"), "v1", "n1", []*anypb.Any{anyStamped("cds", "c1", "c1#1")}))
	})
	h.step(obj{"o": "authfail"}, func() { w.feedErr(authErr()) })
	returned := 0
	hang := false
	done := make(chan string, 1)
	go func() {
		for i := 0; i < misses; i++ {
			_ = w.get(rtOf("cds"), "c3")
			returned++
		}
		done <- w.get(rtOf("cds"), "c1")
	}()
	final := ""
	select {
	case final = <-done:
	case <-time.After(time.Duration(misses)*4*time.Millisecond + 3*time.Second):
		hang = true
	}
	h.now++
	h.steps = append(h.steps, obj{"o": "flood", "rt": "cds", "n": "c3", "count": misses, "now": h.now,
		"obs": obj{"hang": hang, "returned": returned, "final": final}})
	uni := obj{"lds": []string{xdsresource.ReservedLdsResourceName}, "rds": []string{}, "cds": []string{"c1", "c3"}, "eds": []string{}}
	c.count("stop-flood", 1)
	h.emitHist(c, obj{"op": "hist", "cfg": obj{"nds": false, "ns": "default", "dom": "cluster.local"}, "universe": uni,
		"pre": pre, "obs0": obs0, "steps": h.steps})
}

// stalledBurst: the connection stalls (Send blocks) while more lookups miss than the request channel holds; the
// lookups queue up behind the full channel; when the connection resumes every change must still reach the control
// plane: at quiescence the last request of the type lists the whole interest set (C03).
func stalledBurst(c *ctx, n int) {
	w, err := newWorld(worldOpts{ndsNotRequired: true, fetchTimeout: time.Millisecond})
	if err != nil {
		fmt.Println("hist: world:", err)
		return
	}
	defer w.close()
	h := &histRun{c: c, w: w}
	pre := []interface{}{obj{"o": "startup-lds", "stamp": inboundStamp}}
	obs0 := h.observe(0)
	names := make([]string, n)
	for i := range names {
		names[i] = fmt.Sprintf("b%04d", i)
	}
	gate := make(chan struct{})
	w.ads.mu.Lock()
	w.ads.streams[len(w.ads.streams)-1].sendGate = gate
	w.ads.mu.Unlock()
	h.step(obj{"o": "burst", "rt": "cds", "names": names}, func() {
		done := make(chan struct{})
		var returned int64
		go func() {
			for _, nm := range names {
				_ = w.get(rtOf("cds"), nm)
				atomic.AddInt64(&returned, 1)
			}
			close(done)
		}()
		// wait until the lookups are all through, or stuck behind the full request channel
		waitStuckOrDone(done, &returned)
		w.ads.mu.Lock()
		for _, s := range w.ads.streams {
			s.sendGate = nil
		}
		w.ads.mu.Unlock()
		close(gate)
		select {
		case <-done:
		case <-time.After(30 * time.Second):
			w.hung = true
		}
	})
	uni := obj{"lds": []string{xdsresource.ReservedLdsResourceName}, "rds": []string{}, "cds": []string{}, "eds": []string{}}
	c.count("stalled-burst", 1)
	h.emitHist(c, obj{"op": "hist", "cfg": obj{"nds": false, "ns": "default", "dom": "cluster.local"}, "universe": uni,
		"pre": pre, "obs0": obs0, "steps": h.steps})
}

// stalledAck: the connection stalls (Send blocks) while the acknowledgement of a response waits in the request queue
// and more lookups of ANOTHER type miss than the queue holds. Newer requests supersede older ones only within their own
// type: when the connection resumes the acknowledgement must still reach the control plane, exactly once (C02).
func stalledAck(c *ctx, n int, bad bool) { stalledAck2(c, n, bad, false) }

func stalledAck2(c *ctx, n int, bad, second bool) {
	w, err := newWorld(worldOpts{ndsNotRequired: true, fetchTimeout: time.Millisecond})
	if err != nil {
		fmt.Println("hist: world:", err)
		return
	}
	defer w.close()
	h := &histRun{c: c, w: w}
	pre := []interface{}{obj{"o": "startup-lds", "stamp": inboundStamp}}
	obs0 := h.observe(0)
	var res string
	h.step(obj{"o": "get", "rt": "eds", "n": "e1"}, func() { res = w.get(rtOf("eds"), "e1") })
	h.steps[len(h.steps)-1].(obj)["obs"].(obj)["get"] = res
	names := make([]string, n)
	for i := range names {
		names[i] = fmt.Sprintf("b%04d", i)
	}
	gate := make(chan struct{})
	w.ads.mu.Lock()
	w.ads.streams[len(w.ads.streams)-1].sendGate = gate
	w.ads.mu.Unlock()
	slots := [][3]string{{"good", "e1", "e1#1"}}
	anys := []*anypb.Any{anyStamped("eds", "e1", "e1#1")}
	if bad {
		slots = append(slots, [3]string{"bad", "", ""})
		anys = append(anys, &anypb.Any{TypeUrl: urlOf("eds"), Value: []byte{0xff, 0xff, 0xff}})
	}
	stepObj := obj{"o": "stalled-ack", "rt": "eds", "v": "v1", "nonce": "n1", "slots": slotsJSON(slots), "first": "s0", "brt": "cds", "names": names}
	if second {
		// a second response of the same type follows while the acknowledgement of the first still waits in the queue: both
		// acknowledgements reach the control plane, each with its own nonce, version and error detail
		stepObj["second"] = obj{"v": "v2", "nonce": "n2", "slots": slotsJSON([][3]string{{"good", "e1", "e1#2"}})}
	}
	h.step(stepObj, func() {
		_ = w.get(rtOf("cds"), "s0") // its request is taken by the sender, which blocks in Send
		w.waitFor(func() bool { return w.m.VerifQueueLen() == 0 }, 5*time.Second)
		w.feed(mkResp(urlOf("eds"), "v1", "n1", anys))
		// the receiver handles the response; its acknowledgement waits in the queue behind the stalled Send
		w.waitFor(func() bool {
			w.ads.mu.Lock()
			s := w.ads.streams[len(w.ads.streams)-1]
			back := s.waiting && len(s.inbox) == 0
			w.ads.mu.Unlock()
			return back && w.m.VerifQueueLen() == 1
		}, 5*time.Second)
		if second {
			w.feed(mkResp(urlOf("eds"), "v2", "n2", []*anypb.Any{anyStamped("eds", "e1", "e1#2")}))
			w.waitFor(func() bool {
				w.ads.mu.Lock()
				s := w.ads.streams[len(w.ads.streams)-1]
				back := s.waiting && len(s.inbox) == 0
				w.ads.mu.Unlock()
				return back && w.m.VerifQueueLen() == 2
			}, 5*time.Second)
		}
		done := make(chan struct{})
		var returned int64
		go func() {
			for _, nm := range names {
				_ = w.get(rtOf("cds"), nm)
				atomic.AddInt64(&returned, 1)
			}
			close(done)
		}()
		waitStuckOrDone(done, &returned)
		w.ads.mu.Lock()
		for _, s := range w.ads.streams {
			s.sendGate = nil
		}
		w.ads.mu.Unlock()
		close(gate)
		select {
		case <-done:
		case <-time.After(30 * time.Second):
			w.hung = true
		}
	})
	uni := obj{"lds": []string{xdsresource.ReservedLdsResourceName}, "rds": []string{}, "cds": []string{}, "eds": []string{"e1"}}
	c.count("stalled-ack", 1)
	h.emitHist(c, obj{"op": "hist", "cfg": obj{"nds": false, "ns": "default", "dom": "cluster.local"}, "universe": uni,
		"pre": pre, "obs0": obs0, "steps": h.steps})
}

// stalledReconnect: a stream failure racing lookups (C04). The connection stalls with one request in flight, the
// stream fails, the receiver reconnects (drain + publish) while the sender is still stuck in Send on the dead stream,
// k more lookups miss (their Watch enqueues requests after the drain), then the stalled Send returns. Whatever the
// sender picks first (the new stream or the queued requests), nothing it puts on the new stream may carry a nonce of
// the old one, and the re-subscription must list every name.
func stalledReconnect(c *ctx, k int) {
	w, err := newWorld(worldOpts{ndsNotRequired: true, fetchTimeout: time.Millisecond})
	if err != nil {
		fmt.Println("hist: world:", err)
		return
	}
	defer w.close()
	h := &histRun{c: c, w: w}
	pre := []interface{}{obj{"o": "startup-lds", "stamp": inboundStamp}}
	obs0 := h.observe(0)
	var res string
	h.step(obj{"o": "get", "rt": "cds", "n": "c1"}, func() { res = w.get(rtOf("cds"), "c1") })
	h.steps[len(h.steps)-1].(obj)["obs"].(obj)["get"] = res
	h.step(obj{"o": "push", "rt": "cds", "v": "v1", "nonce": "n1", "slots": slotsJSON([][3]string{{"good", "c1", "c1#1"}})}, func() {
		w.feed(mkResp(urlOf("cds"), "v1", "n1", []*anypb.Any{anyStamped("cds", "c1", "c1#1")}))
	})
	names := make([]string, k)
	for i := range names {
		names[i] = fmt.Sprintf("s%d", i+1)
	}
	gate := make(chan struct{})
	w.ads.mu.Lock()
	w.ads.streams[len(w.ads.streams)-1].sendGate = gate
	w.ads.mu.Unlock()
	h.step(obj{"o": "stalled-reconnect", "rt": "cds", "first": "s0", "names": names}, func() {
		_ = w.get(rtOf("cds"), "s0") // its request is taken by the sender, which blocks in Send
		w.waitFor(func() bool { return w.m.VerifQueueLen() == 0 }, 5*time.Second)
		w.feedErr(errors.New("verif: stream reset"))
		// the receiver closes the stream, connects again, drains, publishes, and waits in Recv on the new stream
		w.waitFor(func() bool {
			w.ads.mu.Lock()
			defer w.ads.mu.Unlock()
			return len(w.ads.streams) == 2 && w.ads.streams[1].waiting
		}, 10*time.Second)
		for _, n := range names {
			_ = w.get(rtOf("cds"), n)
		}
		w.ads.mu.Lock()
		for _, s := range w.ads.streams {
			s.sendGate = nil
		}
		w.ads.mu.Unlock()
		close(gate)
	})
	uni := obj{"lds": []string{xdsresource.ReservedLdsResourceName}, "rds": []string{}, "cds": []string{"c1"}, "eds": []string{}}
	c.count("stalled-reconnect", 1)
	h.emitHist(c, obj{"op": "hist", "cfg": obj{"nds": false, "ns": "default", "dom": "cluster.local"}, "universe": uni,
		"pre": pre, "obs0": obs0, "steps": h.steps})
}

// doubleFailure: two stream failures back to back while the sender is stuck in Send on the first stream: the receiver
// reconnects (stream 2 is published, nobody has taken it yet), stream 2 fails as well, the receiver reconnects again
// (stream 3) and has to hand it over too. When the sender comes back it must end up on the LIVE stream, stream 3, and
// re-subscribe there (C04).
func doubleFailure(c *ctx) {
	w, err := newWorld(worldOpts{ndsNotRequired: true, fetchTimeout: time.Millisecond})
	if err != nil {
		fmt.Println("hist: world:", err)
		return
	}
	defer w.close()
	h := &histRun{c: c, w: w}
	pre := []interface{}{obj{"o": "startup-lds", "stamp": inboundStamp}}
	obs0 := h.observe(0)
	var res string
	h.step(obj{"o": "get", "rt": "cds", "n": "c1"}, func() { res = w.get(rtOf("cds"), "c1") })
	h.steps[len(h.steps)-1].(obj)["obs"].(obj)["get"] = res
	h.step(obj{"o": "push", "rt": "cds", "v": "v1", "nonce": "n1", "slots": slotsJSON([][3]string{{"good", "c1", "c1#1"}})}, func() {
		w.feed(mkResp(urlOf("cds"), "v1", "n1", []*anypb.Any{anyStamped("cds", "c1", "c1#1")}))
	})
	gate := make(chan struct{})
	w.ads.mu.Lock()
	w.ads.streams[len(w.ads.streams)-1].sendGate = gate
	w.ads.mu.Unlock()
	h.step(obj{"o": "double-failure", "rt": "cds", "first": "s0"}, func() {
		_ = w.get(rtOf("cds"), "s0") // its request is taken by the sender, which blocks in Send
		w.waitFor(func() bool { return w.m.VerifQueueLen() == 0 }, 5*time.Second)
		w.feedErr(errors.New("verif: stream reset"))
		w.waitFor(func() bool {
			w.ads.mu.Lock()
			defer w.ads.mu.Unlock()
			return len(w.ads.streams) == 2 && w.ads.streams[1].waiting
		}, 10*time.Second)
		w.feedErr(errors.New("verif: stream reset again"))
		// the receiver closes stream 2, creates stream 3 and tries to hand it over (the hand-off slot is still occupied)
		w.waitFor(func() bool {
			w.ads.mu.Lock()
			defer w.ads.mu.Unlock()
			return len(w.ads.streams) == 3
		}, 10*time.Second)
		time.Sleep(20 * time.Millisecond)
		w.ads.mu.Lock()
		for _, s := range w.ads.streams {
			s.sendGate = nil
		}
		w.ads.mu.Unlock()
		close(gate)
	})
	uni := obj{"lds": []string{xdsresource.ReservedLdsResourceName}, "rds": []string{}, "cds": []string{"c1"}, "eds": []string{}}
	c.count("double-failure", 1)
	h.emitHist(c, obj{"op": "hist", "cfg": obj{"nds": false, "ns": "default", "dom": "cluster.local"}, "universe": uni,
		"pre": pre, "obs0": obs0, "steps": h.steps})
}

// outage: the stream fails and stream creation keeps failing for more than one whole reconnect budget (the back-off
// policy is replaced by a 3-attempt constant one through a verif hook); cached resources stay served meanwhile; when
// the control plane is reachable again the client must open a new stream and re-subscribe (C04).
func outage(c *ctx, budgets, burst int) {
	w, err := newWorld(worldOpts{ndsNotRequired: true, fetchTimeout: time.Millisecond})
	if err != nil {
		fmt.Println("hist: world:", err)
		return
	}
	defer w.close()
	w.m.VerifSetConnectBackoff(backoff.WithMaxRetries(backoff.NewConstantBackOff(time.Millisecond), 2))
	h := &histRun{c: c, w: w}
	pre := []interface{}{obj{"o": "startup-lds", "stamp": inboundStamp}}
	obs0 := h.observe(0)
	var res string
	h.step(obj{"o": "get", "rt": "eds", "n": "e1"}, func() { res = w.get(rtOf("eds"), "e1") })
	h.steps[len(h.steps)-1].(obj)["obs"].(obj)["get"] = res
	h.step(obj{"o": "push", "rt": "eds", "v": "v1", "nonce": "n1", "slots": slotsJSON([][3]string{{"good", "e1", "e1#1"}})}, func() {
		w.feed(mkResp(urlOf("eds"), "v1", "n1", []*anypb.Any{anyStamped("eds", "e1", "e1#1")}))
	})
	served := ""
	hang := false
	burstHang := false
	var returned int64
	names := make([]string, burst)
	for i := range names {
		names[i] = fmt.Sprintf("o%04d", i)
	}
	h.step(obj{"o": "outage", "budgets": budgets, "names": names}, func() {
		w.ads.mu.Lock()
		w.ads.failCreate = 1 << 30
		base := w.ads.createAttempts
		w.ads.mu.Unlock()
		w.feedErr(errors.New("verif: stream reset"))
		// 3 attempts per budget
		w.waitFor(func() bool {
			w.ads.mu.Lock()
			defer w.ads.mu.Unlock()
			return w.ads.createAttempts-base >= 3*budgets
		}, 10*time.Second)
		served = w.get(rtOf("eds"), "e1")
		if burst > 0 {
			// more lookups miss during the outage than the request channel holds: each of them must still come back
			// with its time-out error (nothing reaches the control plane; the re-subscription will carry the names)
			done := make(chan struct{})
			go func() {
				for _, nm := range names {
					_ = w.get(rtOf("eds"), nm)
					atomic.AddInt64(&returned, 1)
				}
				close(done)
			}()
			select {
			case <-done:
			case <-time.After(time.Duration(burst)*6*time.Millisecond + 6*time.Second):
				burstHang = true
				return
			}
		}
		w.ads.mu.Lock()
		w.ads.failCreate = 0
		w.ads.mu.Unlock()
		if !w.waitFor(func() bool {
			w.ads.mu.Lock()
			defer w.ads.mu.Unlock()
			return len(w.ads.streams) >= 2
		}, 5*time.Second) {
			hang = true
		}
	})
	last := h.steps[len(h.steps)-1].(obj)
	if ob, ok := last["obs"].(obj); ok {
		ob["servedDuring"] = served
		ob["noNewStream"] = hang
		if burstHang {
			// the step's settle timed out as well ("hang"); say where
			ob["burstHang"] = true
			ob["returned"] = atomic.LoadInt64(&returned)
		}
	}
	uni := obj{"lds": []string{xdsresource.ReservedLdsResourceName}, "rds": []string{}, "cds": []string{}, "eds": []string{"e1"}}
	c.count("outage", 1)
	h.emitHist(c, obj{"op": "hist", "cfg": obj{"nds": false, "ns": "default", "dom": "cluster.local"}, "universe": uni,
		"pre": pre, "obs0": obs0, "steps": h.steps})
}

func runHistories(c *ctx, prof histProfile, n int) {
	for i := 0; i < n && !c.expired(); i++ {
		genHistory(c, prof, i%3 != 2, i%7 == 6)
	}
}

func init() {
	props["C01"] = func(c *ctx) {
		for _, rt := range []string{"rds", "eds"} {
			evictDuringUpdate(c, rt)
		}
		runHistories(c, histProfile{steps: 40, pFault: 3, pEvict: 6, pBad: 10, pUnsolicited: 25, pGet: 40, sendFail: false}, 60*c.budget)
	}
	props["C02"] = func(c *ctx) {
		flowCase(c, "ack", 1040)
		stalledAck(c, 1040, c.rng.chance(50))
		stalledAck2(c, 12, true, true)
		stalledAck2(c, 12, false, true)
		if c.thorough() {
			stalledAck(c, 1040, false)
			stalledAck(c, 1040, true)
		}
		runHistories(c, histProfile{steps: 40, pFault: 2, pEvict: 5, pBad: 40, pUnsolicited: 15, pGet: 30}, 60*c.budget)
	}
	props["C03"] = func(c *ctx) {
		stalledBurst(c, 1040)
		flowCase(c, "burst", 1040)
		for _, rt := range []string{"cds", "eds"} {
			parkedAck(c, rt)
		}
		// a stream failure racing ONE lookup: the sender takes either the queued request first (it goes to the dead stream,
		// so the re-subscription must carry the change) or the new stream first; both orders occur over the repetitions
		for i := 0; i < 10*c.budget && !c.expired(); i++ {
			stalledReconnect(c, 1+i%2)
		}
		// two stream failures in a row while the sender is still inside a Send on the first broken stream
		doubleFailure(c)
		runHistories(c, histProfile{steps: 50, pFault: 6, pEvict: 8, pBad: 10, pUnsolicited: 10, pGet: 55}, 50*c.budget)
	}
	props["C04"] = func(c *ctx) {
		stopFlood(c, 1030)
		for i := 0; i < 6*c.budget && !c.expired(); i++ {
			stalledReconnect(c, 3+c.rng.intn(5))
		}
		for i := 0; i < 6*c.budget && !c.expired(); i++ {
			stalledReconnect(c, 1+i%2)
		}
		doubleFailure(c)
		parkedWatchReconnect(c)
		flowCase(c, "stop", 1040)
		for i := 0; i < 4*c.budget && !c.expired(); i++ {
			drainRace(c, 700)
		}
		slowOutage(c)
		outage(c, 1, 0)
		outage(c, 3, 0)
		outage(c, 1, 1040)
		runHistories(c, histProfile{steps: 30, pFault: 22, pEvict: 4, pBad: 15, pUnsolicited: 10, pGet: 35, authStop: true, createFail: c.thorough(), sendFail: true}, 50*c.budget)
	}
}

// emitHist emits a history unless its world has lived for so long that the REAL cleaner (a 30 s ticker from the manager's
// creation; it removes what has been idle for more than 30 s, so not before the world is 60 s old) may have run inside
// it: histories take well under a second, an older world means the process was starved, and what the real cleaner did
// then is not part of the script. (The sweep worlds of C19 wait for real ticks on purpose and do not come through here.)
func (h *histRun) emitHist(c *ctx, o obj) {
	if age := time.Since(h.w.created); age > 45*time.Second {
		c.count("discarded.world-older-than-45s", 1)
		return
	}
	c.emit(o)
}
