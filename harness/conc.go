package main

import (
	"bytes"
	"context"
	"errors"
	"fmt"
	v3listenerpb "github.com/envoyproxy/go-control-plane/envoy/config/listener/v3"
	v3routepb "github.com/envoyproxy/go-control-plane/envoy/config/route/v3"
	"runtime"
	"sort"
	"strconv"
	"strings"
	"sync"
	"sync/atomic"
	"time"

	"google.golang.org/protobuf/types/known/anypb"

	"github.com/kitex-contrib/xds/core/manager"
	"github.com/kitex-contrib/xds/core/xdsresource"
)

// Deterministic schedules of concurrent lookups (C05–C07): every lookup runs in its own goroutine and
// parks at the four yield points of Get until the script releases it. The schedule actually taken
// (including which select arm fired) is the trace.

type ctxKey struct{}

type cthread struct {
	id        int
	name      string
	point     int // 0 running / in select, 1..4 parked at that yield point
	inSel     bool
	done      bool
	result    string
	gate      chan struct{}
	cancel    context.CancelFunc
	cancelled bool
	gid       int64 // goroutine id of the lookup (to read its scheduler state)
	sched     *csched
	startAt   time.Time
}

type csched struct {
	mu      sync.Mutex
	threads map[int]*cthread
	closed  bool
}

var (
	curSched   *csched
	curSchedMu sync.Mutex
	yieldOnce  sync.Once
)

func installYield() {
	yieldOnce.Do(func() {
		manager.SetVerifYield(func(ctx context.Context, point int, rt xdsresource.ResourceType, name string) {
			if point == 7 {
				flowYield() // a producer about to hand its request to the channel (flow.go)
				return
			}
			if point >= 5 {
				recvYield(point) // receiver goroutine between the sections of a response handler (sysrun.go)
				return
			}
			t, ok := ctx.Value(ctxKey{}).(*cthread)
			if !ok || t == nil {
				return
			}
			s := t.sched
			s.mu.Lock()
			if s.closed {
				// the run is over: the lookup is only being drained
				s.mu.Unlock()
				return
			}
			t.point = point
			t.inSel = false
			gate := t.gate
			s.mu.Unlock()
			<-gate
		})
	})
}

type concRun struct {
	rt     string // "cds" (default), "lds", ...
	w      *world
	s      *csched
	trace  []interface{}
	cached map[string]bool
	// alias: with the name table required, the listener of a looked-up name is the one the control plane calls
	// alias[name] (<ip>_<port>); several names may share one listener
	alias map[string]string
	// stuck: a party is blocked where nothing can release it (a lock that nobody gives back): the schedule ends there
	stuck string
}

// stuckSchedules counts the schedules of this process that ended stuck; after a few of them the enumeration stops
// (every one costs its patience in real time and they all say the same).
var stuckSchedules int32

// concAlias / concAliasTable: set by a scenario that runs with the name table required (see concScenario.alias).
var (
	concAlias      map[string]string
	concAliasTable []kv
)

func newConcRun(names []string, rt string, fetch ...time.Duration) (*concRun, error) {
	if rt == "" {
		rt = "cds"
	}
	installYield()
	ft := time.Hour
	if len(fetch) > 0 && fetch[0] > 0 {
		ft = fetch[0]
	}
	w, err := newWorld(worldOpts{ndsNotRequired: concAlias == nil, fetchTimeout: ft})
	if err != nil {
		return nil, err
	}
	if concAlias != nil {
		// the name table that binds the looked-up names to their listeners
		if !w.push(mkResp(xdsresource.NameTableTypeURL, "t1", "tn1", []*anypb.Any{anyNameTable(concAliasTable)})) {
			return nil, errors.New("conc: name table not accepted")
		}
	}
	s := &csched{threads: map[int]*cthread{}}
	curSchedMu.Lock()
	curSched = s
	curSchedMu.Unlock()
	// the names are subscribed already (an earlier lookup asked for them): updates for them are accepted
	for _, n := range names {
		w.m.VerifWatch(rtOf(rt), n, false)
	}
	w.settle()
	return &concRun{rt: rt, w: w, s: s, cached: map[string]bool{}, alias: concAlias}, nil
}

// close ends the run: every lookup still parked or waiting is cancelled and released, so that no goroutine
// outlives its run (the yield hook is a no-op for a closed run).
func (r *concRun) close() {
	curSchedMu.Lock()
	curSched = nil
	curSchedMu.Unlock()
	r.s.mu.Lock()
	r.s.closed = true
	for _, t := range r.s.threads {
		t.cancel()
		close(t.gate)
	}
	r.s.mu.Unlock()
	r.w.close()
}

func (r *concRun) snapshot(id int) (point int, inSel, done bool, result string) {
	r.s.mu.Lock()
	defer r.s.mu.Unlock()
	t := r.s.threads[id]
	return t.point, t.inSel, t.done, t.result
}

// goid returns the id of the calling goroutine.
func goid() int64 {
	var buf [64]byte
	n := runtime.Stack(buf[:], false)
	f := bytes.Fields(buf[:n])
	if len(f) < 2 {
		return -1
	}
	id, _ := strconv.ParseInt(string(f[1]), 10, 64)
	return id
}

var stackBuf = make([]byte, 4<<20)

// gstate returns the scheduler state of goroutine gid ("select", "chan receive", "runnable", "running", ...)
// and whether its stack is inside the yield hook of this harness.
func gstate(gid int64) (state string, inHook bool) {
	n := runtime.Stack(stackBuf, true)
	dump := stackBuf[:n]
	hdr := []byte(fmt.Sprintf("goroutine %d [", gid))
	i := bytes.Index(dump, hdr)
	if i < 0 {
		return "gone", false
	}
	rest := dump[i+len(hdr):]
	j := bytes.IndexByte(rest, ']')
	if j < 0 {
		return "?", false
	}
	state = string(rest[:j])
	if k := bytes.IndexByte([]byte(state), ','); k >= 0 {
		state = state[:k]
	}
	end := bytes.Index(rest, []byte("\n\n"))
	if end < 0 {
		end = len(rest)
	}
	inHook = bytes.Contains(rest[:end], []byte("main.installYield"))
	return state, inHook
}

// waitParked waits until thread id is parked at a yield point or done (true), or is blocked inside Get
// (false). Blocked is read from the Go scheduler, not guessed from a timeout: close(ch) and cancel() make
// the goroutines they release runnable before they return, so a goroutine that is still in state "select"
// (or "chan receive" outside the yield hook) after the releasing call has returned was not released.
// `d` only bounds the wait for a goroutine that is neither (it is running, or waits for a mutex).
func (r *concRun) waitParked(id int, d time.Duration) bool {
	deadline := time.Now().Add(d)
	for spin := 0; ; spin++ {
		p, _, done, _ := r.snapshot(id)
		if p != 0 || done {
			return true
		}
		r.s.mu.Lock()
		gid := r.s.threads[id].gid
		r.s.mu.Unlock()
		if gid > 0 && spin%4 == 3 {
			st, inHook := gstate(gid)
			if (st == "select" || st == "chan receive") && !inHook {
				// re-read the flags: the goroutine may have parked between the two observations
				p, _, done, _ = r.snapshot(id)
				if p != 0 || done {
					return true
				}
				return false
			}
		}
		if time.Now().After(deadline) {
			if gid > 0 && d >= 5*time.Second && r.stuck == "" {
				st, _ := gstate(gid)
				r.stuck = fmt.Sprintf("lookup %d neither reached its next point nor waits in its select after %v (goroutine state: %s)", id, d, st)
			}
			return false
		}
		time.Sleep(20 * time.Microsecond)
	}
}

func (r *concRun) start(id int, name string) {
	t := &cthread{id: id, name: name, gate: make(chan struct{}), sched: r.s, startAt: time.Now()}
	ctx, cancel := context.WithCancel(context.WithValue(context.Background(), ctxKey{}, t))
	t.cancel = cancel
	r.s.mu.Lock()
	r.s.threads[id] = t
	r.s.mu.Unlock()
	go func() {
		var res interface{}
		var err error
		g := goid()
		r.s.mu.Lock()
		t.gid = g
		r.s.mu.Unlock()
		p, msg := recoverTo(func() { res, err = r.w.m.Get(ctx, rtOf(r.rt), name) })
		out := ""
		if p {
			out = "panic:" + msg
		} else {
			out = canonGet(rtOf(r.rt), res, err)
		}
		r.s.mu.Lock()
		t.done, t.result, t.point, t.inSel = true, out, 0, false
		r.s.mu.Unlock()
	}()
	r.waitParked(id, 10*time.Second)
	p, _, done, res := r.snapshot(id)
	e := obj{"s": "start", "i": id, "n": name}
	if done {
		e["done"] = res
	} else {
		e["at"] = p
	}
	r.trace = append(r.trace, e)
}

// release lets a parked thread run to its next yield point (or into the select, or to completion).
func (r *concRun) release(id int) {
	r.s.mu.Lock()
	t := r.s.threads[id]
	from := t.point
	t.point = 0
	if from == 2 {
		t.inSel = true
	}
	gate := t.gate
	t.gate = make(chan struct{})
	r.s.mu.Unlock()
	close(gate)
	e := obj{"s": "go", "i": id, "from": from}
	if from == 2 {
		// the thread enters the select; if its notifier is already closed (or it was cancelled) it comes out at once
		if r.waitParked(id, 5*time.Second) {
			p, _, _, _ := r.snapshot(id)
			e["at"] = p
			e["elapsedMs"] = time.Since(t.startAt).Milliseconds()
		}
		r.trace = append(r.trace, e)
		return
	}
	r.waitParked(id, 10*time.Second)
	p, _, done, res := r.snapshot(id)
	if done {
		e["done"] = res
	} else {
		e["at"] = p
	}
	r.trace = append(r.trace, e)
}

func (r *concRun) selecting() []int {
	r.s.mu.Lock()
	defer r.s.mu.Unlock()
	var out []int
	for id, t := range r.s.threads {
		if t.inSel && !t.done {
			out = append(out, id)
		}
	}
	sort.Ints(out)
	return out
}

// deliver pushes an accepted cluster response; afterwards the threads that left the select are recorded.
func (r *concRun) deliver(items [][2]string, version int) {
	var anys []*anypb.Any
	ij := make([]interface{}, 0)
	// an update is *accepted* for the names that are subscribed when it arrives (C01); only those are reported
	interest := map[string]bool{}
	for _, n := range r.w.m.VerifInterest()[rtOf(r.rt)] {
		interest[n] = true
	}
	sentWire := map[string]bool{}
	for _, it := range items {
		wire := it[0]
		if a, ok := r.alias[it[0]]; ok {
			wire = a
		}
		if !sentWire[wire] {
			sentWire[wire] = true
			anys = append(anys, anyStamped(r.rt, wire, it[1]))
		}
		if interest[it[0]] {
			ij = append(ij, []interface{}{it[0], it[1]})
			r.cached[it[0]] = true
		}
	}
	for n := range r.cached {
		found := false
		for _, it := range items {
			if it[0] == n && interest[n] {
				found = true
			}
		}
		if !found {
			delete(r.cached, n) // clusters are a full type: omitted names are dropped
		}
	}
	before := r.selecting()
	r.w.push(mkResp(urlOf(r.rt), fmt.Sprintf("v%d", version), fmt.Sprintf("n%d", version), anys))
	// threads in the select whose name was delivered should come out at yield point 3
	names := map[string]bool{}
	for _, it := range items {
		names[it[0]] = true
	}
	woke := []interface{}{}
	for _, id := range before {
		r.s.mu.Lock()
		nm := r.s.threads[id].name
		r.s.mu.Unlock()
		if names[nm] {
			r.waitParked(id, 25*time.Millisecond)
		}
		if p, _, _, _ := r.snapshot(id); p != 0 {
			woke = append(woke, []interface{}{id, p})
		}
	}
	r.trace = append(r.trace, obj{"s": "deliver", "full": true, "items": ij, "woke": woke})
}

// streamFail: the stream breaks with a transient error and the client reconnects. Lookups that wait are not concerned:
// the response that supplies them can still arrive on the new stream before their deadline.
func (r *concRun) streamFail() {
	before := r.selecting()
	r.w.ads.mu.Lock()
	n0 := len(r.w.ads.streams)
	r.w.ads.mu.Unlock()
	r.w.feedErr(errors.New("verif: connection reset by peer"))
	r.w.waitFor(func() bool {
		r.w.ads.mu.Lock()
		defer r.w.ads.mu.Unlock()
		return len(r.w.ads.streams) > n0
	}, 5*time.Second)
	r.w.settle()
	woke := []interface{}{}
	for _, id := range before {
		r.waitParked(id, 25*time.Millisecond)
		if p, _, done, _ := r.snapshot(id); p != 0 || done {
			woke = append(woke, []interface{}{id, p})
		}
	}
	r.trace = append(r.trace, obj{"s": "streamfail", "woke": woke})
}

func (r *concRun) cancelT(id int) {
	r.s.mu.Lock()
	t := r.s.threads[id]
	t.cancelled = true
	r.s.mu.Unlock()
	t.cancel()
	e := obj{"s": "cancel", "i": id}
	if r.waitParked(id, 5*time.Second) {
		p, _, _, _ := r.snapshot(id)
		e["at"] = p
	}
	r.trace = append(r.trace, e)
}

func (r *concRun) evict(name string) {
	delete(r.cached, name)
	done := make(chan struct{})
	go func() { r.w.m.VerifEvict(rtOf(r.rt), name); close(done) }()
	select {
	case <-done:
	case <-time.After(5 * time.Second):
		if r.stuck == "" {
			r.stuck = "the eviction of " + name + " waits for the manager lock for 5s while no lookup is running"
		}
		return
	}
	r.w.settle()
	r.trace = append(r.trace, obj{"s": "evict", "n": name})
}

// finish drives every thread to completion; a thread still in the select is cancelled (that it needed its
// deadline is recorded: `forced`).
func (r *concRun) finish() {
	for round := 0; round < 50 && r.stuck == ""; round++ {
		progress := false
		r.s.mu.Lock()
		var ids []int
		for id := range r.s.threads {
			ids = append(ids, id)
		}
		r.s.mu.Unlock()
		sort.Ints(ids)
		for _, id := range ids {
			p, inSel, done, _ := r.snapshot(id)
			switch {
			case done:
			case p != 0:
				r.release(id)
				progress = true
			case inSel:
				r.trace = append(r.trace, obj{"s": "forced", "i": id})
				r.cancelT(id)
				progress = true
			}
		}
		if !progress {
			break
		}
	}
	res := obj{}
	r.s.mu.Lock()
	for id, t := range r.s.threads {
		res[fmt.Sprint(id)] = obj{"n": t.name, "done": t.done, "result": t.result}
	}
	r.s.mu.Unlock()
	r.trace = append(r.trace, obj{"s": "end", "results": res})
}

// ---- scenarios ----

// a schedule is a list of abstract actions: "T<i>" advance thread i (start it or release it), "D<k>" deliver
// update k, "C<i>" fire thread i's deadline, "E<name>" evict.
type concScenario struct {
	rt      string        // resource type of the lookups ("" = cds)
	names   []string      // thread i looks up names[i]
	updates [][][2]string // cluster sets to deliver, in order
	cancels []int         // threads whose deadline may fire
	evicts  []string
	fetch   time.Duration // fetch timeout of the manager (0: one hour, deadlines come from caller cancellation only)
	// alias/table: run with the name table required; alias maps each looked-up listener name to the control plane's name
	alias map[string]string
	table []kv
}

func runSchedule(c *ctx, sc concScenario, actions []string, emit bool) (avail []string, lost bool) {
	uniq := map[string]bool{}
	var names []string
	for _, n := range sc.names {
		if !uniq[n] {
			uniq[n] = true
			names = append(names, n)
		}
	}
	concAlias, concAliasTable = sc.alias, sc.table
	r, err := newConcRun(names, sc.rt, sc.fetch)
	concAlias, concAliasTable = nil, nil
	if err != nil {
		fmt.Println("conc:", err)
		return nil, false
	}
	defer r.close()
	started := map[int]bool{}
	delivered, cancelled, evicted := 0, map[int]bool{}, map[string]bool{}
	for _, a := range actions {
		var k int
		var nm string
		if r.stuck != "" {
			break
		}
		switch a[0] {
		case 'T':
			fmt.Sscanf(a, "T%d", &k)
			if !started[k] {
				started[k] = true
				r.start(k, sc.names[k])
			} else {
				r.release(k)
			}
		case 'D':
			r.deliver(sc.updates[delivered], delivered+1)
			delivered++
		case 'C':
			fmt.Sscanf(a, "C%d", &k)
			cancelled[k] = true
			r.cancelT(k)
		case 'E':
			nm = a[1:]
			evicted[nm] = true
			r.evict(nm)
		case 'F': // the stream fails and is re-established (only in fixed schedules)
			r.streamFail()
		case 'S': // real time passes (only in fixed schedules)
			fmt.Sscanf(a, "S%d", &k)
			time.Sleep(time.Duration(k) * time.Millisecond)
		}
	}
	if r.stuck != "" {
		// nothing can release the blocked party: the schedule is reported as it stands
		if emit {
			atomic.AddInt32(&stuckSchedules, 1)
			r.trace = append(r.trace, obj{"s": "stuck", "what": r.stuck})
			sj := obj{"names": sc.names, "rt": r.rt, "ftMs": sc.fetch.Milliseconds()}
			c.emit(obj{"op": "sched", "scenario": sj, "actions": actions, "trace": r.trace})
		}
		return nil, false
	}
	// what can happen next (from the observed phases)
	for i := range sc.names {
		if !started[i] {
			avail = append(avail, fmt.Sprintf("T%d", i))
			continue
		}
		p, inSel, done, _ := r.snapshot(i)
		if done {
			continue
		}
		if p != 0 {
			avail = append(avail, fmt.Sprintf("T%d", i))
		} else if inSel {
			for _, ci := range sc.cancels {
				if ci == i && !cancelled[i] {
					avail = append(avail, fmt.Sprintf("C%d", i))
				}
			}
		}
	}
	if delivered < len(sc.updates) {
		avail = append(avail, "D")
	}
	for _, e := range sc.evicts {
		// the cleaner only evicts what is cached
		if !evicted[e] && r.cached[e] {
			avail = append(avail, "E"+e)
		}
	}
	if emit {
		r.finish()
		if r.stuck != "" {
			atomic.AddInt32(&stuckSchedules, 1)
			r.trace = append(r.trace, obj{"s": "stuck", "what": r.stuck})
		}
		sj := obj{"names": sc.names, "rt": r.rt, "ftMs": sc.fetch.Milliseconds()}
		c.emit(obj{"op": "sched", "scenario": sj, "actions": actions, "trace": r.trace})
	}
	return avail, false
}

// enumerate explores every schedule of the scenario (stateless search with re-execution), up to `limit` complete schedules.
func enumerate(c *ctx, sc concScenario, limit int) int {
	count := 0
	var dfs func(prefix []string)
	dfs = func(prefix []string) {
		if count >= limit || c.expired() || atomic.LoadInt32(&stuckSchedules) >= 3 {
			return
		}
		avail, _ := runSchedule(c, sc, prefix, false)
		// a schedule is complete when only thread-finishing moves remain and all environment events happened or no more choices
		if len(avail) == 0 {
			runSchedule(c, sc, prefix, true)
			count++
			return
		}
		for _, a := range avail {
			if count >= limit {
				return
			}
			dfs(append(append([]string{}, prefix...), a))
		}
	}
	dfs(nil)
	return count
}

func randomSchedule(c *ctx, sc concScenario) {
	var prefix []string
	for step := 0; step < 60; step++ {
		avail, _ := runSchedule(c, sc, prefix, false)
		if len(avail) == 0 {
			break
		}
		prefix = append(prefix, avail[c.rng.intn(len(avail))])
	}
	runSchedule(c, sc, prefix, true)
}

// gBlockedOnMutex: the goroutine waits for a sync.Mutex / RWMutex (read from the scheduler, see gstate).
func gBlockedOnMutex(gid int64) bool {
	st, _ := gstate(gid)
	return strings.Contains(st, "Mutex") || st == "semacquire"
}

// deliverDuringWatch: an update arrives while a lookup that missed is inside its registration section, stalled in
// Watch (the script holds the client's lock through a verif hook). Get's registration is one critical section of m.mu:
// the update has to wait for it, finds the notifier and wakes the lookup. If the section were torn (m.mu released around
// Watch) the update would slip in before the notifier exists and the lookup would wait for its deadline.
func deliverDuringWatch(c *ctx, name string) {
	r, err := newConcRun(nil, "cds")
	if err != nil {
		fmt.Println("conc:", err)
		return
	}
	defer r.close()
	r.start(0, name) // parks at point 1 (missed)
	r.w.m.VerifLockClient()
	// release the lookup without waiting for it to park: it stalls in Watch
	r.s.mu.Lock()
	t := r.s.threads[0]
	t.point = 0
	gate := t.gate
	t.gate = make(chan struct{})
	gid := t.gid
	r.s.mu.Unlock()
	close(gate)
	r.w.waitFor(func() bool { return gBlockedOnMutex(gid) }, 5*time.Second)
	// the update, straight into the manager (the client's own handlers need the lock the script is holding)
	res, _ := xdsresource.UnmarshalCDS([]*anypb.Any{anyStamped("cds", name, name+"#1")})
	up := map[string]xdsresource.Resource{}
	for k, v := range res {
		up[k] = v
	}
	dDone := make(chan struct{})
	var dGid int64
	var dMu sync.Mutex
	go func() {
		dMu.Lock()
		dGid = goid()
		dMu.Unlock()
		r.w.m.UpdateResource(xdsresource.ClusterType, up, "v1")
		close(dDone)
	}()
	deliveredFirst := false
	r.w.waitFor(func() bool {
		select {
		case <-dDone:
			deliveredFirst = true
			return true
		default:
		}
		dMu.Lock()
		g := dGid
		dMu.Unlock()
		return g > 0 && gBlockedOnMutex(g)
	}, 5*time.Second)
	deliverEv := obj{"s": "deliver", "full": true, "items": []interface{}{[]interface{}{name, name + "#1"}}, "woke": []interface{}{}}
	if deliveredFirst {
		r.trace = append(r.trace, deliverEv)
	}
	r.w.m.VerifUnlockClient()
	r.waitParked(0, 10*time.Second)
	p, _, done, dres := r.snapshot(0)
	e := obj{"s": "go", "i": 0, "from": 1}
	if done {
		e["done"] = dres
	} else {
		e["at"] = p
	}
	r.trace = append(r.trace, e)
	if !deliveredFirst {
		<-dDone
		r.trace = append(r.trace, deliverEv)
	}
	r.w.settle()
	r.finish()
	c.count("deliver-during-watch", 1)
	c.emit(obj{"op": "sched", "scenario": obj{"names": []string{name}, "rt": "cds", "kind": "deliver-during-watch"}, "actions": []string{"T0", "lock", "T0", "D", "unlock"}, "trace": r.trace})
}

// deadlineCases: wall-clock side of C05 (not expressible in the model): a lookup of a resource that never arrives
// returns an error no later than the earlier of the fetch timeout and the caller's deadline / cancellation, plus slack.
// kindCases: lookups with kinds that are not resource kinds (the zero kind, negative numbers, numbers above the name
// table) on a real manager: rejected at once, and nothing is left behind (no subscription, no request, no waiter).
func kindCases(c *ctx) {
	for _, k := range []int{-7, -1, 0, 1, 3, 5, 6, 10, 1 << 20} {
		w, err := newWorld(worldOpts{ndsNotRequired: true, fetchTimeout: 300 * time.Millisecond})
		if err != nil {
			fmt.Println("kind: world:", err)
			return
		}
		before := fmt.Sprint(w.m.VerifInterest())
		mark := w.mark()
		t0 := time.Now()
		var res interface{}
		var gerr error
		p, msg := recoverTo(func() { res, gerr = w.m.Get(context.Background(), xdsresource.ResourceType(k), "some-name") })
		el := time.Since(t0)
		w.settle()
		out := canonGet(xdsresource.ResourceType(k), res, gerr)
		if p {
			out = "panic:" + msg
		}
		pend := 0
		for _, ns := range w.m.VerifPending() {
			pend += len(ns)
		}
		c.count("kind-cases", 1)
		c.emit(obj{"op": "kind", "kind": k, "obs": obj{"result": out, "elapsedMs": el.Milliseconds(), "interestChanged": fmt.Sprint(w.m.VerifInterest()) != before,
			"requests": len(w.since(mark)), "waiters": pend}})
		w.close()
	}
}

// placeholderCases: lookups wait for two route tables (listeners, ...); the response carries one of them well-formed and
// the other under its own name but not convertible. The response is rejected as a whole: neither lookup may come back
// with a placeholder (a nil resource without an error) - what the control plane did not usably supply is an error.
func placeholderCases(c *ctx) {
	for _, rt := range []string{"rds", "lds"} {
		w, err := newWorld(worldOpts{ndsNotRequired: true, fetchTimeout: 400 * time.Millisecond})
		if err != nil {
			fmt.Println("placeholder: world:", err)
			return
		}
		T := rtOf(rt)
		type out struct{ name, res string }
		ch := make(chan out, 2)
		for _, n := range []string{"p-good", "p-bad"} {
			n := n
			go func() { ch <- out{n, w.get(T, n)} }()
		}
		w.waitFor(func() bool { return len(w.m.VerifPending()[T]) == 2 }, 2*time.Second)
		var bad *anypb.Any
		if rt == "rds" {
			bad = mustAny(&v3routepb.RouteConfiguration{Name: "p-bad", VirtualHosts: []*v3routepb.VirtualHost{{Name: "vh",
				Routes: []*v3routepb.Route{{Match: &v3routepb.RouteMatch{PathSpecifier: &v3routepb.RouteMatch_Prefix{Prefix: "/"}}}}}}})
		} else {
			l := listenerRDS("p-bad", "x")
			l.FilterChains[0].Filters[0].ConfigType.(*v3listenerpb.Filter_TypedConfig).TypedConfig.Value = []byte{0xff, 0xff, 0xff, 0xff, 0x0f, 0x01}
			bad = mustAny(l)
		}
		w.feed(mkResp(urlOf(rt), "v1", "n1", []*anypb.Any{anyStamped(rt, "p-good", "p-good#1"), bad}))
		res := map[string]string{}
		for i := 0; i < 2; i++ {
			select {
			case o := <-ch:
				res[o.name] = o.res
			case <-time.After(4 * time.Second):
				w.hung = true
			}
		}
		for _, n := range []string{"p-good", "p-bad"} {
			if _, ok := res[n]; !ok {
				res[n] = "hang"
			}
		}
		c.count("placeholder-cases", 1)
		c.emit(obj{"op": "placeholder", "rt": rt, "obs": obj{"good": res["p-good"], "bad": res["p-bad"]}})
		if !w.hung {
			w.close()
		}
	}
}

// agedRecordCase: a cluster (listener) was delivered once, then removed by a complete update - its access record stays
// behind until the next sweep -, and nobody asked for it for more than the expiry period. Now it is looked up again and
// the control plane lists it again: the waiting lookup returns it (an old access record says nothing about a resource
// that has just been delivered).
func agedRecordCase(c *ctx) {
	for _, rt := range []string{"cds", "lds"} {
		w, err := newWorld(worldOpts{ndsNotRequired: true, fetchTimeout: 2 * time.Second})
		if err != nil {
			fmt.Println("aged: world:", err)
			return
		}
		T := rtOf(rt)
		w.m.VerifWatch(T, "back-again", false)
		w.m.VerifWatch(T, "other", false)
		w.settle()
		w.push(mkResp(urlOf(rt), "v1", "n1", []*anypb.Any{anyStamped(rt, "back-again", "back-again#1"), anyStamped(rt, "other", "other#1")}))
		_ = w.get(T, "back-again")
		w.push(mkResp(urlOf(rt), "v2", "n2", []*anypb.Any{anyStamped(rt, "other", "other#2")})) // removed by the control plane
		aged := w.m.VerifBackdate(T, "back-again", 31*time.Second)
		ch := make(chan string, 1)
		go func() { ch <- w.get(T, "back-again") }()
		w.waitFor(func() bool {
			for _, n := range w.m.VerifPending()[T] {
				if n == "back-again" {
					return true
				}
			}
			return false
		}, 2*time.Second)
		w.feed(mkResp(urlOf(rt), "v3", "n3", []*anypb.Any{anyStamped(rt, "back-again", "back-again#3"), anyStamped(rt, "other", "other#3")}))
		res := "hang"
		select {
		case res = <-ch:
		case <-time.After(6 * time.Second):
			w.hung = true
		}
		c.count("aged-record-cases", 1)
		c.emit(obj{"op": "aged-record", "rt": rt, "obs": obj{"aged": aged, "result": res}})
		if !w.hung {
			w.close()
		}
	}
}

func deadlineCases(c *ctx) {
	for _, tc := range []struct {
		fetchMs, callerMs int
		cancel            bool
	}{{60, 0, false}, {60, 4000, false}, {4000, 60, false}, {4000, 60, true}, {80, 80, false}} {
		w, err := newWorld(worldOpts{ndsNotRequired: true, fetchTimeout: time.Duration(tc.fetchMs) * time.Millisecond})
		if err != nil {
			fmt.Println("deadline: world:", err)
			return
		}
		cx := context.Background()
		var cancelFn context.CancelFunc = func() {}
		if tc.callerMs > 0 {
			if tc.cancel {
				cx, cancelFn = context.WithCancel(cx)
				time.AfterFunc(time.Duration(tc.callerMs)*time.Millisecond, cancelFn)
			} else {
				cx, cancelFn = context.WithTimeout(cx, time.Duration(tc.callerMs)*time.Millisecond)
			}
		}
		type out struct {
			res string
			el  time.Duration
		}
		ch := make(chan out, 1)
		go func() {
			t0 := time.Now()
			var res interface{}
			var gerr error
			p, msg := recoverTo(func() { res, gerr = w.m.Get(cx, xdsresource.ClusterType, "never-delivered") })
			el := time.Since(t0)
			if p {
				ch <- out{"panic:" + msg, el}
			} else {
				ch <- out{canonGet(xdsresource.ClusterType, res, gerr), el}
			}
		}()
		var o out
		select {
		case o = <-ch:
		case <-time.After(8 * time.Second):
			o = out{"hang", 8 * time.Second}
		}
		cancelFn()
		w.close()
		c.count("deadline.cases", 1)
		c.emit(obj{"op": "deadline", "fetchMs": tc.fetchMs, "callerMs": tc.callerMs, "cancel": tc.cancel,
			"obs": obj{"result": o.res, "elapsedMs": o.el.Milliseconds()}})
	}
}

func init() {
	run := func(c *ctx) {
		scen := []concScenario{
			// one lookup, delivery somewhere, deadline somewhere
			{names: []string{"c1"}, updates: [][][2]string{{{"c1", "c1#1"}}}, cancels: []int{0}},
			// two lookups of one name, one delivery, the first may time out
			{names: []string{"c1", "c1"}, updates: [][][2]string{{{"c1", "c1#1"}}}, cancels: []int{0}},
			// two lookups of different names, one delivery for both
			{names: []string{"c1", "c2"}, updates: [][][2]string{{{"c1", "c1#1"}, {"c2", "c2#1"}}}, cancels: []int{1}},
			// delivery then removal (eviction) racing with the wake-up
			{names: []string{"c1"}, updates: [][][2]string{{{"c1", "c1#1"}}}, evicts: []string{"c1"}},
		}
		// a listener lookup (name-table-free configuration); the first response carries only another listener
		scen = append(scen, concScenario{rt: "lds", names: []string{"lx"}, updates: [][][2]string{{{"other", "o#1"}}, {{"lx", "lx#2"}}}, cancels: []int{0}})
		// two lookups of different names; the first response answers only one of them, the second both
		scen = append(scen, concScenario{names: []string{"c1", "c2"}, updates: [][][2]string{{{"c1", "c1#1"}}, {{"c1", "c1#2"}, {"c2", "c2#2"}}}, cancels: []int{1}})
		// two spellings of one service and port wait for one listener (name table required): the one response supplies both
		scen = append(scen, concScenario{rt: "lds", names: []string{"echo", "echo:80"}, updates: [][][2]string{{{"echo", "L#1"}, {"echo:80", "L#1"}}}, cancels: []int{0},
			alias: map[string]string{"echo": "10.0.0.1_80", "echo:80": "10.0.0.1_80"}, table: []kv{{"echo.default.svc.cluster.local", []string{"10.0.0.1"}}}})
		limits := []int{40, 90, 60, 40, 40, 60, 40}
		if c.thorough() {
			limits = []int{100000, 100000, 100000, 100000, 100000, 100000, 100000}
			scen = append(scen,
				concScenario{names: []string{"c1", "c1", "c1"}, updates: [][][2]string{{{"c1", "c1#1"}}}, cancels: []int{0, 1}},
				concScenario{names: []string{"c1", "c1"}, updates: [][][2]string{{{"c1", "c1#1"}}, {{"c1", "c1#2"}}}, cancels: []int{0}, evicts: []string{"c1"}})
			limits = append(limits, 1500, 1500)
		}
		// random schedules with more threads
		for i := 0; i < 15*c.budget && !c.expired(); i++ {
			nt := 3 + c.rng.intn(4)
			sc := concScenario{updates: [][][2]string{{{"c1", "c1#1"}, {"c2", "c2#1"}}, {{"c1", "c1#2"}}}}
			for t := 0; t < nt; t++ {
				sc.names = append(sc.names, []string{"c1", "c2"}[c.rng.intn(2)])
				if c.rng.chance(50) {
					sc.cancels = append(sc.cancels, t)
				}
			}
			if c.rng.chance(30) {
				sc.evicts = []string{"c1"}
			}
			randomSchedule(c, sc)
			c.count("random.schedules", 1)
		}
		if !c.noEnum {
			// fixed schedules that sit deep in the enumeration order. "Stale detach": lookup A is cancelled and is parked
			// after its deadline arm fired; its notifier is delivered and unregistered; the name leaves the cache again
			// (eviction, or a full update that omits it); lookup B misses and registers a NEW notifier for the same name;
			// only then A runs its detach; the next delivery must still wake B.
			aba := concScenario{names: []string{"c1", "c1"}, updates: [][][2]string{{{"c1", "c1#1"}}, {{"c1", "c1#2"}}}, cancels: []int{0}, evicts: []string{"c1"}}
			runSchedule(c, aba, []string{"T0", "T0", "T0", "C0", "D", "Ec1", "T1", "T1", "T1", "T0", "D"}, true)
			aba2 := concScenario{names: []string{"c1", "c1"}, updates: [][][2]string{{{"c1", "c1#1"}}, {{"other", "o#2"}}, {{"c1", "c1#3"}}}, cancels: []int{0}}
			runSchedule(c, aba2, []string{"T0", "T0", "T0", "C0", "D", "D", "T1", "T1", "T1", "T0", "D"}, true)
			// "stale timer": a lookup is woken before its fetch timeout but is held up (a slow handler, a busy lock) until
			// after it; whatever it leaves behind, the next lookup's deadline is ITS OWN fetch timeout, not an instant
			stale := concScenario{names: []string{"c1", "c2"}, updates: [][][2]string{{{"c1", "c1#1"}}, {{"c2", "c2#2"}}}, fetch: 400 * time.Millisecond}
			func() {
				// on one processor, so that whatever the first lookup recycles is what the next one picks up
				old := runtime.GOMAXPROCS(1)
				defer runtime.GOMAXPROCS(old)
				runSchedule(c, stale, []string{"T0", "T0", "T0", "D", "S480", "T0", "T1", "T1", "T1", "D"}, true)
			}()
			// a transient stream failure while lookups wait (one in the select, one parked before it): the response arrives on
			// the new stream, both must return it
			sf := concScenario{names: []string{"c1", "c1", "c2"}, updates: [][][2]string{{{"c1", "c1#1"}, {"c2", "c2#1"}}}}
			runSchedule(c, sf, []string{"T0", "T0", "T0", "T1", "T1", "F", "T1", "T2", "T2", "T2", "F", "D"}, true)
			c.count("fixed.schedules", 4)
		}
		for i, sc := range scen {
			if c.noEnum {
				break
			}
			te := time.Now()
			n := enumerate(c, sc, limits[i])
			c.count(fmt.Sprintf("scenario%d.schedules", i), n)
			c.count(fmt.Sprintf("scenario%d.ms", i), int(time.Since(te).Milliseconds()))
		}
	}
	runAll := func(c *ctx) {
		deliverDuringWatch(c, "w1")
		run(c)
		c.count("goroutines.at.end", runtime.NumGoroutine())
	}
	props["C05"] = func(c *ctx) {
		runAll(c)
		deadlineCases(c)
		kindCases(c)
		placeholderCases(c)
		agedRecordCase(c)
		// lookups (cached and uncached names) placed around and between the lock sections of a response handler: each
		// returns in time whatever the receiver is doing
		runSysLookups(c)
		// lookups that miss while the control plane is unreachable, more of them than the request channel holds
		outage(c, 1, 1040)
		slowOutage(c)
		// the request path at goroutine granularity: the bounded channel during an outage and during a reconnect
		flowCase(c, "outage", 1040)
		flowCase(c, "flood", 1040)
		flowCase(c, "flood", 100)
		// a transport that stays stalled for two seconds after the request channel has filled up: deadlines of the lookups
		flowCase(c, "stop", 1040)
		flowCaseHold(c, "burst", 1040, 2*time.Second)
		flowCaseHold(c, "burst", 100, 500*time.Millisecond)
	}
	props["C06"] = func(c *ctx) {
		agedRecordCase(c)
		// an update that runs a (slow) registered handler while lookups of the name it delivers arrive and wait: they return it
		for _, rt := range []string{"cds", "eds", "rds", "lds"} {
			handlerOrder(c, rt, "h-"+rt)
		}
		runAll(c)
	}
	props["C07"] = func(c *ctx) {
		t0 := time.Now()
		for _, rt := range []string{"cds", "eds", "rds", "lds"} {
			handlerOrder(c, rt, "h-"+rt)
		}
		c.count("ms.handlerOrder", int(time.Since(t0).Milliseconds()))
		t0 = time.Now()
		for _, rt := range []string{"cds", "eds", "rds", "lds"} {
			registrationRace(c, rt, "g-"+rt)
		}
		c.count("ms.registrationRace", int(time.Since(t0).Milliseconds()))
		for _, rt := range []string{"eds", "cds"} {
			dumpRace(c, rt)
		}
		for _, rt := range []string{"rds", "eds", "cds"} {
			lockStress(c, rt, 900)
		}
		lockStress(c, "rds", 3000)
		lockStress(c, "eds", 3000)
		cbPolicyBeforeData(c)
		for _, rt := range []string{"rds", "eds"} {
			evictDuringUpdate(c, rt)
		}
		for _, rt := range []string{"rds", "cds"} {
			handlerPanic(c, rt)
		}
		t0 = time.Now()
		runAll(c)
		c.count("ms.schedules", int(time.Since(t0).Milliseconds()))
		t0 = time.Now()
		runSys(c)
		c.count("ms.sections", int(time.Since(t0).Milliseconds()))
		t0 = time.Now()
		// the request path: a reconnect racing more lookups than the request channel holds (S12), and fewer
		for i := 0; i < 2*c.budget && !c.expired(); i++ {
			flowCase(c, "flood", 1040)
		}
		flowCase(c, "flood", 100)
		flowCase(c, "burst", 1040)
		c.count("ms.flow", int(time.Since(t0).Milliseconds()))
	}
}
