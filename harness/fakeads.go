package main

import (
	"context"
	"errors"
	"fmt"
	"runtime"
	"sort"
	"sync"
	"time"

	"github.com/cloudwego/kitex/client/callopt"
	"github.com/cloudwego/kitex/pkg/remote/trans/nphttp2/codes"
	"github.com/cloudwego/kitex/pkg/remote/trans/nphttp2/status"
	v3core "github.com/envoyproxy/go-control-plane/envoy/config/core/v3"
	discoveryv3 "github.com/envoyproxy/go-control-plane/envoy/service/discovery/v3"
	"google.golang.org/protobuf/types/known/anypb"

	"github.com/kitex-contrib/xds/core/manager"
	"github.com/kitex-contrib/xds/core/xdsresource"
)

// ---- scripted in-memory control plane implementing manager.ADSClient / manager.ADSStream ----

type recvItem struct {
	resp *discoveryv3.DiscoveryResponse
	err  error
}

type sentReq struct {
	sid int
	req *discoveryv3.DiscoveryRequest
}

type fakeADS struct {
	manager.ADSClient // nil: only StreamAggregatedResources is used
	mu                sync.Mutex
	streams           []*fakeStream
	failCreate        int // the next n stream creations fail
	createAttempts    int
	onCreate          func() // called (once) when the next stream is being created
	sendDelay         time.Duration
	log               []sentReq
}

type fakeStream struct {
	manager.ADSStream // nil: only Send/Recv/Close are used
	ads               *fakeADS
	id                int
	inbox             []recvItem
	waiting           bool // receiver is parked in Recv with an empty inbox
	recvCalls         int
	sendFail          bool
	closed            bool
	sends             int
	sendGate          chan struct{} // non-nil: Send blocks until it is closed (a stalled connection)
}

func (a *fakeADS) StreamAggregatedResources(ctx context.Context, callOptions ...callopt.Option) (manager.ADSStream, error) {
	a.mu.Lock()
	a.createAttempts++
	if a.failCreate > 0 {
		a.failCreate--
		a.mu.Unlock()
		return nil, errors.New("verif: stream creation failed")
	}
	s := &fakeStream{ads: a, id: len(a.streams) + 1}
	a.streams = append(a.streams, s)
	f := a.onCreate
	a.onCreate = nil
	a.mu.Unlock()
	if f != nil {
		f() // synchronously: what it releases is runnable before the creator goes on
	}
	return s, nil
}

func (s *fakeStream) Send(req *discoveryv3.DiscoveryRequest) error {
	s.ads.mu.Lock()
	g := s.sendGate
	d := s.ads.sendDelay
	s.ads.mu.Unlock()
	if g != nil {
		<-g
	}
	if d > 0 {
		time.Sleep(d) // a slow transport: the sender takes the queued requests one by one, with pauses
	}
	s.ads.mu.Lock()
	defer s.ads.mu.Unlock()
	if s.sendFail || s.closed {
		return errors.New("verif: send failed")
	}
	s.sends++
	s.ads.log = append(s.ads.log, sentReq{s.id, req})
	return nil
}

func (s *fakeStream) Recv() (*discoveryv3.DiscoveryResponse, error) {
	a := s.ads
	a.mu.Lock()
	s.recvCalls++
	for len(s.inbox) == 0 {
		if s.closed {
			// a closed stream fails Recv at once (the receiver keeps a dead stream when reconnecting failed)
			a.mu.Unlock()
			return nil, errors.New("verif: recv on a closed stream")
		}
		s.waiting = true
		a.mu.Unlock()
		time.Sleep(50 * time.Microsecond)
		a.mu.Lock()
	}
	s.waiting = false
	it := s.inbox[0]
	s.inbox = s.inbox[1:]
	a.mu.Unlock()
	return it.resp, it.err
}

func (s *fakeStream) Close() error {
	s.ads.mu.Lock()
	s.closed = true
	s.ads.mu.Unlock()
	return nil
}

// ---- a manager wired to the fake control plane ----

type worldOpts struct {
	ndsNotRequired bool
	ldsNotRequired bool
	ns, domain     string
	fetchTimeout   time.Duration
	noHandshake    bool // do not answer the start-up subscriptions (caller drives them)
	dumpPath       string
}

type world struct {
	ads  *fakeADS
	m    *manager.VerifManager
	opts worldOpts
	node *v3core.Node
	hung bool
	// created: when the manager (and with it the real cleaner's 30 s ticker) was started
	created time.Time
}

const inboundStamp = "inbound-rc"

func newWorld(o worldOpts) (*world, error) {
	if o.ns == "" {
		o.ns = "default"
	}
	if o.domain == "" {
		o.domain = "cluster.local"
	}
	if o.fetchTimeout == 0 {
		o.fetchTimeout = 30 * time.Millisecond
	}
	w := &world{created: time.Now(), ads: &fakeADS{}, opts: o, node: &v3core.Node{Id: "sidecar~1.1.1.1~pod." + o.ns + "~" + o.ns + ".svc." + o.domain}}
	svr := &manager.XDSServerConfig{SvrName: "fake", SvrAddr: "fake:0", NDSNotRequired: o.ndsNotRequired,
		LDSNotRequired: o.ldsNotRequired, FetchXDSTimeout: o.fetchTimeout}
	bc := manager.NewBootstrapConfigForVerif(o.ns, o.domain, w.node, svr)
	type res struct {
		m   *manager.VerifManager
		err error
	}
	ch := make(chan res, 1)
	go func() {
		m, err := manager.NewXDSResourceManagerWithADS(bc, w.ads, manager.Option{F: func(op *manager.Options) {
			op.XDSSvrConfig = svr
			if o.dumpPath != "" {
				op.DumpPath = o.dumpPath
			}
		}})
		ch <- res{m, err}
	}()
	if !o.noHandshake {
		if !o.ndsNotRequired {
			if !w.waitFor(func() bool { return w.countReq(1, xdsresource.NameTableTypeURL) >= 1 }, 5*time.Second) {
				return nil, fmt.Errorf("handshake: no NDS request")
			}
			w.feed(mkResp(xdsresource.NameTableTypeURL, "nds-init", "nds-n0", []*anypb.Any{anyNameTable(nil)}))
		}
		if !o.ldsNotRequired {
			if !w.waitFor(func() bool { return w.countReq(1, xdsresource.ListenerTypeURL) >= 1 }, 5*time.Second) {
				return nil, fmt.Errorf("handshake: no LDS request")
			}
			w.feed(mkResp(xdsresource.ListenerTypeURL, "lds-init", "lds-n0", []*anypb.Any{anyListenerRDS(xdsresource.ReservedLdsResourceName, inboundStamp)}))
		}
	}
	select {
	case r := <-ch:
		if r.err != nil {
			return nil, r.err
		}
		w.m = r.m
	case <-time.After(10 * time.Second):
		return nil, fmt.Errorf("manager constructor did not return")
	}
	if !w.settle() {
		return nil, fmt.Errorf("no quiescence after handshake")
	}
	return w, nil
}

func (w *world) close() {
	if w.m != nil {
		// wake a receiver parked in Recv so that it observes closeCh... it cannot: Recv blocks. Feed an auth error.
		w.m.Close()
		w.ads.mu.Lock()
		for _, s := range w.ads.streams {
			s.inbox = append(s.inbox, recvItem{err: status.Err(codes.Unauthenticated, "verif: shutdown")})
		}
		w.ads.mu.Unlock()
		w.m.VerifForget()
	}
}

func (w *world) waitFor(cond func() bool, d time.Duration) bool {
	deadline := time.Now().Add(d)
	for {
		if cond() {
			return true
		}
		if time.Now().After(deadline) {
			return false
		}
		time.Sleep(100 * time.Microsecond)
	}
}

func (w *world) countReq(sid int, url string) int {
	w.ads.mu.Lock()
	defer w.ads.mu.Unlock()
	n := 0
	for _, r := range w.ads.log {
		if r.sid == sid && r.req.TypeUrl == url {
			n++
		}
	}
	return n
}

// cur returns the newest stream (the one the receiver reads, once it has reconnected).
func (w *world) cur() *fakeStream {
	w.ads.mu.Lock()
	defer w.ads.mu.Unlock()
	if len(w.ads.streams) == 0 {
		return nil
	}
	return w.ads.streams[len(w.ads.streams)-1]
}

func (w *world) feed(resp *discoveryv3.DiscoveryResponse) {
	s := w.cur()
	w.ads.mu.Lock()
	s.inbox = append(s.inbox, recvItem{resp: resp})
	w.ads.mu.Unlock()
}

func (w *world) feedErr(err error) {
	s := w.cur()
	w.ads.mu.Lock()
	s.inbox = append(s.inbox, recvItem{err: err})
	w.ads.mu.Unlock()
}

// quiet: the receiver is parked in Recv on the newest stream with an empty inbox (or the client
// is stopped) and the sender is idle with empty channels.
func (w *world) quiet() bool {
	if w.m == nil {
		return false
	}
	if w.m.VerifClosed() {
		return true
	}
	w.ads.mu.Lock()
	ok := len(w.ads.streams) > 0
	if ok {
		s := w.ads.streams[len(w.ads.streams)-1]
		ok = s.waiting && len(s.inbox) == 0
	}
	w.ads.mu.Unlock()
	return ok && w.m.VerifSenderIdle()
}

// settle waits for quiescence; false means the client appears hung.
func (w *world) settle() bool {
	deadline := time.Now().Add(20 * time.Second)
	for {
		if w.quiet() {
			runtime.Gosched()
			if w.quiet() {
				return true
			}
		}
		if time.Now().After(deadline) {
			w.hung = true
			return false
		}
		time.Sleep(100 * time.Microsecond)
	}
}

// mark/since: requests seen by the control plane since a mark, canonicalised.
func (w *world) mark() int {
	w.ads.mu.Lock()
	defer w.ads.mu.Unlock()
	return len(w.ads.log)
}

func (w *world) since(mark int) []obj {
	w.ads.mu.Lock()
	defer w.ads.mu.Unlock()
	var out []obj
	for _, r := range w.ads.log[mark:] {
		out = append(out, canonReq(r))
	}
	if out == nil {
		out = []obj{}
	}
	return out
}

func canonReq(r sentReq) obj {
	names := append([]string(nil), r.req.ResourceNames...)
	sort.Strings(names)
	if names == nil {
		names = []string{}
	}
	node := ""
	if r.req.Node != nil {
		node = r.req.Node.Id
	}
	return obj{"sid": r.sid, "rt": rtShort(r.req.TypeUrl), "v": r.req.VersionInfo, "nonce": r.req.ResponseNonce,
		"names": names, "err": r.req.ErrorDetail != nil && r.req.ErrorDetail.Message != "", "node": node}
}

func rtShort(url string) string {
	switch url {
	case xdsresource.ListenerTypeURL:
		return "lds"
	case xdsresource.RouteTypeURL:
		return "rds"
	case xdsresource.ClusterTypeURL:
		return "cds"
	case xdsresource.EndpointTypeURL:
		return "eds"
	case xdsresource.NameTableTypeURL:
		return "nds"
	}
	return "?" + url
}

func rtOf(s string) xdsresource.ResourceType {
	switch s {
	case "lds":
		return xdsresource.ListenerType
	case "rds":
		return xdsresource.RouteConfigType
	case "cds":
		return xdsresource.ClusterType
	case "eds":
		return xdsresource.EndpointsType
	case "nds":
		return xdsresource.NameTableType
	}
	return xdsresource.UnknownResource
}

func urlOf(s string) string { return xdsresource.ResourceTypeToURL[rtOf(s)] }

var rtNames = []string{"lds", "rds", "cds", "eds", "nds"}

func mkResp(url, version, nonce string, res []*anypb.Any) *discoveryv3.DiscoveryResponse {
	return &discoveryv3.DiscoveryResponse{TypeUrl: url, VersionInfo: version, Nonce: nonce, Resources: res}
}

// push feeds a response on the receiver's stream and waits until it has been processed and
// every request it caused is on the wire.
func (w *world) push(resp *discoveryv3.DiscoveryResponse) bool {
	w.feed(resp)
	return w.settle()
}

// get performs a lookup and canonicalises the result.
func (w *world) get(rt xdsresource.ResourceType, name string) string {
	// (no watchdog here: the scenarios that expect a lookup to hang measure that themselves - they run it in a goroutine
	// of its own - and a script that is blocked on the main goroutine is ended by the process-level hang watch)
	var res interface{}
	var err error
	p, msg := recoverTo(func() { res, err = w.m.Get(context.Background(), rt, name) })
	if p {
		return "panic:" + msg
	}
	out := canonGet(rt, res, err)
	if out == "typednil" && rt == xdsresource.EndpointsType && err == nil {
		// an assignment without localities is stored (and served) as the explicit "no endpoints" value
		return "val:typednil"
	}
	return out
}

func authErr() error { return status.Err(codes.Unauthenticated, "verif: authentication rejected") }
