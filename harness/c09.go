package main

import (
	"context"
	"encoding/json"
	"fmt"

	v3routepb "github.com/envoyproxy/go-control-plane/envoy/config/route/v3"
	"google.golang.org/protobuf/types/known/anypb"
	"google.golang.org/protobuf/types/known/wrapperspb"

	"github.com/cloudwego/kitex/pkg/rpcinfo"

	"github.com/kitex-contrib/xds/core/xdsresource"
	"github.com/kitex-contrib/xds/xdssuite"
)

func init() {
	props["C09"] = runC09
	replays["C09"] = func(c *ctx, in map[string]interface{}) {
		var v []uint32
		for _, x := range in["ws"].([]interface{}) {
			v = append(v, uint32(x.(float64)))
		}
		n := int(in["n"].(float64))
		if via, _ := in["via"].(string); via == "decoded" {
			counts, errs, panics, msg, _ := pickViaDecoded(v, n, false)
			c.emit(obj{"ws": in["ws"], "n": n, "via": "decoded", "obs": obj{"counts": counts, "errs": errs, "panics": panics, "panicMsg": msg}})
			return
		} else if via == "interleaved" {
			var with []uint32
			for _, x := range in["with"].([]interface{}) {
				with = append(with, uint32(x.(float64)))
			}
			_, _, _, _, altCounts := pickViaDecoded(with, n, true)
			c.emit(obj{"ws": in["ws"], "n": n, "via": "interleaved", "with": in["with"], "obs": obj{"counts": altCounts, "errs": n - altCounts[0] - altCounts[1], "panics": 0, "panicMsg": ""}})
			return
		}
		counts, errs, panics, msg := pickVia(v, n)
		c.emit(obj{"ws": in["ws"], "n": n, "obs": obj{"counts": counts, "errs": errs, "panics": panics, "panicMsg": msg}})
	}
}

// pickVia routes n calls through the real XDSRouter.Route with a listener whose single catch-all
// route lists the weighted clusters ws; returns per-index counts, routing errors and panics.
func pickVia(ws []uint32, n int) (counts []int, errs, panics int, panicMsg string) {
	stub := newStub()
	useBackend(stub)
	wcs := make([]*xdsresource.WeightedCluster, len(ws))
	idx := map[string]int{}
	for i, w := range ws {
		name := fmt.Sprintf("c%d", i)
		idx[name] = i
		wcs[i] = &xdsresource.WeightedCluster{Name: name, Weight: w}
	}
	route := &xdsresource.Route{
		Match:            &xdsresource.HTTPRouteMatch{Prefix: "/"},
		WeightedClusters: wcs,
	}
	stub.res[stubKey{xdsresource.ListenerType, "svc"}] = &xdsresource.ListenerResource{
		NetworkFilters: []*xdsresource.NetworkFilter{{
			FilterType: xdsresource.NetworkFilterTypeHTTP,
			InlineRouteConfig: &xdsresource.RouteConfigResource{
				HTTPRouteConfig: &xdsresource.HTTPRouteConfig{
					VirtualHosts: []*xdsresource.VirtualHost{{Name: "vh", Routes: []*xdsresource.Route{route}}},
				},
			},
		}},
	}
	router := xdssuite.NewXDSRouter()
	to := rpcinfo.NewEndpointInfo("svc", "method", nil, nil)
	ri := rpcinfo.NewRPCInfo(nil, to, rpcinfo.NewInvocation("svc", "method", "pkg"), rpcinfo.NewRPCConfig(), nil)
	counts = make([]int, len(ws))
	ctx := context.Background()
	for i := 0; i < n; i++ {
		var res *xdssuite.RouteResult
		var err error
		p, msg := recoverTo(func() { res, err = router.Route(ctx, ri) })
		switch {
		case p:
			panics++
			panicMsg = msg
		case err != nil:
			errs++
		default:
			if j, ok := idx[res.ClusterPicked]; ok {
				counts[j]++
			} else {
				errs++
			}
		}
	}
	return
}

// pickViaDecoded does the same with a route table that went through the decoder: the control plane's RouteConfiguration
// lists, in ONE virtual host, two weighted routes that do not match the call (an exact path), then the weighted route
// under test, then another weighted route; the decoded table is served as a named route table. Whatever the decoder
// computes per route must be that route's own.
// With `alt`, every call is followed by a call of another method that a second weighted route ([1,1]) of the same table
// serves: the split of each route must be its own, however calls to different routes alternate (nothing is shared
// between routes).
// foreignPicks: calls of the last pickViaDecoded run that were sent to a cluster the matched route does not list.
var foreignPicks int

func pickViaDecoded(ws []uint32, n int, alt bool) (counts []int, errs, panics int, panicMsg string, altCounts []int) {
	foreignPicks = 0
	stub := newStub()
	useBackend(stub)
	idx := map[string]int{}
	weighted := func(prefix string, weights []uint32, names func(i int) string) *v3routepb.Route {
		var cls []*v3routepb.WeightedCluster_ClusterWeight
		for i, w := range weights {
			cls = append(cls, &v3routepb.WeightedCluster_ClusterWeight{Name: names(i), Weight: wrapperspb.UInt32(w)})
		}
		m := &v3routepb.RouteMatch{PathSpecifier: &v3routepb.RouteMatch_Prefix{Prefix: "/"}}
		if prefix != "/" {
			m = &v3routepb.RouteMatch{PathSpecifier: &v3routepb.RouteMatch_Path{Path: prefix}}
		}
		return &v3routepb.Route{Match: m, Action: &v3routepb.Route_Route{Route: &v3routepb.RouteAction{
			ClusterSpecifier: &v3routepb.RouteAction_WeightedClusters{WeightedClusters: &v3routepb.WeightedCluster{Clusters: cls}}}}}
	}
	for i := range ws {
		idx[fmt.Sprintf("c%d", i)] = i
	}
	rcfg := &v3routepb.RouteConfiguration{Name: "rc", VirtualHosts: []*v3routepb.VirtualHost{{Name: "vh", Routes: []*v3routepb.Route{
		weighted("/never-1", []uint32{3, 4}, func(i int) string { return fmt.Sprintf("other-a%d", i) }),
		weighted("/pkg.svc/alt", []uint32{1, 1}, func(i int) string { return fmt.Sprintf("other-b%d", i) }),
		weighted("/", ws, func(i int) string { return fmt.Sprintf("c%d", i) }),
		weighted("/", []uint32{5}, func(i int) string { return "shadowed" }),
	}}}}
	res, err := xdsresource.UnmarshalRDS([]*anypb.Any{mustAny(rcfg)})
	if err != nil || res["rc"] == nil {
		return make([]int, len(ws)), n, 0, "", nil
	}
	stub.res[stubKey{xdsresource.RouteConfigType, "rc"}] = res["rc"]
	stub.res[stubKey{xdsresource.ListenerType, "svc"}] = &xdsresource.ListenerResource{
		NetworkFilters: []*xdsresource.NetworkFilter{{FilterType: xdsresource.NetworkFilterTypeHTTP, RouteConfigName: "rc"}},
	}
	// the cached table is rendered as JSON first (what a dump of the manager does): reading a resource must not change it
	if _, jerr := json.MarshalIndent(map[string]interface{}{"rc": res["rc"]}, "", "    "); jerr != nil {
		return make([]int, len(ws)), n, 0, "", nil
	}
	router := xdssuite.NewXDSRouter()
	to := rpcinfo.NewEndpointInfo("svc", "method", nil, nil)
	ri := rpcinfo.NewRPCInfo(nil, to, rpcinfo.NewInvocation("svc", "method", "pkg"), rpcinfo.NewRPCConfig(), nil)
	riAlt := rpcinfo.NewRPCInfo(nil, to, rpcinfo.NewInvocation("svc", "alt", "pkg"), rpcinfo.NewRPCConfig(), nil)
	counts = make([]int, len(ws))
	altCounts = make([]int, 2)
	ctx := context.Background()
	for i := 0; i < n; i++ {
		var rr *xdssuite.RouteResult
		var rerr error
		if alt {
			if _, _ = recoverTo(func() { rr, rerr = router.Route(ctx, riAlt) }); rerr == nil && rr != nil {
				switch rr.ClusterPicked {
				case "other-b0":
					altCounts[0]++
				case "other-b1":
					altCounts[1]++
				}
			}
		}
		p, msg := recoverTo(func() { rr, rerr = router.Route(ctx, ri) })
		switch {
		case p:
			panics++
			panicMsg = msg
		case rerr != nil:
			errs++
		default:
			if j, ok := idx[rr.ClusterPicked]; ok {
				counts[j]++
			} else {
				foreignPicks++ // a cluster of ANOTHER route of the table (e.g. the shadowed catch-all behind this one)
			}
		}
	}
	return
}

func permutations(xs []uint32) [][]uint32 {
	if len(xs) <= 1 {
		return [][]uint32{append([]uint32(nil), xs...)}
	}
	var out [][]uint32
	seen := map[string]bool{}
	for i := range xs {
		rest := append(append([]uint32(nil), xs[:i]...), xs[i+1:]...)
		for _, p := range permutations(rest) {
			q := append([]uint32{xs[i]}, p...)
			key := fmt.Sprint(q)
			if !seen[key] {
				seen[key] = true
				out = append(out, q)
			}
		}
	}
	return out
}

func runC09(c *ctx) {
	n := 20000
	var vectors [][]uint32
	add := func(v ...uint32) { vectors = append(vectors, v) }
	// deterministic vectors first (the corpus of shapes where an off-by-one is visible at once)
	add()
	add(0)
	add(7)
	add(0, 0)
	add(0, 0, 0)
	for _, ms := range [][]uint32{{0, 1}, {1, 1}, {1, 2}, {5, 0}, {0, 0, 1}, {1, 0, 1}, {1, 1, 1}, {2, 1, 1}, {0, 3, 0, 1}, {1, 2, 3, 4}} {
		vectors = append(vectors, permutations(ms)...)
	}
	add(50, 50)
	add(99, 1)
	add(1, 99)
	add(1<<30, 1<<30)
	add(1<<31, 1)
	add(1, 1<<31)
	add(1<<31-1, 1)
	add(1<<32-2, 1)
	add(3000000000, 1000000000)
	add(1<<31, 1<<31) // wraps to 0
	add(1, 198, 1)    // shares below one per cent
	add(3, 1000, 2, 995)
	// random vectors with small totals (where any shift of one unit moves >= 1/16 of the mass)
	rounds := 40 * c.budget
	for i := 0; i < rounds; i++ {
		l := 2 + c.rng.intn(4)
		v := make([]uint32, l)
		tot := 0
		for j := range v {
			if c.rng.chance(30) {
				v[j] = 0
			} else {
				v[j] = uint32(1 + c.rng.intn(5))
			}
			tot += int(v[j])
		}
		if tot > 16 {
			continue
		}
		vectors = append(vectors, v)
	}
	// random vectors with large weights (support check only is meaningful)
	for i := 0; i < 10*c.budget; i++ {
		l := 2 + c.rng.intn(3)
		v := make([]uint32, l)
		for j := range v {
			switch c.rng.intn(4) {
			case 0:
				v[j] = 0
			case 1:
				v[j] = uint32(c.rng.intn(1000))
			case 2:
				v[j] = uint32(c.rng.intn(1 << 30))
			default:
				v[j] = uint32(c.rng.next() % (1 << 30))
			}
		}
		vectors = append(vectors, v)
	}
	for _, v := range vectors {
		counts, errs, panics, msg := pickVia(v, n)
		ws := make([]uint64, len(v))
		zero, distinct := false, map[uint32]bool{}
		for i, w := range v {
			ws[i] = uint64(w)
			if w == 0 {
				zero = true
			}
			distinct[w] = true
		}
		if len(v) >= 2 && (zero || len(distinct) > 1) {
			c.count("nontrivial", 1)
		}
		c.count(fmt.Sprintf("len=%d", len(v)), 1)
		c.emit(obj{"ws": ws, "n": n, "obs": obj{"counts": counts, "errs": errs, "panics": panics, "panicMsg": msg}})
	}
	// the same through the decoder, for the vectors where the control plane can express them (at least one cluster)
	for k, v := range vectors {
		_ = k
		if len(v) == 0 {
			continue
		}
		alt := k%4 == 1
		counts, errs, panics, msg, altCounts := pickViaDecoded(v, n, alt)
		ws := make([]uint64, len(v))
		for i, w := range v {
			ws[i] = uint64(w)
		}
		c.count("via-decoder", 1)
		c.emit(obj{"ws": ws, "n": n, "via": "decoded", "obs": obj{"counts": counts, "errs": errs, "panics": panics, "panicMsg": msg, "foreign": foreignPicks}})
		if alt {
			// the other route's own split, sampled in strict alternation with this one
			c.count("interleaved-routes", 1)
			c.emit(obj{"ws": []uint64{1, 1}, "n": n, "via": "interleaved", "with": ws, "obs": obj{"counts": altCounts, "errs": n - altCounts[0] - altCounts[1], "panics": 0, "panicMsg": ""}})
		}
	}
	// a weight shift that arrives while the router reads the table for an earlier call
	for _, sh := range [][2][]uint32{{{1, 0}, {0, 1}}, {{100, 0}, {0, 100}}, {{80, 20}, {20, 80}}, {{1, 1, 0}, {0, 0, 5}}} {
		counts, errs, foreign := pickAcrossPush(sh[0], sh[1], n/4)
		ws := make([]uint64, len(sh[1]))
		for i, w := range sh[1] {
			ws[i] = uint64(w)
		}
		c.count("across-push", 1)
		c.emit(obj{"ws": ws, "n": n / 4, "via": "across-push", "from": sh[0], "obs": obj{"counts": counts, "errs": errs, "panics": 0, "panicMsg": "", "foreign": foreign}})
	}
}

// pickAcrossPush: the weights of a route shift from ws0 to ws1 while the router reads the table for its first call (the
// push runs the registered update handlers, then replaces the table). Every LATER call is sampled against ws1.
func pickAcrossPush(ws0, ws1 []uint32, n int) (counts []int, errs, foreign int) {
	stub := newStub()
	useBackend(stub)
	table := func(ws []uint32) xdsresource.Resource {
		var cls []*v3routepb.WeightedCluster_ClusterWeight
		for i, w := range ws {
			cls = append(cls, &v3routepb.WeightedCluster_ClusterWeight{Name: fmt.Sprintf("c%d", i), Weight: wrapperspb.UInt32(w)})
		}
		rcfg := &v3routepb.RouteConfiguration{Name: "rc", VirtualHosts: []*v3routepb.VirtualHost{{Name: "vh", Routes: []*v3routepb.Route{{
			Match: &v3routepb.RouteMatch{PathSpecifier: &v3routepb.RouteMatch_Prefix{Prefix: "/"}},
			Action: &v3routepb.Route_Route{Route: &v3routepb.RouteAction{ClusterSpecifier: &v3routepb.RouteAction_WeightedClusters{
				WeightedClusters: &v3routepb.WeightedCluster{Clusters: cls}}}}}}}}}
		res, err := xdsresource.UnmarshalRDS([]*anypb.Any{mustAny(rcfg)})
		if err != nil {
			return nil
		}
		return res["rc"]
	}
	stub.res[stubKey{xdsresource.RouteConfigType, "rc"}] = table(ws0)
	stub.res[stubKey{xdsresource.ListenerType, "svc"}] = &xdsresource.ListenerResource{
		NetworkFilters: []*xdsresource.NetworkFilter{{FilterType: xdsresource.NetworkFilterTypeHTTP, RouteConfigName: "rc"}}}
	router := xdssuite.NewXDSRouter()
	stub.afterGet = map[stubKey]interface{}{{xdsresource.RouteConfigType, "rc"}: table(ws1)}
	to := rpcinfo.NewEndpointInfo("svc", "method", nil, nil)
	ri := rpcinfo.NewRPCInfo(nil, to, rpcinfo.NewInvocation("svc", "method", "pkg"), rpcinfo.NewRPCConfig(), nil)
	_, _ = router.Route(context.Background(), ri) // the call that reads the old table while the new one arrives
	counts = make([]int, len(ws1))
	for i := 0; i < n; i++ {
		var rr *xdssuite.RouteResult
		var rerr error
		if p, _ := recoverTo(func() { rr, rerr = router.Route(context.Background(), ri) }); p || rerr != nil || rr == nil {
			errs++
			continue
		}
		var j int
		if _, err := fmt.Sscanf(rr.ClusterPicked, "c%d", &j); err == nil && j < len(counts) {
			counts[j]++
		} else {
			foreign++
		}
	}
	return
}
