package main

import (
	"context"
	"fmt"

	"github.com/cloudwego/kitex/pkg/rpcinfo"

	"github.com/kitex-contrib/xds/core/xdsresource"
	"github.com/kitex-contrib/xds/xdssuite"
)

func init() {
	props["C09"] = runC09
	replays["C09"] = func(c *ctx, in map[string]interface{}) {
		var v []uint32
		for _, x := range in["ws"].([]interface{}) {
			v = append(v, uint32(x.(float64)))
		}
		n := int(in["n"].(float64))
		counts, errs, panics, msg := pickVia(v, n)
		c.emit(obj{"ws": in["ws"], "n": n, "obs": obj{"counts": counts, "errs": errs, "panics": panics, "panicMsg": msg}})
	}
}

// pickVia routes n calls through the real XDSRouter.Route with a listener whose single catch-all
// route lists the weighted clusters ws; returns per-index counts, routing errors and panics.
func pickVia(ws []uint32, n int) (counts []int, errs, panics int, panicMsg string) {
	stub := newStub()
	useBackend(stub)
	wcs := make([]*xdsresource.WeightedCluster, len(ws))
	idx := map[string]int{}
	for i, w := range ws {
		name := fmt.Sprintf("c%d", i)
		idx[name] = i
		wcs[i] = &xdsresource.WeightedCluster{Name: name, Weight: w}
	}
	route := &xdsresource.Route{
		Match:            &xdsresource.HTTPRouteMatch{Prefix: "/"},
		WeightedClusters: wcs,
	}
	stub.res[stubKey{xdsresource.ListenerType, "svc"}] = &xdsresource.ListenerResource{
		NetworkFilters: []*xdsresource.NetworkFilter{{
			FilterType: xdsresource.NetworkFilterTypeHTTP,
			InlineRouteConfig: &xdsresource.RouteConfigResource{
				HTTPRouteConfig: &xdsresource.HTTPRouteConfig{
					VirtualHosts: []*xdsresource.VirtualHost{{Name: "vh", Routes: []*xdsresource.Route{route}}},
				},
			},
		}},
	}
	router := xdssuite.NewXDSRouter()
	to := rpcinfo.NewEndpointInfo("svc", "method", nil, nil)
	ri := rpcinfo.NewRPCInfo(nil, to, rpcinfo.NewInvocation("svc", "method", "pkg"), rpcinfo.NewRPCConfig(), nil)
	counts = make([]int, len(ws))
	ctx := context.Background()
	for i := 0; i < n; i++ {
		var res *xdssuite.RouteResult
		var err error
		p, msg := recoverTo(func() { res, err = router.Route(ctx, ri) })
		switch {
		case p:
			panics++
			panicMsg = msg
		case err != nil:
			errs++
		default:
			if j, ok := idx[res.ClusterPicked]; ok {
				counts[j]++
			} else {
				errs++
			}
		}
	}
	return
}

func permutations(xs []uint32) [][]uint32 {
	if len(xs) <= 1 {
		return [][]uint32{append([]uint32(nil), xs...)}
	}
	var out [][]uint32
	seen := map[string]bool{}
	for i := range xs {
		rest := append(append([]uint32(nil), xs[:i]...), xs[i+1:]...)
		for _, p := range permutations(rest) {
			q := append([]uint32{xs[i]}, p...)
			key := fmt.Sprint(q)
			if !seen[key] {
				seen[key] = true
				out = append(out, q)
			}
		}
	}
	return out
}

func runC09(c *ctx) {
	n := 20000
	var vectors [][]uint32
	add := func(v ...uint32) { vectors = append(vectors, v) }
	// deterministic vectors first (the corpus of shapes where an off-by-one is visible at once)
	add()
	add(0)
	add(7)
	add(0, 0)
	add(0, 0, 0)
	for _, ms := range [][]uint32{{0, 1}, {1, 1}, {1, 2}, {5, 0}, {0, 0, 1}, {1, 0, 1}, {1, 1, 1}, {2, 1, 1}, {0, 3, 0, 1}, {1, 2, 3, 4}} {
		vectors = append(vectors, permutations(ms)...)
	}
	add(50, 50)
	add(99, 1)
	add(1, 99)
	add(1<<30, 1<<30)
	add(1<<31, 1)
	add(1, 1<<31)
	add(1<<31-1, 1)
	add(1<<32-2, 1)
	add(3000000000, 1000000000)
	add(1<<31, 1<<31) // wraps to 0
	// random vectors with small totals (where any shift of one unit moves >= 1/16 of the mass)
	rounds := 40 * c.budget
	for i := 0; i < rounds; i++ {
		l := 2 + c.rng.intn(4)
		v := make([]uint32, l)
		tot := 0
		for j := range v {
			if c.rng.chance(30) {
				v[j] = 0
			} else {
				v[j] = uint32(1 + c.rng.intn(5))
			}
			tot += int(v[j])
		}
		if tot > 16 {
			continue
		}
		vectors = append(vectors, v)
	}
	// random vectors with large weights (support check only is meaningful)
	for i := 0; i < 10*c.budget; i++ {
		l := 2 + c.rng.intn(3)
		v := make([]uint32, l)
		for j := range v {
			switch c.rng.intn(4) {
			case 0:
				v[j] = 0
			case 1:
				v[j] = uint32(c.rng.intn(1000))
			case 2:
				v[j] = uint32(c.rng.intn(1 << 30))
			default:
				v[j] = uint32(c.rng.next() % (1 << 30))
			}
		}
		vectors = append(vectors, v)
	}
	for _, v := range vectors {
		counts, errs, panics, msg := pickVia(v, n)
		ws := make([]uint64, len(v))
		zero, distinct := false, map[uint32]bool{}
		for i, w := range v {
			ws[i] = uint64(w)
			if w == 0 {
				zero = true
			}
			distinct[w] = true
		}
		if len(v) >= 2 && (zero || len(distinct) > 1) {
			c.count("nontrivial", 1)
		}
		c.count(fmt.Sprintf("len=%d", len(v)), 1)
		c.emit(obj{"ws": ws, "n": n, "obs": obj{"counts": counts, "errs": errs, "panics": panics, "panicMsg": msg}})
	}
}
