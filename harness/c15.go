package main

import (
	"context"
	"encoding/json"
	"errors"
	"fmt"
	"github.com/bytedance/gopkg/cloud/metainfo"
	"regexp"
	"sort"
	"strings"
	"time"

	"github.com/cloudwego/kitex/client"
	"github.com/cloudwego/kitex/pkg/kerrors"
	"github.com/cloudwego/kitex/pkg/retry"
	"github.com/cloudwego/kitex/pkg/rpcinfo"
	"github.com/cloudwego/kitex/pkg/rpcinfo/remoteinfo"
	"github.com/cloudwego/kitex/pkg/utils"
	"github.com/cloudwego/kitex/transport"
	v3listenerpb "github.com/envoyproxy/go-control-plane/envoy/config/listener/v3"
	v3routepb "github.com/envoyproxy/go-control-plane/envoy/config/route/v3"
	v3httppb "github.com/envoyproxy/go-control-plane/envoy/extensions/filters/network/http_connection_manager/v3"
	"google.golang.org/protobuf/types/known/anypb"
	"google.golang.org/protobuf/types/known/durationpb"

	"github.com/kitex-contrib/xds/core/xdsresource"
	"github.com/kitex-contrib/xds/xdssuite"
)

func init() { props["C15"] = runC15 }

// supply kinds for a lookup through the manager
var c15Supplies = []string{"val", "err", "absent", "typednil", "nilnil"}

func newRI(svc, method string, tag string, grpc bool, initMs ...int) rpcinfo.RPCInfo {
	tags := map[string]string{}
	if tag != "" {
		tags[xdssuite.RouterClusterKey] = tag
	}
	to := remoteinfo.NewRemoteInfo(&rpcinfo.EndpointBasicInfo{ServiceName: svc, Method: method, Tags: tags}, method)
	cfg := rpcinfo.NewRPCConfig()
	if grpc {
		_ = rpcinfo.AsMutableRPCConfig(cfg).SetTransportProtocol(transport.GRPC)
	}
	// the call may already carry a timeout of its own (client option): the routing step replaces it by the matched route's
	if len(initMs) > 0 && initMs[0] > 0 {
		_ = rpcinfo.AsMutableRPCConfig(cfg).SetRPCTimeout(time.Duration(initMs[0]) * time.Millisecond)
	}
	return rpcinfo.NewRPCInfo(nil, to.ImmutableView(), rpcinfo.NewInvocation("svc", method, "pkg"), cfg, nil)
}

func callState(ri rpcinfo.RPCInfo) obj {
	tag, ok := ri.To().Tag(xdssuite.RouterClusterKey)
	var tj interface{}
	if ok {
		tj = tag
	}
	// locked iff a further SetTag is refused (probe restores nothing: a refused write changes nothing;
	// an accepted write is undone by writing the old value back)
	locked := false
	if ok {
		if err := remoteinfo.AsRemoteInfo(ri.To()).SetTag(xdssuite.RouterClusterKey, tag+"-probe"); err != nil {
			locked = true
		} else {
			_ = remoteinfo.AsRemoteInfo(ri.To()).SetTag(xdssuite.RouterClusterKey, tag)
		}
	}
	return obj{"tag": tj, "locked": locked, "timeoutMs": int(ri.Config().RPCTimeout() / time.Millisecond)}
}

func runC15(c *ctx) {
	r := c.rng
	for _, nds := range []bool{true, false} {
		for _, sup := range []bool{true, false} {
			c15E2E(c, sup, nds)
		}
	}
	c15E2ERds(c)
	g := &c08gen{r: r}
	n := 1200 * c.budget
	for i := 0; i < n; i++ {
		g.seq = 0
		stub := newStub()
		useBackend(stub)
		svcName := "dest"
		method := "m1"
		// listener: an HTTP filter with (maybe) an inline table and a named table
		lsup := c15Supplies[r.intn(len(c15Supplies))]
		if r.chance(50) {
			lsup = "val"
		}
		nsup := c15Supplies[r.intn(len(c15Supplies))]
		md := map[string]string{}
		for _, k := range c08Keys {
			if r.chance(60) {
				md[k] = r.pick(c08Vals)
			}
		}
		mkRoute := func() *gRoute {
			g.seq++
			rt := &gRoute{Kind: "http", Prefix: "/", TimeoutMs: 100 + g.seq}
			if r.chance(30) {
				rt.TimeoutMs = 0 // a route without a timeout of its own: the call's timeout becomes zero (none)
			}
			if r.chance(25) {
				rt.Prefix = "/nomatch"
			}
			switch r.intn(5) {
			case 0:
				rt.Clusters = nil // route without clusters -> pick error
			case 1:
				rt.Clusters = [][2]interface{}{{fmt.Sprintf("c%d-a", g.seq), 0}, {fmt.Sprintf("c%d-b", g.seq), 0}} // zero total
			case 2:
				rt.Clusters = [][2]interface{}{{fmt.Sprintf("c%d-a", g.seq), 0}, {fmt.Sprintf("c%d-b", g.seq), 7}} // deterministic pick: b
			default:
				rt.Clusters = [][2]interface{}{{fmt.Sprintf("c%d", g.seq), 1 + r.intn(3)}}
			}
			if r.chance(35) {
				// header conditions, some with an expression the engine rejects: whatever the control plane supplies,
				// neither the routing step nor the retry-key computation may panic
				rt.Conds = g.conds()
				if r.chance(60) {
					// ... and the call's metadata often satisfies them (the route is taken BECAUSE of the metadata)
					for _, cd := range rt.Conds {
						switch cd.Kind {
						case "exact":
							md[cd.Key] = cd.Val
						case "prefix":
							md[cd.Key] = cd.Val + "1"
						default:
							md[cd.Key] = "v1"
						}
					}
				}
			}
			return rt
		}
		var fs []*gFilter
		var tcfg *gCfg
		if r.chance(30) {
			// a Thrift-proxy filter in front: for this (non-gRPC) call its matching route takes precedence, and its cluster
			// selection can fail like any other (no clusters, zero total weight)
			tr := mkRoute()
			tr.Kind, tr.Prefix = "thrift", ""
			tr.Method = []string{"m1", "", "other"}[r.intn(3)]
			tcfg = &gCfg{HasThrift: true, Thrift: []*gRoute{tr}}
			fs = append(fs, &gFilter{Thrift: true, Inline: tcfg})
			c.count("thrift-filter", 1)
		}
		f := &gFilter{RcName: "rc-a"}
		switch r.intn(4) {
		case 0:
			f.Inline = &gCfg{HasHTTP: true, HTTP: []*gVHost{{Name: "vh", Routes: []*gRoute{mkRoute()}}}}
		case 1:
			f.Inline = &gCfg{HasHTTP: true} // empty inline table
		}
		if !r.chance(10) {
			fs = append(fs, f)
		}
		var namedCfg *gCfg
		if r.chance(80) {
			namedCfg = &gCfg{HasHTTP: true, HTTP: []*gVHost{{Name: "vh", Routes: []*gRoute{mkRoute()}}}}
		} else {
			namedCfg = &gCfg{HasHTTP: true}
		}
		lk := stubKey{xdsresource.ListenerType, svcName}
		switch lsup {
		case "val":
			stub.res[lk] = buildListener(fs)
		case "err":
			stub.errs[lk] = errors.New("fetch failed")
		case "typednil":
			stub.res[lk] = (*xdsresource.ListenerResource)(nil)
		case "nilnil":
			stub.nilnil(lk)
		}
		nk := stubKey{xdsresource.RouteConfigType, "rc-a"}
		switch nsup {
		case "val":
			stub.res[nk] = namedCfg.build()
		case "err":
			stub.errs[nk] = errors.New("fetch failed")
		case "typednil":
			stub.res[nk] = (*xdsresource.RouteConfigResource)(nil)
		case "nilnil":
			stub.nilnil(nk)
		}
		pretag := ""
		if r.chance(25) {
			pretag = "already-decided"
		}
		matchMethod := r.bool()
		step := "mw"
		if r.chance(40) {
			step = "key"
		}
		initMs := 0
		if pretag == "" && r.chance(50) {
			initMs = 7000
			c.count("call-with-own-timeout", 1)
		}
		ri := newRI(svcName, method, pretag, false, initMs)
		ctx := rpcinfo.NewCtxWithRPCInfo(context.Background(), ri)
		// the metadata reaches the routing through the default extractor (metainfo) or through a custom one given as an
		// option - to the middleware and to the retry policy alike
		customExtractor := r.bool()
		var ropts []xdssuite.Option
		if customExtractor {
			mdCopy := md
			ropts = append(ropts, xdssuite.WithRouterMetaExtractor(func(context.Context) map[string]string { return mdCopy }))
			c.count("custom-extractor", 1)
		} else {
			for k, v := range md {
				ctx = metainfo.WithValue(ctx, k, v)
			}
		}
		nextCalls := 0
		var err error
		var p bool
		var pmsg string
		keyUsed := ""
		if step == "mw" {
			mw := xdssuite.NewXDSRouterMiddleware(ropts...)
			ep := mw(func(ctx context.Context, req, resp interface{}) error { nextCalls++; return nil })
			p, pmsg = recoverTo(func() { err = ep(ctx, nil, nil) })
		} else {
			o := &client.Options{}
			opt := xdssuite.NewRetryPolicy(append([]xdssuite.Option{xdssuite.WithMatchRetryMethod(matchMethod)}, ropts...)...)
			opt.F(o, &utils.Slice{})
			rc := o.RetryContainer
			// install distinguishable policies under every candidate key so that the key that was computed is observable
			cands := map[string]int{"": 1}
			addCand := func(k string) {
				if _, ok := cands[k]; !ok {
					cands[k] = len(cands) + 1
				}
			}
			addCand(pretag)
			for _, rt := range allGRoutes(tcfg, f.Inline, namedCfg) {
				for _, cl := range rt.Clusters {
					addCand(cl[0].(string))
					addCand(cl[0].(string) + "|" + method)
				}
			}
			for k, v := range cands {
				rc.NotifyPolicyChange(k, retry.Policy{Enable: true, Type: retry.FailureType, FailurePolicy: &retry.FailurePolicy{
					StopPolicy: retry.StopPolicy{MaxRetryTimes: 0, MaxDurationMS: uint32(7000 + v), CBPolicy: retry.CBPolicy{ErrorRate: 0.1}}}})
			}
			p, pmsg = recoverTo(func() {
				_, _, err = rc.WithRetryIfNeeded(ctx, nil, func(ctx context.Context, rr retry.Retryer) (rpcinfo.RPCInfo, interface{}, error) {
					nextCalls++
					if rr != nil {
						b, _ := json.Marshal(rr.Dump())
						for k, v := range cands {
							if strings.Contains(string(b), fmt.Sprintf(`"max_duration_ms":%d,`, 7000+v)) {
								keyUsed = "policy-of:" + k
							}
						}
					} else {
						keyUsed = "no-retryer"
					}
					return ri, nil, nil
				}, ri, nil)
			})
		}
		o := callState(ri)
		o["panic"], o["panicMsg"], o["next"] = p, pmsg, nextCalls
		o["err"] = ""
		if err != nil {
			if errors.Is(err, kerrors.ErrRoute) {
				o["err"] = "route"
			} else {
				o["err"] = "other:" + err.Error()
			}
		}
		o["keyUsed"] = keyUsed
		var lj interface{}
		if lsup == "val" {
			lj = obj{"filters": filtersJSON(fs)}
		}
		var nj interface{}
		if nsup == "val" {
			nj = namedCfg.json()
		}
		c.count("listener="+lsup, 1)
		c.count("step="+step, 1)
		var mkeys []string
		for k := range md {
			mkeys = append(mkeys, k)
		}
		sort.Strings(mkeys)
		mdl := []interface{}{}
		for _, k := range mkeys {
			mdl = append(mdl, []interface{}{k, md[k]})
		}
		rx := []interface{}{}
		for _, re := range c08Regexes {
			cre, cerr := regexp.Compile(re)
			if cerr != nil {
				continue
			}
			seenV := map[string]bool{}
			for _, v := range append(append([]string{}, c08Vals...), mdValues(md)...) {
				if seenV[v] {
					continue
				}
				seenV[v] = true
				rx = append(rx, []interface{}{re, v, cre.MatchString(v)}) // the truth table covers every value the call carries
			}
		}
		c.emit(obj{"op": step, "lsup": lsup, "nsup": nsup, "listener": lj, "named": nj, "pretag": pretag, "initMs": initMs, "matchMethod": matchMethod,
			"method": method, "md": mdl, "rx": rx, "obs": o})
	}
}

// c15E2E drives the real manager: the middleware's listener lookup subscribes, the control plane
// answers with a listener set that does or does not contain the listener.
// c15E2ERds: one middleware instance, one destination whose listener names a route table; the table is delivered,
// then a malformed version of it is pushed (a route without action in front of a valid one: the response is rejected,
// nothing changes), then a new valid version. Every call is decided by the table in force when it is made, and a
// rejected table can never make the routing step panic.
func c15E2ERds(c *ctx) {
	w, err := newWorld(worldOpts{ndsNotRequired: true, fetchTimeout: 300 * time.Millisecond})
	if err != nil {
		fmt.Println("C15 e2e:", err)
		return
	}
	defer w.close()
	useBackend(w.m)
	svc := "svc-rds"
	mw := xdssuite.NewXDSRouterMiddleware()
	nextCalls := 0
	ep := mw(func(ctx context.Context, req, resp interface{}) error { nextCalls++; return nil })
	table := func(version int, malformedFirst bool) *anypb.Any {
		var routes []*v3routepb.Route
		if malformedFirst {
			routes = append(routes, &v3routepb.Route{Match: &v3routepb.RouteMatch{PathSpecifier: &v3routepb.RouteMatch_Prefix{Prefix: "/"}}})
		}
		routes = append(routes, &v3routepb.Route{
			Match: &v3routepb.RouteMatch{PathSpecifier: &v3routepb.RouteMatch_Prefix{Prefix: "/"}},
			Action: &v3routepb.Route_Route{Route: &v3routepb.RouteAction{
				ClusterSpecifier: &v3routepb.RouteAction_Cluster{Cluster: fmt.Sprintf("c-v%d", version)},
				Timeout:          durationpb.New(time.Duration(100+10*version) * time.Millisecond)}}})
		return mustAny(&v3routepb.RouteConfiguration{Name: "rc-e2e", VirtualHosts: []*v3routepb.VirtualHost{{Name: "vh", Routes: routes}}})
	}
	waitSub := func(rt xdsresource.ResourceType, n string) {
		w.waitFor(func() bool {
			for _, x := range w.m.VerifInterest()[rt] {
				if x == n {
					return true
				}
			}
			return false
		}, 2*time.Second)
		w.settle()
	}
	var calls []interface{}
	call := func(wantCluster string, wantMs int, during func()) {
		ri := newRI(svc, "m1", "", false)
		ctx := rpcinfo.NewCtxWithRPCInfo(context.Background(), ri)
		before := nextCalls
		done := make(chan struct{})
		var p bool
		var pmsg string
		var cerr error
		go func() {
			p, pmsg = recoverTo(func() { cerr = ep(ctx, nil, nil) })
			close(done)
		}()
		if during != nil {
			during()
		}
		o := obj{}
		select {
		case <-done:
			o = callState(ri)
			o["panic"], o["panicMsg"], o["next"] = p, pmsg, nextCalls-before
			o["err"] = ""
			if cerr != nil {
				if errors.Is(cerr, kerrors.ErrRoute) {
					o["err"] = "route"
				} else {
					o["err"] = "other:" + cerr.Error()
				}
			}
		case <-time.After(5 * time.Second):
			o = obj{"panic": false, "err": "hang", "next": nextCalls - before}
		}
		var want interface{}
		if wantCluster != "" {
			want = obj{"cluster": wantCluster, "timeoutMs": wantMs}
		}
		calls = append(calls, obj{"want": want, "obs": o})
	}
	call("c-v1", 110, func() {
		waitSub(xdsresource.ListenerType, svc)
		w.push(mkResp(xdsresource.ListenerTypeURL, "l1", "ln1", []*anypb.Any{anyListenerRDS(xdsresource.ReservedLdsResourceName, inboundStamp), anyListenerRDS(svc, "rc-e2e")}))
		waitSub(xdsresource.RouteConfigType, "rc-e2e")
		w.push(mkResp(xdsresource.RouteTypeURL, "r1", "rn1", []*anypb.Any{table(1, false)}))
	})
	w.push(mkResp(xdsresource.RouteTypeURL, "r2", "rn2", []*anypb.Any{table(2, true)}))
	call("c-v1", 110, nil)
	w.push(mkResp(xdsresource.RouteTypeURL, "r3", "rn3", []*anypb.Any{table(3, false)}))
	call("c-v3", 130, nil)
	c.count("e2e-rds", 1)
	c.emit(obj{"op": "e2e-rds", "calls": calls})
}

func c15E2E(c *ctx, supplied bool, ndsNotRequired bool) {
	w, err := newWorld(worldOpts{ndsNotRequired: ndsNotRequired, fetchTimeout: 300 * time.Millisecond})
	if err != nil {
		fmt.Println("C15 e2e:", err)
		return
	}
	defer w.close()
	useBackend(w.m)
	svc := "svc-e2e"
	ri := newRI(svc, "m1", "", false)
	ctx := rpcinfo.NewCtxWithRPCInfo(context.Background(), ri)
	mw := xdssuite.NewXDSRouterMiddleware()
	nextCalls := 0
	ep := mw(func(ctx context.Context, req, resp interface{}) error { nextCalls++; return nil })
	done := make(chan struct{})
	var p bool
	var pmsg string
	go func() {
		p, pmsg = recoverTo(func() { err = ep(ctx, nil, nil) })
		close(done)
	}()
	// wait for the subscription, then answer
	w.waitFor(func() bool {
		for _, n := range w.m.VerifInterest()[xdsresource.ListenerType] {
			if n == svc {
				return true
			}
		}
		return false
	}, 2*time.Second)
	w.settle()
	name := svc
	var tbl []kv
	if !ndsNotRequired {
		tbl = []kv{{svc + ".default.svc.cluster.local", []string{"10.1.1.1"}}}
		name = "10.1.1.1_80"
		w.push(mkResp(xdsresource.NameTableTypeURL, "t1", "tn1", []*anypb.Any{anyNameTable(tbl)}))
	}
	anys := []*anypb.Any{anyListenerRDS(xdsresource.ReservedLdsResourceName, inboundStamp)}
	if supplied {
		hcm := &v3httppb.HttpConnectionManager{RouteSpecifier: &v3httppb.HttpConnectionManager_RouteConfig{RouteConfig: &v3routepb.RouteConfiguration{
			Name: "inline",
			VirtualHosts: []*v3routepb.VirtualHost{{Name: "vh", Routes: []*v3routepb.Route{{
				Match: &v3routepb.RouteMatch{PathSpecifier: &v3routepb.RouteMatch_Prefix{Prefix: "/"}},
				Action: &v3routepb.Route_Route{Route: &v3routepb.RouteAction{
					ClusterSpecifier: &v3routepb.RouteAction_Cluster{Cluster: "c-e2e"}, Timeout: durationpb.New(250 * time.Millisecond)}},
			}}}},
		}}}
		anys = append(anys, mustAny(&v3listenerpb.Listener{Name: name, FilterChains: []*v3listenerpb.FilterChain{{
			Filters: []*v3listenerpb.Filter{{ConfigType: &v3listenerpb.Filter_TypedConfig{TypedConfig: mustAny(hcm)}}}}}}))
	}
	w.push(mkResp(xdsresource.ListenerTypeURL, "l1", "ln1", anys))
	select {
	case <-done:
	case <-time.After(5 * time.Second):
		c.emit(obj{"op": "e2e", "supplied": supplied, "nds": !ndsNotRequired, "obs": obj{"panic": false, "err": "hang", "next": nextCalls}})
		return
	}
	o := callState(ri)
	o["panic"], o["panicMsg"], o["next"] = p, pmsg, nextCalls
	o["err"] = ""
	if err != nil {
		if errors.Is(err, kerrors.ErrRoute) {
			o["err"] = "route"
		} else {
			o["err"] = "other:" + err.Error()
		}
	}
	c.count("e2e", 1)
	c.emit(obj{"op": "e2e", "supplied": supplied, "nds": !ndsNotRequired, "obs": o})
}

func allGRoutes(cfgs ...*gCfg) []*gRoute {
	var out []*gRoute
	for _, c := range cfgs {
		if c == nil {
			continue
		}
		for _, v := range c.HTTP {
			out = append(out, v.Routes...)
		}
		out = append(out, c.Thrift...)
	}
	return out
}

func mdValues(md map[string]string) []string {
	var out []string
	for _, v := range md {
		out = append(out, v)
	}
	sort.Strings(out)
	return out
}
