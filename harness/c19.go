package main

import (
	"errors"
	"fmt"
	"sort"
	"sync"
	"time"

	"google.golang.org/protobuf/types/known/anypb"

	"github.com/kitex-contrib/xds/core/xdsresource"
)

func init() { props["C19"] = runC19 }

// One sweep case = one real manager observed around real cleaner ticks (every 30 s from creation).
// Logical clock of the case: creation = 100, first tick = 130, second tick = 160. Lookups made in the
// set-up phase carry logical time 100; "old" entries are back-dated by 40 s (logical 60); "fresh"
// entries are looked up again just before a tick (logical 129 / 159). "relooked" entries are back-dated by 10 s,
// looked up again (which must refresh the stamp to "now" however young the recorded stamp is) and then moved 5 s
// forward: they are 25 s idle at the first tick and must stay (a stamp that was not refreshed would be 35 s old).
// "dropped" entries (listeners and clusters only) are looked up, then removed by the control plane (a complete update
// without them) and never looked up again: the name is still in the interest set, its access record is 40 s old at the
// tick, and the sweep must withdraw it (a request without it) like any other idle name.
// After the ticks, evicted route-configuration / endpoint names are looked up again; for every second one an update that
// was already on its way when the name was unsubscribed arrives first: it must not bring the entry back (nobody
// subscribes to it, it would never be updated), and the lookup must subscribe again and obtain the current value.

type sweepEntry struct {
	rt, name string
	class    string // old | fresh | never | plain | relooked | dropped
}

type sweepCase struct {
	h       *histRun
	t0      time.Time
	entries []sweepEntry
	nds     bool
	ticks   int
	stalled bool          // the connection is stalled during the first sweep (Send blocks), see stalledSweepWorld
	gate    chan struct{} // closed to resume the connection
	extra   []string      // names beyond histUniverse (eds)
	// failover: the stream fails while the first request of the sweep is inside Send (see failoverSweepWorld)
	failover bool
	idle     []string
}

// stalledSweepWorld: more idle resources than the request channel holds, and a connection that stalls (Send blocks)
// just before the sweep. The cleaner withdraws one name per request; when the channel is full it waits for room. Once the
// connection resumes every withdrawal must have reached the control plane: the last request lists what is still
// subscribed, nothing else ("a request without it is sent", C19).
func stalledSweepWorld(c *ctx, n int) *sweepCase {
	w, err := newWorld(worldOpts{ndsNotRequired: true, fetchTimeout: time.Millisecond})
	if err != nil {
		fmt.Println("C19: world:", err)
		return nil
	}
	sc := &sweepCase{h: &histRun{c: c, w: w}, t0: time.Now(), ticks: 1, stalled: true}
	obs0 := sc.h.observe(0)
	sc.h.steps = append(sc.h.steps, obj{"o": "obs0", "obs": obs0})
	names := make([]string, n)
	for i := range names {
		names[i] = fmt.Sprintf("i%04d", i)
	}
	sc.extra = append(append([]string{}, names...), "used")
	all := append(append([]string{}, names...), "used")
	sc.h.step(obj{"o": "burst", "rt": "eds", "names": all}, func() {
		for _, nm := range all {
			_ = w.get(rtOf("eds"), nm)
		}
	})
	sc.h.steps[len(sc.h.steps)-1].(obj)["now"] = 100
	var slots [][3]string
	var anys []*anypb.Any
	for _, nm := range all {
		slots = append(slots, [3]string{"good", nm, nm + "#1"})
		anys = append(anys, anyStamped("eds", nm, nm+"#1"))
	}
	sc.h.step(obj{"o": "push", "rt": "eds", "v": "v1", "nonce": "n1", "slots": slotsJSON(slots)}, func() {
		w.feed(mkResp(urlOf("eds"), "v1", "n1", anys))
	})
	sc.h.steps[len(sc.h.steps)-1].(obj)["now"] = 100
	for _, nm := range names {
		sc.entries = append(sc.entries, sweepEntry{"eds", nm, "old"})
		ok := w.m.VerifBackdate(rtOf("eds"), nm, 40*time.Second)
		sc.h.steps = append(sc.h.steps, obj{"o": "backdate", "rt": "eds", "n": nm, "now": 60, "applied": ok})
	}
	sc.entries = append(sc.entries, sweepEntry{"eds", "used", "fresh"})
	sc.entries = append(sc.entries, sweepEntry{"lds", xdsresource.ReservedLdsResourceName, "plain"})
	return sc
}

// failoverSweepWorld: forty idle endpoint sets and one in use; the connection stalls just before the sweep, so the first
// withdrawal is inside Send while the sweep produces the others; then that Send fails, the stream breaks and the client
// reconnects. Whatever was in flight or queued, the control plane's last word on the new stream names what is still
// subscribed and nothing that was evicted ("withdrawn from the interest set - a request without it is sent").
func failoverSweepWorld(c *ctx, n int) *sweepCase {
	w, err := newWorld(worldOpts{ndsNotRequired: true, fetchTimeout: time.Millisecond})
	if err != nil {
		fmt.Println("C19: world:", err)
		return nil
	}
	sc := &sweepCase{h: &histRun{c: c, w: w}, t0: time.Now(), ticks: 1, stalled: true, failover: true}
	var names []string
	for i := 0; i < n; i++ {
		names = append(names, fmt.Sprintf("f%03d", i))
	}
	all := append(append([]string{}, names...), "used")
	var anys []*anypb.Any
	for _, nm := range all {
		_ = w.get(rtOf("eds"), nm)
		anys = append(anys, anyStamped("eds", nm, nm+"#1"))
	}
	w.push(mkResp(urlOf("eds"), "v1", "n1", anys))
	for _, nm := range all {
		_ = w.get(rtOf("eds"), nm)
	}
	for _, nm := range names {
		w.m.VerifBackdate(rtOf("eds"), nm, 40*time.Second)
	}
	sc.idle = names
	sc.entries = append(sc.entries, sweepEntry{"eds", "used", "fresh"})
	return sc
}

func (sc *sweepCase) getStep(rt, n string, now int) {
	var res string
	h := sc.h
	h.step(obj{"o": "get", "rt": rt, "n": n}, func() { res = h.w.get(rtOf(rt), n) })
	last := h.steps[len(h.steps)-1].(obj)
	last["now"] = now
	if ob, ok := last["obs"].(obj); ok {
		ob["get"] = res
	}
}

func runC19(c *ctx) {
	r := c.rng
	nWorlds := 8
	ticks := 1
	if c.thorough() {
		nWorlds = 16
		ticks = 2
	}
	var cases []*sweepCase
	version := 0
	// the world whose connection stalls during its sweep is set up alongside the others (its set-up takes a few seconds)
	ssCh := make(chan *sweepCase, 1)
	go func() { ssCh <- stalledSweepWorld(c, 1100) }()
	foCh := make(chan *sweepCase, 1)
	go func() { foCh <- failoverSweepWorld(c, 40) }()
	for i := 0; i < nWorlds; i++ {
		nds := i%2 == 0
		w, err := newWorld(worldOpts{ndsNotRequired: !nds, fetchTimeout: 3 * time.Millisecond})
		if err != nil {
			fmt.Println("C19: world:", err)
			continue
		}
		sc := &sweepCase{h: &histRun{c: c, w: w, nds: nds}, t0: time.Now(), nds: nds, ticks: ticks}
		sc.h.steps = nil
		cases = append(cases, sc)
		obs0 := sc.h.observe(0)
		sc.h.steps = append(sc.h.steps, obj{"o": "obs0", "obs": obs0})
		// entries: names of rds / cds / eds (and, without the name table, listeners), each in a class
		types := []string{"rds", "cds", "eds"}
		if !nds {
			types = append(types, "lds")
		}
		classes := []string{"old", "fresh", "never", "plain", "relooked"}
		for _, rt := range types {
			for _, n := range histUniverse[rt] {
				if n == xdsresource.ReservedLdsResourceName || n == "missing.host" {
					continue
				}
				cl := classes[r.intn(len(classes))]
				if (rt == "cds" || rt == "lds") && r.chance(25) {
					cl = "dropped"
				}
				if i%4 == 1 && rt == "rds" {
					cl = "old" // in these worlds the sweep empties a whole type (every route table is idle)
				}
				sc.entries = append(sc.entries, sweepEntry{rt, n, cl})
			}
		}
		// the reserved inbound listener: looked up and back-dated — it must stay
		sc.entries = append(sc.entries, sweepEntry{"lds", xdsresource.ReservedLdsResourceName, "old"})
		// 1. subscribe everything (missed lookups), 2. push everything, 3. look up all but the `never` class
		for _, e := range sc.entries {
			if e.name != xdsresource.ReservedLdsResourceName {
				sc.getStep(e.rt, e.name, 100)
			}
		}
		for _, rt := range types {
			version++
			var slots [][3]string
			var anys []*anypb.Any
			for _, e := range sc.entries {
				if e.rt == rt {
					st := fmt.Sprintf("%s#%d", e.name, version)
					slots = append(slots, [3]string{"good", e.name, st})
					anys = append(anys, anyStamped(rt, e.name, st))
				}
			}
			v, nonce := fmt.Sprintf("v%d", version), fmt.Sprintf("n%d", version)
			rtc := rt
			sc.h.step(obj{"o": "push", "rt": rt, "v": v, "nonce": nonce, "slots": slotsJSON(slots)}, func() {
				w.feed(mkResp(urlOf(rtc), v, nonce, anys))
			})
			sc.h.steps[len(sc.h.steps)-1].(obj)["now"] = 100
		}
		for _, e := range sc.entries {
			if e.class != "never" {
				sc.getStep(e.rt, e.name, 100)
			}
		}
		// the control plane removes the `dropped` entries: a complete update of the type without them
		for _, rt := range types {
			var slots [][3]string
			var anys []*anypb.Any
			nd := 0
			for _, e := range sc.entries {
				if e.rt != rt {
					continue
				}
				if e.class == "dropped" {
					nd++
					continue
				}
				st := fmt.Sprintf("%s#%d", e.name, version+1)
				slots = append(slots, [3]string{"good", e.name, st})
				anys = append(anys, anyStamped(rt, e.name, st))
			}
			if nd == 0 {
				continue
			}
			version++
			v, nonce := fmt.Sprintf("v%d", version), fmt.Sprintf("n%d", version)
			rtc := rt
			sc.h.step(obj{"o": "push", "rt": rt, "v": v, "nonce": nonce, "slots": slotsJSON(slots)}, func() {
				w.feed(mkResp(urlOf(rtc), v, nonce, anys))
			})
			sc.h.steps[len(sc.h.steps)-1].(obj)["now"] = 100
			c.count("dropped-by-update", nd)
			// a lookup of each dropped name that finds nothing and gives up at its deadline (whatever such a lookup leaves
			// behind must not keep a later lookup from subscribing again)
			for _, e := range sc.entries {
				if e.rt == rt && e.class == "dropped" {
					sc.getStep(e.rt, e.name, 100)
				}
			}
		}
		for _, e := range sc.entries {
			if e.class == "old" || e.class == "dropped" {
				ok := w.m.VerifBackdate(rtOf(e.rt), e.name, 40*time.Second)
				sc.h.steps = append(sc.h.steps, obj{"o": "backdate", "rt": e.rt, "n": e.name, "now": 60, "applied": ok})
			}
		}
		for _, e := range sc.entries {
			if e.class == "relooked" {
				ok := w.m.VerifBackdate(rtOf(e.rt), e.name, 10*time.Second)
				sc.h.steps = append(sc.h.steps, obj{"o": "backdate", "rt": e.rt, "n": e.name, "now": 90, "applied": ok})
				sc.getStep(e.rt, e.name, 100)
				ok = w.m.VerifBackdate(rtOf(e.rt), e.name, -5*time.Second)
				sc.h.steps = append(sc.h.steps, obj{"o": "backdate", "rt": e.rt, "n": e.name, "now": 105, "applied": ok})
			}
		}
		c.count("worlds", 1)
	}
	if ss := <-ssCh; ss != nil {
		cases = append([]*sweepCase{ss}, cases...) // created first: its tick comes first
		c.count("worlds.stalled-sweep", 1)
	}
	if fo := <-foCh; fo != nil {
		// its creation time decides its place (the cases are handled in creation order)
		pos := len(cases)
		for i, sc := range cases {
			if fo.t0.Before(sc.t0) {
				pos = i
				break
			}
		}
		cases = append(cases[:pos], append([]*sweepCase{fo}, cases[pos:]...)...)
		c.count("worlds.failover-sweep", 1)
	}
	for tick := 1; tick <= ticks; tick++ {
		// just before the tick: look the fresh entries up again
		for _, sc := range cases {
			// each manager has its own clock: 1.2 s before ITS tick (the cases are in creation order)
			time.Sleep(time.Until(sc.t0.Add(time.Duration(tick)*30*time.Second - 1200*time.Millisecond)))
			for _, e := range sc.entries {
				if e.class == "fresh" && (tick == 1) {
					sc.getStep(e.rt, e.name, 100+30*tick-1)
				}
			}
			if sc.stalled && tick == 1 {
				// the connection stalls now: the first request of the sweep will block in Send
				sc.gate = make(chan struct{})
				sc.h.w.ads.mu.Lock()
				sc.h.w.ads.streams[len(sc.h.w.ads.streams)-1].sendGate = sc.gate
				sc.h.w.ads.mu.Unlock()
			}
		}
		// wait for every manager's tick and observe
		var wg sync.WaitGroup
		for _, sc := range cases {
			wg.Add(1)
			go func(sc *sweepCase) {
				defer wg.Done()
				time.Sleep(time.Until(sc.t0.Add(time.Duration(tick)*30*time.Second + 700*time.Millisecond)))
			}(sc)
		}
		wg.Wait()
		for _, sc := range cases {
			if sc.failover {
				if tick == 1 {
					sc.failoverObserve(c)
				}
				continue
			}
			if sc.stalled && sc.gate != nil {
				// the cleaner is parked inside the sweep (it holds the manager lock, the channel is full): resume
				sc.h.w.ads.mu.Lock()
				for _, st := range sc.h.w.ads.streams {
					st.sendGate = nil
				}
				sc.h.w.ads.mu.Unlock()
				close(sc.gate)
				sc.gate = nil
			}
			mark := sc.h.w.mark() // requests of the sweep are already on the wire: observe since the previous step
			_ = mark
			// the sweep holds the manager lock from its first to its last eviction: taking that lock once (the snapshot
			// does) is the barrier behind which every request of the sweep has been produced; only then is "the sender is
			// idle" the end of the step (between two evictions of a long sweep the sender is idle, too)
			sc.h.w.settle()
			_, _ = sc.h.w.m.VerifSnapshot()
			sc.h.w.settle()
			o := sc.h.observe(sc.lastMark())
			sc.h.steps = append(sc.h.steps, obj{"o": "tick", "now": 100 + 30*tick, "obs": o})
			c.count("ticks", 1)
		}
	}
	// a later lookup of an evicted name subscribes again and obtains the current value
	for ci, sc := range cases {
		if sc.failover {
			sc.h.w.close()
			continue
		}
		k := 0
		for _, e := range sc.entries {
			if sc.stalled || k == 2 {
				break
			}
			if e.class != "old" || (e.rt != "rds" && e.rt != "eds") {
				continue
			}
			k++
			now := 100 + 30*ticks + 1
			ee := e
			pushOne := func(crossed bool) {
				version++
				st := fmt.Sprintf("%s#%d", ee.name, version)
				v, nonce := fmt.Sprintf("v%d", version), fmt.Sprintf("n%d", version)
				sc.h.step(obj{"o": "push", "rt": ee.rt, "v": v, "nonce": nonce, "crossed": crossed, "slots": slotsJSON([][3]string{{"good", ee.name, st}})}, func() {
					sc.h.w.feed(mkResp(urlOf(ee.rt), v, nonce, []*anypb.Any{anyStamped(ee.rt, ee.name, st)}))
				})
				sc.h.steps[len(sc.h.steps)-1].(obj)["now"] = now
			}
			if (k+ci)%2 == 0 {
				// an update of the name that the control plane sent before it processed the request without it
				pushOne(true)
				c.count("crossed-updates", 1)
			}
			sc.getStep(e.rt, e.name, now)
			pushOne(false)
			sc.getStep(e.rt, e.name, now)
			c.count("relookups", 1)
		}
		// a cluster that the control plane had removed (and the sweep then withdrew) is listed again and looked up again
		for _, e := range sc.entries {
			if sc.stalled || e.class != "dropped" || e.rt != "cds" {
				continue
			}
			now := 100 + 30*ticks + 2
			ee := e
			sc.getStep(e.rt, e.name, now)
			version++
			st := fmt.Sprintf("%s#%d", ee.name, version)
			v, nonce := fmt.Sprintf("v%d", version), fmt.Sprintf("n%d", version)
			sc.h.step(obj{"o": "push", "rt": ee.rt, "v": v, "nonce": nonce, "slots": slotsJSON([][3]string{{"good", ee.name, st}})}, func() {
				sc.h.w.feed(mkResp(urlOf(ee.rt), v, nonce, []*anypb.Any{anyStamped(ee.rt, ee.name, st)}))
			})
			sc.h.steps[len(sc.h.steps)-1].(obj)["now"] = now
			sc.getStep(e.rt, e.name, now)
			c.count("relookups.dropped", 1)
			break
		}
		ents := make([]interface{}, 0, len(sc.entries))
		for _, e := range sc.entries {
			ents = append(ents, obj{"rt": e.rt, "n": e.name, "class": e.class})
		}
		uni := obj{}
		for rt, ns := range histUniverse {
			uni[rt] = ns
		}
		if len(sc.extra) > 0 {
			uni["eds"] = append(append([]string{}, histUniverse["eds"]...), sc.extra...)
		}
		pre := []interface{}{}
		if sc.nds {
			pre = append(pre, obj{"o": "startup-nds"})
		}
		pre = append(pre, obj{"o": "startup-lds", "stamp": inboundStamp})
		obs0 := sc.h.steps[0].(obj)["obs"]
		c.emit(obj{"op": "hist", "cfg": obj{"nds": sc.nds, "ns": "default", "dom": "cluster.local"}, "universe": uni,
			"pre": pre, "obs0": obs0, "steps": sc.h.steps[1:], "entries": ents, "ticks": sc.ticks})
		sc.h.w.close()
	}
}

// lastMark: number of requests already reported in earlier steps of this case.
func (sc *sweepCase) lastMark() int {
	n := 0
	for _, st := range sc.h.steps {
		if o, ok := st.(obj)["obs"].(obj); ok {
			if rs, ok := o["reqs"].([]obj); ok {
				n += len(rs)
			}
		}
	}
	return n
}

// failoverObserve: the first withdrawal of the sweep is inside the stalled Send; that Send now fails, the stream breaks,
// the client reconnects; what does the control plane hold in the end?
func (sc *sweepCase) failoverObserve(c *ctx) {
	w := sc.h.w
	w.ads.mu.Lock()
	for _, st := range w.ads.streams {
		st.sendFail = true
		st.sendGate = nil
	}
	w.ads.mu.Unlock()
	if sc.gate != nil {
		close(sc.gate)
		sc.gate = nil
	}
	w.feedErr(errors.New("verif: connection reset by peer"))
	w.waitFor(func() bool {
		w.ads.mu.Lock()
		defer w.ads.mu.Unlock()
		return len(w.ads.streams) >= 2
	}, 5*time.Second)
	w.settle()
	_, _ = w.m.VerifSnapshot()
	w.settle()
	snap, _ := w.m.VerifSnapshot()
	var cached []string
	for n := range snap[rtOf("eds")] {
		cached = append(cached, n)
	}
	sort.Strings(cached)
	var last []string
	lastNonce, lastSid, nOnNew := "", 0, 0
	w.ads.mu.Lock()
	streams := len(w.ads.streams)
	for _, q := range w.ads.log {
		if q.req.TypeUrl == urlOf("eds") && q.sid == streams {
			last = append([]string{}, q.req.ResourceNames...)
			lastNonce, lastSid = q.req.ResponseNonce, q.sid
			nOnNew++
		}
	}
	w.ads.mu.Unlock()
	sort.Strings(last)
	c.count("ticks", 1)
	c.emit(obj{"op": "sweep-failover", "idle": sc.idle, "used": "used", "now": 130, "idleSince": 60, "usedSince": 129,
		"obs": obj{"interest": w.m.VerifInterest()[rtOf("eds")], "cached": cached, "streams": streams, "lastReqNames": last, "lastReqNonce": lastNonce, "lastReqStream": lastSid, "edsRequestsOnNewStream": nOnNew}})
}
