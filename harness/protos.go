package main

import (
	"fmt"
	"reflect"
	"strings"

	v3clusterpb "github.com/envoyproxy/go-control-plane/envoy/config/cluster/v3"
	v3core "github.com/envoyproxy/go-control-plane/envoy/config/core/v3"
	v3endpointpb "github.com/envoyproxy/go-control-plane/envoy/config/endpoint/v3"
	v3listenerpb "github.com/envoyproxy/go-control-plane/envoy/config/listener/v3"
	v3routepb "github.com/envoyproxy/go-control-plane/envoy/config/route/v3"
	v3httppb "github.com/envoyproxy/go-control-plane/envoy/extensions/filters/network/http_connection_manager/v3"
	"google.golang.org/protobuf/proto"
	"google.golang.org/protobuf/types/known/anypb"
	"google.golang.org/protobuf/types/known/wrapperspb"

	dnsProto "github.com/kitex-contrib/xds/core/api/kitex_gen/istio.io/istio/pkg/dns/proto/istio_networking_nds_v1"
	"github.com/kitex-contrib/xds/core/xdsresource"
)

func mustAny(m proto.Message) *anypb.Any {
	a, err := anypb.New(m)
	if err != nil {
		panic(err)
	}
	return a
}

// kv is an ordered key -> addresses pair (name tables are given as ordered lists so that the
// case lines are deterministic)
type kv struct {
	k  string
	vs []string
}

func anyNameTable(tbl []kv) *anypb.Any {
	nt := &dnsProto.NameTable{Table: map[string]*dnsProto.NameTable_NameInfo{}}
	for _, e := range tbl {
		nt.Table[e.k] = &dnsProto.NameTable_NameInfo{Ips: e.vs}
	}
	return mustAny(nt)
}

// anyListenerRDS: a listener whose only filter chain has an HTTP connection manager pointing at
// the named route table `stamp` (the stamp is what makes the content observable after decoding).
func anyListenerRDS(name, stamp string) *anypb.Any {
	return mustAny(listenerRDS(name, stamp))
}

func listenerRDS(name, stamp string) *v3listenerpb.Listener {
	hcm := &v3httppb.HttpConnectionManager{
		RouteSpecifier: &v3httppb.HttpConnectionManager_Rds{Rds: &v3httppb.Rds{RouteConfigName: stamp}},
	}
	return &v3listenerpb.Listener{
		Name: name,
		FilterChains: []*v3listenerpb.FilterChain{{
			Filters: []*v3listenerpb.Filter{{
				ConfigType: &v3listenerpb.Filter_TypedConfig{TypedConfig: mustAny(hcm)},
			}},
		}},
	}
}

// anyRouteConfig: a route table with one virtual host named `stamp` holding one catch-all route.
func anyRouteConfig(name, stamp string) *anypb.Any {
	return mustAny(&v3routepb.RouteConfiguration{
		Name: name,
		VirtualHosts: []*v3routepb.VirtualHost{{
			Name: stamp,
			Routes: []*v3routepb.Route{{
				Match:  &v3routepb.RouteMatch{PathSpecifier: &v3routepb.RouteMatch_Prefix{Prefix: "/"}},
				Action: &v3routepb.Route_Route{Route: &v3routepb.RouteAction{ClusterSpecifier: &v3routepb.RouteAction_Cluster{Cluster: "c-" + stamp}}},
			}},
		}},
	})
}

// anyCluster: an EDS cluster whose EDS service name is the stamp.
// Clusters c1..c3 whose stamp ends in an even digit are sent in the "linked" form: an EDS cluster that names the endpoint
// set e1..e3 of the history universe (what a real mesh looks like) and carries its stamp as the address of an inline
// endpoint. What is cached and served for one type never depends on the responses of another type.
func anyCluster(name, stamp string) *anypb.Any {
	if len(name) == 2 && name[0] == 'c' && name[1] >= '1' && name[1] <= '3' && stamp != "" && (stamp[len(stamp)-1]-'0')%2 == 0 && stamp[len(stamp)-1] >= '0' && stamp[len(stamp)-1] <= '9' {
		cla := &v3endpointpb.ClusterLoadAssignment{ClusterName: name, Endpoints: []*v3endpointpb.LocalityLbEndpoints{{
			LbEndpoints: []*v3endpointpb.LbEndpoint{{HostIdentifier: &v3endpointpb.LbEndpoint_Endpoint{Endpoint: &v3endpointpb.Endpoint{
				Address: &v3core.Address{Address: &v3core.Address_SocketAddress{SocketAddress: &v3core.SocketAddress{
					Address: stamp, PortSpecifier: &v3core.SocketAddress_PortValue{PortValue: 80}}}}}}}}}}}
		return mustAny(&v3clusterpb.Cluster{
			Name:                 name,
			ClusterDiscoveryType: &v3clusterpb.Cluster_Type{Type: v3clusterpb.Cluster_EDS},
			EdsClusterConfig:     &v3clusterpb.Cluster_EdsClusterConfig{ServiceName: "e" + name[1:]},
			LoadAssignment:       cla,
		})
	}
	return mustAny(&v3clusterpb.Cluster{
		Name:                 name,
		ClusterDiscoveryType: &v3clusterpb.Cluster_Type{Type: v3clusterpb.Cluster_EDS},
		EdsClusterConfig:     &v3clusterpb.Cluster_EdsClusterConfig{ServiceName: stamp},
	})
}

// anyCLA: a load assignment with one endpoint whose address is the stamp (host part).
func anyCLA(name, stamp string) *anypb.Any {
	return mustAny(&v3endpointpb.ClusterLoadAssignment{
		ClusterName: name,
		Endpoints: []*v3endpointpb.LocalityLbEndpoints{{
			LbEndpoints: []*v3endpointpb.LbEndpoint{{
				HostIdentifier: &v3endpointpb.LbEndpoint_Endpoint{Endpoint: &v3endpointpb.Endpoint{
					Address: &v3core.Address{Address: &v3core.Address_SocketAddress{SocketAddress: &v3core.SocketAddress{
						Address: stamp, PortSpecifier: &v3core.SocketAddress_PortValue{PortValue: 80}}}},
				}},
				LoadBalancingWeight: wrapperspb.UInt32(1),
			}},
		}},
	})
}

func anyStamped(rt, name, stamp string) *anypb.Any {
	switch rt {
	case "lds":
		return anyListenerRDS(name, stamp)
	case "rds":
		return anyRouteConfig(name, stamp)
	case "cds":
		return anyCluster(name, stamp)
	case "eds":
		return anyCLA(name, stamp)
	}
	panic("anyStamped: " + rt)
}

// badAny: a resource slot that the decoder of type rt must reject.
// how%3: 0 wrong type URL; 1 right URL with bytes that are not a valid encoding; 2 a resource that is valid protobuf of
// the right type, carries its own name, and is rejected by the decoder for its *content* (a route without action; a
// filter chain whose connection-manager payload does not parse) - the decoders attribute that error to the name.
func badAny(rt string, how int) *anypb.Any {
	switch how % 3 {
	case 0: // wrong type URL
		return &anypb.Any{TypeUrl: "type.googleapis.com/verif.Unknown", Value: []byte{1, 2, 3}}
	case 2:
		switch rt {
		case "rds":
			return mustAny(&v3routepb.RouteConfiguration{
				Name: "bad-named-rc",
				VirtualHosts: []*v3routepb.VirtualHost{{
					Name:   "vh",
					Routes: []*v3routepb.Route{{Match: &v3routepb.RouteMatch{PathSpecifier: &v3routepb.RouteMatch_Prefix{Prefix: "/"}}}},
				}},
			})
		case "lds":
			hcmURL := mustAny(&v3httppb.HttpConnectionManager{}).TypeUrl
			return mustAny(&v3listenerpb.Listener{
				Name: "bad-named-listener",
				FilterChains: []*v3listenerpb.FilterChain{{
					Filters: []*v3listenerpb.Filter{{
						ConfigType: &v3listenerpb.Filter_TypedConfig{TypedConfig: &anypb.Any{TypeUrl: hcmURL, Value: []byte{0xff, 0xff, 0xff, 0xff, 0x0f, 0x01}}},
					}},
				}},
			})
		}
		fallthrough
	default: // right URL, bytes that are not a valid encoding
		return &anypb.Any{TypeUrl: urlOf(rt), Value: []byte{0xff, 0xff, 0xff, 0xff, 0x0f, 0x01}}
	}
}

// stampOf extracts the stamp from a decoded resource ("?" when the shape is unexpected).
func stampOf(res interface{}) string {
	switch r := res.(type) {
	case *xdsresource.ListenerResource:
		if r == nil {
			return "typednil"
		}
		if len(r.NetworkFilters) > 0 {
			return r.NetworkFilters[0].RouteConfigName
		}
		return "?nofilter"
	case *xdsresource.RouteConfigResource:
		if r == nil {
			return "typednil"
		}
		if r.HTTPRouteConfig != nil && len(r.HTTPRouteConfig.VirtualHosts) > 0 {
			return r.HTTPRouteConfig.VirtualHosts[0].Name
		}
		return "?novh"
	case *xdsresource.ClusterResource:
		if r == nil {
			return "typednil"
		}
		if ie := r.InlineEndpoints; ie != nil && len(ie.Localities) > 0 && len(ie.Localities[0].Endpoints) > 0 {
			// the linked form: the stamp is the address of the inline endpoint
			a := ie.Localities[0].Endpoints[0].Addr().String()
			if i := strings.LastIndex(a, ":"); i >= 0 {
				return a[:i]
			}
			return a
		}
		return r.EndpointName
	case *xdsresource.EndpointsResource:
		if r == nil {
			return "typednil"
		}
		if len(r.Localities) > 0 && len(r.Localities[0].Endpoints) > 0 {
			a := r.Localities[0].Endpoints[0].Addr().String()
			if i := strings.LastIndex(a, ":"); i >= 0 {
				return a[:i]
			}
			return a
		}
		return "?noep"
	case nil:
		return "nil"
	}
	return "?" + fmt.Sprintf("%T", res)
}

func isNilIface(v interface{}) bool {
	if v == nil {
		return true
	}
	rv := reflect.ValueOf(v)
	return rv.Kind() == reflect.Ptr && rv.IsNil()
}

// canonGet maps a lookup result to a small vocabulary.
func canonGet(rt xdsresource.ResourceType, res interface{}, err error) string {
	if err != nil {
		if res != nil {
			return "both"
		}
		msg := err.Error()
		switch {
		case strings.Contains(msg, "timeout"):
			return "err:timeout"
		case strings.Contains(msg, "invalid resource type"):
			return "err:invalid-kind"
		default:
			return "err:other"
		}
	}
	if res == nil {
		return "nilnil"
	}
	if isNilIface(res) {
		return "typednil"
	}
	ok := false
	switch rt {
	case xdsresource.ListenerType:
		_, ok = res.(*xdsresource.ListenerResource)
	case xdsresource.RouteConfigType:
		_, ok = res.(*xdsresource.RouteConfigResource)
	case xdsresource.ClusterType:
		_, ok = res.(*xdsresource.ClusterResource)
	case xdsresource.EndpointsType:
		_, ok = res.(*xdsresource.EndpointsResource)
	}
	if !ok {
		return "wrongkind:" + fmt.Sprintf("%T", res)
	}
	return "val:" + stampOf(res)
}
