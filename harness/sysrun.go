package main

import (
	"context"
	"fmt"
	"sync"
	"sync/atomic"
	"time"

	"google.golang.org/protobuf/types/known/anypb"

	"github.com/kitex-contrib/xds/core/xdsresource"
)

// Receiver at lock-section granularity (model: lean/XdsVerif/Model/Sys.lean). A response handler runs three
// sections: acknowledge (c.mu), interest filter (c.mu.RLock), UpdateResource (m.mu). The verif yield points 5
// (before the filter) and 6 (before UpdateResource) park the receiver goroutine so that the script can place
// other operations of the real code (a lookup's Watch, the cleaner's eviction body, a lookup of a cached name)
// between the sections. One case = one manager.

type recvGateT struct {
	mu    sync.Mutex
	armed bool
	point int
	gate  chan struct{}
}

var recvGate = recvGateT{gate: make(chan struct{})}

// recvYield is called from the yield hook for points >= 5 (receiver goroutine).
func recvYield(point int) {
	recvGate.mu.Lock()
	if !recvGate.armed {
		recvGate.mu.Unlock()
		return
	}
	recvGate.point = point
	g := recvGate.gate
	recvGate.mu.Unlock()
	<-g
}

func recvArm(on bool) {
	recvGate.mu.Lock()
	recvGate.armed = on
	recvGate.mu.Unlock()
}

func recvPoint() int {
	recvGate.mu.Lock()
	defer recvGate.mu.Unlock()
	return recvGate.point
}

func recvRelease() {
	recvGate.mu.Lock()
	g := recvGate.gate
	recvGate.gate = make(chan struct{})
	recvGate.point = 0
	recvGate.mu.Unlock()
	close(g)
}

// settleAt waits until the receiver is parked at `point` (or, point 0, is back in Recv) and the sender is idle.
func (w *world) settleAt(point int) bool {
	deadline := time.Now().Add(6 * time.Second)
	for {
		if point == 0 {
			if w.quiet() {
				return true
			}
		} else if recvPoint() == point && w.m.VerifSenderIdle() {
			return true
		} else if recvPoint() == 0 && w.quiet() {
			// the handler ended early (undecodable response, or a type that is not watched)
			return true
		}
		if time.Now().After(deadline) {
			w.hung = true
			return false
		}
		time.Sleep(100 * time.Microsecond)
	}
}

type sysExtra struct {
	pos int    // 0 before the acknowledgement, 1 between acknowledgement and filter, 2 between filter and UpdateResource, 3 after
	op  string // "evict" | "sub" | "get"
	n   string
}

// sysHangs counts the steps of this process that never came back; after a few of them the remaining receiver-section
// cases are skipped (each would cost the same nine seconds and say the same).
var sysHangs int32

func (h *histRun) stepAt(o obj, point int, f func()) bool {
	if h.hung {
		return false
	}
	mark := h.w.mark()
	h.now++
	o["now"] = h.now
	o["sendFail"] = false
	// the operation, the wait for quiescence and the observation run in their own goroutine: if the operation (or an
	// observer that needs the client's or the manager's lock) and the parked response handler wait for each other's
	// locks, nothing returns, and that is the observation
	type result struct {
		ob obj
		ok bool
	}
	ch := make(chan result, 1)
	go func() {
		f()
		if !h.w.settleAt(point) {
			ch <- result{nil, false}
			return
		}
		ob := h.observe(mark)
		ob["recvPoint"] = recvPoint()
		ch <- result{ob, true}
	}()
	var r result
	select {
	case r = <-ch:
	case <-time.After(9 * time.Second):
	}
	if !r.ok {
		o["obs"] = obj{"hang": true}
		h.steps = append(h.steps, o)
		h.hung = true
		h.w.hung = true
		atomic.AddInt32(&sysHangs, 1)
		return false
	}
	o["obs"] = r.ob
	h.steps = append(h.steps, o)
	return true
}

func sysCase(c *ctx, rt string, names []string, second []string, extras []sysExtra, bad bool) {
	if atomic.LoadInt32(&sysHangs) >= 4 {
		c.count("sys.skipped-after-hangs", 1)
		return
	}
	installYield()
	w, err := newWorld(worldOpts{ndsNotRequired: true, fetchTimeout: 3 * time.Millisecond})
	if err != nil {
		fmt.Println("sys: world:", err)
		return
	}
	defer func() {
		recvArm(false)
		recvRelease()
		if !w.hung {
			w.close()
		}
	}()
	h := &histRun{c: c, w: w}
	pre := []interface{}{obj{"o": "startup-lds", "stamp": inboundStamp}}
	obs0 := h.observe(0)
	T := rtOf(rt)
	doExtra := func(e sysExtra, point int) {
		switch e.op {
		case "evict":
			if cache, _ := w.m.VerifSnapshot(); cache[T][e.n] == nil {
				return // the cleaner only visits entries it finds
			}
			h.now += 100 // the cleaner's age test is about wall-clock time; the hook runs the body of a firing iteration
			h.stepAt(obj{"o": "evict", "rt": rt, "n": e.n}, point, func() { w.m.VerifEvict(T, e.n) })
		case "sub":
			h.stepAt(obj{"o": "sub", "rt": rt, "n": e.n}, point, func() { w.m.VerifWatch(T, e.n, false) })
		case "get":
			var res string
			h.stepAt(obj{"o": "get", "rt": rt, "n": e.n}, point, func() { res = w.get(T, e.n) })
			h.steps[len(h.steps)-1].(obj)["obs"].(obj)["get"] = res
		}
	}
	mk := func(ver int, ns []string, withBad bool) (obj, []*anypb.Any) {
		var slots [][3]string
		var anys []*anypb.Any
		for _, n := range ns {
			st := fmt.Sprintf("%s#%d", n, ver)
			slots = append(slots, [3]string{"good", n, st})
			anys = append(anys, anyStamped(rt, n, st))
		}
		if withBad {
			slots = append(slots, [3]string{"bad", "", ""})
			anys = append(anys, badAny(rt, 0))
		}
		return obj{"rt": rt, "v": fmt.Sprintf("v%d", ver), "nonce": fmt.Sprintf("n%d", ver), "slots": slotsJSON(slots)}, anys
	}
	// subscriptions and a first, atomic response
	for _, n := range names {
		h.stepAt(obj{"o": "sub", "rt": rt, "n": n}, 0, func() { w.m.VerifWatch(T, n, false) })
	}
	o1, a1 := mk(1, names, false)
	o1["o"] = "push"
	h.stepAt(o1, 0, func() { w.feed(mkResp(urlOf(rt), "v1", "n1", a1)) })
	// the second response, torn into its sections, with the extra operations placed around them
	for _, e := range extras {
		if e.pos == 0 {
			doExtra(e, 0)
		}
	}
	o2, a2 := mk(2, second, bad)
	recvArm(true)
	oa := obj{"o": "ack"}
	for k, v := range o2 {
		oa[k] = v
	}
	h.stepAt(oa, 5, func() { w.feed(mkResp(urlOf(rt), "v2", "n2", a2)) })
	if recvPoint() == 5 {
		for _, e := range extras {
			if e.pos == 1 {
				doExtra(e, 5)
			}
		}
		h.stepAt(obj{"o": "filter"}, 6, func() { recvRelease() })
		for _, e := range extras {
			if e.pos == 2 {
				doExtra(e, 6)
			}
		}
		h.stepAt(obj{"o": "apply"}, 0, func() { recvArm(false); recvRelease() })
	}
	recvArm(false)
	for _, e := range extras {
		if e.pos == 3 {
			doExtra(e, 0)
		}
	}
	// afterwards: a third, atomic response with new content for every name, and a lookup of each name
	o3, a3 := mk(3, names, false)
	o3["o"] = "push"
	h.stepAt(o3, 0, func() { w.feed(mkResp(urlOf(rt), "v3", "n3", a3)) })
	for _, n := range names {
		var res string
		h.stepAt(obj{"o": "get", "rt": rt, "n": n}, 0, func() { res = w.get(T, n) })
		h.steps[len(h.steps)-1].(obj)["obs"].(obj)["get"] = res
	}
	uni := obj{"lds": []string{xdsresource.ReservedLdsResourceName}, "rds": []string{}, "cds": []string{}, "eds": []string{}}
	all := append([]string{}, names...)
	for _, e := range extras {
		all = append(all, e.n)
	}
	if rt == "lds" {
		all = append(all, xdsresource.ReservedLdsResourceName)
	}
	uni[rt] = dedup(all)
	c.count("sys.cases", 1)
	c.emit(obj{"op": "sys", "cfg": obj{"nds": false, "ns": "default", "dom": "cluster.local"}, "universe": uni, "T": rt,
		"pre": pre, "obs0": obs0, "steps": h.steps})
}

func dedup(xs []string) []string {
	seen := map[string]bool{}
	var out []string
	for _, x := range xs {
		if !seen[x] {
			seen[x] = true
			out = append(out, x)
		}
	}
	return out
}

var sysNames = map[string][]string{
	"eds": {"e1", "e2"}, "rds": {"rc-a", "rc-b"}, "cds": {"c1", "c2"}, "lds": {"echo:80", "Other"},
}

// runSys enumerates: every resource type x every single extra operation x every position around the three
// sections (complete), then random pairs of extras.
func runSys(c *ctx) {
	if !c.noEnum {
		for _, rt := range []string{"eds", "rds", "cds", "lds"} {
			ns := sysNames[rt]
			for pos := 0; pos <= 3; pos++ {
				for _, e := range []sysExtra{{pos, "evict", ns[0]}, {pos, "evict", ns[1]}, {pos, "sub", "extra"}, {pos, "get", ns[0]}, {pos, "get", "extra"}} {
					if c.expired() {
						return
					}
					sysCase(c, rt, ns, ns, []sysExtra{e}, false)
				}
			}
			// second response omitting a name / carrying an undecodable slot
			sysCase(c, rt, ns, ns[:1], []sysExtra{{2, "evict", ns[0]}}, false)
			sysCase(c, rt, ns, ns, []sysExtra{{1, "evict", ns[0]}}, true)
		}
	}
	if !c.noEnum {
		runSysWait(c, []string{"eds", "rds", "cds", "lds"})
	}
	for i := 0; i < 10*c.budget && !c.expired(); i++ {
		rt := []string{"eds", "rds", "cds", "lds"}[c.rng.intn(4)]
		ns := sysNames[rt]
		var ex []sysExtra
		for k := 0; k < 2+c.rng.intn(2); k++ {
			op := []string{"evict", "sub", "get", "evict"}[c.rng.intn(4)]
			n := ns[c.rng.intn(2)]
			if op == "sub" {
				n = []string{"extra", ns[0]}[c.rng.intn(2)]
			}
			ex = append(ex, sysExtra{c.rng.intn(4), op, n})
		}
		second := ns
		if c.rng.chance(30) {
			k := c.rng.intn(2)
			second = ns[k : k+1]
		}
		sysCase(c, rt, ns, second, ex, c.rng.chance(10))
		c.count("sys.random", 1)
	}
}

// sysWaitCase: a lookup that is WAITING for a name while the response that supplies it is handled, and gives up (its
// caller cancels) in one of the gaps between the handler's sections. Giving up concerns that caller alone: the name stays
// subscribed, so the entry the handler then writes keeps being updated; the third response must be served.
// cancelAt: 1 between acknowledgement and filter, 2 between filter and UpdateResource, 3 after the handler.
func sysWaitCase(c *ctx, rt string, cancelAt int) {
	installYield()
	w, err := newWorld(worldOpts{ndsNotRequired: true, fetchTimeout: 20 * time.Second})
	if err != nil {
		fmt.Println("sys: world:", err)
		return
	}
	defer func() {
		recvArm(false)
		recvRelease()
		if !w.hung {
			w.close()
		}
	}()
	h := &histRun{c: c, w: w}
	pre := []interface{}{obj{"o": "startup-lds", "stamp": inboundStamp}}
	obs0 := h.observe(0)
	T := rtOf(rt)
	ns := sysNames[rt]
	mk := func(ver int, names []string) (obj, []*anypb.Any) {
		var slots [][3]string
		var anys []*anypb.Any
		for _, n := range names {
			st := fmt.Sprintf("%s#%d", n, ver)
			slots = append(slots, [3]string{"good", n, st})
			anys = append(anys, anyStamped(rt, n, st))
		}
		return obj{"rt": rt, "v": fmt.Sprintf("v%d", ver), "nonce": fmt.Sprintf("n%d", ver), "slots": slotsJSON(slots)}, anys
	}
	h.stepAt(obj{"o": "sub", "rt": rt, "n": ns[1]}, 0, func() { w.m.VerifWatch(T, ns[1], false) })
	o1, a1 := mk(1, ns[1:])
	o1["o"] = "push"
	h.stepAt(o1, 0, func() { w.feed(mkResp(urlOf(rt), "v1", "n1", a1)) })
	// the waiting lookup of ns[0]
	actx, cancel := context.WithCancel(context.Background())
	defer cancel()
	resCh := make(chan string, 1)
	h.stepAt(obj{"o": "getstart", "rt": rt, "n": ns[0]}, 0, func() {
		go func() {
			res, err := w.m.Get(actx, T, ns[0])
			resCh <- canonGet(T, res, err)
		}()
		w.waitFor(func() bool {
			for _, n := range w.m.VerifInterest()[T] {
				if n == ns[0] {
					return true
				}
			}
			return false
		}, 5*time.Second)
	})
	giveUp := func(point int) {
		var res string
		h.stepAt(obj{"o": "getcancel", "rt": rt, "n": ns[0]}, point, func() {
			cancel()
			select {
			case res = <-resCh:
			case <-time.After(5 * time.Second):
				res = "hang"
			}
		})
		if ob, ok := h.steps[len(h.steps)-1].(obj)["obs"].(obj); ok {
			ob["get"] = res
		}
	}
	// a response that answers the OLDER subscription arrives first: it does not carry the name the lookup waits for (for a
	// full type it is even "complete" without it); the lookup keeps waiting for the response to its own subscription
	o1b, a1b := mk(1, ns[1:])
	o1b["o"], o1b["v"], o1b["nonce"] = "push", "v1b", "n1b"
	h.stepAt(o1b, 0, func() { w.feed(mkResp(urlOf(rt), "v1b", "n1b", a1b)) })
	o2, a2 := mk(2, ns)
	recvArm(true)
	oa := obj{"o": "ack"}
	for k, v := range o2 {
		oa[k] = v
	}
	h.stepAt(oa, 5, func() { w.feed(mkResp(urlOf(rt), "v2", "n2", a2)) })
	if recvPoint() == 5 {
		if cancelAt == 1 {
			giveUp(5)
		}
		h.stepAt(obj{"o": "filter"}, 6, func() { recvRelease() })
		if cancelAt == 2 {
			giveUp(6)
		}
		h.stepAt(obj{"o": "apply"}, 0, func() { recvArm(false); recvRelease() })
	}
	recvArm(false)
	if cancelAt == 3 {
		// the handler delivered: the lookup was woken and has its value
		var res string
		h.stepAt(obj{"o": "getresult", "rt": rt, "n": ns[0]}, 0, func() {
			select {
			case res = <-resCh:
			case <-time.After(5 * time.Second):
				res = "hang"
			}
		})
		if ob, ok := h.steps[len(h.steps)-1].(obj)["obs"].(obj); ok {
			ob["get"] = res
		}
	}
	o3, a3 := mk(3, ns)
	o3["o"] = "push"
	h.stepAt(o3, 0, func() { w.feed(mkResp(urlOf(rt), "v3", "n3", a3)) })
	for _, n := range ns {
		var res string
		h.stepAt(obj{"o": "get", "rt": rt, "n": n}, 0, func() {
			gctx, gc := context.WithTimeout(context.Background(), 50*time.Millisecond)
			defer gc()
			r, err := w.m.Get(gctx, T, n)
			res = canonGet(T, r, err)
		})
		h.steps[len(h.steps)-1].(obj)["obs"].(obj)["get"] = res
	}
	uni := obj{"lds": []string{xdsresource.ReservedLdsResourceName}, "rds": []string{}, "cds": []string{}, "eds": []string{}}
	all := append([]string{}, ns...)
	if rt == "lds" {
		all = append(all, xdsresource.ReservedLdsResourceName)
	}
	uni[rt] = dedup(all)
	c.count("sys.wait", 1)
	c.emit(obj{"op": "sys", "cfg": obj{"nds": false, "ns": "default", "dom": "cluster.local"}, "universe": uni, "T": rt,
		"pre": pre, "obs0": obs0, "steps": h.steps})
}

func runSysWait(c *ctx, rts []string) {
	for _, rt := range rts {
		for at := 1; at <= 3; at++ {
			if c.expired() {
				return
			}
			sysWaitCase(c, rt, at)
		}
	}
}

// runSysLookups: every resource type x a lookup of a cached / an uncached name x every position around the three
// sections of a response handler (complete).
func runSysLookups(c *ctx) {
	for _, rt := range []string{"eds", "rds", "cds", "lds"} {
		ns := sysNames[rt]
		for pos := 0; pos <= 3; pos++ {
			for _, e := range []sysExtra{{pos, "get", ns[0]}, {pos, "get", "extra"}} {
				if c.expired() {
					return
				}
				sysCase(c, rt, ns, ns, []sysExtra{e}, false)
			}
		}
	}
}

func init() {
	props["SYS"] = runSys // development entry; the registered check reaches runSys through C07
}
