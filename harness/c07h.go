package main

import (
	"fmt"
	"github.com/cloudwego/kitex/client"
	"github.com/cloudwego/kitex/pkg/utils"
	"github.com/kitex-contrib/xds/xdssuite"
	"os"
	"runtime"
	"strings"
	"sync"
	"sync/atomic"
	"time"

	"google.golang.org/protobuf/types/known/anypb"

	"github.com/kitex-contrib/xds/core/xdsresource"
)

// handlerOrder (C07, "policy before data"): an update is parked inside a registered update handler (which the real
// UpdateResource runs inside its m.mu section, before the cache write); meanwhile a lookup of the delivered name and the
// registration of a second handler are started. By the time the lookup exposes the resource every handler registered
// by then must have seen the update that delivered it. The case is the observed order of events.
func handlerOrder(c *ctx, rt, name string) {
	w, err := newWorld(worldOpts{ndsNotRequired: true, fetchTimeout: 3 * time.Second})
	if err != nil {
		fmt.Println("c07h: world:", err)
		return
	}
	defer w.close()
	T := rtOf(rt)
	var mu sync.Mutex
	var events []string
	log := func(e string) {
		mu.Lock()
		events = append(events, e)
		mu.Unlock()
	}
	has := func(e string) bool {
		mu.Lock()
		defer mu.Unlock()
		for _, x := range events {
			if x == e {
				return true
			}
		}
		return false
	}
	gate := make(chan struct{})
	w.m.RegisterXDSUpdateHandler(T, func(res map[string]xdsresource.Resource) {
		if _, ok := res[name]; ok {
			log("H1 enter")
			<-gate
			log("H1 exit")
		}
	})
	log("H1 registered")
	w.m.VerifWatch(T, name, false)
	w.settle()
	// a lookup that is already WAITING for the name when the update that delivers it arrives: it is woken by that update
	// and must not return before the registered handler has completed for it either
	var wwg sync.WaitGroup
	wwg.Add(1)
	go func() {
		defer wwg.Done()
		log("wget " + w.get(T, name))
	}()
	w.waitFor(func() bool { return goroutineIn("select", "(*xdsResourceManager).Get") }, 2*time.Second)
	defer wwg.Wait()
	w.feed(mkResp(urlOf(rt), "v1", "n1", []*anypb.Any{anyStamped(rt, name, name+"#1")}))
	if !w.waitFor(func() bool { return has("H1 enter") }, 5*time.Second) {
		c.emit(obj{"op": "handlers-order", "rt": rt, "n": name, "obs": obj{"events": events, "hang": true}})
		return
	}
	var wg sync.WaitGroup
	var gidGet, gidReg int64
	var gmu sync.Mutex
	wg.Add(2)
	go func() {
		defer wg.Done()
		gmu.Lock()
		gidGet = goid()
		gmu.Unlock()
		log("get " + w.get(T, name))
	}()
	go func() {
		defer wg.Done()
		gmu.Lock()
		gidReg = goid()
		gmu.Unlock()
		w.m.RegisterXDSUpdateHandler(T, func(res map[string]xdsresource.Resource) {
			if _, ok := res[name]; ok {
				log("H2 saw " + name)
			}
		})
		log("H2 registered")
	}()
	// both either wait for the manager lock (the handler runs inside it) or have gone ahead
	settled := func(gid int64, doneEv string) bool {
		if gid == 0 {
			return false
		}
		if doneEv != "" && has(doneEv) {
			return true
		}
		st, _ := gstate(gid)
		return st != "running" && st != "runnable"
	}
	w.waitFor(func() bool {
		gmu.Lock()
		a, b := gidGet, gidReg
		gmu.Unlock()
		return settled(a, "") && settled(b, "H2 registered")
	}, 2*time.Second)
	log("H1 released")
	close(gate)
	done := make(chan struct{})
	go func() { wg.Wait(); close(done) }()
	hang := false
	select {
	case <-done:
	case <-time.After(10 * time.Second):
		hang = true
	}
	w.settle()
	mu.Lock()
	ev := append([]string{}, events...)
	mu.Unlock()
	c.count("handlers-order", 1)
	c.emit(obj{"op": "handlers-order", "rt": rt, "n": name, "obs": obj{"events": ev, "hang": hang}})
}

// registrationRace (C07 / C16-C18): a handler is being registered - the manager replays the current cache to it inside
// its m.mu section - and that replay call is parked while the next update arrives. Registration is atomic against
// updates: the update has to wait and is then delivered to the new handler too. By the time a lookup exposes the new
// content the new handler must have seen it.
func registrationRace(c *ctx, rt, name string) {
	w, err := newWorld(worldOpts{ndsNotRequired: true, fetchTimeout: 3 * time.Second})
	if err != nil {
		fmt.Println("c07h: world:", err)
		return
	}
	defer w.close()
	T := rtOf(rt)
	var mu sync.Mutex
	var events []string
	log := func(e string) {
		mu.Lock()
		events = append(events, e)
		mu.Unlock()
	}
	has := func(e string) bool {
		mu.Lock()
		defer mu.Unlock()
		for _, x := range events {
			if x == e {
				return true
			}
		}
		return false
	}
	w.m.VerifWatch(T, name, false)
	w.settle()
	w.push(mkResp(urlOf(rt), "v1", "n1", []*anypb.Any{anyStamped(rt, name, name+"#1")}))
	gate := make(chan struct{})
	first := true
	regDone := make(chan struct{})
	go func() {
		w.m.RegisterXDSUpdateHandler(T, func(res map[string]xdsresource.Resource) {
			if r, ok := res[name]; ok {
				log("H2 saw " + stampOf(r))
				if first {
					first = false
					<-gate
				}
				// a real handler installs its policy while it runs: what it installs last is what stays in force
				log("H2 applied " + stampOf(r))
			}
		})
		log("H2 registered")
		close(regDone)
	}()
	if !w.waitFor(func() bool { return has("H2 saw " + name + "#1") }, 5*time.Second) {
		c.emit(obj{"op": "handlers-order", "kind": "registration", "rt": rt, "n": name, "obs": obj{"events": events, "hang": true}})
		close(gate)
		return
	}
	// the next update arrives while the replay call is parked
	w.feed(mkResp(urlOf(rt), "v2", "n2", []*anypb.Any{anyStamped(rt, name, name+"#2")}))
	w.waitFor(func() bool { return w.quiet() }, 300*time.Millisecond) // it either waits for the manager lock or goes through
	log("H2 replay released")
	close(gate)
	hang := false
	select {
	case <-regDone:
	case <-time.After(10 * time.Second):
		hang = true
	}
	w.settle()
	log("get " + w.get(T, name))
	mu.Lock()
	ev := append([]string{}, events...)
	mu.Unlock()
	c.count("registration-race", 1)
	c.emit(obj{"op": "handlers-order", "kind": "registration", "rt": rt, "n": name, "obs": obj{"events": ev, "hang": hang}})
}

// parkingRes is a cached resource whose JSON rendering can be held up: a dump that is rendering it is in the middle of
// iterating the cache.
type parkingRes struct {
	entered chan struct{}
	gate    chan struct{}
}

func (p *parkingRes) MarshalJSON() ([]byte, error) {
	select {
	case p.entered <- struct{}{}:
	default:
	}
	<-p.gate
	return []byte(`"parked"`), nil
}

// dumpRace (C07): a dump is parked while it renders the cache; an update of the same type arrives. Dumps read the maps
// the updates write: the update has to wait for the dump (they exclude each other through the manager lock); an update
// that completes while the dump is still iterating is a data race (and, unluckily timed, a crash of the process:
// "concurrent map iteration and map write").
func dumpRace(c *ctx, rt string) {
	path := fmt.Sprintf("%s/xdsverif-dump-%d-%s.json", os.TempDir(), os.Getpid(), rt)
	defer os.Remove(path)
	w, err := newWorld(worldOpts{ndsNotRequired: true, fetchTimeout: 3 * time.Second, dumpPath: path})
	if err != nil {
		fmt.Println("c07h: world:", err)
		return
	}
	defer w.close()
	T := rtOf(rt)
	var mu sync.Mutex
	var events []string
	log := func(e string) {
		mu.Lock()
		events = append(events, e)
		mu.Unlock()
	}
	pr := &parkingRes{entered: make(chan struct{}, 1), gate: make(chan struct{})}
	w.m.UpdateResource(T, map[string]xdsresource.Resource{"parked": pr}, "v1")
	dumpDone := make(chan struct{})
	go func() { w.m.Dump(); log("dump done"); close(dumpDone) }()
	select {
	case <-pr.entered:
		log("dump parked")
	case <-time.After(5 * time.Second):
		close(pr.gate)
		c.emit(obj{"op": "handlers-order", "kind": "dump", "rt": rt, "n": "parked", "obs": obj{"events": events, "hang": true}})
		return
	}
	updDone := make(chan struct{})
	var gid int64
	var gmu sync.Mutex
	go func() {
		gmu.Lock()
		gid = goid()
		gmu.Unlock()
		w.m.UpdateResource(T, map[string]xdsresource.Resource{"parked": pr, "other": &xdsresource.ClusterResource{EndpointName: "other#2"}}, "v2")
		log("update done")
		close(updDone)
	}()
	w.waitFor(func() bool {
		select {
		case <-updDone:
			return true
		default:
		}
		gmu.Lock()
		g := gid
		gmu.Unlock()
		return g != 0 && gBlockedOnMutex(g)
	}, 3*time.Second)
	select {
	case <-updDone:
	default:
		log("update waits")
	}
	log("dump released")
	close(pr.gate)
	hang := false
	for _, ch := range []chan struct{}{dumpDone, updDone} {
		select {
		case <-ch:
		case <-time.After(5 * time.Second):
			hang = true
		}
	}
	mu.Lock()
	ev := append([]string{}, events...)
	mu.Unlock()
	c.count("dump-race", 1)
	c.emit(obj{"op": "handlers-order", "kind": "dump", "rt": rt, "n": "parked", "obs": obj{"events": ev, "hang": hang}})
}

// lockStress: one large response of a partial type (every name subscribed) is handled while two goroutines keep changing
// the interest set of that type. The receiver's interest filter reads under the client lock, the subscriptions write
// under it: whatever the interleaving inside the filter loop (there is no yield point there), both sides finish - a
// read lock that is taken again by its own holder deadlocks as soon as a writer queues up between the two.
func lockStress(c *ctx, rt string, n int) {
	w, err := newWorld(worldOpts{ndsNotRequired: true, fetchTimeout: time.Second})
	if err != nil {
		fmt.Println("c07h: world:", err)
		return
	}
	defer w.close()
	T := rtOf(rt)
	var anys []*anypb.Any
	for i := 0; i < n; i++ {
		nm := fmt.Sprintf("s%04d", i)
		w.m.VerifWatch(T, nm, false)
		anys = append(anys, anyStamped(rt, nm, nm+"#1"))
	}
	w.settle()
	stop := make(chan struct{})
	var wg sync.WaitGroup
	var changes int64
	for g := 0; g < 2; g++ {
		wg.Add(1)
		go func(g int) {
			defer wg.Done()
			for i := 0; ; i++ {
				select {
				case <-stop:
					return
				default:
				}
				w.m.VerifWatch(T, fmt.Sprintf("extra-%d", g), i%2 == 1)
				atomic.AddInt64(&changes, 1)
			}
		}(g)
	}
	time.Sleep(2 * time.Millisecond)
	w.feed(mkResp(urlOf(rt), "v1", "n1", anys))
	applied := w.waitFor(func() bool {
		// (only the manager's lock is taken here: an observation that needs the client's lock would hang with the client)
		snap, _ := w.m.VerifSnapshot()
		return len(snap[T]) >= n
	}, 6*time.Second)
	close(stop)
	finished := make(chan struct{})
	go func() { wg.Wait(); close(finished) }()
	watchersDone := true
	select {
	case <-finished:
	case <-time.After(3 * time.Second):
		watchersDone = false
	}
	state := ""
	if !applied || !watchersDone {
		if goroutineIn("sync.RWMutex.RLock", "manager.(*xdsClient).handle") || goroutineIn("semacquire", "manager.(*xdsClient).handle") {
			state = "the receiver waits for the client's read lock inside a response handler"
		}
		if goroutineIn("sync.RWMutex.Lock", "manager.(*xdsClient).Watch") || goroutineIn("semacquire", "manager.(*xdsClient).Watch") {
			state += "; a subscription waits for the client's write lock"
		}
	}
	c.count("lock-stress", 1)
	c.emit(obj{"op": "handlers-order", "kind": "lock-stress", "rt": rt, "n": fmt.Sprint(n),
		"obs": obj{"events": []string{}, "applied": applied, "watchersDone": watchersDone, "changes": atomic.LoadInt64(&changes), "state": state}})
}

// cbPolicyBeforeData: the REAL circuit-breaker handler of xdssuite is registered; lookups wait for clusters that the next
// update delivers with an outlier detection. At the moment a lookup exposes its cluster, the breaker configuration
// derived from that update is already in force ("policy before data" with the suite's own handler, not a test double).
// On one processor, so that "right after the lookup returned" leaves no room for a late applier to slip in first.
func cbPolicyBeforeData(c *ctx) {
	old := runtime.GOMAXPROCS(1)
	defer runtime.GOMAXPROCS(old)
	w, err := newWorld(worldOpts{ndsNotRequired: true, fetchTimeout: 3 * time.Second})
	if err != nil {
		fmt.Println("c07h: world:", err)
		return
	}
	defer w.close()
	useBackend(w.m)
	o := &client.Options{}
	xdssuite.NewCircuitBreaker(xdssuite.WithServiceCircuitBreak(true)).F(o, &utils.Slice{})
	suite := o.CBSuite
	rounds, inForce, stale := 12, 0, 0
	var notes []string
	for k := 0; k < rounds; k++ {
		name := fmt.Sprintf("pb%02d", k)
		thr, vol := 10+k, 100+k
		type out struct {
			res string
			cfg obj
		}
		ch := make(chan out, 1)
		go func() {
			res := w.get(rtOf("cds"), name)
			ch <- out{res, dumpCB(suite)} // the configuration as the caller finds it when the lookup has exposed the cluster
		}()
		if !w.waitFor(func() bool {
			for _, n := range w.m.VerifPending()[rtOf("cds")] {
				if n == name {
					return true
				}
			}
			return false
		}, 3*time.Second) {
			notes = append(notes, name+": the lookup never waited")
			continue
		}
		// (the version string identifies the control plane's push, not the content: every second response re-uses the
		// version of the one before)
		w.feed(mkResp(xdsresource.ClusterTypeURL, fmt.Sprintf("v%d", k/2+1), fmt.Sprintf("n%d", k+1), []*anypb.Any{clusterWithOutlier(name, gOutlier{Present: true, Thr: thr, Vol: vol})}))
		select {
		case r := <-ch:
			cfg, _ := r.cfg[name].([]interface{})
			if strings.HasPrefix(r.res, "val:") && len(cfg) == 3 && cfg[0] == true && cfg[1] == thr && cfg[2] == int64(vol) {
				inForce++
			} else if strings.HasPrefix(r.res, "val:") {
				stale++
				notes = append(notes, fmt.Sprintf("%s exposed (%s) while its breaker configuration was %v (update says enabled %d%%/%d)", name, r.res, r.cfg[name], thr, vol))
			} else {
				notes = append(notes, name+": lookup returned "+r.res)
			}
		case <-time.After(5 * time.Second):
			notes = append(notes, name+": lookup hangs")
		}
		w.settle()
	}
	if len(notes) > 3 {
		notes = notes[:3]
	}
	c.count("cb-policy-before-data", 1)
	c.emit(obj{"op": "handlers-order", "kind": "cb-policy", "rt": "cds", "n": fmt.Sprint(rounds), "obs": obj{"events": []string{}, "rounds": rounds, "inForce": inForce, "stale": stale, "notes": notes}})
}

// handlerPanic: a registered update handler panics while an update is applied (user code can). The client's receive loop
// recovers and ends - that is what the code does with a panic - but nothing may stay locked behind it: lookups of cached
// names keep being served and lookups of other names end at their deadline.
func handlerPanic(c *ctx, rt string) {
	w, err := newWorld(worldOpts{ndsNotRequired: true, fetchTimeout: 300 * time.Millisecond})
	if err != nil {
		fmt.Println("c07h: world:", err)
		return
	}
	defer w.close()
	T := rtOf(rt)
	w.m.VerifWatch(T, "kept", false)
	w.m.VerifWatch(T, "boom", false)
	w.settle()
	w.push(mkResp(urlOf(rt), "v1", "n1", []*anypb.Any{anyStamped(rt, "kept", "kept#1")}))
	w.m.RegisterXDSUpdateHandler(T, func(res map[string]xdsresource.Resource) {
		if _, ok := res["boom"]; ok {
			panic("verif: update handler panics on this resource")
		}
	})
	w.feed(mkResp(urlOf(rt), "v2", "n2", []*anypb.Any{anyStamped(rt, "kept", "kept#2"), anyStamped(rt, "boom", "boom#2")}))
	time.Sleep(50 * time.Millisecond)
	look := func(name string) string {
		ch := make(chan string, 1)
		go func() { ch <- w.get(T, name) }()
		select {
		case r := <-ch:
			return r
		case <-time.After(4 * time.Second):
			w.hung = true
			return "hang"
		}
	}
	cached := look("kept")
	missing := "skipped"
	if cached != "hang" {
		missing = look("never-delivered")
	}
	c.count("handler-panic", 1)
	c.emit(obj{"op": "handlers-order", "kind": "handler-panic", "rt": rt, "n": "kept", "obs": obj{"events": []string{}, "cached": cached, "missing": missing}})
}

// evictDuringUpdate: a partial update of a merge type (route tables, endpoint sets) is being applied - a registered handler
// takes its time - when the cleaner evicts ANOTHER, idle name of that type. Update and eviction exclude each other (both
// run under the manager lock): whichever comes first, afterwards the evicted name is neither cached nor subscribed; an
// update that does not even mention the name can never bring it back.
func evictDuringUpdate(c *ctx, rt string) {
	w, err := newWorld(worldOpts{ndsNotRequired: true, fetchTimeout: 300 * time.Millisecond})
	if err != nil {
		fmt.Println("c07h: world:", err)
		return
	}
	defer w.close()
	T := rtOf(rt)
	w.m.VerifWatch(T, "idle", false)
	w.m.VerifWatch(T, "busy", false)
	w.settle()
	w.push(mkResp(urlOf(rt), "v1", "n1", []*anypb.Any{anyStamped(rt, "idle", "idle#1"), anyStamped(rt, "busy", "busy#1")}))
	entered, gate := make(chan struct{}, 1), make(chan struct{})
	var armed int32 // (the registration itself replays the cache to the handler: that call is not the one to park)
	w.m.RegisterXDSUpdateHandler(T, func(res map[string]xdsresource.Resource) {
		if atomic.LoadInt32(&armed) == 0 {
			return
		}
		select {
		case entered <- struct{}{}:
			<-gate // a slow handler, once
		default:
		}
	})
	atomic.StoreInt32(&armed, 1)
	w.feed(mkResp(urlOf(rt), "v2", "n2", []*anypb.Any{anyStamped(rt, "busy", "busy#2")}))
	order := "update parked in its handler"
	select {
	case <-entered:
	case <-time.After(3 * time.Second):
		order = "the handler never ran"
	}
	evicted := make(chan struct{})
	go func() { w.m.VerifEvict(T, "idle"); close(evicted) }()
	evictedEarly := false
	select {
	case <-evicted:
		evictedEarly = true // the eviction did not have to wait for the update
	case <-time.After(60 * time.Millisecond):
	}
	close(gate)
	hang := false
	select {
	case <-evicted:
	case <-time.After(4 * time.Second):
		hang = true
		w.hung = true
	}
	if !hang {
		w.settle()
	}
	snap, _ := w.m.VerifSnapshot()
	_, cachedIdle := snap[T]["idle"]
	subscribed := false
	for _, n := range w.m.VerifInterest()[T] {
		if n == "idle" {
			subscribed = true
		}
	}
	busy := ""
	if r, ok := snap[T]["busy"]; ok {
		busy = stampOf(r)
	}
	c.count("evict-during-update", 1)
	c.emit(obj{"op": "evict-during-update", "rt": rt, "obs": obj{"order": order, "evictionRanInsideTheUpdate": evictedEarly, "hang": hang,
		"idleCached": cachedIdle, "idleSubscribed": subscribed, "busy": busy}})
}
