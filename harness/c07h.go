package main

import (
	"fmt"
	"sync"
	"time"

	"google.golang.org/protobuf/types/known/anypb"

	"github.com/kitex-contrib/xds/core/xdsresource"
)

// handlerOrder (C07, "policy before data"): an update is parked inside a registered update handler (which the real
// UpdateResource runs inside its m.mu section, before the cache write); meanwhile a lookup of the delivered name and the
// registration of a second handler are started. By the time the lookup exposes the resource every handler registered
// by then must have seen the update that delivered it. The case is the observed order of events.
func handlerOrder(c *ctx, rt, name string) {
	w, err := newWorld(worldOpts{ndsNotRequired: true, fetchTimeout: 3 * time.Second})
	if err != nil {
		fmt.Println("c07h: world:", err)
		return
	}
	defer w.close()
	T := rtOf(rt)
	var mu sync.Mutex
	var events []string
	log := func(e string) {
		mu.Lock()
		events = append(events, e)
		mu.Unlock()
	}
	has := func(e string) bool {
		mu.Lock()
		defer mu.Unlock()
		for _, x := range events {
			if x == e {
				return true
			}
		}
		return false
	}
	gate := make(chan struct{})
	w.m.RegisterXDSUpdateHandler(T, func(res map[string]xdsresource.Resource) {
		if _, ok := res[name]; ok {
			log("H1 enter")
			<-gate
			log("H1 exit")
		}
	})
	log("H1 registered")
	w.m.VerifWatch(T, name, false)
	w.settle()
	w.feed(mkResp(urlOf(rt), "v1", "n1", []*anypb.Any{anyStamped(rt, name, name+"#1")}))
	if !w.waitFor(func() bool { return has("H1 enter") }, 5*time.Second) {
		c.emit(obj{"op": "handlers-order", "rt": rt, "n": name, "obs": obj{"events": events, "hang": true}})
		return
	}
	var wg sync.WaitGroup
	var gidGet, gidReg int64
	var gmu sync.Mutex
	wg.Add(2)
	go func() {
		defer wg.Done()
		gmu.Lock()
		gidGet = goid()
		gmu.Unlock()
		log("get " + w.get(T, name))
	}()
	go func() {
		defer wg.Done()
		gmu.Lock()
		gidReg = goid()
		gmu.Unlock()
		w.m.RegisterXDSUpdateHandler(T, func(res map[string]xdsresource.Resource) {
			if _, ok := res[name]; ok {
				log("H2 saw " + name)
			}
		})
		log("H2 registered")
	}()
	// both either wait for the manager lock (the handler runs inside it) or have gone ahead
	settled := func(gid int64, doneEv string) bool {
		if gid == 0 {
			return false
		}
		if doneEv != "" && has(doneEv) {
			return true
		}
		st, _ := gstate(gid)
		return st != "running" && st != "runnable"
	}
	w.waitFor(func() bool {
		gmu.Lock()
		a, b := gidGet, gidReg
		gmu.Unlock()
		return settled(a, "") && settled(b, "H2 registered")
	}, 2*time.Second)
	log("H1 released")
	close(gate)
	done := make(chan struct{})
	go func() { wg.Wait(); close(done) }()
	hang := false
	select {
	case <-done:
	case <-time.After(10 * time.Second):
		hang = true
	}
	w.settle()
	mu.Lock()
	ev := append([]string{}, events...)
	mu.Unlock()
	c.count("handlers-order", 1)
	c.emit(obj{"op": "handlers-order", "rt": rt, "n": name, "obs": obj{"events": ev, "hang": hang}})
}
