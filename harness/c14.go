package main

import (
	"fmt"
	"strings"

	v3core "github.com/envoyproxy/go-control-plane/envoy/config/core/v3"
	"google.golang.org/protobuf/types/known/anypb"

	"github.com/kitex-contrib/xds/core/manager"
	"github.com/kitex-contrib/xds/core/xdsresource"
)

func init() { props["C14"] = runC14 }

var c14Labels = []string{"echoa", "svc", "default", "ns2", "cluster", "local", "www", "example", "com", "a", "b-1"}
var c14Cfgs = [][2]string{{"default", "cluster.local"}, {"ns2", "cluster.local"}, {"prod", "k8s.example.org"}}

func genHost(r *rng, maxLabels int) string {
	n := 1 + r.intn(maxLabels)
	ls := make([]string, n)
	for i := range ls {
		ls[i] = r.pick(c14Labels)
	}
	h := strings.Join(ls, ".")
	if r.chance(8) {
		h += "." // trailing dot: an empty last label
	}
	return h
}

func flipCase(r *rng, s string) string {
	b := []byte(s)
	for i := range b {
		if b[i] >= 'a' && b[i] <= 'z' && r.chance(30) {
			b[i] -= 32
		}
	}
	return string(b)
}

func tableObj(tbl []kv) []interface{} {
	out := make([]interface{}, 0, len(tbl))
	for _, e := range tbl {
		vs := e.vs
		if vs == nil {
			vs = []string{}
		}
		out = append(out, []interface{}{e.k, vs})
	}
	return out
}

func runC14(c *ctx) {
	r := c.rng
	// 1. expansion: bounded-exhaustive over label tuples up to length 3 of a small alphabet, plus random
	small := []string{"echoa", "svc", "default", "x"}
	for _, cfg := range c14Cfgs {
		bc := manager.NewBootstrapConfigForVerif(cfg[0], cfg[1], &v3core.Node{}, &manager.XDSServerConfig{})
		var hosts []string
		for _, a := range small {
			hosts = append(hosts, a)
			for _, b := range small {
				hosts = append(hosts, a+"."+b)
				for _, d := range small {
					hosts = append(hosts, a+"."+b+"."+d)
				}
			}
		}
		hosts = append(hosts, "", ".", "..", "a.svc.", ".svc.", "a.b.svc.cluster.local", "echoa.default.svc.cluster.local",
			"org.cloudwego.kitex.samples.api.greetprovider", "a.b.c.d", "a.b.c.d.e")
		for i := 0; i < 150*c.budget; i++ {
			hosts = append(hosts, genHost(r, 5))
		}
		for _, h := range hosts {
			out := bc.VerifExpand(h)
			c.count("expand", 1)
			c.emit(obj{"op": "expand", "ns": cfg[0], "dom": cfg[1], "host": h, "obs": obj{"out": out}})
			// idempotence and the qualified-unchanged law directly on the implementation
			out2 := bc.VerifExpand(out)
			c.emit(obj{"op": "expand", "ns": cfg[0], "dom": cfg[1], "host": out, "obs": obj{"out": out2}})
		}
	}
	// 1b. the same through configurations built from the ENVIRONMENT (the namespace used for expansion is the metadata's
	// NAMESPACE entry when there is one, else the pod's; the domain comes from KITEX_XDS_DOMAIN)
	for _, e := range []struct{ podNs, metaNs, dom string }{{"default", "", ""}, {"default", "team-b", ""}, {"pod-ns", "meta-ns", "k8s.example.org"}, {"default", "default", "cluster.local"}} {
		env := map[string]string{"POD_NAMESPACE": e.podNs, "POD_NAME": "pod-a", "INSTANCE_IP": "10.0.0.1"}
		wantNs, wantDom := e.podNs, "cluster.local"
		if e.metaNs != "" {
			env["KITEX_XDS_METAS"] = `{"NAMESPACE":"` + e.metaNs + `","CLUSTER_ID":"K"}`
			wantNs = e.metaNs
		}
		if e.dom != "" {
			env["KITEX_XDS_DOMAIN"] = e.dom
			wantDom = e.dom
		}
		setEnv(env)
		bc, err := manager.NewBootstrapConfigFromEnv(&manager.XDSServerConfig{})
		if err != nil {
			fmt.Println("C14: bootstrap from env:", err)
			continue
		}
		hosts := []string{"echo", "echo.team-a", "echo.x.svc", "a.b.c.d", "echo.default.svc.cluster.local", "Echo", ""}
		for i := 0; i < 40*c.budget; i++ {
			hosts = append(hosts, genHost(r, 5))
		}
		for _, h := range hosts {
			c.count("expand.env", 1)
			c.emit(obj{"op": "expand", "ns": wantNs, "dom": wantDom, "host": h, "obs": obj{"out": bc.VerifExpand(h)}})
		}
	}
	setEnv(map[string]string{})
	// 2. binding through the real client: NDS push, then getListenerName / resolveAddr
	worlds := 6 * c.budget
	for wi := 0; wi < worlds; wi++ {
		cfg := c14Cfgs[r.intn(len(c14Cfgs))]
		w, err := newWorld(worldOpts{ns: cfg[0], domain: cfg[1]})
		if err != nil {
			fmt.Println("C14: world:", err)
			continue
		}
		bc := manager.NewBootstrapConfigForVerif(cfg[0], cfg[1], &v3core.Node{}, &manager.XDSServerConfig{})
		// the same hosts live through all the table updates of this client (their key form and addresses change from
		// table to table: literal only, then literal and fqdn with different addresses, ...): whatever the client
		// remembers about an earlier table must not leak into the binding under the current one
		var pool []string
		for i := 0; i < 6; i++ {
			pool = append(pool, genHost(r, 4))
		}
		for ti := 0; ti < 4; ti++ { // name-table updates over time
			hosts := append([]string{}, pool...)
			for i := 0; i < 2; i++ {
				hosts = append(hosts, genHost(r, 4))
			}
			var tbl []kv
			seen := map[string]bool{}
			addKey := func(k string, vs []string) {
				if !seen[k] {
					seen[k] = true
					tbl = append(tbl, kv{k, vs})
				}
			}
			for i, h := range hosts {
				ip := fmt.Sprintf("10.%d.%d.%d", wi%250, ti, i+1)
				switch r.intn(8) {
				case 6: // several addresses in the control plane's own order (not sorted, with a repetition): the FIRST one binds
					addKey(bc.VerifExpand(h), []string{"192.168.7." + fmt.Sprint(i+1), ip, "10.9.9.9", ip})
				case 7: // the service is known under ANOTHER domain only (multi-cluster alias): the table cannot resolve the host
					fq := bc.VerifExpand(h)
					if strings.HasSuffix(fq, ".svc."+cfg[1]) {
						addKey(strings.TrimSuffix(fq, cfg[1])+"clusterset.local", []string{"10.77.0." + fmt.Sprint(i+1)})
						if r.bool() {
							addKey(fq, []string{ip}) // ... or under both, with different addresses: the configured domain counts
						}
					} else {
						addKey(h, []string{ip})
					}
				case 0, 1: // fqdn key
					addKey(bc.VerifExpand(h), []string{ip, "10.9.9.9"})
				case 2: // literal key
					addKey(h, []string{ip})
				case 3: // both, different addresses
					addKey(bc.VerifExpand(h), []string{ip})
					addKey(h, []string{"10.200.0." + fmt.Sprint(i+1)})
				case 4: // present with no address
					addKey(bc.VerifExpand(h), nil)
					if r.bool() {
						addKey(h, []string{ip})
					}
				case 5: // key with upper-case letters (never matches a lower-cased host)
					addKey(strings.ToUpper(h[:1])+h[1:], []string{ip})
				}
			}
			// the version string is the control plane's business: a restarted instance re-uses "t0" for a different table
			tv := fmt.Sprintf("t%d", ti)
			if ti > 0 && r.chance(35) {
				tv = fmt.Sprintf("t%d", ti-1)
				c.count("table-version-reused", 1)
			}
			if !w.push(mkResp(xdsresource.NameTableTypeURL, tv, fmt.Sprintf("tn%d", ti), []*anypb.Any{anyNameTable(tbl)})) {
				c.emit(obj{"op": "hang", "obs": obj{}})
				break
			}
			if r.chance(35) {
				// a name-table response with two resource slots: the decoder reads the FIRST slot (the control plane sends one
				// table per response). An undecodable first slot rejects the response as a whole - the well-formed table behind
				// it is not installed, the table in force stays the last accepted one; a well-formed first slot is the new table,
				// whatever follows it.
				var moved []kv
				for i, e := range tbl {
					moved = append(moved, kv{e.k, []string{fmt.Sprintf("10.250.%d.%d", ti, i+1)}})
				}
				if r.bool() {
					w.push(mkResp(xdsresource.NameTableTypeURL, fmt.Sprintf("rej%d", ti), fmt.Sprintf("rn%d", ti), []*anypb.Any{badAny("nds", r.intn(2)), anyNameTable(moved)}))
					c.count("table-rejected", 1)
				} else {
					w.push(mkResp(xdsresource.NameTableTypeURL, fmt.Sprintf("two%d", ti), fmt.Sprintf("rn%d", ti), []*anypb.Any{anyNameTable(moved), badAny("nds", r.intn(2))}))
					tbl = moved
					c.count("table-first-slot-of-two", 1)
				}
			}
			for q := 0; q < 40; q++ {
				var h string
				if r.chance(75) {
					h = hosts[r.intn(len(hosts))]
				} else {
					h = genHost(r, 5)
				}
				if r.chance(40) {
					h = flipCase(r, h)
				}
				name := h
				switch r.intn(10) {
				case 0, 1, 2:
					name = h + ":8888"
				case 3:
					name = h + ":80"
				case 4:
					name = h + ":"
				case 5:
					if r.chance(30) {
						name = h + ":1:2"
					}
				}
				var ln string
				var lerr error
				var res string
				p, msg := recoverTo(func() {
					ln, lerr = w.m.VerifListenerName(name)
					res = w.m.VerifResolveAddr(h)
				})
				o := obj{"resolve": res, "panic": p, "panicMsg": msg}
				if lerr != nil {
					o["ln"] = nil
				} else {
					o["ln"] = ln
				}
				c.count("bind", 1)
				if lerr == nil {
					c.count("bind-ok", 1)
				}
				c.emit(obj{"op": "bind", "ns": cfg[0], "dom": cfg[1], "table": tableObj(tbl), "name": name, "host": h, "obs": o})
			}
			// 3. end to end: subscribe listeners by host name, push listeners named ip_port, look them up
			var subs []string
			for i := 0; i < 4; i++ {
				h := hosts[r.intn(len(hosts))]
				if r.chance(30) {
					h = flipCase(r, h)
				}
				if r.chance(40) {
					h += ":8888"
				}
				subs = append(subs, h)
			}
			// a looked-up "host" that is spelt exactly like a listener of the push (<ip>_<port> of another service): the name
			// table cannot resolve it, so it is bound to nothing - a name is never matched against listener names directly
			forced := ""
			for _, e := range tbl {
				if len(e.vs) > 0 && r.chance(50) {
					forced = e.vs[0] + "_80"
					subs = append(subs, forced)
					break
				}
			}
			for _, s := range subs {
				w.m.VerifWatch(xdsresource.ListenerType, s, false)
			}
			w.settle()
			var lis [][2]string
			var anys []*anypb.Any
			seenL := map[string]bool{}
			if forced != "" {
				seenL[forced] = true
				st := fmt.Sprintf("rc-%d-%d-forced", wi, ti)
				lis = append(lis, [2]string{forced, st})
				anys = append(anys, anyListenerRDS(forced, st))
			}
			for i, e := range tbl {
				if len(e.vs) == 0 {
					continue
				}
				for _, port := range []string{"80", "8888"} {
					if r.chance(70) {
						n := e.vs[0] + "_" + port
						if seenL[n] {
							continue
						}
						seenL[n] = true
						st := fmt.Sprintf("rc-%d-%d-%d-%s", wi, ti, i, port)
						lis = append(lis, [2]string{n, st})
						anys = append(anys, anyListenerRDS(n, st))
					}
				}
			}
			w.push(mkResp(xdsresource.ListenerTypeURL, fmt.Sprintf("l%d", ti), fmt.Sprintf("ln%d", ti), anys))
			gets := obj{}
			for _, s := range subs {
				gets[s] = w.get(xdsresource.ListenerType, s)
			}
			lo := make([]interface{}, 0, len(lis))
			for _, l := range lis {
				lo = append(lo, []interface{}{l[0], l[1]})
			}
			c.count("e2e", 1)
			c.emit(obj{"op": "e2e", "ns": cfg[0], "dom": cfg[1], "table": tableObj(tbl), "subs": subs, "listeners": lo, "obs": obj{"get": gets}})
			// drop the subscriptions again so that the next round starts clean
			for _, s := range subs {
				w.m.VerifWatch(xdsresource.ListenerType, s, true)
			}
			w.settle()
		}
		w.close()
	}
}
