package main

import (
	"fmt"
	"reflect"
	"regexp"
	"sort"
	"strconv"
	"strings"
	"time"
	"unsafe"

	udpatypev1 "github.com/cncf/xds/go/udpa/type/v1"
	v3clusterpb "github.com/envoyproxy/go-control-plane/envoy/config/cluster/v3"
	v3endpointpb "github.com/envoyproxy/go-control-plane/envoy/config/endpoint/v3"
	v3listenerpb "github.com/envoyproxy/go-control-plane/envoy/config/listener/v3"
	v3routepb "github.com/envoyproxy/go-control-plane/envoy/config/route/v3"
	ratelimitv3 "github.com/envoyproxy/go-control-plane/envoy/extensions/filters/http/local_ratelimit/v3"
	v3httppb "github.com/envoyproxy/go-control-plane/envoy/extensions/filters/network/http_connection_manager/v3"
	v3thrift_proxy "github.com/envoyproxy/go-control-plane/envoy/extensions/filters/network/thrift_proxy/v3"
	v3matcher "github.com/envoyproxy/go-control-plane/envoy/type/matcher/v3"
	typedv3 "github.com/envoyproxy/go-control-plane/envoy/type/v3"
	"google.golang.org/protobuf/proto"
	"google.golang.org/protobuf/types/known/anypb"
	"google.golang.org/protobuf/types/known/durationpb"
	"google.golang.org/protobuf/types/known/structpb"
	"google.golang.org/protobuf/types/known/wrapperspb"

	dnsProto "github.com/kitex-contrib/xds/core/api/kitex_gen/istio.io/istio/pkg/dns/proto/istio_networking_nds_v1"
	"github.com/kitex-contrib/xds/core/xdsresource"
)

// ============================================================================================
// Reference parse: bytes -> message tree (JSON), exactly the fields the decoders read, with presence.
// `proto.Unmarshal` is the trusted parser; nested `Any`s are parsed with the same rule.
// ============================================================================================

func optU32(w *wrapperspb.UInt32Value) interface{} {
	if w == nil {
		return nil
	}
	return w.Value
}

func optDur(d *durationpb.Duration) interface{} {
	if d == nil {
		return nil
	}
	return d.AsDuration().Nanoseconds()
}

func headerTree(h *v3routepb.HeaderMatcher) obj {
	o := obj{"name": h.Name, "k": "other"}
	if sm, ok := h.GetHeaderMatchSpecifier().(*v3routepb.HeaderMatcher_StringMatch); ok {
		o["k"] = "smOther"
		switch p := sm.StringMatch.GetMatchPattern().(type) {
		case *v3matcher.StringMatcher_Exact:
			o["k"], o["v"] = "exact", p.Exact
		case *v3matcher.StringMatcher_Prefix:
			o["k"], o["v"] = "prefix", p.Prefix
		case *v3matcher.StringMatcher_SafeRegex:
			if p.SafeRegex == nil {
				o["k"] = "regexNil"
			} else {
				o["k"], o["v"] = "regex", p.SafeRegex.Regex
			}
		}
	}
	return o
}

func headersTree(hs []*v3routepb.HeaderMatcher) []interface{} {
	out := make([]interface{}, 0, len(hs))
	for _, h := range hs {
		out = append(out, headerTree(h))
	}
	return out
}

func routeConfigTree(c *v3routepb.RouteConfiguration) obj {
	vhs := make([]interface{}, 0)
	for _, vh := range c.GetVirtualHosts() {
		rs := make([]interface{}, 0)
		for _, r := range vh.GetRoutes() {
			ro := obj{"name": r.GetName(), "match": nil}
			if m := r.GetMatch(); m != nil {
				mo := obj{"pk": "other", "pv": "", "headers": headersTree(m.GetHeaders())}
				switch p := m.GetPathSpecifier().(type) {
				case *v3routepb.RouteMatch_Prefix:
					mo["pk"], mo["pv"] = "prefix", p.Prefix
				case *v3routepb.RouteMatch_Path:
					mo["pk"], mo["pv"] = "path", p.Path
				}
				ro["match"] = mo
			}
			switch a := r.GetAction().(type) {
			case nil:
				ro["action"] = obj{"k": "none"}
			case *v3routepb.Route_Route:
				ao := obj{"k": "route", "spec": "other", "timeout": optDur(a.Route.GetTimeout()), "retry": nil}
				switch cs := a.Route.GetClusterSpecifier().(type) {
				case *v3routepb.RouteAction_Cluster:
					ao["spec"], ao["cluster"] = "cluster", cs.Cluster
				case *v3routepb.RouteAction_WeightedClusters:
					ao["spec"] = "weighted"
					if cs.WeightedClusters == nil {
						ao["weighted"] = nil
					} else {
						ws := make([]interface{}, 0)
						for _, wc := range cs.WeightedClusters.GetClusters() {
							ws = append(ws, []interface{}{wc.GetName(), optU32(wc.GetWeight())})
						}
						ao["weighted"] = ws
					}
				}
				if rp := a.Route.GetRetryPolicy(); rp != nil {
					ret := obj{"retryOn": rp.GetRetryOn(), "num": optU32(rp.GetNumRetries()), "perTry": optDur(rp.GetPerTryTimeout()),
						"perTryIdle": optDur(rp.GetPerTryIdleTimeout()), "retriable": headersTree(rp.GetRetriableHeaders()), "backoff": nil}
					if bo := rp.GetRetryBackOff(); bo != nil {
						ret["backoff"] = obj{"base": optDur(bo.GetBaseInterval()), "max": optDur(bo.GetMaxInterval())}
					}
					ao["retry"] = ret
				}
				ro["action"] = ao
			default:
				ro["action"] = obj{"k": "other"}
			}
			rs = append(rs, ro)
		}
		vhs = append(vhs, obj{"name": vh.GetName(), "routes": rs})
	}
	return obj{"name": c.GetName(), "vhosts": vhs}
}

// anyTree: {"p":"badUrl"} | {"p":"badBytes"} | {"p":"ok", ...}
func rdsSlotTree(a *anypb.Any) obj {
	if a.GetTypeUrl() != xdsresource.RouteTypeURL {
		return obj{"p": "badUrl"}
	}
	c := &v3routepb.RouteConfiguration{}
	if err := proto.Unmarshal(a.GetValue(), c); err != nil {
		return obj{"p": "badBytes"}
	}
	return obj{"p": "ok", "rc": routeConfigTree(c)}
}

func httpFilterTree(f *v3httppb.HttpFilter) obj {
	tc, ok := f.ConfigType.(*v3httppb.HttpFilter_TypedConfig)
	if !ok {
		return obj{"k": "other"}
	}
	if tc.TypedConfig == nil {
		return obj{"k": "typedNil"}
	}
	switch tc.TypedConfig.TypeUrl {
	case xdsresource.RateLimitTypeURL:
		lrl := &ratelimitv3.LocalRateLimit{}
		if err := proto.Unmarshal(tc.TypedConfig.GetValue(), lrl); err != nil {
			return obj{"k": "rl", "p": "badBytes"}
		}
		if lrl.TokenBucket == nil {
			return obj{"k": "rl", "p": "ok", "bucket": nil}
		}
		return obj{"k": "rl", "p": "ok", "bucket": []interface{}{lrl.TokenBucket.MaxTokens, optU32(lrl.TokenBucket.TokensPerFill)}}
	case xdsresource.TypedStructTypeURL:
		ts := &udpatypev1.TypedStruct{}
		if err := proto.Unmarshal(tc.TypedConfig.GetValue(), ts); err != nil {
			return obj{"k": "ts", "p": "badBytes"}
		}
		tb, ok := ts.GetValue().GetFields()["token_bucket"]
		if !ok {
			return obj{"k": "ts", "p": "ok", "tb": nil}
		}
		num := func(k string) interface{} {
			v, ok := tb.GetStructValue().GetFields()[k]
			if !ok {
				return nil
			}
			return uint32(v.GetNumberValue())
		}
		return obj{"k": "ts", "p": "ok", "tb": []interface{}{num("max_tokens"), num("tokens_per_fill")}}
	}
	return obj{"k": "otherUrl"}
}

func filterTree(f *v3listenerpb.Filter) obj {
	tc, ok := f.GetConfigType().(*v3listenerpb.Filter_TypedConfig)
	if !ok {
		return obj{"k": "other"}
	}
	if tc.TypedConfig == nil {
		return obj{"k": "typedNil"}
	}
	switch tc.TypedConfig.TypeUrl {
	case xdsresource.ThriftProxyTypeURL:
		tp := &v3thrift_proxy.ThriftProxy{}
		if err := proto.Unmarshal(tc.TypedConfig.GetValue(), tp); err != nil {
			return obj{"k": "thrift", "p": "badBytes"}
		}
		o := obj{"k": "thrift", "p": "ok", "rc": tp.RouteConfig != nil}
		rs := make([]interface{}, 0)
		for _, r := range tp.RouteConfig.GetRoutes() {
			ro := obj{"match": nil, "route": nil}
			if m := r.GetMatch(); m != nil {
				mo := obj{"spec": "other", "val": "", "headers": headersTree(m.GetHeaders())}
				switch t := m.GetMatchSpecifier().(type) {
				case *v3thrift_proxy.RouteMatch_MethodName:
					mo["spec"], mo["val"] = "method", t.MethodName
				case *v3thrift_proxy.RouteMatch_ServiceName:
					mo["spec"], mo["val"] = "service", t.ServiceName
				}
				ro["match"] = mo
			}
			if a := r.Route; a != nil {
				ao := obj{"spec": "other"}
				switch cs := a.GetClusterSpecifier().(type) {
				case *v3thrift_proxy.RouteAction_Cluster:
					ao["spec"], ao["cluster"] = "cluster", cs.Cluster
				case *v3thrift_proxy.RouteAction_WeightedClusters:
					ao["spec"] = "weighted"
					if cs.WeightedClusters == nil {
						ao["weighted"] = nil
					} else {
						ws := make([]interface{}, 0)
						for _, wc := range cs.WeightedClusters.GetClusters() {
							ws = append(ws, []interface{}{wc.GetName(), optU32(wc.GetWeight())})
						}
						ao["weighted"] = ws
					}
				}
				ro["route"] = ao
			}
			rs = append(rs, ro)
		}
		o["routes"] = rs
		return o
	case xdsresource.HTTPConnManagerTypeURL:
		h := &v3httppb.HttpConnectionManager{}
		if err := proto.Unmarshal(tc.TypedConfig.GetValue(), h); err != nil {
			return obj{"k": "hcm", "p": "badBytes"}
		}
		o := obj{"k": "hcm", "p": "ok", "spec": "other"}
		switch rs := h.RouteSpecifier.(type) {
		case *v3httppb.HttpConnectionManager_Rds:
			o["spec"] = "rds"
			if rs.Rds == nil {
				o["rdsName"] = nil
			} else {
				o["rdsName"] = rs.Rds.GetRouteConfigName()
			}
		case *v3httppb.HttpConnectionManager_RouteConfig:
			o["spec"] = "inline"
			if rs.RouteConfig == nil {
				o["rc"] = nil
			} else {
				o["rc"] = routeConfigTree(rs.RouteConfig)
			}
		}
		hfs := make([]interface{}, 0)
		for _, hf := range h.HttpFilters {
			hfs = append(hfs, httpFilterTree(hf))
		}
		o["httpFilters"] = hfs
		return o
	}
	return obj{"k": "otherUrl"}
}

func chainTree(fc *v3listenerpb.FilterChain) obj {
	var port interface{}
	if fc.GetFilterChainMatch().GetDestinationPort() != nil {
		port = fc.GetFilterChainMatch().GetDestinationPort().GetValue()
	}
	fs := make([]interface{}, 0)
	for _, f := range fc.Filters {
		fs = append(fs, filterTree(f))
	}
	return obj{"port": port, "filters": fs}
}

func ldsSlotTree(a *anypb.Any) obj {
	if a.GetTypeUrl() != xdsresource.ListenerTypeURL {
		return obj{"p": "badUrl"}
	}
	l := &v3listenerpb.Listener{}
	if err := proto.Unmarshal(a.GetValue(), l); err != nil {
		return obj{"p": "badBytes"}
	}
	cs := make([]interface{}, 0)
	for _, fc := range l.FilterChains {
		cs = append(cs, chainTree(fc))
	}
	o := obj{"p": "ok", "name": l.Name, "chains": cs, "dflt": nil}
	if l.DefaultFilterChain != nil {
		o["dflt"] = chainTree(l.DefaultFilterChain)
	}
	return o
}

func claTree(cla *v3endpointpb.ClusterLoadAssignment) interface{} {
	if cla == nil {
		return nil
	}
	locs := make([]interface{}, 0)
	for _, l := range cla.GetEndpoints() {
		es := make([]interface{}, 0)
		for _, e := range l.GetLbEndpoints() {
			sa := e.GetEndpoint().GetAddress().GetSocketAddress()
			es = append(es, obj{"host": sa.GetAddress(), "port": sa.GetPortValue(), "weight": e.GetLoadBalancingWeight().GetValue()})
		}
		locs = append(locs, es)
	}
	return obj{"name": cla.GetClusterName(), "localities": locs}
}

func cdsSlotTree(a *anypb.Any) obj {
	if a.GetTypeUrl() != xdsresource.ClusterTypeURL {
		return obj{"p": "badUrl"}
	}
	c := &v3clusterpb.Cluster{}
	if err := proto.Unmarshal(a.GetValue(), c); err != nil {
		return obj{"p": "badBytes"}
	}
	o := obj{"p": "ok", "name": c.Name, "typ": int(c.GetType()), "lb": int(c.GetLbPolicy()),
		"serviceName": c.GetEdsClusterConfig().GetServiceName(), "inline": claTree(c.GetLoadAssignment()), "outlier": nil}
	if od := c.OutlierDetection; od != nil {
		o["outlier"] = obj{"thr": optU32(od.FailurePercentageThreshold), "vol": optU32(od.FailurePercentageRequestVolume)}
	}
	return o
}

func edsSlotTree(a *anypb.Any) obj {
	if a.GetTypeUrl() != xdsresource.EndpointTypeURL {
		return obj{"p": "badUrl"}
	}
	c := &v3endpointpb.ClusterLoadAssignment{}
	if err := proto.Unmarshal(a.GetValue(), c); err != nil {
		return obj{"p": "badBytes"}
	}
	return obj{"p": "ok", "cla": claTree(c)}
}

func ndsSlotTree(a *anypb.Any) obj {
	if a.GetTypeUrl() != xdsresource.NameTableTypeURL {
		return obj{"p": "badUrl"}
	}
	nt := &dnsProto.NameTable{}
	if err := proto.Unmarshal(a.GetValue(), nt); err != nil {
		return obj{"p": "badBytes"}
	}
	keys := make([]string, 0)
	for k := range nt.Table {
		keys = append(keys, k)
	}
	sort.Strings(keys)
	t := make([]interface{}, 0)
	for _, k := range keys {
		ips := nt.Table[k].GetIps()
		if ips == nil {
			ips = []string{}
		}
		t = append(t, []interface{}{k, ips})
	}
	return obj{"p": "ok", "table": t}
}

// ============================================================================================
// Canonical summaries of what the repo's decoders returned
// ============================================================================================

func regexSource(m *xdsresource.RegexMatcher) string {
	f := reflect.ValueOf(m).Elem().Field(0)
	re := *(**regexp.Regexp)(unsafe.Pointer(f.UnsafeAddr()))
	if re == nil {
		return "<nil>"
	}
	return re.String()
}

func matchersSummary(ms xdsresource.Matchers) []interface{} {
	keys := make([]string, 0, len(ms))
	for k := range ms {
		keys = append(keys, k)
	}
	sort.Strings(keys)
	out := make([]interface{}, 0)
	for _, k := range keys {
		switch m := ms[k].(type) {
		case xdsresource.ExactMatcher:
			out = append(out, []interface{}{k, "exact", string(m)})
		case xdsresource.PrefixMatcher:
			out = append(out, []interface{}{k, "prefix", string(m)})
		case *xdsresource.RegexMatcher:
			out = append(out, []interface{}{k, "regex", regexSource(m)})
		default:
			out = append(out, []interface{}{k, "?", fmt.Sprintf("%T", m)})
		}
	}
	return out
}

func routeSummary(r *xdsresource.Route) obj {
	o := obj{"timeout": r.Timeout.Nanoseconds()}
	switch m := r.Match.(type) {
	case *xdsresource.HTTPRouteMatch:
		o["match"] = obj{"kind": "http", "path": m.Path, "prefix": m.Prefix, "headers": matchersSummary(m.Headers)}
	case *xdsresource.ThriftRouteMatch:
		o["match"] = obj{"kind": "thrift", "method": m.Method, "service": m.ServiceName, "headers": matchersSummary(m.Tags)}
	default:
		o["match"] = nil
	}
	cl := make([]interface{}, 0)
	for _, wc := range r.WeightedClusters {
		cl = append(cl, []interface{}{wc.Name, wc.Weight})
	}
	o["clusters"] = cl
	rp := r.RetryPolicy
	ro := obj{"retryOn": rp.RetryOn, "num": rp.NumRetries, "perTry": rp.PerTryTimeout.Nanoseconds(), "perTryIdle": rp.PerTryIdleTimeout.Nanoseconds(),
		"errRate": strconv.FormatFloat(rp.CBErrorRate, 'g', -1, 64), "backoff": nil, "methods": rp.Methods}
	if rp.Methods == nil {
		ro["methods"] = []string{}
	}
	if rp.RetryBackOff != nil {
		ro["backoff"] = []int64{rp.RetryBackOff.BaseInterval.Nanoseconds(), rp.RetryBackOff.MaxInterval.Nanoseconds()}
	}
	o["retry"] = ro
	return o
}

func routeCfgSummary(rc *xdsresource.RouteConfigResource) interface{} {
	if rc == nil {
		return nil
	}
	o := obj{"http": nil, "thrift": nil, "maxTokens": rc.MaxTokens, "tokensPerFill": rc.TokensPerFill}
	if rc.HTTPRouteConfig != nil {
		vhs := make([]interface{}, 0)
		for _, vh := range rc.HTTPRouteConfig.VirtualHosts {
			rs := make([]interface{}, 0)
			for _, r := range vh.Routes {
				rs = append(rs, routeSummary(r))
			}
			vhs = append(vhs, obj{"name": vh.Name, "routes": rs})
		}
		o["http"] = vhs
	}
	if rc.ThriftRouteConfig != nil {
		rs := make([]interface{}, 0)
		for _, r := range rc.ThriftRouteConfig.Routes {
			rs = append(rs, routeSummary(r))
		}
		o["thrift"] = rs
	}
	return o
}

func listenerSummary(l *xdsresource.ListenerResource) interface{} {
	if l == nil {
		return nil
	}
	fs := make([]interface{}, 0)
	for _, f := range l.NetworkFilters {
		fs = append(fs, obj{"thrift": f.FilterType == xdsresource.NetworkFilterTypeThrift, "rcName": f.RouteConfigName, "port": f.RoutePort,
			"inline": routeCfgSummary(f.InlineRouteConfig)})
	}
	return obj{"filters": fs}
}

func endpointsSummary(e *xdsresource.EndpointsResource) interface{} {
	if e == nil {
		return nil
	}
	locs := make([]interface{}, 0)
	for _, l := range e.Localities {
		es := make([]interface{}, 0)
		for _, ep := range l.Endpoints {
			es = append(es, []interface{}{ep.Addr().String(), ep.Weight()})
		}
		locs = append(locs, es)
	}
	return locs
}

func clusterSummary(c *xdsresource.ClusterResource) interface{} {
	if c == nil {
		return nil
	}
	o := obj{"disc": c.DiscoveryType.String(), "lb": c.LbPolicy.String(), "endpointName": c.EndpointName,
		"inline": endpointsSummary(c.InlineEndpoints), "outlier": nil}
	if c.OutlierDetection != nil {
		o["outlier"] = []uint32{c.OutlierDetection.FailurePercentageThreshold, c.OutlierDetection.FailurePercentageRequestVolume}
	}
	return o
}

// ============================================================================================
// Generators (type-directed over the fields the decoders read) and byte mutations
// ============================================================================================

type decGen struct {
	r     *rng
	seq   int
	cover map[string]int
}

func (g *decGen) hit(k string) { g.cover[k]++ }

func (g *decGen) optU32(p int) *wrapperspb.UInt32Value {
	if g.r.chance(p) {
		return nil
	}
	return wrapperspb.UInt32(uint32([]int{0, 1, 3, 50, 100, 100000}[g.r.intn(6)]))
}

func (g *decGen) optDur(p int) *durationpb.Duration {
	if g.r.chance(p) {
		return nil
	}
	return durationpb.New(time.Duration([]int{0, 5, 10, 30, 250, 1500}[g.r.intn(6)]) * time.Millisecond)
}

func (g *decGen) header() *v3routepb.HeaderMatcher {
	h := &v3routepb.HeaderMatcher{Name: g.r.pick([]string{"k1", "k2", "k3", "kitexRetryErrorRate", "kitexRetryMethods"})}
	sm := &v3matcher.StringMatcher{}
	switch g.r.intn(9) {
	case 0, 1:
		sm.MatchPattern = &v3matcher.StringMatcher_Exact{Exact: g.r.pick([]string{"v1", "abc", "", "0.1", "Echo,Ping"})}
		g.hit("hdr.exact")
	case 2, 3:
		sm.MatchPattern = &v3matcher.StringMatcher_Prefix{Prefix: g.r.pick([]string{"v", "ab", ""})}
		g.hit("hdr.prefix")
	case 4, 5:
		sm.MatchPattern = &v3matcher.StringMatcher_SafeRegex{SafeRegex: &v3matcher.RegexMatcher{Regex: g.r.pick([]string{"^a.*", "v[12]", "(", "", "b$", "canary", "v2"})}}
		g.hit("hdr.regex")
	case 6:
		sm.MatchPattern = &v3matcher.StringMatcher_Suffix{Suffix: "x"}
		g.hit("hdr.suffix")
	case 7:
		h.HeaderMatchSpecifier = &v3routepb.HeaderMatcher_PresentMatch{PresentMatch: true}
		g.hit("hdr.present")
		return h
	default:
		g.hit("hdr.unset")
		return h
	}
	h.HeaderMatchSpecifier = &v3routepb.HeaderMatcher_StringMatch{StringMatch: sm}
	return h
}

func (g *decGen) headers(max int) []*v3routepb.HeaderMatcher {
	n := g.r.intn(max + 1)
	var hs []*v3routepb.HeaderMatcher
	for i := 0; i < n; i++ {
		hs = append(hs, g.header())
	}
	return hs
}

func (g *decGen) route() *v3routepb.Route {
	g.seq++
	r := &v3routepb.Route{Name: fmt.Sprintf("r%d", g.seq)}
	if !g.r.chance(6) {
		m := &v3routepb.RouteMatch{Headers: g.headers(3)}
		switch g.r.intn(4) {
		case 0:
			m.PathSpecifier = &v3routepb.RouteMatch_Prefix{Prefix: g.r.pick([]string{"/", "/pkg", ""})}
		case 1:
			m.PathSpecifier = &v3routepb.RouteMatch_Path{Path: g.r.pick([]string{"/pkg.svc/m", ""})}
		case 2:
			m.PathSpecifier = &v3routepb.RouteMatch_SafeRegex{SafeRegex: &v3matcher.RegexMatcher{Regex: ".*"}}
		}
		r.Match = m
	} else {
		g.hit("route.nomatch")
	}
	switch g.r.intn(12) {
	case 0:
		g.hit("route.noaction")
	case 1:
		r.Action = &v3routepb.Route_Redirect{Redirect: &v3routepb.RedirectAction{}}
		g.hit("route.redirect")
	default:
		ra := &v3routepb.RouteAction{Timeout: g.optDur(40)}
		switch g.r.intn(5) {
		case 0, 1:
			ra.ClusterSpecifier = &v3routepb.RouteAction_Cluster{Cluster: fmt.Sprintf("c%d", g.seq)}
		case 2, 3:
			wc := &v3routepb.WeightedCluster{}
			for i := 0; i < g.r.intn(4); i++ {
				wc.Clusters = append(wc.Clusters, &v3routepb.WeightedCluster_ClusterWeight{Name: fmt.Sprintf("c%d-%d", g.seq, i), Weight: g.optU32(20)})
			}
			ra.ClusterSpecifier = &v3routepb.RouteAction_WeightedClusters{WeightedClusters: wc}
			g.hit("route.weighted")
		case 4:
			ra.ClusterSpecifier = &v3routepb.RouteAction_ClusterHeader{ClusterHeader: "x"}
		}
		if g.r.chance(55) {
			rp := &v3routepb.RetryPolicy{RetryOn: g.r.pick([]string{"", "5xx"}), NumRetries: g.optU32(30), PerTryTimeout: g.optDur(30),
				PerTryIdleTimeout: g.optDur(70), RetriableHeaders: g.headers(3)}
			if g.r.chance(60) {
				rp.RetryBackOff = &v3routepb.RetryPolicy_RetryBackOff{BaseInterval: g.optDur(20), MaxInterval: g.optDur(20)}
				g.hit("retry.backoff")
			}
			ra.RetryPolicy = rp
			g.hit("retry")
		}
		r.Action = &v3routepb.Route_Route{Route: ra}
	}
	return r
}

func (g *decGen) routeConfig(name string) *v3routepb.RouteConfiguration {
	rc := &v3routepb.RouteConfiguration{Name: name}
	for i := 0; i < g.r.intn(4); i++ {
		vh := &v3routepb.VirtualHost{Name: fmt.Sprintf("vh%d", i)}
		for j := 0; j < g.r.intn(4); j++ {
			rt := g.route()
			vh.Routes = append(vh.Routes, rt)
			if len(rt.GetMatch().GetHeaders()) > 0 && g.r.chance(30) {
				// a twin of the route: the same header names and pattern texts, but every condition of another KIND (exact ->
				// prefix -> regular expression -> exact): what a route's conditions are is never shared between routes
				tw := proto.Clone(rt).(*v3routepb.Route)
				for _, h := range tw.GetMatch().GetHeaders() {
					sm, ok := h.GetHeaderMatchSpecifier().(*v3routepb.HeaderMatcher_StringMatch)
					if !ok || sm.StringMatch == nil {
						continue
					}
					switch p := sm.StringMatch.MatchPattern.(type) {
					case *v3matcher.StringMatcher_Exact:
						sm.StringMatch.MatchPattern = &v3matcher.StringMatcher_Prefix{Prefix: p.Exact}
					case *v3matcher.StringMatcher_Prefix:
						sm.StringMatch.MatchPattern = &v3matcher.StringMatcher_SafeRegex{SafeRegex: &v3matcher.RegexMatcher{Regex: p.Prefix}}
					case *v3matcher.StringMatcher_SafeRegex:
						sm.StringMatch.MatchPattern = &v3matcher.StringMatcher_Exact{Exact: p.SafeRegex.GetRegex()}
					}
				}
				vh.Routes = append(vh.Routes, tw)
				g.hit("route.twin-other-kinds")
			}
		}
		rc.VirtualHosts = append(rc.VirtualHosts, vh)
	}
	return rc
}

func (g *decGen) httpFilter() *v3httppb.HttpFilter {
	switch g.r.intn(8) {
	case 0:
		g.hit("hf.discovery")
		return &v3httppb.HttpFilter{Name: "d", ConfigType: &v3httppb.HttpFilter_ConfigDiscovery{}}
	case 1:
		g.hit("hf.unset")
		return &v3httppb.HttpFilter{Name: "u"}
	case 2, 3:
		g.hit("hf.otherUrl")
		return &v3httppb.HttpFilter{Name: "router", ConfigType: &v3httppb.HttpFilter_TypedConfig{TypedConfig: &anypb.Any{TypeUrl: "type.googleapis.com/envoy.extensions.filters.http.router.v3.Router"}}}
	case 4, 5:
		lrl := &ratelimitv3.LocalRateLimit{StatPrefix: "x"}
		if !g.r.chance(20) {
			lrl.TokenBucket = &typedv3.TokenBucket{MaxTokens: uint32(1 + g.r.intn(1000)), TokensPerFill: g.optU32(20)}
			// the fill interval is not part of what the decoder keeps (tokens per fill is taken as sent), whatever it is:
			// absent, empty, below a second, whole seconds
			switch g.r.intn(6) {
			case 0:
				lrl.TokenBucket.FillInterval = &durationpb.Duration{}
			case 1:
				lrl.TokenBucket.FillInterval = durationpb.New(50 * time.Millisecond)
			case 2:
				lrl.TokenBucket.FillInterval = durationpb.New(500 * time.Millisecond)
			case 3:
				lrl.TokenBucket.FillInterval = durationpb.New(time.Duration(1+g.r.intn(90)) * time.Second)
			}
		}
		g.hit("hf.ratelimit")
		return &v3httppb.HttpFilter{Name: "rl", ConfigType: &v3httppb.HttpFilter_TypedConfig{TypedConfig: g.maybeCorrupt(mustAny(lrl), 4)}}
	default:
		fields := map[string]*structpb.Value{}
		if !g.r.chance(25) {
			tb := map[string]*structpb.Value{}
			// a value of a struct is any JSON value: numbers, but also what hand-written filters contain (quoted numbers,
			// null, booleans, nested structs) - those read as 0, they never make the decoder fail
			odd := func(n float64) *structpb.Value {
				switch g.r.intn(12) {
				case 0:
					return structpb.NewStringValue(fmt.Sprint(int(n)))
				case 1:
					return structpb.NewNullValue()
				case 2:
					return structpb.NewBoolValue(true)
				case 3:
					return structpb.NewStructValue(&structpb.Struct{Fields: map[string]*structpb.Value{"value": structpb.NewNumberValue(n)}})
				case 4:
					return &structpb.Value{} // no kind at all
				}
				return structpb.NewNumberValue(n)
			}
			if !g.r.chance(20) {
				tb["max_tokens"] = odd(float64(1 + g.r.intn(1000)))
			}
			if !g.r.chance(20) {
				tb["tokens_per_fill"] = odd(float64(g.r.intn(500)))
			}
			fields["token_bucket"] = structpb.NewStructValue(&structpb.Struct{Fields: tb})
		}
		ts := &udpatypev1.TypedStruct{TypeUrl: "type.googleapis.com/envoy.extensions.filters.http.local_ratelimit.v3.LocalRateLimit",
			Value: &structpb.Struct{Fields: fields}}
		g.hit("hf.typedstruct")
		return &v3httppb.HttpFilter{Name: "ts", ConfigType: &v3httppb.HttpFilter_TypedConfig{TypedConfig: g.maybeCorrupt(mustAny(ts), 4)}}
	}
}

func (g *decGen) thriftProxy() *v3thrift_proxy.ThriftProxy {
	tp := &v3thrift_proxy.ThriftProxy{}
	if g.r.chance(10) {
		return tp
	}
	rc := &v3thrift_proxy.RouteConfiguration{Name: "thrift-rc"}
	for i := 0; i < g.r.intn(4); i++ {
		g.seq++
		r := &v3thrift_proxy.Route{}
		if !g.r.chance(8) {
			m := &v3thrift_proxy.RouteMatch{Headers: g.headers(2)}
			switch g.r.intn(3) {
			case 0:
				m.MatchSpecifier = &v3thrift_proxy.RouteMatch_MethodName{MethodName: g.r.pick([]string{"m1", ""})}
			case 1:
				m.MatchSpecifier = &v3thrift_proxy.RouteMatch_ServiceName{ServiceName: "svc"}
			}
			r.Match = m
		}
		if !g.r.chance(8) {
			a := &v3thrift_proxy.RouteAction{}
			switch g.r.intn(3) {
			case 0:
				a.ClusterSpecifier = &v3thrift_proxy.RouteAction_Cluster{Cluster: fmt.Sprintf("tc%d", g.seq)}
			case 1:
				wc := &v3thrift_proxy.WeightedCluster{}
				for k := 0; k < g.r.intn(3); k++ {
					wc.Clusters = append(wc.Clusters, &v3thrift_proxy.WeightedCluster_ClusterWeight{Name: fmt.Sprintf("tc%d-%d", g.seq, k), Weight: g.optU32(20)})
				}
				a.ClusterSpecifier = &v3thrift_proxy.RouteAction_WeightedClusters{WeightedClusters: wc}
			case 2:
				a.ClusterSpecifier = &v3thrift_proxy.RouteAction_ClusterHeader{ClusterHeader: "h"}
			}
			r.Route = a
		}
		rc.Routes = append(rc.Routes, r)
	}
	tp.RouteConfig = rc
	return tp
}

func (g *decGen) filter() *v3listenerpb.Filter {
	switch g.r.intn(10) {
	case 0:
		g.hit("filter.discovery")
		return &v3listenerpb.Filter{Name: "d", ConfigType: &v3listenerpb.Filter_ConfigDiscovery{}}
	case 1:
		g.hit("filter.otherUrl")
		return &v3listenerpb.Filter{Name: "tcp", ConfigType: &v3listenerpb.Filter_TypedConfig{TypedConfig: &anypb.Any{TypeUrl: "type.googleapis.com/envoy.extensions.filters.network.tcp_proxy.v3.TcpProxy"}}}
	case 2, 3:
		g.hit("filter.thrift")
		a := mustAny(g.thriftProxy())
		return &v3listenerpb.Filter{Name: "thrift", ConfigType: &v3listenerpb.Filter_TypedConfig{TypedConfig: g.maybeCorrupt(a, 8)}}
	default:
		h := &v3httppb.HttpConnectionManager{}
		switch g.r.intn(6) {
		case 0, 1, 2:
			h.RouteSpecifier = &v3httppb.HttpConnectionManager_Rds{Rds: &v3httppb.Rds{RouteConfigName: g.r.pick([]string{"rc-a", "rc-b", ""})}}
			g.hit("hcm.rds")
		case 3, 4:
			h.RouteSpecifier = &v3httppb.HttpConnectionManager_RouteConfig{RouteConfig: g.routeConfig("inline")}
			g.hit("hcm.inline")
		default:
			g.hit("hcm.nospec")
		}
		for i := 0; i < g.r.intn(4); i++ {
			hf := g.httpFilter()
			if tc, ok := hf.ConfigType.(*v3httppb.HttpFilter_TypedConfig); ok {
				tc.TypedConfig = g.maybeCorrupt(tc.TypedConfig, 5)
			}
			h.HttpFilters = append(h.HttpFilters, hf)
		}
		a := mustAny(h)
		return &v3listenerpb.Filter{Name: "hcm", ConfigType: &v3listenerpb.Filter_TypedConfig{TypedConfig: g.maybeCorrupt(a, 6)}}
	}
}

func (g *decGen) chain() *v3listenerpb.FilterChain {
	fc := &v3listenerpb.FilterChain{}
	if g.r.chance(60) {
		fc.FilterChainMatch = &v3listenerpb.FilterChainMatch{DestinationPort: g.optU32(30)}
	}
	for i := 0; i < g.r.intn(4); i++ {
		fc.Filters = append(fc.Filters, g.filter())
	}
	return fc
}

func (g *decGen) listener(name string) *v3listenerpb.Listener {
	l := &v3listenerpb.Listener{Name: name}
	nChains := g.r.intn(4)
	if g.r.chance(15) {
		nChains = 4 + g.r.intn(6) // a gateway-sized listener: many chains, their order matters (the last one of a kind wins)
		g.hit("listener.many-chains")
	}
	for i := 0; i < nChains; i++ {
		l.FilterChains = append(l.FilterChains, g.chain())
	}
	if g.r.chance(30) {
		l.DefaultFilterChain = g.chain()
		g.hit("listener.default")
	}
	return l
}

func (g *decGen) cla(name string) *v3endpointpb.ClusterLoadAssignment {
	a := genCLA(g.r, name)
	return a.proto()
}

func (g *decGen) cluster(name string) *v3clusterpb.Cluster {
	c := &v3clusterpb.Cluster{Name: name}
	switch g.r.intn(7) {
	case 6: // enum numbers the code does not know (a protobuf enum is an open int32)
		c.ClusterDiscoveryType = &v3clusterpb.Cluster_Type{Type: v3clusterpb.Cluster_DiscoveryType([]int32{-1, 7, 1 << 30}[g.r.intn(3)])}
	case 0:
		c.ClusterDiscoveryType = &v3clusterpb.Cluster_Type{Type: v3clusterpb.Cluster_STATIC}
	case 1:
		c.ClusterDiscoveryType = &v3clusterpb.Cluster_Type{Type: v3clusterpb.Cluster_LOGICAL_DNS}
	case 2:
		c.ClusterDiscoveryType = &v3clusterpb.Cluster_Type{Type: v3clusterpb.Cluster_STRICT_DNS}
	case 3:
		c.ClusterDiscoveryType = &v3clusterpb.Cluster_Type{Type: v3clusterpb.Cluster_ORIGINAL_DST}
	case 4:
		c.ClusterDiscoveryType = &v3clusterpb.Cluster_Type{Type: v3clusterpb.Cluster_EDS}
	}
	c.LbPolicy = []v3clusterpb.Cluster_LbPolicy{v3clusterpb.Cluster_ROUND_ROBIN, v3clusterpb.Cluster_RING_HASH, v3clusterpb.Cluster_LEAST_REQUEST, v3clusterpb.Cluster_RANDOM, v3clusterpb.Cluster_MAGLEV, v3clusterpb.Cluster_LbPolicy(-2), v3clusterpb.Cluster_LbPolicy(99)}[g.r.intn(7)]
	if g.r.chance(50) {
		c.EdsClusterConfig = &v3clusterpb.Cluster_EdsClusterConfig{ServiceName: g.r.pick([]string{"svc-eds", ""})}
	}
	if g.r.chance(40) {
		c.LoadAssignment = g.cla(name)
	}
	if g.r.chance(60) {
		c.OutlierDetection = &v3clusterpb.OutlierDetection{FailurePercentageThreshold: g.optU32(25), FailurePercentageRequestVolume: g.optU32(25)}
	}
	return c
}

// maybeCorrupt: with probability p% replace the payload by bytes that are not a valid encoding
func (g *decGen) maybeCorrupt(a *anypb.Any, p int) *anypb.Any {
	if !g.r.chance(p) {
		return a
	}
	if g.r.chance(35) {
		// the bytes are fine, the type URL of the nested Any is not: such a filter is not one the client understands (it is
		// skipped, like a router or tcp_proxy filter), whatever the URL looks like
		g.hit("corrupt.nestedUrl")
		return &anypb.Any{TypeUrl: oddURL(g.r, a.TypeUrl), Value: a.Value}
	}
	g.hit("corrupt.nested")
	return &anypb.Any{TypeUrl: a.TypeUrl, Value: mutateBytes(g.r, a.Value)}
}

// oddURL: a type URL that is none of the known ones: empty, without authority, authority only, the separator mangled,
// another authority in front of the right name.
func oddURL(r *rng, url string) string {
	name := url
	if i := strings.LastIndexByte(url, '/'); i >= 0 {
		name = url[i+1:]
	}
	switch r.intn(5) {
	case 0:
		return ""
	case 1:
		return name
	case 2:
		return "type.googleapis.com"
	case 3:
		return strings.ReplaceAll(url, "/", ".")
	default:
		return "example.org/x/" + name
	}
}

// mutateBytes: truncation, bit flips, garbage
func mutateBytes(r *rng, b []byte) []byte {
	out := append([]byte(nil), b...)
	switch r.intn(4) {
	case 0:
		if len(out) > 1 {
			out = out[:1+r.intn(len(out)-1)]
		} else {
			out = []byte{0xff}
		}
	case 1:
		for i := 0; i < 1+r.intn(3) && len(out) > 0; i++ {
			out[r.intn(len(out))] ^= byte(1 << uint(r.intn(8)))
		}
	case 2:
		out = append(out, 0xff, 0xff, 0xff, 0xff, 0x0f)
	default:
		out = []byte{0x0a, 0xff, 0xff, 0xff, 0xff, 0x0f, 0x01}
	}
	return out
}

func (g *decGen) slot(a *anypb.Any, wrongURL string) *anypb.Any {
	switch g.r.intn(14) {
	case 0:
		g.hit("slot.badUrl")
		return &anypb.Any{TypeUrl: wrongURL, Value: a.Value}
	case 1:
		g.hit("slot.mutated")
		return &anypb.Any{TypeUrl: a.TypeUrl, Value: mutateBytes(g.r, a.Value)}
	}
	return a
}
