package main

import (
	"context"
	"encoding/json"
	"fmt"
	"io"
	"os"
	"runtime/debug"
	"sort"
	"sync"

	"github.com/cloudwego/kitex/pkg/klog"

	"github.com/kitex-contrib/xds/core/xdsresource"
	"github.com/kitex-contrib/xds/xdssuite"
)

// ---- PRNG: splitmix64, the only source of randomness in generators ----

type rng struct{ s uint64 }

func newRng(seed uint64) *rng { return &rng{s: seed*0x9E3779B97F4A7C15 + 0x1234567} }

func (r *rng) next() uint64 {
	r.s += 0x9E3779B97F4A7C15
	z := r.s
	z = (z ^ (z >> 30)) * 0xBF58476D1CE4E5B9
	z = (z ^ (z >> 27)) * 0x94D049BB133111EB
	return z ^ (z >> 31)
}

func (r *rng) intn(n int) int {
	if n <= 0 {
		return 0
	}
	return int(r.next() % uint64(n))
}
func (r *rng) bool() bool              { return r.next()&1 == 1 }
func (r *rng) chance(p int) bool       { return r.intn(100) < p }
func (r *rng) pick(xs []string) string { return xs[r.intn(len(xs))] }
func (r *rng) fork() *rng              { return newRng(r.next()) }

// ---- output ----

type obj = map[string]interface{}

func (c *ctx) emit(o obj) {
	o["p"] = c.prop
	o["k"] = c.k
	c.k++
	b, err := json.Marshal(o)
	if err != nil {
		fmt.Fprintf(os.Stderr, "marshal: %v\n", err)
		os.Exit(2)
	}
	c.w.Write(b)
	c.w.WriteByte('\n')
}

func (c *ctx) emitStats() {
	keys := make([]string, 0, len(c.stats))
	for k := range c.stats {
		keys = append(keys, k)
	}
	sort.Strings(keys)
	st := obj{}
	for _, k := range keys {
		st[k] = c.stats[k]
	}
	b, _ := json.Marshal(obj{"p": c.prop, "stats": st, "cases": c.k})
	c.w.Write(b)
	c.w.WriteByte('\n')
}

func silenceLogs() {
	klog.SetOutput(io.Discard)
	klog.SetLevel(klog.LevelFatal)
}

// ---- forwarding manager installed once into xdssuite's process-wide singleton ----

type backend interface {
	Get(ctx context.Context, rt xdsresource.ResourceType, name string) (interface{}, error)
	RegisterXDSUpdateHandler(rt xdsresource.ResourceType, h xdsresource.XDSUpdateHandler)
}

type forwarder struct {
	mu sync.RWMutex
	b  backend
}

func (f *forwarder) Get(ctx context.Context, rt xdsresource.ResourceType, name string) (interface{}, error) {
	f.mu.RLock()
	b := f.b
	f.mu.RUnlock()
	if b == nil {
		return nil, fmt.Errorf("no backend")
	}
	return b.Get(ctx, rt, name)
}

func (f *forwarder) RegisterXDSUpdateHandler(rt xdsresource.ResourceType, h xdsresource.XDSUpdateHandler) {
	f.mu.RLock()
	b := f.b
	f.mu.RUnlock()
	if b != nil {
		b.RegisterXDSUpdateHandler(rt, h)
	}
}

var (
	fwd     = &forwarder{}
	fwdOnce sync.Once
)

// useBackend installs the forwarding manager (once) and points it at b.
func useBackend(b backend) {
	fwdOnce.Do(func() { _ = xdssuite.SetXDSResourceManager(fwd) })
	fwd.mu.Lock()
	fwd.b = b
	fwd.mu.Unlock()
}

// ---- stub manager: serves fixed decoded resources; optional failures ----

type stubKey struct {
	rt   xdsresource.ResourceType
	name string
}

type stubManager struct {
	mu       sync.Mutex
	res      map[stubKey]interface{}
	errs     map[stubKey]error
	handlers map[xdsresource.ResourceType][]xdsresource.XDSUpdateHandler
	gets     []stubKey
	nils     map[stubKey]bool
	// afterGet: once the key has been served, its resource is replaced by this one (an update that lands right after a read)
	afterGet map[stubKey]interface{}
}

// nilnil makes Get return (nil, nil) for k (a shape the real manager must never produce).
func (s *stubManager) nilnil(k stubKey) {
	if s.nils == nil {
		s.nils = map[stubKey]bool{}
	}
	s.nils[k] = true
}

func newStub() *stubManager {
	return &stubManager{res: map[stubKey]interface{}{}, errs: map[stubKey]error{},
		handlers: map[xdsresource.ResourceType][]xdsresource.XDSUpdateHandler{}}
}

func (s *stubManager) Get(ctx context.Context, rt xdsresource.ResourceType, name string) (interface{}, error) {
	s.mu.Lock()
	defer s.mu.Unlock()
	k := stubKey{rt, name}
	s.gets = append(s.gets, k)
	if e, ok := s.errs[k]; ok {
		return nil, e
	}
	if s.nils[k] {
		return nil, nil
	}
	if r, ok := s.res[k]; ok {
		if nr, swap := s.afterGet[k]; swap {
			// an update of this resource lands right after the read: handlers first, then the data (as the manager does)
			delete(s.afterGet, k)
			hs := append([]xdsresource.XDSUpdateHandler(nil), s.handlers[rt]...)
			s.mu.Unlock()
			for _, h := range hs {
				if res, ok := nr.(xdsresource.Resource); ok {
					h(map[string]xdsresource.Resource{name: res})
				}
			}
			s.mu.Lock()
			s.res[k] = nr
		}
		return r, nil
	}
	return nil, fmt.Errorf("[XDS] manager, fetch %s resource[%s] timeout", xdsresource.ResourceTypeToName[rt], name)
}

func (s *stubManager) RegisterXDSUpdateHandler(rt xdsresource.ResourceType, h xdsresource.XDSUpdateHandler) {
	s.mu.Lock()
	defer s.mu.Unlock()
	s.handlers[rt] = append(s.handlers[rt], h)
}

// recoverTo runs f and reports whether it panicked.
func recoverTo(f func()) (panicked bool, msg string) {
	defer func() {
		if r := recover(); r != nil {
			panicked = true
			msg = fmt.Sprint(r)
			if os.Getenv("XDSVERIF_STACK") != "" {
				fmt.Fprintf(os.Stderr, "panic: %v\n%s\n", r, debug.Stack())
			}
		}
	}()
	f()
	return
}
