package main

import (
	"context"
	"fmt"
	"net"
	"os"
	"strings"
	"sync"
	"time"

	"github.com/cloudwego/kitex/pkg/discovery"
	"github.com/cloudwego/kitex/pkg/rpcinfo"
	"github.com/cloudwego/kitex/pkg/rpcinfo/remoteinfo"

	v3clusterpb "github.com/envoyproxy/go-control-plane/envoy/config/cluster/v3"
	v3core "github.com/envoyproxy/go-control-plane/envoy/config/core/v3"
	v3endpointpb "github.com/envoyproxy/go-control-plane/envoy/config/endpoint/v3"
	"google.golang.org/protobuf/types/known/anypb"
	"google.golang.org/protobuf/types/known/wrapperspb"

	"github.com/kitex-contrib/xds/core/xdsresource"
	"github.com/kitex-contrib/xds/xdssuite"
)

func init() {
	// the resolver is served by the manager: a lookup of an endpoint set that gives up while the response that supplies
	// it is being handled must leave the name subscribed (later pushes are served); then the resolver cases proper
	props["C10"] = func(c *ctx) {
		runSysWait(c, []string{"eds", "cds"})
		for i := 0; i < 2*c.budget; i++ {
			c10History(c)
		}
		runC10(c)
	}
}

type gEndpoint struct {
	Host   string
	Port   int
	Weight int
	Kind   string // "" = socket address; "pipe" | "internal" | "none": decodes as host "" port 0
}

type gCLA struct {
	Name       string
	Localities [][]gEndpoint
}

func (a *gCLA) proto() *v3endpointpb.ClusterLoadAssignment {
	if a == nil {
		return nil
	}
	cla := &v3endpointpb.ClusterLoadAssignment{ClusterName: a.Name}
	for li, loc := range a.Localities {
		// priorities in no particular order: the decoder keeps the localities in MESSAGE order (it does not read the priority)
		l := &v3endpointpb.LocalityLbEndpoints{Priority: uint32((7*li + 3) % 5)}
		for _, e := range loc {
			addr := &v3core.Address{Address: &v3core.Address_SocketAddress{SocketAddress: &v3core.SocketAddress{
				Address: e.Host, PortSpecifier: &v3core.SocketAddress_PortValue{PortValue: uint32(e.Port)}}}}
			// an endpoint whose address is not a socket address (a pipe, an Envoy-internal listener, none at all): it decodes
			// as the empty host and port 0 - and neither the decoder nor the resolver falls over it
			switch e.Kind {
			case "pipe":
				addr = &v3core.Address{Address: &v3core.Address_Pipe{Pipe: &v3core.Pipe{Path: "/var/run/x.sock"}}}
			case "internal":
				addr = &v3core.Address{Address: &v3core.Address_EnvoyInternalAddress{EnvoyInternalAddress: &v3core.EnvoyInternalAddress{
					AddressNameSpecifier: &v3core.EnvoyInternalAddress_ServerListenerName{ServerListenerName: "inner"}}}}
			case "none":
				addr = nil
			}
			l.LbEndpoints = append(l.LbEndpoints, &v3endpointpb.LbEndpoint{
				HostIdentifier:      &v3endpointpb.LbEndpoint_Endpoint{Endpoint: &v3endpointpb.Endpoint{Address: addr}},
				LoadBalancingWeight: wrapperspb.UInt32(uint32(e.Weight)),
			})
		}
		cla.Endpoints = append(cla.Endpoints, l)
	}
	return cla
}

func (a *gCLA) json() interface{} {
	if a == nil {
		return nil
	}
	locs := make([]interface{}, 0, len(a.Localities))
	for _, loc := range a.Localities {
		es := make([]interface{}, 0, len(loc))
		for _, e := range loc {
			es = append(es, obj{"host": e.Host, "port": e.Port, "weight": e.Weight})
		}
		locs = append(locs, es)
	}
	return obj{"name": a.Name, "localities": locs}
}

type gCluster struct {
	Name        string
	Type        string // "EDS" | "STATIC" | "LOGICAL_DNS"
	ServiceName string
	Inline      *gCLA
}

func (c *gCluster) proto() *v3clusterpb.Cluster {
	t := v3clusterpb.Cluster_EDS
	switch c.Type {
	case "STATIC":
		t = v3clusterpb.Cluster_STATIC
	case "LOGICAL_DNS":
		t = v3clusterpb.Cluster_LOGICAL_DNS
	}
	cl := &v3clusterpb.Cluster{Name: c.Name, ClusterDiscoveryType: &v3clusterpb.Cluster_Type{Type: t}, LoadAssignment: c.Inline.proto()}
	if c.ServiceName != "" {
		cl.EdsClusterConfig = &v3clusterpb.Cluster_EdsClusterConfig{ServiceName: c.ServiceName}
	}
	return cl
}

func (c *gCluster) json() obj {
	return obj{"name": c.Name, "type": c.Type, "serviceName": c.ServiceName, "inline": c.Inline.json()}
}

func genCLA(r *rng, name string) *gCLA {
	a := &gCLA{Name: name}
	nl := r.intn(4)
	for i := 0; i < nl; i++ {
		ne := r.intn(5)
		if r.chance(25) {
			ne = 0
		}
		var loc []gEndpoint
		for j := 0; j < ne; j++ {
			host := fmt.Sprintf("10.%d.%d.%d", r.intn(3), i, j+1)
			if r.chance(20) {
				host = fmt.Sprintf("fd00::%d:%d", i, j+1)
			}
			ep := gEndpoint{Host: host, Port: []int{80, 8888, 0, 65535}[r.intn(4)], Weight: []int{0, 1, 5, 100, 1 << 20}[r.intn(5)]}
			if r.chance(6) {
				ep.Kind, ep.Host, ep.Port = r.pick([]string{"pipe", "internal", "none"}), "", 0
			}
			loc = append(loc, ep)
		}
		a.Localities = append(a.Localities, loc)
	}
	return a
}

// decodedEndpoints: what the repo's decoder produces for a load assignment (through the real decoder).
func decodeViaRepo(anys []*anypb.Any, f func([]*anypb.Any) (map[string]xdsresource.Resource, error)) map[string]xdsresource.Resource {
	m, err := f(anys)
	if err != nil {
		panic("C10 generator produced an undecodable resource: " + err.Error())
	}
	return m
}

func classifyResolveErr(err error) string {
	if err == nil {
		return ""
	}
	m := err.Error()
	switch {
	case strings.Contains(m, "no endpoints for cluster"):
		return "noEndpoints"
	case strings.Contains(m, "Cluster resource"):
		return "fetchCluster"
	case strings.Contains(m, "ClusterLoadAssignment resource"):
		return "fetchEndpoints"
	}
	return "other:" + m
}

func instJSON(is []discovery.Instance) []interface{} {
	out := make([]interface{}, 0, len(is))
	for _, in := range is {
		out = append(out, obj{"net": in.Address().Network(), "addr": in.Address().String(), "weight": in.Weight()})
	}
	return out
}

func runC10(c *ctx) {
	r := c.rng
	resolver := func() *xdssuite.XDSResolver { return xdssuite.NewXDSResolver() }
	n := 1500 * c.budget
	for i := 0; i < n; i++ {
		stub := newStub()
		useBackend(stub)
		desc := "cluster-a"
		cl := &gCluster{Name: desc, Type: r.pick([]string{"EDS", "EDS", "STATIC", "LOGICAL_DNS"})}
		if r.chance(50) {
			cl.ServiceName = r.pick([]string{"svc-eds", "other-eds"})
		}
		if r.chance(35) {
			cl.Inline = genCLA(r, desc)
		}
		clusterPresent := !r.chance(8)
		// named load assignments that exist in the cache
		named := map[string]*gCLA{}
		for _, nm := range []string{desc, "svc-eds", "other-eds"} {
			if r.chance(65) {
				named[nm] = genCLA(r, nm)
			}
		}
		if clusterPresent {
			m := decodeViaRepo([]*anypb.Any{mustAny(cl.proto())}, xdsresource.UnmarshalCDS)
			stub.res[stubKey{xdsresource.ClusterType, desc}] = m[desc]
		}
		nj := obj{}
		for nm, a := range named {
			m := decodeViaRepo([]*anypb.Any{mustAny(a.proto())}, xdsresource.UnmarshalEDS)
			stub.res[stubKey{xdsresource.EndpointsType, nm}] = m[nm]
			nj[nm] = a.json()
		}
		var res discovery.Result
		var err error
		p, pmsg := recoverTo(func() { res, err = resolver().Resolve(context.Background(), desc) })
		o := obj{"panic": p, "panicMsg": pmsg, "err": classifyResolveErr(err)}
		if !p && err == nil {
			o["instances"] = instJSON(res.Instances)
			o["cacheable"] = res.Cacheable
			o["key"] = res.CacheKey
			c.count("success", 1)
			if len(res.Instances) >= 2 {
				c.count("multi", 1)
			}
		} else {
			c.count("err="+classifyResolveErr(err), 1)
		}
		var cj interface{}
		if clusterPresent {
			cj = cl.json()
		}
		// Target
		tagged := r.bool()
		to := rpcinfo.NewEndpointInfo("the-service", "m", nil, nil)
		if tagged {
			to = remoteinfo.NewRemoteInfo(&rpcinfo.EndpointBasicInfo{ServiceName: "the-service", Method: "m", Tags: map[string]string{xdssuite.RouterClusterKey: "picked-cluster"}}, "m").ImmutableView()
		}
		o["target"] = resolver().Target(context.Background(), to)
		c.emit(obj{"op": "resolve", "desc": desc, "cluster": cj, "named": nj, "tagged": tagged, "obs": o})
	}
}

var _ = net.JoinHostPort

// c10History: the resolver on the REAL manager across an update history of clusters and load assignments: partial
// endpoint pushes for different names arriving back to back while an update handler is slow, and pushes that re-use
// the version string of the previous push (a restarted control plane) for new content. Every resolution returns exactly
// what the control plane listed last for that cluster.
func c10History(c *ctx) {
	w, err := newWorld(worldOpts{ndsNotRequired: true, fetchTimeout: 1200 * time.Millisecond})
	if err != nil {
		fmt.Println("C10: world:", err)
		return
	}
	defer w.close()
	useBackend(w.m)
	r := c.rng
	mkCLA := func(name string, tag int) *gCLA {
		a := &gCLA{Name: name}
		nl := 1 + r.intn(2)
		for i := 0; i < nl; i++ {
			var loc []gEndpoint
			for j := 0; j < 1+r.intn(3); j++ {
				loc = append(loc, gEndpoint{Host: fmt.Sprintf("10.%d.%d.%d", tag, i, j+1), Port: 8080, Weight: 1 + r.intn(5)})
			}
			a.Localities = append(a.Localities, loc)
		}
		return a
	}
	// one resolver for the whole history (Kitex keeps its resolver): nothing it remembers of an earlier resolution may show
	rs := xdssuite.NewXDSResolver()
	clusters := map[string]*gCluster{
		"cluster-a": {Name: "cluster-a", Type: "EDS", ServiceName: "svc-eds"},
		"cluster-b": {Name: "cluster-b", Type: "EDS", ServiceName: "other-eds"},
		"cluster-c": {Name: "cluster-c", Type: "EDS", ServiceName: "svc-eds"}, // a second cluster backed by the same load assignment
	}
	var lmu sync.Mutex // guards what the control plane lists (read by resolutions that run in their own goroutine)
	current := map[string]*gCLA{}
	ver := 0
	lastNonce := map[string]string{} // the nonce of the latest response of a type on the stream
	present := map[string]bool{}     // clusters the control plane currently lists
	pushEDS := func(v string, as ...*gCLA) {
		var anys []*anypb.Any
		lmu.Lock()
		for _, a := range as {
			anys = append(anys, mustAny(a.proto()))
			current[a.Name] = a
		}
		lmu.Unlock()
		ver++
		lastNonce["eds"] = fmt.Sprintf("en%d", ver)
		w.feed(mkResp(urlOf("eds"), v, lastNonce["eds"], anys))
	}
	pushBadEDS := func(v string) {
		ver++
		lastNonce["eds"] = fmt.Sprintf("en%d", ver)
		w.feed(mkResp(urlOf("eds"), v, lastNonce["eds"], []*anypb.Any{{TypeUrl: urlOf("eds"), Value: []byte{0xff, 0xff, 0xff, 0x0f}}}))
	}
	pushCDS := func(v string, names ...string) {
		var anys []*anypb.Any
		for _, n := range names {
			anys = append(anys, mustAny(clusters[n].proto()))
		}
		ver++
		lastNonce["cds"] = fmt.Sprintf("cn%d", ver)
		lmu.Lock()
		for k := range present {
			delete(present, k)
		}
		for _, n := range names {
			present[n] = true
		}
		lmu.Unlock()
		w.feed(mkResp(urlOf("cds"), v, lastNonce["cds"], anys))
	}
	// the control plane follows the protocol: it answers a subscription only when the request that carries it echoes the
	// nonce of the latest response of that type on the stream (a request with an outdated nonce is ignored)
	waitInterest := func(rt, name string) bool {
		return w.waitFor(func() bool {
			w.ads.mu.Lock()
			defer w.ads.mu.Unlock()
			for _, q := range w.ads.log {
				if q.req.TypeUrl != urlOf(rt) || q.req.ResponseNonce != lastNonce[rt] {
					continue
				}
				for _, n := range q.req.ResourceNames {
					if n == name {
						return true
					}
				}
			}
			return false
		}, 3*time.Second)
	}
	resolve := func(desc, step string) {
		var res discovery.Result
		var rerr error
		p, pmsg := recoverTo(func() { res, rerr = rs.Resolve(context.Background(), desc) })
		o := obj{"panic": p, "panicMsg": pmsg, "err": classifyResolveErr(rerr)}
		if !p && rerr == nil {
			o["instances"] = instJSON(res.Instances)
			o["cacheable"] = res.Cacheable
			o["key"] = res.CacheKey
		}
		to := rpcinfo.NewEndpointInfo("the-service", "m", nil, nil)
		o["target"] = xdssuite.NewXDSResolver().Target(context.Background(), to)
		nj := obj{}
		lmu.Lock()
		for nm, a := range current {
			nj[nm] = a.json()
		}
		isPresent := present[desc]
		lmu.Unlock()
		c.count("history.resolutions", 1)
		var cj interface{}
		if isPresent {
			cj = clusters[desc].json()
		}
		c.emit(obj{"op": "resolve", "desc": desc, "cluster": cj, "named": nj, "tagged": false, "history": step, "obs": o})
	}
	// a. cluster-a: subscribed by the resolution itself, then its endpoints (what the control plane lists is fixed before
	// the resolution starts; whether it SENDS it depends on the requests it receives)
	a1 := mkCLA("svc-eds", 1)
	lmu.Lock()
	present["cluster-a"] = true
	current[a1.Name] = a1
	lmu.Unlock()
	done := make(chan struct{})
	go func() { resolve("cluster-a", "first resolution of cluster-a"); close(done) }()
	// (when no acceptable request arrives the control plane - rightly - sends nothing; what it lists is recorded all the
	// same, and the resolution is judged against it)
	ignored := func(rt, what string) {
		c.count("history.requests-ignored-by-the-control-plane", 1)
		fmt.Fprintf(os.Stderr, "C10 history: no %s request for %s with the current nonce %q reached the control plane\n", rt, what, lastNonce[rt])
	}
	if waitInterest("cds", "cluster-a") {
		pushCDS("1", "cluster-a")
	} else {
		ignored("cds", "cluster-a")
	}
	if waitInterest("eds", "svc-eds") {
		pushEDS("1", a1)
	} else {
		ignored("eds", "svc-eds")
	}
	<-done
	// b. cluster-b likewise (the cluster response is complete: both clusters); just before, an endpoint response is
	// REJECTED (one undecodable resource): the subscription that follows still echoes that response's nonce
	pushBadEDS("1b")
	w.settle()
	b2 := mkCLA("other-eds", 2)
	lmu.Lock()
	present["cluster-b"] = true
	current[b2.Name] = b2
	lmu.Unlock()
	done = make(chan struct{})
	go func() { resolve("cluster-b", "first resolution of cluster-b"); close(done) }()
	if waitInterest("cds", "cluster-b") {
		pushCDS("2", "cluster-a", "cluster-b")
	} else {
		ignored("cds", "cluster-b")
	}
	if waitInterest("eds", "other-eds") {
		pushEDS("2", b2)
	} else {
		ignored("eds", "other-eds")
	}
	<-done
	// c. an update handler of the endpoint type is slow; three partial pushes for different names arrive back to back
	w.m.RegisterXDSUpdateHandler(xdsresource.EndpointsType, func(map[string]xdsresource.Resource) { time.Sleep(15 * time.Millisecond) })
	pushEDS("3", mkCLA("svc-eds", 3))
	pushEDS("4", mkCLA("other-eds", 4))
	pushEDS("5", mkCLA("svc-eds", 5))
	w.settle()
	time.Sleep(120 * time.Millisecond)
	resolve("cluster-b", "after three back-to-back partial endpoint pushes (a slow update handler)")
	resolve("cluster-a", "after three back-to-back partial endpoint pushes (a slow update handler)")
	// d. a push that re-uses the version string of the previous one for new content
	pushEDS("5", mkCLA("svc-eds", 6))
	w.settle()
	time.Sleep(60 * time.Millisecond)
	resolve("cluster-a", "after a push that re-uses the previous version string for new endpoints")
	pushEDS("5", mkCLA("other-eds", 7))
	w.settle()
	time.Sleep(60 * time.Millisecond)
	resolve("cluster-b", "after a push that re-uses the previous version string for new endpoints")
	// d2. a second cluster that names the load assignment of cluster-a: its result is its own (key, cacheability)
	lmu.Lock()
	present["cluster-c"] = true
	lmu.Unlock()
	done = make(chan struct{})
	go func() {
		resolve("cluster-c", "first resolution of a second cluster backed by the same load assignment")
		close(done)
	}()
	if waitInterest("cds", "cluster-c") {
		pushCDS("5c", "cluster-a", "cluster-b", "cluster-c")
	} else {
		ignored("cds", "cluster-c")
	}
	<-done
	resolve("cluster-a", "after the second cluster of the same load assignment was resolved")
	// e. the control plane removes cluster-a, later lists it again with other endpoints
	pushCDS("6", "cluster-b", "cluster-c")
	w.settle()
	resolve("cluster-a", "while the control plane does not list the cluster")
	pushCDS("7", "cluster-a", "cluster-b", "cluster-c")
	pushEDS("8", mkCLA("svc-eds", 8))
	w.settle()
	time.Sleep(60 * time.Millisecond)
	resolve("cluster-a", "after the cluster was removed and listed again with new endpoints")
	// f. the same for cluster-b, the only cluster that names its load assignment
	pushCDS("9", "cluster-a", "cluster-c")
	w.settle()
	resolve("cluster-b", "while the control plane does not list the cluster (nobody else names its load assignment)")
	pushCDS("10", "cluster-a", "cluster-b", "cluster-c")
	pushEDS("11", mkCLA("other-eds", 9))
	w.settle()
	time.Sleep(60 * time.Millisecond)
	resolve("cluster-b", "after the only cluster of a load assignment was removed and listed again with new endpoints")
}
