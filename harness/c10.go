package main

import (
	"context"
	"fmt"
	"net"
	"strings"

	"github.com/cloudwego/kitex/pkg/discovery"
	"github.com/cloudwego/kitex/pkg/rpcinfo"
	"github.com/cloudwego/kitex/pkg/rpcinfo/remoteinfo"

	v3clusterpb "github.com/envoyproxy/go-control-plane/envoy/config/cluster/v3"
	v3core "github.com/envoyproxy/go-control-plane/envoy/config/core/v3"
	v3endpointpb "github.com/envoyproxy/go-control-plane/envoy/config/endpoint/v3"
	"google.golang.org/protobuf/types/known/anypb"
	"google.golang.org/protobuf/types/known/wrapperspb"

	"github.com/kitex-contrib/xds/core/xdsresource"
	"github.com/kitex-contrib/xds/xdssuite"
)

func init() {
	// the resolver is served by the manager: a lookup of an endpoint set that gives up while the response that supplies
	// it is being handled must leave the name subscribed (later pushes are served); then the resolver cases proper
	props["C10"] = func(c *ctx) { runSysWait(c, []string{"eds", "cds"}); runC10(c) }
}

type gEndpoint struct {
	Host   string
	Port   int
	Weight int
}

type gCLA struct {
	Name       string
	Localities [][]gEndpoint
}

func (a *gCLA) proto() *v3endpointpb.ClusterLoadAssignment {
	if a == nil {
		return nil
	}
	cla := &v3endpointpb.ClusterLoadAssignment{ClusterName: a.Name}
	for _, loc := range a.Localities {
		l := &v3endpointpb.LocalityLbEndpoints{}
		for _, e := range loc {
			l.LbEndpoints = append(l.LbEndpoints, &v3endpointpb.LbEndpoint{
				HostIdentifier: &v3endpointpb.LbEndpoint_Endpoint{Endpoint: &v3endpointpb.Endpoint{
					Address: &v3core.Address{Address: &v3core.Address_SocketAddress{SocketAddress: &v3core.SocketAddress{
						Address: e.Host, PortSpecifier: &v3core.SocketAddress_PortValue{PortValue: uint32(e.Port)}}}},
				}},
				LoadBalancingWeight: wrapperspb.UInt32(uint32(e.Weight)),
			})
		}
		cla.Endpoints = append(cla.Endpoints, l)
	}
	return cla
}

func (a *gCLA) json() interface{} {
	if a == nil {
		return nil
	}
	locs := make([]interface{}, 0, len(a.Localities))
	for _, loc := range a.Localities {
		es := make([]interface{}, 0, len(loc))
		for _, e := range loc {
			es = append(es, obj{"host": e.Host, "port": e.Port, "weight": e.Weight})
		}
		locs = append(locs, es)
	}
	return obj{"name": a.Name, "localities": locs}
}

type gCluster struct {
	Name        string
	Type        string // "EDS" | "STATIC" | "LOGICAL_DNS"
	ServiceName string
	Inline      *gCLA
}

func (c *gCluster) proto() *v3clusterpb.Cluster {
	t := v3clusterpb.Cluster_EDS
	switch c.Type {
	case "STATIC":
		t = v3clusterpb.Cluster_STATIC
	case "LOGICAL_DNS":
		t = v3clusterpb.Cluster_LOGICAL_DNS
	}
	cl := &v3clusterpb.Cluster{Name: c.Name, ClusterDiscoveryType: &v3clusterpb.Cluster_Type{Type: t}, LoadAssignment: c.Inline.proto()}
	if c.ServiceName != "" {
		cl.EdsClusterConfig = &v3clusterpb.Cluster_EdsClusterConfig{ServiceName: c.ServiceName}
	}
	return cl
}

func (c *gCluster) json() obj {
	return obj{"name": c.Name, "type": c.Type, "serviceName": c.ServiceName, "inline": c.Inline.json()}
}

func genCLA(r *rng, name string) *gCLA {
	a := &gCLA{Name: name}
	nl := r.intn(4)
	for i := 0; i < nl; i++ {
		ne := r.intn(5)
		if r.chance(25) {
			ne = 0
		}
		var loc []gEndpoint
		for j := 0; j < ne; j++ {
			host := fmt.Sprintf("10.%d.%d.%d", r.intn(3), i, j+1)
			if r.chance(20) {
				host = fmt.Sprintf("fd00::%d:%d", i, j+1)
			}
			loc = append(loc, gEndpoint{host, []int{80, 8888, 0, 65535}[r.intn(4)], []int{0, 1, 5, 100, 1 << 20}[r.intn(5)]})
		}
		a.Localities = append(a.Localities, loc)
	}
	return a
}

// decodedEndpoints: what the repo's decoder produces for a load assignment (through the real decoder).
func decodeViaRepo(anys []*anypb.Any, f func([]*anypb.Any) (map[string]xdsresource.Resource, error)) map[string]xdsresource.Resource {
	m, err := f(anys)
	if err != nil {
		panic("C10 generator produced an undecodable resource: " + err.Error())
	}
	return m
}

func classifyResolveErr(err error) string {
	if err == nil {
		return ""
	}
	m := err.Error()
	switch {
	case strings.Contains(m, "no endpoints for cluster"):
		return "noEndpoints"
	case strings.Contains(m, "Cluster resource"):
		return "fetchCluster"
	case strings.Contains(m, "ClusterLoadAssignment resource"):
		return "fetchEndpoints"
	}
	return "other:" + m
}

func instJSON(is []discovery.Instance) []interface{} {
	out := make([]interface{}, 0, len(is))
	for _, in := range is {
		out = append(out, obj{"net": in.Address().Network(), "addr": in.Address().String(), "weight": in.Weight()})
	}
	return out
}

func runC10(c *ctx) {
	r := c.rng
	resolver := func() *xdssuite.XDSResolver { return xdssuite.NewXDSResolver() }
	n := 1500 * c.budget
	for i := 0; i < n; i++ {
		stub := newStub()
		useBackend(stub)
		desc := "cluster-a"
		cl := &gCluster{Name: desc, Type: r.pick([]string{"EDS", "EDS", "STATIC", "LOGICAL_DNS"})}
		if r.chance(50) {
			cl.ServiceName = r.pick([]string{"svc-eds", "other-eds"})
		}
		if r.chance(35) {
			cl.Inline = genCLA(r, desc)
		}
		clusterPresent := !r.chance(8)
		// named load assignments that exist in the cache
		named := map[string]*gCLA{}
		for _, nm := range []string{desc, "svc-eds", "other-eds"} {
			if r.chance(65) {
				named[nm] = genCLA(r, nm)
			}
		}
		if clusterPresent {
			m := decodeViaRepo([]*anypb.Any{mustAny(cl.proto())}, xdsresource.UnmarshalCDS)
			stub.res[stubKey{xdsresource.ClusterType, desc}] = m[desc]
		}
		nj := obj{}
		for nm, a := range named {
			m := decodeViaRepo([]*anypb.Any{mustAny(a.proto())}, xdsresource.UnmarshalEDS)
			stub.res[stubKey{xdsresource.EndpointsType, nm}] = m[nm]
			nj[nm] = a.json()
		}
		var res discovery.Result
		var err error
		p, pmsg := recoverTo(func() { res, err = resolver().Resolve(context.Background(), desc) })
		o := obj{"panic": p, "panicMsg": pmsg, "err": classifyResolveErr(err)}
		if !p && err == nil {
			o["instances"] = instJSON(res.Instances)
			o["cacheable"] = res.Cacheable
			o["key"] = res.CacheKey
			c.count("success", 1)
			if len(res.Instances) >= 2 {
				c.count("multi", 1)
			}
		} else {
			c.count("err="+classifyResolveErr(err), 1)
		}
		var cj interface{}
		if clusterPresent {
			cj = cl.json()
		}
		// Target
		tagged := r.bool()
		to := rpcinfo.NewEndpointInfo("the-service", "m", nil, nil)
		if tagged {
			to = remoteinfo.NewRemoteInfo(&rpcinfo.EndpointBasicInfo{ServiceName: "the-service", Method: "m", Tags: map[string]string{xdssuite.RouterClusterKey: "picked-cluster"}}, "m").ImmutableView()
		}
		o["target"] = resolver().Target(context.Background(), to)
		c.emit(obj{"op": "resolve", "desc": desc, "cluster": cj, "named": nj, "tagged": tagged, "obs": o})
	}
}

var _ = net.JoinHostPort
