package main

import (
	"encoding/json"
	"fmt"
	udpatypev1 "github.com/cncf/xds/go/udpa/type/v1"
	v3thrift_proxy "github.com/envoyproxy/go-control-plane/envoy/extensions/filters/network/thrift_proxy/v3"
	"google.golang.org/protobuf/types/known/structpb"
	"math"
	"sort"
	"strconv"
	"sync"
	"time"

	"github.com/cloudwego/kitex/client"
	"github.com/cloudwego/kitex/pkg/circuitbreak"
	"github.com/cloudwego/kitex/pkg/limit"
	"github.com/cloudwego/kitex/pkg/retry"
	"github.com/cloudwego/kitex/pkg/utils"
	"github.com/cloudwego/kitex/server"
	v3clusterpb "github.com/envoyproxy/go-control-plane/envoy/config/cluster/v3"
	v3listenerpb "github.com/envoyproxy/go-control-plane/envoy/config/listener/v3"
	v3routepb "github.com/envoyproxy/go-control-plane/envoy/config/route/v3"
	ratelimitv3 "github.com/envoyproxy/go-control-plane/envoy/extensions/filters/http/local_ratelimit/v3"
	v3httppb "github.com/envoyproxy/go-control-plane/envoy/extensions/filters/network/http_connection_manager/v3"
	v3matcher "github.com/envoyproxy/go-control-plane/envoy/type/matcher/v3"
	typedv3 "github.com/envoyproxy/go-control-plane/envoy/type/v3"
	"google.golang.org/protobuf/types/known/anypb"
	"google.golang.org/protobuf/types/known/durationpb"
	"google.golang.org/protobuf/types/known/wrapperspb"

	"github.com/kitex-contrib/xds/core/xdsresource"
	"github.com/kitex-contrib/xds/xdssuite"
)

func init() {
	// the handlers of C16-C18 are driven by the manager: the manager-level ordering scenarios (an update parked inside a
	// handler; a registration whose replay overlaps the next update) run for the resource type each handler listens to
	props["C16"] = func(c *ctx) { handlerOrder(c, "cds", "h-cds"); registrationRace(c, "cds", "g-cds"); runC16(c) }
	props["C17"] = func(c *ctx) { handlerOrder(c, "rds", "h-rds"); registrationRace(c, "rds", "g-rds"); runC17(c) }
	props["C18"] = func(c *ctx) { handlerOrder(c, "lds", "h-lds"); registrationRace(c, "lds", "g-lds"); runC18(c) }
}

// ---------------- C16: circuit breaker ----------------

type gOutlier struct {
	Present  bool
	Thr, Vol int
}

// verStr: the version string of update number u; one update in five re-uses the string of the previous one (a control plane
// that restarted, or that re-sends under an unchanged version after a subscription change): content counts, not the label.
func verStr(r *rng, u int) string {
	if u > 0 && r.chance(20) {
		return fmt.Sprintf("v%d", u)
	}
	return fmt.Sprintf("v%d", u+1)
}

func clusterWithOutlier(name string, o gOutlier) *anypb.Any {
	c := &v3clusterpb.Cluster{Name: name, ClusterDiscoveryType: &v3clusterpb.Cluster_Type{Type: v3clusterpb.Cluster_EDS}}
	if o.Present {
		c.OutlierDetection = &v3clusterpb.OutlierDetection{
			FailurePercentageThreshold:     wrapperspb.UInt32(uint32(o.Thr)),
			FailurePercentageRequestVolume: wrapperspb.UInt32(uint32(o.Vol)),
		}
	}
	return mustAny(c)
}

func dumpCB(s *circuitbreak.CBSuite) obj {
	out := obj{}
	d := s.Dump().(map[string]interface{})
	cfg := d["cb_config"].(map[string]interface{})
	svc := cfg["service"].(map[string]interface{})
	for k, v := range svc {
		c := v.(circuitbreak.CBConfig)
		out[k] = []interface{}{c.Enable, int(math.Round(c.ErrRate * 100)), c.MinSample}
	}
	return out
}

func runC16(c *ctx) {
	r := c.rng
	names := []string{"c1", "c2", "c3", "c4"}
	n := 120 * c.budget
	for i := 0; i < n; i++ {
		w, err := newWorld(worldOpts{ndsNotRequired: true})
		if err != nil {
			fmt.Println("C16:", err)
			continue
		}
		useBackend(w.m)
		for _, nm := range names {
			w.m.VerifWatch(xdsresource.ClusterType, nm, false)
		}
		w.settle()
		nUpd := 2 + r.intn(5)
		// one or two breakers on the same manager (one per client suite of the process), each created before the
		// first update or after some of them; each is judged on its own
		type breaker struct {
			registerAt int
			suite      *circuitbreak.CBSuite
			obs        []interface{}
		}
		brs := []*breaker{{}}
		if r.chance(40) {
			brs[0].registerAt = 1 + r.intn(nUpd)
		}
		if r.chance(50) {
			b2 := &breaker{}
			if r.chance(50) {
				b2.registerAt = 1 + r.intn(nUpd)
			}
			brs = append(brs, b2)
			c.count("two-breakers", 1)
		}
		register := func(b *breaker) {
			o := &client.Options{}
			xdssuite.NewCircuitBreaker(xdssuite.WithServiceCircuitBreak(true)).F(o, &utils.Slice{})
			b.suite = o.CBSuite
		}
		var updates []interface{}
		var prevNames []string
		for u := 0; u < nUpd; u++ {
			for _, b := range brs {
				if u == b.registerAt {
					register(b)
					if u > 0 {
						b.obs[len(b.obs)-1].(obj)["afterRegister"] = dumpCB(b.suite)
					}
				}
			}
			var anys []*anypb.Any
			var uj []interface{}
			// every third update is a REPLACEMENT of the previous one: one of its clusters goes, another one comes, the set
			// does not shrink (what is dropped has to leave the cache all the same - a later breaker starts from the cache)
			include := map[string]bool{}
			lateNext := false
			for _, b := range brs {
				if b.registerAt == u+1 {
					lateNext = true // a breaker is created right after this update: it starts from what the cache holds now
				}
			}
			replacement := u > 0 && len(prevNames) > 0 && len(prevNames) < len(names) && (r.chance(35) || (lateNext && r.chance(70)))
			if replacement {
				for _, nm := range prevNames {
					include[nm] = true
				}
				delete(include, prevNames[r.intn(len(prevNames))])
				for _, nm := range names {
					if !include[nm] && !contains(prevNames, nm) {
						include[nm] = true
						break
					}
				}
				c.count("replacement-updates", 1)
			}
			prevNames = prevNames[:0]
			for _, nm := range names {
				if replacement {
					if !include[nm] {
						continue
					}
				} else if !r.chance(65) {
					continue
				}
				prevNames = append(prevNames, nm)
				o := gOutlier{Present: r.chance(75)}
				if o.Present {
					o.Thr = []int{0, 1, 20, 50, 100}[r.intn(5)]
					o.Vol = []int{0, 1, 10, 1000}[r.intn(4)]
				}
				anys = append(anys, clusterWithOutlier(nm, o))
				if o.Present {
					uj = append(uj, obj{"n": nm, "outlier": []int{o.Thr, o.Vol}})
				} else {
					uj = append(uj, obj{"n": nm, "outlier": nil})
				}
			}
			if uj == nil {
				uj = []interface{}{}
			}
			unwatched := u > 0 && r.chance(12)
			if unwatched {
				// every cluster has been idle and was unsubscribed by the cleaner; the control plane's next (still complete)
				// response is accepted all the same: nothing of it is subscribed, so every breaker entry is disabled
				for _, nm := range names {
					w.m.VerifWatch(xdsresource.ClusterType, nm, true)
				}
				w.settle()
				uj = []interface{}{}
				prevNames = prevNames[:0]
				c.count("updates-with-nothing-subscribed", 1)
			}
			w.push(mkResp(xdsresource.ClusterTypeURL, verStr(r, u), fmt.Sprintf("n%d", u+1), anys))
			if unwatched {
				for _, nm := range names {
					w.m.VerifWatch(xdsresource.ClusterType, nm, false)
				}
				w.settle()
			}
			updates = append(updates, uj)
			for _, b := range brs {
				if b.suite != nil {
					b.obs = append(b.obs, obj{"cb": dumpCB(b.suite)})
				} else {
					b.obs = append(b.obs, obj{"cb": nil})
				}
			}
			if r.chance(30) {
				// a cluster response that is REJECTED as a whole (well-formed clusters with other thresholds next to an
				// undecodable resource): the breakers - and the cache a later breaker starts from - stay as they are
				var rej []*anypb.Any
				for _, nm := range names[:2] {
					rej = append(rej, clusterWithOutlier(nm, gOutlier{Present: true, Thr: 77, Vol: 7777}))
				}
				rej = append(rej, badAny("cds", r.intn(2)))
				if r.bool() {
					rej[0], rej[2] = rej[2], rej[0]
				}
				w.push(mkResp(xdsresource.ClusterTypeURL, fmt.Sprintf("rej-%d", u), fmt.Sprintf("rn%d", u+1), rej))
				c.count("rejected-responses", 1)
				for _, b := range brs {
					if b.suite != nil {
						b.obs[len(b.obs)-1].(obj)["afterRejected"] = dumpCB(b.suite)
					}
				}
			}
		}
		for _, b := range brs {
			if b.registerAt == nUpd {
				register(b)
				b.obs[len(b.obs)-1].(obj)["afterRegister"] = dumpCB(b.suite)
			}
		}
		c.count("updates", nUpd)
		for k, b := range brs {
			if b.registerAt > 0 {
				c.count("late-registration", 1)
			}
			c.emit(obj{"op": "cb", "breaker": k + 1, "breakers": len(brs), "registerAt": b.registerAt, "updates": updates, "obs": b.obs})
		}
		w.close()
	}
}

// ---------------- C17: retry policies ----------------

type gRetryRoute struct {
	Clusters   []string
	NumRetries int
	PerTryMs   int
	ErrRate    string
	HasBackoff bool
	BaseMs     int
	MaxMs      int
	Methods    []string
}

func (g *gRetryRoute) json() obj {
	var bo interface{}
	if g.HasBackoff {
		bo = []int{g.BaseMs, g.MaxMs}
	}
	ms := g.Methods
	if ms == nil {
		ms = []string{}
	}
	return obj{"clusters": g.Clusters, "numRetries": g.NumRetries, "perTryMs": g.PerTryMs, "errRate": g.ErrRate, "backoff": bo, "methods": ms}
}

func (g *gRetryRoute) proto() *v3routepb.Route {
	ra := &v3routepb.RouteAction{}
	if len(g.Clusters) == 1 {
		ra.ClusterSpecifier = &v3routepb.RouteAction_Cluster{Cluster: g.Clusters[0]}
	} else {
		wc := &v3routepb.WeightedCluster{}
		for k, cl := range g.Clusters {
			// a traffic split in any state: 50/50, fully shifted (the second cluster at weight 0), or without a weight at all -
			// a destination the table names is a destination, whatever share it currently gets
			var wgt *wrapperspb.UInt32Value
			switch (len(cl) + g.NumRetries + g.PerTryMs) % 3 {
			case 0:
				wgt = wrapperspb.UInt32(50)
			case 1:
				if k == 0 {
					wgt = wrapperspb.UInt32(100)
				} else {
					wgt = wrapperspb.UInt32(0)
				}
			}
			wc.Clusters = append(wc.Clusters, &v3routepb.WeightedCluster_ClusterWeight{Name: cl, Weight: wgt})
		}
		ra.ClusterSpecifier = &v3routepb.RouteAction_WeightedClusters{WeightedClusters: wc}
	}
	rp := &v3routepb.RetryPolicy{
		NumRetries:    wrapperspb.UInt32(uint32(g.NumRetries)),
		PerTryTimeout: durationpb.New(time.Duration(g.PerTryMs) * time.Millisecond),
	}
	hdr := func(k, v string) *v3routepb.HeaderMatcher {
		return &v3routepb.HeaderMatcher{Name: k, HeaderMatchSpecifier: &v3routepb.HeaderMatcher_StringMatch{
			StringMatch: &v3matcher.StringMatcher{MatchPattern: &v3matcher.StringMatcher_Exact{Exact: v}}}}
	}
	if g.ErrRate != "" {
		rp.RetriableHeaders = append(rp.RetriableHeaders, hdr("kitexRetryErrorRate", g.ErrRate))
	}
	if len(g.Methods) > 0 {
		m := g.Methods[0]
		for _, x := range g.Methods[1:] {
			m += "," + x
		}
		rp.RetriableHeaders = append(rp.RetriableHeaders, hdr("kitexRetryMethods", m))
	}
	if g.HasBackoff {
		rp.RetryBackOff = &v3routepb.RetryPolicy_RetryBackOff{
			BaseInterval: durationpb.New(time.Duration(g.BaseMs) * time.Millisecond),
			MaxInterval:  durationpb.New(time.Duration(g.MaxMs) * time.Millisecond),
		}
	}
	ra.RetryPolicy = rp
	return &v3routepb.Route{
		Match:  &v3routepb.RouteMatch{PathSpecifier: &v3routepb.RouteMatch_Prefix{Prefix: "/"}},
		Action: &v3routepb.Route_Route{Route: ra},
	}
}

func dumpRetry(d interface{}) obj {
	b, _ := json.Marshal(d)
	var m map[string]interface{}
	_ = json.Unmarshal(b, &m)
	out := obj{}
	for k, v := range m {
		vm, ok := v.(map[string]interface{})
		if !ok {
			continue
		}
		fp, _ := vm["failure_retry"].(map[string]interface{})
		if fp == nil {
			out[k] = obj{"invalid": true}
			continue
		}
		sp, _ := fp["stop_policy"].(map[string]interface{})
		cb, _ := sp["cb_policy"].(map[string]interface{})
		bp, _ := fp["backoff_policy"].(map[string]interface{})
		bo := obj{"type": "none"}
		if bp != nil {
			items, _ := bp["cfg_items"].(map[string]interface{})
			switch bp["backoff_type"] {
			case "fixed":
				bo = obj{"type": "fixed", "ms": items["fix_ms"]}
			case "random":
				bo = obj{"type": "random", "min": items["min_ms"], "max": items["max_ms"]}
			}
		}
		out[k] = obj{"enable": vm["enable"], "maxRetry": sp["max_retry_times"], "maxDurationMs": sp["max_duration_ms"],
			"errRate": strconv.FormatFloat(cb["error_rate"].(float64), 'g', -1, 64), "backoff": bo, "errMsg": vm["err_msg"]}
	}
	return out
}

func runC17(c *ctx) {
	r := c.rng
	tables := []string{"ta", "tb", "tc"}
	n := 120 * c.budget
	for i := 0; i < n; i++ {
		w, err := newWorld(worldOpts{ndsNotRequired: true})
		if err != nil {
			fmt.Println("C17:", err)
			continue
		}
		useBackend(w.m)
		for _, nm := range tables {
			w.m.VerifWatch(xdsresource.RouteConfigType, nm, false)
		}
		w.settle()
		nUpd := 2 + r.intn(5)
		// one or two retry containers on the same manager (one per client suite), each created before the first update
		// or after some of them (the registration replays the cached tables); each is judged on its own
		type container struct {
			registerAt int
			rc         *retry.Container
			obs        []interface{}
		}
		cts := []*container{{}}
		if r.chance(30) {
			cts[0].registerAt = 1 + r.intn(nUpd)
		}
		if r.chance(40) {
			c2 := &container{}
			if r.chance(50) {
				c2.registerAt = 1 + r.intn(nUpd)
			}
			cts = append(cts, c2)
			c.count("two-containers", 1)
		}
		register := func(ct *container) {
			o := &client.Options{}
			xdssuite.NewRetryPolicy().F(o, &utils.Slice{})
			ct.rc = o.RetryContainer
		}
		var updates []interface{}
		var evictedBefore []interface{}
		gen := 0
		past := map[string][][]*gRetryRoute{}
		for u := 0; u < nUpd; u++ {
			for _, ct := range cts {
				if u == ct.registerAt {
					register(ct)
					if u > 0 {
						ct.obs[len(ct.obs)-1].(obj)["afterRegister"] = dumpRetry(ct.rc.Dump())
					}
				}
			}
			var anys []*anypb.Any
			var uj []interface{}
			for _, tn := range tables {
				p := 45
				if u == 0 {
					p = 80
				}
				if !r.chance(p) {
					continue // partial update: this table is omitted
				}
				gen++
				var routes []*gRetryRoute
				nr := r.intn(4)
				if prevGens := past[tn]; len(prevGens) > 0 && r.chance(35) {
					// an earlier generation of this table comes back unchanged (same clusters, same policies): what was
					// deleted in between has to be installed again
					routes = prevGens[r.intn(len(prevGens))]
					nr = 0
					c.count("table-generation-returns", 1)
				}
				for k := 0; k < nr; k++ {
					g := &gRetryRoute{NumRetries: r.intn(6), PerTryMs: []int{0, 10, 100, 250}[r.intn(4)],
						ErrRate: []string{"0.1", "0.2", "0.25", "0.3"}[r.intn(4)]}
					// cluster names are distinct across tables; a rename shows up as a new generation suffix
					base := fmt.Sprintf("%s-c%d", tn, k)
					if r.chance(25) {
						base = fmt.Sprintf("%s-c%d-g%d", tn, k, gen)
					}
					if k > 0 && r.chance(35) {
						// a second match rule (or a traffic split) that names a cluster an earlier route of the table names
						// too: the later route's numbers and its methods count for that cluster as well
						base = routes[0].Clusters[0]
						c.count("route-shares-cluster", 1)
					}
					g.Clusters = []string{base}
					if r.chance(25) {
						g.Clusters = append(g.Clusters, base+"-canary")
					}
					if r.chance(50) {
						g.HasBackoff = true
						g.BaseMs = []int{5, 10, 50}[r.intn(3)]
						switch r.intn(3) {
						case 0:
							g.MaxMs = g.BaseMs
						case 1:
							g.MaxMs = g.BaseMs * 4
						default:
							g.MaxMs = g.BaseMs + 7
						}
					}
					if r.chance(30) {
						g.Methods = []string{"Echo"}
						if r.bool() {
							g.Methods = append(g.Methods, "Ping")
						}
					}
					routes = append(routes, g)
				}
				if r.chance(30) {
					// a destination that several tables route to (the same service reached through two ports / hosts), with the
					// same policy in each: its policies stay installed as long as ANY cached table still names it
					routes = append(routes, &gRetryRoute{NumRetries: 2, PerTryMs: 100, ErrRate: "0.2", Clusters: []string{"shared-c"}, Methods: []string{"Echo"}})
					c.count("cluster-shared-across-tables", 1)
				}
				past[tn] = append(past[tn], routes)
				rcfg := &v3routepb.RouteConfiguration{Name: tn}
				vh := &v3routepb.VirtualHost{Name: "vh"}
				rj := make([]interface{}, 0, len(routes))
				for _, g := range routes {
					vh.Routes = append(vh.Routes, g.proto())
					rj = append(rj, g.json())
				}
				rcfg.VirtualHosts = []*v3routepb.VirtualHost{vh}
				anys = append(anys, mustAny(rcfg))
				uj = append(uj, obj{"n": tn, "routes": rj})
			}
			if uj == nil {
				uj = []interface{}{}
			}
			evs := []string{}
			if u > 0 && r.chance(18) {
				// the cleaner evicts an idle route table before this update (and a lookup subscribes the name again): the
				// table is no longer among the cached ones, so the update that follows removes its policies - unless it
				// carries the table again
				tn := tables[r.intn(len(tables))]
				w.m.VerifEvict(xdsresource.RouteConfigType, tn)
				w.m.VerifWatch(xdsresource.RouteConfigType, tn, false)
				w.settle()
				evs = append(evs, tn)
				c.count("table-evicted", 1)
			}
			evictedBefore = append(evictedBefore, evs)
			w.push(mkResp(xdsresource.RouteTypeURL, verStr(r, u), fmt.Sprintf("n%d", u+1), anys))
			updates = append(updates, uj)
			for _, ct := range cts {
				if ct.rc != nil {
					ct.obs = append(ct.obs, obj{"retry": dumpRetry(ct.rc.Dump())})
				} else {
					ct.obs = append(ct.obs, obj{"retry": nil})
				}
			}
		}
		for _, ct := range cts {
			if ct.registerAt == nUpd {
				register(ct)
				ct.obs[len(ct.obs)-1].(obj)["afterRegister"] = dumpRetry(ct.rc.Dump())
			}
		}
		c.count("updates", nUpd)
		for k, ct := range cts {
			if ct.registerAt > 0 {
				c.count("late-registration", 1)
			}
			c.emit(obj{"op": "retry", "container": k + 1, "containers": len(cts), "registerAt": ct.registerAt, "updates": updates, "evictedBefore": evictedBefore, "obs": ct.obs})
		}
		w.close()
	}
}

// ---------------- C18: server rate limit ----------------

type gChain struct {
	Port   int
	Kind   string // "rds" | "inline" | "none" (HCM without route specifier) | "thrift" (a chain whose filter is a Thrift proxy)
	Bucket int    // tokens per fill; -1 = no rate-limit filter
	// ThriftAfter: the chain carries a Thrift-proxy filter after its connection manager (a Thrift service behind the same port)
	ThriftAfter bool
	// Shape: how the HTTP filters of the connection manager look (the bucket is the same in all of them): 0 = the rate-limit
	// filter alone; 1 = behind two TypedStruct-configured filters of other kinds (the usual Istio shape) and in front of the
	// router; 2 = the rate limit itself configured as a TypedStruct, behind another TypedStruct filter
	Shape int
}

func typedStructFilter(name, url string, fields map[string]*structpb.Value) *v3httppb.HttpFilter {
	ts := &udpatypev1.TypedStruct{TypeUrl: url, Value: &structpb.Struct{Fields: fields}}
	return &v3httppb.HttpFilter{Name: name, ConfigType: &v3httppb.HttpFilter_TypedConfig{TypedConfig: mustAny(ts)}}
}

func thriftProxyFilter() *v3listenerpb.Filter {
	tp := &v3thrift_proxy.ThriftProxy{RouteConfig: &v3thrift_proxy.RouteConfiguration{Name: "in-thrift"}}
	return &v3listenerpb.Filter{Name: "thrift", ConfigType: &v3listenerpb.Filter_TypedConfig{TypedConfig: mustAny(tp)}}
}

func inboundListener(chains []gChain) *anypb.Any {
	l := &v3listenerpb.Listener{Name: xdsresource.ReservedLdsResourceName}
	for _, ch := range chains {
		fc := &v3listenerpb.FilterChain{}
		if ch.Port != 0 {
			fc.FilterChainMatch = &v3listenerpb.FilterChainMatch{DestinationPort: wrapperspb.UInt32(uint32(ch.Port))}
		}
		hcm := &v3httppb.HttpConnectionManager{}
		switch ch.Kind {
		case "rds":
			hcm.RouteSpecifier = &v3httppb.HttpConnectionManager_Rds{Rds: &v3httppb.Rds{RouteConfigName: fmt.Sprintf("in-%d", ch.Port)}}
		case "inline":
			hcm.RouteSpecifier = &v3httppb.HttpConnectionManager_RouteConfig{RouteConfig: &v3routepb.RouteConfiguration{Name: "inline"}}
		}
		if ch.Bucket >= 0 {
			rl := &v3httppb.HttpFilter{ConfigType: &v3httppb.HttpFilter_TypedConfig{TypedConfig: mustAny(
				&ratelimitv3.LocalRateLimit{StatPrefix: "x", TokenBucket: &typedv3.TokenBucket{MaxTokens: 1000, TokensPerFill: wrapperspb.UInt32(uint32(ch.Bucket))}})}}
			mx := typedStructFilter("istio.metadata_exchange", "type.googleapis.com/io.istio.http.peer_metadata.Config", map[string]*structpb.Value{"shared_with_upstream": structpb.NewBoolValue(true)})
			stats := typedStructFilter("istio.stats", "type.googleapis.com/stats.PluginConfig", map[string]*structpb.Value{})
			router := &v3httppb.HttpFilter{Name: "envoy.filters.http.router", ConfigType: &v3httppb.HttpFilter_TypedConfig{TypedConfig: &anypb.Any{TypeUrl: "type.googleapis.com/envoy.extensions.filters.http.router.v3.Router"}}}
			switch ch.Shape {
			case 1:
				hcm.HttpFilters = []*v3httppb.HttpFilter{mx, stats, rl, router}
			case 2:
				tsrl := typedStructFilter("envoy.filters.http.local_ratelimit", "type.googleapis.com/envoy.extensions.filters.http.local_ratelimit.v3.LocalRateLimit",
					map[string]*structpb.Value{"stat_prefix": structpb.NewStringValue("x"), "token_bucket": structpb.NewStructValue(&structpb.Struct{Fields: map[string]*structpb.Value{
						"max_tokens": structpb.NewNumberValue(1000), "tokens_per_fill": structpb.NewNumberValue(float64(ch.Bucket))}})})
				hcm.HttpFilters = []*v3httppb.HttpFilter{stats, tsrl, router}
			default:
				hcm.HttpFilters = []*v3httppb.HttpFilter{rl}
			}
		}
		fc.Filters = []*v3listenerpb.Filter{{ConfigType: &v3listenerpb.Filter_TypedConfig{TypedConfig: mustAny(hcm)}}}
		if ch.Kind == "thrift" {
			fc.Filters = []*v3listenerpb.Filter{thriftProxyFilter()}
		} else if ch.ThriftAfter {
			fc.Filters = append(fc.Filters, thriftProxyFilter())
		}
		l.FilterChains = append(l.FilterChains, fc)
	}
	return mustAny(l)
}

type recUpdater struct {
	mu  sync.Mutex
	got []interface{}
}

// pushed: what the running server's limiter has been handed so far, in order.
func (u *recUpdater) pushed() []interface{} {
	u.mu.Lock()
	defer u.mu.Unlock()
	return append([]interface{}{}, u.got...)
}

func limitJSON(o *limit.Option) obj {
	q := interface{}(o.MaxQPS)
	if o.MaxQPS == math.MaxInt {
		q = "inf"
	}
	cn := interface{}(o.MaxConnections)
	if o.MaxConnections == math.MaxInt {
		cn = "inf"
	}
	return obj{"qps": q, "conns": cn}
}

func (u *recUpdater) UpdateLimit(o *limit.Option) bool {
	if o.MaxQPS == 100 {
		// the server's limiter takes its time with this value: the changes still reach it in the order they were made
		time.Sleep(12 * time.Millisecond)
	}
	u.mu.Lock()
	u.got = append(u.got, limitJSON(o))
	u.mu.Unlock()
	return true
}

func runC18(c *ctx) {
	r := c.rng
	n := 120 * c.budget
	for i := 0; i < n; i++ {
		nds := i%2 == 0
		w, err := newWorld(worldOpts{ndsNotRequired: !nds})
		if err != nil {
			fmt.Println("C18:", err)
			continue
		}
		useBackend(w.m)
		port := []int{8080, 9090, 0}[r.intn(3)]
		nUpd := 2 + r.intn(5)
		registerAt := 0
		if r.chance(40) {
			registerAt = 1 + r.intn(nUpd)
		}
		lateVanish := registerAt >= 2 && r.chance(50)
		installAt := registerAt + r.intn(nUpd-registerAt+1) // the server starts (installs its updater) at or after creation
		var lo *limit.Option
		upd := &recUpdater{}
		var events []interface{}
		for u := 0; u <= nUpd; u++ {
			if u == registerAt {
				so := &server.Options{}
				xdssuite.NewLimiter(xdssuite.WithServicePort(uint32(port))).F(so, &utils.Slice{})
				lo = so.Limit.Limits
				events = append(events, obj{"e": "register", "obs": obj{"limit": limitJSON(lo)}})
			}
			if u == installAt && lo != nil && lo.UpdateControl == nil {
				// the server hands its updater over only through this function (kitex skips the hand-over when it is nil):
				// without it no change can ever reach the running server
				events = append(events, obj{"e": "install", "obs": obj{"limit": limitJSON(lo), "noUpdateControl": true}})
			} else if u == installAt && lo != nil {
				lo.UpdateControl(upd)
				events = append(events, obj{"e": "install", "obs": obj{"limit": limitJSON(lo), "pushed": upd.pushed()}})
			}
			if u == nUpd {
				break
			}
			// one LDS update: the inbound listener present or not
			var anys []*anypb.Any
			var cj interface{}
			// a limiter that is created late often finds this history behind it: a limit in force (two updates before), then an
			// accepted update WITHOUT the inbound listener (the last one before its creation) - it starts unlimited
			vanished := lateVanish && registerAt >= 2 && u == registerAt-1
			limited := lateVanish && registerAt >= 2 && u == registerAt-2
			if vanished {
				c.count("inbound-vanishes-before-late-limiter", 1)
			}
			if !vanished && (limited || r.chance(80)) {
				var chains []gChain
				nc := r.intn(4)
				ports := []int{0, 8080, 9090, 7070}
				r2 := r.fork()
				if limited {
					chains = append(chains, gChain{Port: port, Kind: "inline", Bucket: 100})
					for pi, p := range ports {
						if p == port {
							ports = append(ports[:pi], ports[pi+1:]...)
							break
						}
					}
					if nc > 2 {
						nc = 2
					}
				}
				for k := 0; k < nc; k++ {
					pi := r2.intn(len(ports))
					ch := gChain{Port: ports[pi], Kind: []string{"inline", "inline", "rds", "none"}[r.intn(4)]}
					ports = append(ports[:pi], ports[pi+1:]...) // distinct chain ports
					ch.Bucket = []int{-1, 0, 5, 100, 100000}[r.intn(5)]
					ch.Shape = r2.intn(3)
					if r.chance(12) {
						ch.Kind = "thrift" // the inbound side of a Thrift service: no rate limit is configured on such a chain
						ch.Bucket = -1
					} else if r.chance(10) {
						ch.ThriftAfter = true
					}
					chains = append(chains, ch)
				}
				anys = append(anys, inboundListener(chains))
				l := make([]interface{}, 0, len(chains))
				for _, ch := range chains {
					l = append(l, obj{"port": ch.Port, "kind": ch.Kind, "bucket": ch.Bucket, "thriftAfter": ch.ThriftAfter})
				}
				cj = l
			}
			if r.chance(30) {
				anys = append(anys, anyListenerRDS("some-other-listener", "x"))
			}
			if r.chance(25) {
				// first a response that is REJECTED as a whole: a well-formed inbound listener with another bucket next to
				// a listener that does not decode. A rejected response changes nothing, the limit least of all
				bad := []*anypb.Any{inboundListener([]gChain{{Port: 0, Kind: "inline", Bucket: 4242}, {Port: port, Kind: "inline", Bucket: 4343}}),
					{TypeUrl: xdsresource.ListenerTypeURL, Value: []byte{0x0a, 0xff, 0xff, 0xff, 0xff, 0x0f, 0x01}}}
				if r.bool() {
					bad[0], bad[1] = bad[1], bad[0]
				}
				w.push(mkResp(xdsresource.ListenerTypeURL, fmt.Sprintf("bad%d", u+1), fmt.Sprintf("nb%d", u+1), bad))
				ro := obj{"pushed": upd.pushed()}
				if lo != nil {
					ro["limit"] = limitJSON(lo)
				}
				events = append(events, obj{"e": "rejected", "obs": ro})
				c.count("rejected-responses", 1)
			}
			w.push(mkResp(xdsresource.ListenerTypeURL, verStr(r, u), fmt.Sprintf("n%d", u+1), anys))
			o := obj{"pushed": upd.pushed()}
			if lo != nil {
				o["limit"] = limitJSON(lo)
			}
			events = append(events, obj{"e": "update", "inbound": cj, "obs": o})
		}
		sort.Strings(nil)
		c.count("updates", nUpd)
		c.emit(obj{"op": "limit", "port": port, "nds": nds, "events": events})
		w.close()
	}
}

func contains(xs []string, x string) bool {
	for _, y := range xs {
		if y == x {
			return true
		}
	}
	return false
}
