// Command harness runs the real kitex-contrib/xds code (built from /repo's working tree with
// -tags verif) on generated inputs and writes one JSON case per line: the inputs together with the
// implementation's canonicalised observations. The Lean driver replays each case in the model
// and evaluates the property's executable specification on the observations.
package main

import (
	"bufio"
	"encoding/json"
	"flag"
	"fmt"
	"os"
	"runtime"
	"sort"
	"strings"
	"time"
)

type propFn func(c *ctx)

var props = map[string]propFn{}

// replays re-execute one recorded case against the implementation; when a property has no entry
// the recorded case (with its recorded observations) is re-emitted and re-judged by the driver.
var replays = map[string]func(c *ctx, in map[string]interface{}){}

func runReplay(c *ctx) {
	data, err := os.ReadFile(c.replay)
	if err != nil {
		fmt.Fprintln(os.Stderr, err)
		os.Exit(2)
	}
	for _, line := range strings.Split(string(data), "\n") {
		line = strings.TrimSpace(line)
		if line == "" {
			continue
		}
		var in map[string]interface{}
		if err := json.Unmarshal([]byte(line), &in); err != nil {
			fmt.Fprintln(os.Stderr, "replay:", err)
			os.Exit(2)
		}
		if f, ok := replays[c.prop]; ok {
			f(c, in)
		} else {
			delete(in, "k")
			c.emit(in)
		}
	}
}

type ctx struct {
	prop     string
	tier     string
	seed     uint64
	rng      *rng
	w        *bufio.Writer
	k        int
	replay   string
	budget   int // scale factor: 1 quick, larger thorough
	stats    map[string]int
	corpus   string
	deadline time.Time // zero: none; generators that can run long stop producing new cases after it
	noEnum   bool      // skip the seed-independent systematic enumerations (extra seeds of the thorough tier)
}

// expired: the optional wall-clock budget of this run is used up (only ever stops the generation of further cases).
func (c *ctx) expired() bool { return !c.deadline.IsZero() && time.Now().After(c.deadline) }

func (c *ctx) thorough() bool { return c.tier == "thorough" }

// count records a generator-distribution statistic.
func (c *ctx) count(key string, n int) { c.stats[key] += n }

func main() {
	tier := flag.String("tier", "quick", "quick|thorough")
	seed := flag.Uint64("seed", 1, "PRNG seed")
	out := flag.String("out", "", "output file (default stdout)")
	replay := flag.String("replay", "", "replay file: re-run the cases in it")
	corpus := flag.String("corpus", "", "corpus directory")
	maxsecs := flag.Int("maxsecs", 0, "stop generating new cases after this many seconds (0 = no limit)")
	noenum := flag.Bool("noenum", false, "skip seed-independent systematic enumerations")
	flag.Parse()
	if flag.NArg() < 1 {
		fmt.Fprintln(os.Stderr, "usage: harness [flags] <property>")
		os.Exit(2)
	}
	p := flag.Arg(0)
	fn, ok := props[p]
	if !ok {
		var names []string
		for n := range props {
			names = append(names, n)
		}
		sort.Strings(names)
		fmt.Fprintf(os.Stderr, "unknown property %s (have %s)\n", p, strings.Join(names, " "))
		os.Exit(2)
	}
	f := os.Stdout
	if *out != "" {
		var err error
		f, err = os.Create(*out)
		if err != nil {
			fmt.Fprintln(os.Stderr, err)
			os.Exit(2)
		}
		defer f.Close()
	}
	c := &ctx{prop: p, tier: *tier, seed: *seed, rng: newRng(*seed), w: bufio.NewWriterSize(f, 1<<20),
		replay: *replay, budget: 1, stats: map[string]int{}, corpus: *corpus}
	if c.thorough() {
		c.budget = 20
	}
	if *maxsecs > 0 {
		c.deadline = time.Now().Add(time.Duration(*maxsecs) * time.Second)
	}
	c.noEnum = *noenum
	silenceLogs()
	go hangWatch()
	if c.replay != "" {
		runReplay(c)
	} else {
		fn(c)
	}
	if c.k >= 0 {
		c.emitStats()
	}
	c.w.Flush()
}

// hangWatch: the scripts of the scenarios call into the code under test from the main goroutine (lookups, hooks that take
// the client's or the manager's lock). When a change under test leaves a lock taken for ever, such a call never comes back
// and no per-scenario watchdog may be around it. Every ten seconds the main goroutine's stack is sampled: if it sits in a
// lock wait INSIDE kitex-contrib/xds with the same frames six times in a row (a minute), the process reports it in the
// shape of a Go fatal error (bin/check turns that into a violation with this report as its replay) and exits.
func hangWatch() {
	last, same := "", 0
	for {
		time.Sleep(10 * time.Second)
		buf := make([]byte, 1<<20)
		st := string(buf[:runtime.Stack(buf, true)])
		var g1 string
		for _, g := range strings.Split(st, "\n\n") {
			if strings.HasPrefix(g, "goroutine 1 [") {
				g1 = g
				break
			}
		}
		head := g1
		if i := strings.IndexByte(g1, '\n'); i >= 0 {
			head = g1[:i]
		}
		waiting := strings.Contains(head, "sync.") || strings.Contains(head, "semacquire")
		inRepo := false
		var frames []string
		for _, l := range strings.Split(g1, "\n") {
			if strings.HasPrefix(l, "github.com/kitex-contrib/xds/") {
				inRepo = true
			}
			if !strings.HasPrefix(l, "\t") && !strings.HasPrefix(l, "goroutine ") {
				if i := strings.IndexByte(l, '('); i > 0 {
					frames = append(frames, l[:i])
				}
			}
		}
		key := strings.Join(frames, ";")
		if waiting && inRepo && key == last {
			same++
		} else {
			same = 0
		}
		last = key
		if same >= 5 {
			fmt.Fprintf(os.Stderr, "fatal error: verif-hang: the scenario script has been blocked in a lock wait inside the code under test for a minute\n\n%s\n\n%s\n", g1, st)
			os.Exit(3)
		}
	}
}
