package main

import (
	"context"
	"fmt"
	"regexp"
	"runtime"
	"sort"
	"strings"
	"time"

	"github.com/bytedance/gopkg/cloud/metainfo"
	"github.com/cloudwego/kitex/pkg/rpcinfo"
	"github.com/cloudwego/kitex/transport"
	v3routepb "github.com/envoyproxy/go-control-plane/envoy/config/route/v3"
	v3matcher "github.com/envoyproxy/go-control-plane/envoy/type/matcher/v3"

	"github.com/kitex-contrib/xds/core/xdsresource"
	"github.com/kitex-contrib/xds/xdssuite"
)

func init() { props["C08"] = runC08 }

// ---- generated descriptions (mirrored 1:1 into JSON and into xdsresource values) ----

type gCond struct {
	Key, Kind, Val string
}

type gRoute struct {
	Kind      string // "http" | "thrift" | "nil"
	Path      string
	Prefix    string
	Method    string
	Service   string
	Conds     []gCond
	Clusters  [][2]interface{} // name, weight
	TimeoutMs int
}

type gVHost struct {
	Name   string
	Routes []*gRoute
}

type gCfg struct {
	HTTP      []*gVHost
	HasHTTP   bool
	Thrift    []*gRoute
	HasThrift bool
	built     *xdsresource.RouteConfigResource // the resource object handed to the router (kept while the table is unchanged)
}

type gFilter struct {
	Thrift bool
	RcName string
	Port   int
	Inline *gCfg
}

func condJSON(cs []gCond) []interface{} {
	out := make([]interface{}, 0, len(cs))
	for _, c := range cs {
		o := obj{"t": c.Kind, "v": c.Val}
		if c.Kind == "regex" {
			if _, err := regexp.Compile(c.Val); err != nil {
				o["bad"] = true // an expression the engine rejects: the decoder drops the condition (model: Decode.buildMatchers)
			}
		}
		out = append(out, []interface{}{c.Key, o})
	}
	return out
}

func (r *gRoute) json() obj {
	var m interface{}
	switch r.Kind {
	case "http":
		m = obj{"kind": "http", "path": r.Path, "prefix": r.Prefix, "headers": condJSON(r.Conds)}
	case "thrift":
		m = obj{"kind": "thrift", "method": r.Method, "service": r.Service, "tags": condJSON(r.Conds)}
	}
	cl := make([]interface{}, 0, len(r.Clusters))
	for _, c := range r.Clusters {
		cl = append(cl, []interface{}{c[0], c[1]})
	}
	return obj{"match": m, "clusters": cl, "timeoutMs": r.TimeoutMs}
}

func routesJSON(rs []*gRoute) []interface{} {
	out := make([]interface{}, 0, len(rs))
	for _, r := range rs {
		out = append(out, r.json())
	}
	return out
}

func (c *gCfg) json() interface{} {
	if c == nil {
		return nil
	}
	o := obj{"http": nil, "thrift": nil}
	if c.HasHTTP {
		vs := make([]interface{}, 0, len(c.HTTP))
		for _, v := range c.HTTP {
			vs = append(vs, obj{"name": v.Name, "routes": routesJSON(v.Routes)})
		}
		o["http"] = vs
	}
	if c.HasThrift {
		o["thrift"] = routesJSON(c.Thrift)
	}
	return o
}

func headerProtos(cs []gCond) []*v3routepb.HeaderMatcher {
	var hs []*v3routepb.HeaderMatcher
	for _, c := range cs {
		sm := &v3matcher.StringMatcher{}
		switch c.Kind {
		case "exact":
			sm.MatchPattern = &v3matcher.StringMatcher_Exact{Exact: c.Val}
		case "prefix":
			sm.MatchPattern = &v3matcher.StringMatcher_Prefix{Prefix: c.Val}
		case "regex":
			sm.MatchPattern = &v3matcher.StringMatcher_SafeRegex{SafeRegex: &v3matcher.RegexMatcher{Regex: c.Val}}
		}
		hs = append(hs, &v3routepb.HeaderMatcher{Name: c.Key, HeaderMatchSpecifier: &v3routepb.HeaderMatcher_StringMatch{StringMatch: sm}})
	}
	return hs
}

func (r *gRoute) build() *xdsresource.Route {
	out := &xdsresource.Route{Timeout: time.Duration(r.TimeoutMs) * time.Millisecond}
	// every route also carries a retry policy whose per-try timeout differs from the route's timeout: the routing step sets
	// the call timeout to the ROUTE's timeout; the retry policy is the retry container's business (C17)
	out.RetryPolicy = xdsresource.RetryPolicy{NumRetries: 2, PerTryTimeout: time.Duration(r.TimeoutMs/3+7) * time.Millisecond, CBErrorRate: 0.1}
	switch r.Kind {
	case "http":
		out.Match = &xdsresource.HTTPRouteMatch{Path: r.Path, Prefix: r.Prefix, Headers: xdsresource.BuildMatchers(headerProtos(r.Conds))}
	case "thrift":
		out.Match = &xdsresource.ThriftRouteMatch{Method: r.Method, ServiceName: r.Service, Tags: xdsresource.BuildMatchers(headerProtos(r.Conds))}
	}
	for _, c := range r.Clusters {
		out.WeightedClusters = append(out.WeightedClusters, &xdsresource.WeightedCluster{Name: c[0].(string), Weight: uint32(c[1].(int))})
	}
	return out
}

func (c *gCfg) build() *xdsresource.RouteConfigResource {
	if c == nil {
		return nil
	}
	out := &xdsresource.RouteConfigResource{}
	if c.HasHTTP {
		h := &xdsresource.HTTPRouteConfig{}
		for _, v := range c.HTTP {
			vh := &xdsresource.VirtualHost{Name: v.Name}
			for _, r := range v.Routes {
				vh.Routes = append(vh.Routes, r.build())
			}
			h.VirtualHosts = append(h.VirtualHosts, vh)
		}
		out.HTTPRouteConfig = h
	}
	if c.HasThrift {
		t := &xdsresource.ThriftRouteConfig{}
		for _, r := range c.Thrift {
			t.Routes = append(t.Routes, r.build())
		}
		out.ThriftRouteConfig = t
	}
	return out
}

func filtersJSON(fs []*gFilter) []interface{} {
	out := make([]interface{}, 0, len(fs))
	for _, f := range fs {
		out = append(out, obj{"thrift": f.Thrift, "rcName": f.RcName, "port": f.Port, "inline": f.Inline.json()})
	}
	return out
}

func buildListener(fs []*gFilter) *xdsresource.ListenerResource {
	l := &xdsresource.ListenerResource{}
	for _, f := range fs {
		nf := &xdsresource.NetworkFilter{RouteConfigName: f.RcName, RoutePort: uint32(f.Port), InlineRouteConfig: f.Inline.build()}
		if f.Thrift {
			nf.FilterType = xdsresource.NetworkFilterTypeThrift
		} else {
			nf.FilterType = xdsresource.NetworkFilterTypeHTTP
		}
		l.NetworkFilters = append(l.NetworkFilters, nf)
	}
	return l
}

// ---- generators ----

var (
	c08Keys    = []string{"k1", "k2", "k3"}
	c08Vals    = []string{"v1", "v2", "abc", "ab", "b", "xv1"}
	c08Regexes = []string{"^a.*", "v[12]", "b$", "^ab?c?$", ".", ".*", "^(ab|b)?$", "x*", "v1", "a(?=b)", "("} // the two last ones are rejected by the engine; the last three accept the empty string: a condition on an absent key must still be false
	c08Methods = []string{"m1", "m2", "echo"}
)

type c08gen struct {
	r   *rng
	seq int
}

func (g *c08gen) conds() []gCond {
	n := 0
	switch g.r.intn(10) {
	case 0, 1, 2, 3:
		n = 0
	case 4, 5, 6, 7:
		n = 1
	case 8:
		n = 3
	default:
		n = 2
	}
	keys := append([]string(nil), c08Keys...)
	if n > len(keys) {
		n = len(keys)
	}
	var out []gCond
	for i := 0; i < n; i++ {
		ki := g.r.intn(len(keys))
		k := keys[ki]
		keys = append(keys[:ki], keys[ki+1:]...) // unique header names (duplicates are C11's subject)
		switch g.r.intn(3) {
		case 0:
			out = append(out, gCond{k, "exact", g.r.pick(c08Vals)})
		case 1:
			out = append(out, gCond{k, "prefix", g.r.pick([]string{"v", "a", "ab", "x", "v1"})})
		default:
			out = append(out, gCond{k, "regex", g.r.pick(c08Regexes)})
		}
	}
	return out
}

func (g *c08gen) route(kind string, pkg, svc string) *gRoute {
	g.seq++
	r := &gRoute{Kind: kind, Clusters: [][2]interface{}{{fmt.Sprintf("r%d", g.seq), 1}}, TimeoutMs: g.seq}
	if g.r.chance(3) {
		r.Kind = "nil"
		return r
	}
	r.Conds = g.conds()
	if g.r.chance(6) {
		// a route that selects no cluster (redirect, direct response): it still is the first match; the call then fails with
		// a routing error, it does not fall through to a later route
		r.Clusters = nil
	}
	if kind == "http" {
		full := "/" + pkg + "." + svc + "/"
		if pkg == "" {
			full = "/" + svc + "/"
		}
		switch g.r.intn(8) {
		case 0, 1, 2:
			r.Prefix = "/"
		case 3:
			r.Path = full + g.r.pick(c08Methods)
		case 4:
			r.Path = full + g.r.pick(c08Methods)
			r.Prefix = "/" // path set: prefix is ignored
		case 5:
			r.Prefix = full // a real prefix: not supported, never matches
		case 6:
			r.Prefix = ""
		default:
			r.Path = "/" + svc + "/" + g.r.pick(c08Methods) // path without the package
		}
	} else {
		switch g.r.intn(4) {
		case 0:
			r.Method = ""
		default:
			r.Method = g.r.pick(c08Methods)
		}
		if g.r.chance(20) {
			r.Service = "some-service"
		}
	}
	return r
}

func (g *c08gen) httpCfg(pkg, svc string) *gCfg {
	c := &gCfg{HasHTTP: true}
	if g.r.chance(5) {
		c.HasHTTP = false
		return c
	}
	nv := g.r.intn(4)
	for i := 0; i < nv; i++ {
		vh := &gVHost{Name: fmt.Sprintf("vh%d", i)}
		nr := g.r.intn(5)
		if g.r.chance(4) {
			nr = 16 + g.r.intn(10) // a large virtual host (an index over the routes must not change their order)
		}
		for j := 0; j < nr; j++ {
			vh.Routes = append(vh.Routes, g.route("http", pkg, svc))
		}
		c.HTTP = append(c.HTTP, vh)
	}
	return c
}

func (g *c08gen) thriftCfg() *gCfg {
	c := &gCfg{HasThrift: true}
	if g.r.chance(5) {
		c.HasThrift = false
		return c
	}
	nr := g.r.intn(4)
	for j := 0; j < nr; j++ {
		c.Thrift = append(c.Thrift, g.route("thrift", "", ""))
	}
	return c
}

func classifyRouteErr(err error) string {
	if err == nil {
		return ""
	}
	m := err.Error()
	switch {
	case strings.Contains(m, "get listener failed"):
		return "listener"
	case strings.Contains(m, "no http filter"):
		return "noHttpFilter"
	case strings.Contains(m, "get route failed"):
		return "routeTable"
	case strings.Contains(m, "no matched route"):
		return "noMatch"
	case strings.Contains(m, "no cluster selected"):
		return "pick"
	}
	return "other"
}

// c08Session: a router, its metadata source and the listener object of the destination live across several calls; the
// named route tables (and sometimes the listener) change between the calls. Every call is judged on its own against
// the tables in force when it was made: nothing remembered from an earlier call may show.
type c08Session struct {
	valid                      bool
	pkg, svc, method, toMethod string
	grpc, custom               bool
	fs                         []*gFilter
	lis                        *xdsresource.ListenerResource
	listenerPresent            bool
	named                      map[string]*gCfg
	md                         map[string]string
	mdBox                      *map[string]string
	router                     *xdssuite.XDSRouter
	stub                       *stubManager
}

func runC08(c *ctx) {
	for i := 0; i < 3; i++ {
		routeOverlap(c)
		routeAcrossPush(c)
		routeAcrossPush(c)
	}
	g := &c08gen{r: c.rng}
	n := 2500 * c.budget
	var sess c08Session
	for i := 0; i < n; i++ {
		g.seq = 0
		reuse := sess.valid && g.r.chance(55)
		pkg := g.r.pick([]string{"pkg", "", "a.b"})
		svc := g.r.pick([]string{"svc", "Echo"})
		method := g.r.pick(c08Methods)
		toMethod := method
		if g.r.chance(10) {
			toMethod = g.r.pick(c08Methods)
		}
		grpc := g.r.chance(35)
		// listener
		var fs []*gFilter
		nf := 1 + g.r.intn(3)
		if g.r.chance(5) {
			nf = 0
		}
		for j := 0; j < nf; j++ {
			f := &gFilter{Port: g.r.intn(3) * 80}
			if g.r.chance(30) {
				f.Thrift = true
				if g.r.chance(85) {
					f.Inline = g.thriftCfg()
				}
			} else {
				f.RcName = g.r.pick([]string{"rc-a", "rc-b", "rc-missing"})
				if g.r.chance(50) {
					f.Inline = g.httpCfg(pkg, svc)
				}
			}
			fs = append(fs, f)
		}
		named := map[string]*gCfg{}
		for _, nm := range []string{"rc-a", "rc-b"} {
			if g.r.chance(85) {
				named[nm] = g.httpCfg(pkg, svc)
			}
		}
		listenerPresent := !g.r.chance(4)
		// metadata
		md := map[string]string{}
		if !g.r.chance(15) { // every seventh call carries no metadata at all
			for _, k := range c08Keys {
				if g.r.chance(60) {
					md[k] = g.r.pick(c08Vals)
				}
			}
		}
		custom := g.r.chance(40)
		if custom && g.r.chance(20) {
			md[g.r.pick(c08Keys)] = "" // present with an empty value (only expressible with a custom extractor)
		}
		svcName := "dest"
		var stub *stubManager
		var router *xdssuite.XDSRouter
		var lis *xdsresource.ListenerResource
		if reuse {
			// the same router, the same call; the named tables are replaced (one or all of them); the listener object
			// stays the same two times out of three; the metadata stays the same every other time
			c.count("session.continued", 1)
			pkg, svc, method, toMethod, grpc, custom = sess.pkg, sess.svc, sess.method, sess.toMethod, sess.grpc, sess.custom
			stub, router = sess.stub, sess.router
			if g.r.chance(67) {
				fs, lis, listenerPresent = sess.fs, sess.lis, sess.listenerPresent
				c.count("session.same-listener-object", 1)
			}
			if g.r.chance(40) {
				keep := g.r.pick([]string{"rc-a", "rc-b"})
				if old, ok := sess.named[keep]; ok {
					named[keep] = old
				} else {
					delete(named, keep)
				}
			}
			if g.r.chance(50) {
				md = map[string]string{}
				for k, v := range sess.md {
					md[k] = v
				}
			}
			if !custom {
				for k, v := range md {
					if v == "" {
						delete(md, k)
					}
				}
			}
		} else {
			stub = newStub()
		}
		useBackend(stub)
		if listenerPresent && lis == nil {
			lis = buildListener(fs)
		}
		delete(stub.res, stubKey{xdsresource.ListenerType, svcName})
		if listenerPresent {
			stub.res[stubKey{xdsresource.ListenerType, svcName}] = lis
			if g.r.chance(10) {
				// the listener is replaced right after it has been read: one call is routed by ONE state of its listener
				// (the one it read), never by a mixture of the old Thrift routes and the new HTTP routes
				swapped := &gRoute{Kind: "http", Prefix: "/", Clusters: [][2]interface{}{{"from-the-replaced-listener", 1}}, TimeoutMs: 999}
				stub.afterGet = map[stubKey]interface{}{{xdsresource.ListenerType, svcName}: buildListener([]*gFilter{{Inline: &gCfg{HasHTTP: true, HTTP: []*gVHost{{Name: "vh", Routes: []*gRoute{swapped}}}}}})}
				c.count("listener-replaced-after-read", 1)
			}
		}
		for _, nm := range []string{"rc-a", "rc-b"} {
			delete(stub.res, stubKey{xdsresource.RouteConfigType, nm})
		}
		for nm, cfg := range named {
			if reuse && sess.named[nm] == cfg {
				continue // unchanged table: the same resource object as before
			}
			cfg.built = cfg.build()
		}
		for nm, cfg := range named {
			stub.res[stubKey{xdsresource.RouteConfigType, nm}] = cfg.built
		}
		ctx := context.Background()
		if custom {
			if reuse {
				*sess.mdBox = md
			} else {
				box := new(map[string]string)
				*box = md
				sess.mdBox = box
				router = xdssuite.NewXDSRouter(xdssuite.WithRouterMetaExtractor(func(context.Context) map[string]string { return *box }))
			}
		} else {
			if !reuse {
				router = xdssuite.NewXDSRouter()
			}
			for k, v := range md {
				ctx = metainfo.WithValue(ctx, k, v)
			}
			md = metainfo.GetAllValues(ctx)
			if md == nil {
				md = map[string]string{}
			}
		}
		sess = c08Session{valid: true, pkg: pkg, svc: svc, method: method, toMethod: toMethod, grpc: grpc, custom: custom, fs: fs, lis: lis,
			listenerPresent: listenerPresent, named: named, md: md, mdBox: sess.mdBox, router: router, stub: stub}
		to := rpcinfo.NewEndpointInfo(svcName, toMethod, nil, nil)
		cfg := rpcinfo.NewRPCConfig()
		if grpc {
			_ = rpcinfo.AsMutableRPCConfig(cfg).SetTransportProtocol(transport.GRPC)
		}
		ri := rpcinfo.NewRPCInfo(nil, to, rpcinfo.NewInvocation(svc, method, pkg), cfg, nil)
		var res *xdssuite.RouteResult
		var err error
		p, pmsg := recoverTo(func() { res, err = router.Route(ctx, ri) })
		o := obj{"panic": p, "panicMsg": pmsg, "err": classifyRouteErr(err), "cluster": nil, "timeoutMs": 0}
		if !p && err == nil && res != nil {
			o["cluster"] = res.ClusterPicked
			o["timeoutMs"] = int(res.RPCTimeout / time.Millisecond)
		}
		// truth table of the regular expressions against every metadata value
		var rx []interface{}
		vals := map[string]bool{}
		for _, v := range md {
			vals[v] = true
		}
		vals[""] = true // the empty string is in the table too (it is what a missing key would read as)
		var vlist []string
		for v := range vals {
			vlist = append(vlist, v)
		}
		sort.Strings(vlist)
		for _, re := range c08Regexes {
			cre, cerr := regexp.Compile(re)
			if cerr != nil {
				continue
			}
			for _, v := range vlist {
				rx = append(rx, []interface{}{re, v, cre.MatchString(v)})
			}
		}
		mdl := make([]interface{}, 0, len(md))
		var mkeys []string
		for k := range md {
			mkeys = append(mkeys, k)
		}
		sort.Strings(mkeys)
		for _, k := range mkeys {
			mdl = append(mdl, []interface{}{k, md[k]})
		}
		nm := obj{}
		for k, v := range named {
			nm[k] = v.json()
		}
		var lj interface{}
		if listenerPresent {
			lj = obj{"filters": filtersJSON(fs)}
		}
		if custom {
			c.count("extractor=custom", 1)
		} else {
			c.count("extractor=default", 1)
		}
		if err == nil {
			c.count("routed", 1)
		} else {
			c.count("err="+classifyRouteErr(err), 1)
		}
		c.emit(obj{"op": "route", "grpc": grpc, "md": mdl, "extractor": map[bool]string{true: "custom", false: "default"}[custom],
			"inv":      obj{"pkg": pkg, "svc": svc, "method": method, "toMethod": toMethod},
			"listener": lj, "named": nm, "rx": rx, "obs": o})
	}
}

type c08MdKey struct{}

// parkMatcher is a header condition that can be held up while it is evaluated (and then says no): a call that is in the
// middle of walking its route table.
type parkMatcher struct {
	entered chan struct{}
	gate    chan struct{}
}

func (p *parkMatcher) Match(string) bool {
	select {
	case p.entered <- struct{}{}:
		<-p.gate
	default:
	}
	return false
}

// routeOverlap: call A (method alpha) is held up in the middle of its walk through the route table; call B (method
// bravo) is routed to completion meanwhile on the same processor; then A goes on. Every call is routed by ITS path:
// nothing a call computes may be shared with another call. The case is emitted as an ordinary route case for A (the
// parked condition reads as one that does not hold).
func routeOverlap(c *ctx) {
	old := runtime.GOMAXPROCS(1)
	defer runtime.GOMAXPROCS(old)
	pm := &parkMatcher{entered: make(chan struct{}), gate: make(chan struct{})}
	mk := func(path, cluster string, conds []gCond, prefix string) *gRoute {
		return &gRoute{Kind: "http", Path: path, Prefix: prefix, Conds: conds, Clusters: [][2]interface{}{{cluster, 1}}, TimeoutMs: 100}
	}
	cfg := &gCfg{HasHTTP: true, HTTP: []*gVHost{{Name: "vh", Routes: []*gRoute{
		mk("", "gated", []gCond{{Key: "k1", Kind: "exact", Val: "never"}}, "/"),
		mk("/pkg.svc/alpha", "alpha", nil, ""),
		mk("/pkg.svc/bravo", "bravo", nil, ""),
	}}}}
	fs := []*gFilter{{RcName: "rc-a"}}
	stub := newStub()
	useBackend(stub)
	built := cfg.build()
	built.HTTPRouteConfig.VirtualHosts[0].Routes[0].Match.(*xdsresource.HTTPRouteMatch).Headers["k1"] = pm
	stub.res[stubKey{xdsresource.ListenerType, "dest"}] = buildListener(fs)
	stub.res[stubKey{xdsresource.RouteConfigType, "rc-a"}] = built
	mdA := map[string]string{"k1": "v1"}
	router := xdssuite.NewXDSRouter(xdssuite.WithRouterMetaExtractor(func(ctx context.Context) map[string]string {
		if m, ok := ctx.Value(c08MdKey{}).(map[string]string); ok {
			return m
		}
		return map[string]string{}
	}))
	call := func(method string, md map[string]string) (obj, bool) {
		to := rpcinfo.NewEndpointInfo("dest", method, nil, nil)
		ri := rpcinfo.NewRPCInfo(nil, to, rpcinfo.NewInvocation("svc", method, "pkg"), rpcinfo.NewRPCConfig(), nil)
		var res *xdssuite.RouteResult
		var err error
		p, pmsg := recoverTo(func() { res, err = router.Route(context.WithValue(context.Background(), c08MdKey{}, md), ri) })
		o := obj{"panic": p, "panicMsg": pmsg, "err": classifyRouteErr(err), "cluster": nil, "timeoutMs": 0}
		if !p && err == nil && res != nil {
			o["cluster"] = res.ClusterPicked
			o["timeoutMs"] = int(res.RPCTimeout / time.Millisecond)
		}
		return o, p
	}
	resA := make(chan obj, 1)
	go func() { o, _ := call("alpha", mdA); resA <- o }()
	select {
	case <-pm.entered:
	case <-time.After(3 * time.Second):
		close(pm.gate)
		return
	}
	_, _ = call("bravo", map[string]string{}) // no k1: the gated route does not apply; routed by the exact path
	close(pm.gate)
	oA := <-resA
	rx := []interface{}{}
	for _, re := range c08Regexes {
		cre, cerr := regexp.Compile(re)
		if cerr != nil {
			continue
		}
		for _, v := range []string{"", "v1"} {
			rx = append(rx, []interface{}{re, v, cre.MatchString(v)})
		}
	}
	c.count("route-overlap", 1)
	c.emit(obj{"op": "route", "grpc": false, "md": []interface{}{[]interface{}{"k1", "v1"}}, "extractor": "custom",
		"inv":      obj{"pkg": "pkg", "svc": "svc", "method": "alpha", "toMethod": "alpha"},
		"listener": obj{"filters": filtersJSON(fs)}, "named": obj{"rc-a": cfg.json()}, "rx": rx, "obs": oA, "overlap": true})
}

// routeAcrossPush: one router, one destination whose listener names a route table; while the router reads the table for
// the first call, a new version of the table is pushed (handlers, then data). The first call is routed by the table it
// read; every later call by the new table - whatever the router remembers of the old one.
func routeAcrossPush(c *ctx) {
	mk := func(cluster string, t int) *gCfg {
		return &gCfg{HasHTTP: true, HTTP: []*gVHost{{Name: "vh", Routes: []*gRoute{{Kind: "http", Prefix: "/", Clusters: [][2]interface{}{{cluster, 1}}, TimeoutMs: t}}}}}
	}
	oldCfg, newCfg := mk("before-the-push", 100), mk("after-the-push", 200)
	fs := []*gFilter{{RcName: "rc-a"}}
	stub := newStub()
	useBackend(stub)
	stub.res[stubKey{xdsresource.ListenerType, "dest"}] = buildListener(fs)
	stub.res[stubKey{xdsresource.RouteConfigType, "rc-a"}] = oldCfg.build()
	router := xdssuite.NewXDSRouter() // (a router may register update handlers with the manager: the stub runs them on the push)
	stub.afterGet = map[stubKey]interface{}{{xdsresource.RouteConfigType, "rc-a"}: newCfg.build()}
	for i := 0; i < 4; i++ {
		to := rpcinfo.NewEndpointInfo("dest", "m", nil, nil)
		ri := rpcinfo.NewRPCInfo(nil, to, rpcinfo.NewInvocation("svc", "m", "pkg"), rpcinfo.NewRPCConfig(), nil)
		var res *xdssuite.RouteResult
		var err error
		p, pmsg := recoverTo(func() { res, err = router.Route(context.Background(), ri) })
		o := obj{"panic": p, "panicMsg": pmsg, "err": classifyRouteErr(err), "cluster": nil, "timeoutMs": 0}
		if !p && err == nil && res != nil {
			o["cluster"] = res.ClusterPicked
			o["timeoutMs"] = int(res.RPCTimeout / time.Millisecond)
		}
		inForce := newCfg
		if i == 0 {
			inForce = oldCfg
		}
		c.count("route-across-push", 1)
		c.emit(obj{"op": "route", "grpc": false, "md": []interface{}{}, "extractor": "default",
			"inv":      obj{"pkg": "pkg", "svc": "svc", "method": "m", "toMethod": "m"},
			"listener": obj{"filters": filtersJSON(fs)}, "named": obj{"rc-a": inForce.json()}, "rx": []interface{}{}, "obs": o, "acrossPush": i})
	}
}
