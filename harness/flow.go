package main

import (
	"errors"
	"fmt"
	"runtime"
	"strings"
	"sync/atomic"
	"time"

	"google.golang.org/protobuf/types/known/anypb"
)

// The request path at goroutine granularity (model: lean/XdsVerif/Model/Flow.lean): the bounded request channel, the
// producers that wait for room while holding the client lock, the sender (stalled Send, stream adoption), reconnects.
// One case = one scripted scenario on the real client; the observations are what the model has to predict:
// how many lookups return while the connection is stalled (the capacity of the channel), whether everything completes
// after it resumes, and what reached the wire in which order.
//
//   burst  : one request in flight, Send stalled, n lookups miss, resume
//   ack    : the same with a response acknowledged while stalled (its ACK waits in the channel)
//   flood  : the same with a stream failure + reconnect (new stream published, not yet adopted) before the lookups
//   outage : the stream fails and cannot be re-created; n lookups miss meanwhile
func flowCase(c *ctx, kind string, n int) {
	w, err := newWorld(worldOpts{ndsNotRequired: true, fetchTimeout: time.Millisecond})
	if err != nil {
		fmt.Println("flow: world:", err)
		return
	}
	h := &histRun{c: c, w: w}
	_ = h.observe(0)
	hung := false
	defer func() {
		if !hung {
			w.close()
		}
	}()
	if kind == "outage" {
		w.ads.mu.Lock()
		w.ads.failCreate = 1 << 30
		w.ads.mu.Unlock()
		w.feedErr(errors.New("verif: stream reset"))
		w.waitFor(func() bool {
			w.ads.mu.Lock()
			defer w.ads.mu.Unlock()
			return w.ads.createAttempts >= 3
		}, 10*time.Second)
	}
	mark := w.mark()
	gate := make(chan struct{})
	if kind != "outage" {
		w.ads.mu.Lock()
		w.ads.streams[len(w.ads.streams)-1].sendGate = gate
		w.ads.mu.Unlock()
		_ = w.get(rtOf("cds"), "s0") // its request is taken by the sender, which blocks in Send
		w.waitFor(func() bool { return w.m.VerifQueueLen() == 0 }, 5*time.Second)
	}
	if kind == "ack" {
		_ = w.m // the response of another type: its acknowledgement waits in the channel
		w.feed(mkResp(urlOf("lds"), "v9", "n9", []*anypb.Any{anyStamped("lds", "virtualInbound", "inbound#9")}))
		w.waitFor(func() bool {
			w.ads.mu.Lock()
			s := w.ads.streams[len(w.ads.streams)-1]
			back := s.waiting && len(s.inbox) == 0
			w.ads.mu.Unlock()
			return back && w.m.VerifQueueLen() == 1
		}, 5*time.Second)
	}
	if kind == "flood" {
		w.feedErr(errors.New("verif: stream reset"))
		w.waitFor(func() bool {
			w.ads.mu.Lock()
			defer w.ads.mu.Unlock()
			return len(w.ads.streams) == 2 && w.ads.streams[1].waiting
		}, 10*time.Second)
	}
	done := make(chan struct{})
	var returned int64
	go func() {
		for i := 0; i < n; i++ {
			_ = w.get(rtOf("cds"), fmt.Sprintf("f%04d", i))
			atomic.AddInt64(&returned, 1)
		}
		close(done)
	}()
	last, stable := int64(-1), 0
	for stable < 40 {
		select {
		case <-done:
			stable = 1 << 30
		case <-time.After(5 * time.Millisecond):
			if r := atomic.LoadInt64(&returned); r == last {
				stable++
			} else {
				last, stable = r, 0
			}
		}
	}
	r1 := atomic.LoadInt64(&returned)
	w.ads.mu.Lock()
	for _, s := range w.ads.streams {
		s.sendGate = nil
	}
	w.ads.mu.Unlock()
	close(gate)
	senderInAdopt, producerInSend := false, false
	select {
	case <-done:
	case <-time.After(3 * time.Second):
		hung = true
		w.hung = true
		buf := make([]byte, 1<<22)
		st := string(buf[:runtime.Stack(buf, true)])
		for _, g := range strings.Split(st, "\n\n") {
			if strings.Contains(g, "(*xdsClient).reqWhenReconnect") && strings.Contains(g, "(*xdsClient).sender") &&
				(strings.Contains(g, "sync.(*RWMutex).Lock") || strings.Contains(g, "sync.(*Mutex).Lock")) {
				senderInAdopt = true
			}
			if strings.Contains(g, "(*xdsClient).sendRequest") && strings.Contains(g, "(*xdsClient).Watch") && strings.Contains(g, "[select") {
				producerInSend = true
			}
		}
	}
	r2 := atomic.LoadInt64(&returned)
	var wire []interface{}
	if !hung {
		if kind != "outage" {
			w.settle()
		}
		for _, q := range w.since(mark) {
			names, _ := q["names"].([]string)
			wire = append(wire, obj{"sid": q["sid"], "rt": q["rt"], "n": len(names), "nonce": q["nonce"]})
		}
	}
	c.count("flow."+kind, 1)
	if hung {
		c.count("flow.hang", 1)
	}
	c.emit(obj{"op": "flow", "kind": kind, "n": n, "obs": obj{"returnedWhileStalled": r1, "returned": r2, "hang": hung,
		"senderInAdopt": senderInAdopt, "producerInSend": producerInSend, "wire": wire}})
}

func init() {
	props["FLOW"] = func(c *ctx) { // development entry; the registered checks reach flowCase through C02 C03 C05 C07
		for _, k := range []string{"burst", "ack", "outage", "flood", "flood"} {
			flowCase(c, k, 1040)
		}
	}
}
