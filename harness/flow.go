package main

import (
	"errors"
	"fmt"
	"runtime"
	"strings"
	"sync"
	"sync/atomic"
	"time"

	"google.golang.org/protobuf/types/known/anypb"

	"github.com/kitex-contrib/xds/core/xdsresource"
)

// The request path at goroutine granularity (model: lean/XdsVerif/Model/Flow.lean): the bounded request channel, the
// producers that wait for room while holding the client lock, the sender (stalled Send, stream adoption), reconnects.
// One case = one scripted scenario on the real client; the observations are what the model has to predict:
// how many lookups return while the connection is stalled (the capacity of the channel), whether everything completes
// after it resumes, and what reached the wire in which order.
//
//	burst  : one request in flight, Send stalled, n lookups miss, resume
//	ack    : the same with a response acknowledged while stalled (its ACK waits in the channel)
//	flood  : the same with a stream failure + reconnect (new stream published, not yet adopted) before the lookups
//	outage : the stream fails and cannot be re-created; n lookups miss meanwhile
//	stop   : as burst, but instead of resuming the control plane rejects the client (authentication): close()
func flowCase(c *ctx, kind string, n int) { flowCaseHold(c, kind, n, 0) }

// flowCaseHold: as flowCase; the transport stays stalled for `hold` after the lookups got stuck (or finished).
func flowCaseHold(c *ctx, kind string, n int, hold time.Duration) {
	w, err := newWorld(worldOpts{ndsNotRequired: true, fetchTimeout: time.Millisecond})
	if err != nil {
		fmt.Println("flow: world:", err)
		return
	}
	h := &histRun{c: c, w: w}
	_ = h.observe(0)
	hung := false
	defer func() {
		if !hung {
			w.close()
		}
	}()
	if kind == "outage" {
		w.ads.mu.Lock()
		w.ads.failCreate = 1 << 30
		w.ads.mu.Unlock()
		w.feedErr(errors.New("verif: stream reset"))
		w.waitFor(func() bool {
			w.ads.mu.Lock()
			defer w.ads.mu.Unlock()
			return w.ads.createAttempts >= 3
		}, 10*time.Second)
	}
	mark := w.mark()
	gate := make(chan struct{})
	if kind != "outage" {
		w.ads.mu.Lock()
		w.ads.streams[len(w.ads.streams)-1].sendGate = gate
		w.ads.mu.Unlock()
		_ = w.get(rtOf("cds"), "s0") // its request is taken by the sender, which blocks in Send
		w.waitFor(func() bool { return w.m.VerifQueueLen() == 0 }, 5*time.Second)
	}
	if kind == "ack" {
		_ = w.m // the response of another type: its acknowledgement waits in the channel
		w.feed(mkResp(urlOf("lds"), "v9", "n9", []*anypb.Any{anyStamped("lds", "virtualInbound", "inbound#9")}))
		w.waitFor(func() bool {
			w.ads.mu.Lock()
			s := w.ads.streams[len(w.ads.streams)-1]
			back := s.waiting && len(s.inbox) == 0
			w.ads.mu.Unlock()
			return back && w.m.VerifQueueLen() == 1
		}, 5*time.Second)
	}
	if kind == "flood" {
		w.feedErr(errors.New("verif: stream reset"))
		w.waitFor(func() bool {
			w.ads.mu.Lock()
			defer w.ads.mu.Unlock()
			return len(w.ads.streams) == 2 && w.ads.streams[1].waiting
		}, 10*time.Second)
	}
	done := make(chan struct{})
	var returned, slowest, slowestIdx int64
	go func() {
		for i := 0; i < n; i++ {
			t0 := time.Now()
			_ = w.get(rtOf("cds"), fmt.Sprintf("f%04d", i))
			if ms := time.Since(t0).Milliseconds(); ms > atomic.LoadInt64(&slowest) {
				atomic.StoreInt64(&slowest, ms)
				atomic.StoreInt64(&slowestIdx, int64(i+1))
			}
			atomic.AddInt64(&returned, 1)
		}
		close(done)
	}()
	waitStuckOrDone(done, &returned)
	r1 := atomic.LoadInt64(&returned)
	if kind == "stop" {
		// the control plane rejects the client for good while a lookup is parked in sendRequest (channel full, Send
		// still stalled): the stop must release it, and every later lookup gives up at once
		w.feedErr(authErr())
		select {
		case <-done:
		case <-time.After(time.Duration(n)*4*time.Millisecond + 4*time.Second):
			hung = true
			w.hung = true
		}
		r2 := atomic.LoadInt64(&returned)
		c.count("flow.stop", 1)
		c.emit(obj{"op": "flow", "kind": kind, "n": n, "obs": obj{"returnedWhileStalled": r1, "returned": r2, "hang": hung,
			"closed": w.m.VerifClosed(), "wire": []interface{}{}}})
		// the sender is still inside the stalled Send: let it go before the world is torn down
		w.ads.mu.Lock()
		for _, s := range w.ads.streams {
			s.sendGate = nil
		}
		w.ads.mu.Unlock()
		close(gate)
		return
	}
	if hold > 0 {
		// the transport stays stalled for a while longer: what happens to the lookup that found the channel full?
		select {
		case <-done:
		case <-time.After(hold):
		}
	}
	w.ads.mu.Lock()
	for _, s := range w.ads.streams {
		s.sendGate = nil
	}
	w.ads.mu.Unlock()
	close(gate)
	senderInAdopt, producerInSend := false, false
	select {
	case <-done:
	case <-time.After(3 * time.Second):
		hung = true
		w.hung = true
		buf := make([]byte, 1<<22)
		st := string(buf[:runtime.Stack(buf, true)])
		for _, g := range strings.Split(st, "\n\n") {
			if strings.Contains(g, "(*xdsClient).reqWhenReconnect") && strings.Contains(g, "(*xdsClient).sender") &&
				(strings.Contains(g, "sync.(*RWMutex).Lock") || strings.Contains(g, "sync.(*Mutex).Lock")) {
				senderInAdopt = true
			}
			if strings.Contains(g, "(*xdsClient).sendRequest") && strings.Contains(g, "(*xdsClient).Watch") && strings.Contains(g, "[select") {
				producerInSend = true
			}
		}
	}
	r2 := atomic.LoadInt64(&returned)
	var wire []interface{}
	if !hung {
		if kind != "outage" {
			w.settle()
		}
		for _, q := range w.since(mark) {
			names, _ := q["names"].([]string)
			wire = append(wire, obj{"sid": q["sid"], "rt": q["rt"], "n": len(names), "nonce": q["nonce"]})
		}
	}
	c.count("flow."+kind, 1)
	if hung {
		c.count("flow.hang", 1)
	}
	c.emit(obj{"op": "flow", "kind": kind, "n": n, "holdMs": hold.Milliseconds(), "fetchTimeoutMs": 1, "obs": obj{"returnedWhileStalled": r1, "returned": r2, "hang": hung,
		"senderInAdopt": senderInAdopt, "producerInSend": producerInSend, "wire": wire,
		"slowestMs": atomic.LoadInt64(&slowest), "slowestLookup": atomic.LoadInt64(&slowestIdx)}})
}

// ---- yield point 7: a producer (Watch, updateAndACK) parked right before it hands its request to the channel ----

type flowGateT struct {
	mu     sync.Mutex
	armed  bool
	parked bool
	gate   chan struct{}
}

var flowGate = flowGateT{gate: make(chan struct{})}

// flowYield parks the FIRST producer that arrives after flowArm (one shot); later producers pass.
func flowYield() {
	flowGate.mu.Lock()
	if !flowGate.armed {
		flowGate.mu.Unlock()
		return
	}
	flowGate.armed = false
	flowGate.parked = true
	g := flowGate.gate
	flowGate.mu.Unlock()
	<-g
}

func flowArm() {
	flowGate.mu.Lock()
	flowGate.armed = true
	flowGate.parked = false
	flowGate.mu.Unlock()
}

func flowParked() bool {
	flowGate.mu.Lock()
	defer flowGate.mu.Unlock()
	return flowGate.parked
}

func flowRelease() {
	flowGate.mu.Lock()
	g := flowGate.gate
	flowGate.gate = make(chan struct{})
	flowGate.armed = false
	flowGate.parked = false
	flowGate.mu.Unlock()
	close(g)
}

// goroutineIn reports whether some goroutine whose stack contains all of `frames` is in a state containing `state`.
func goroutineIn(state string, frames ...string) bool {
	buf := make([]byte, 1<<21)
	st := string(buf[:runtime.Stack(buf, true)])
	for _, g := range strings.Split(st, "\n\n") {
		head := g
		if i := strings.IndexByte(g, '\n'); i >= 0 {
			head = g[:i]
		}
		if !strings.Contains(head, state) {
			continue
		}
		ok := true
		for _, f := range frames {
			if !strings.Contains(g, f) {
				ok = false
				break
			}
		}
		if ok {
			return true
		}
	}
	return false
}

// waitStuckOrDone waits until the goroutine that issues the lookups is through (`done`), or provably stuck: a producer is
// parked in sendRequest's select, which happens only when the request channel is full (read from the goroutine dump, twice,
// with no lookup returning in between). Three seconds without any progress is the fallback for changed code that gets
// stuck elsewhere.
func waitStuckOrDone(done chan struct{}, returned *int64) {
	last, since := int64(-1), time.Now()
	stuckSince := time.Time{}
	for {
		select {
		case <-done:
			return
		case <-time.After(5 * time.Millisecond):
		}
		r := atomic.LoadInt64(returned)
		if r != last {
			last, since, stuckSince = r, time.Now(), time.Time{}
			continue
		}
		// no lookup has returned since the last poll
		if goroutineIn("select", "(*xdsClient).sendRequest") {
			if stuckSince.IsZero() {
				stuckSince = time.Now()
			} else if time.Since(stuckSince) > 150*time.Millisecond {
				return // a producer has been parked in sendRequest for 150 ms without any lookup returning: the channel is full
			}
		} else {
			stuckSince = time.Time{}
		}
		if time.Since(since) > 3*time.Second {
			return
		}
	}
}

// parkedAck: the receiver is parked at the moment it hands the acknowledgement of a response to the channel; a lookup of
// another name of the same type misses meanwhile. Acknowledging and enqueuing are one critical section: the lookup's
// Watch has to wait, so the control plane sees the acknowledgement (old set) first and the subscription change (new set)
// last (C03: the last request of the type lists the interest set).
func parkedAck(c *ctx, rt string) {
	installYield()
	w, err := newWorld(worldOpts{ndsNotRequired: true, fetchTimeout: 2 * time.Millisecond})
	if err != nil {
		fmt.Println("flow: world:", err)
		return
	}
	defer func() { flowRelease(); w.close() }()
	h := &histRun{c: c, w: w}
	pre := []interface{}{obj{"o": "startup-lds", "stamp": inboundStamp}}
	obs0 := h.observe(0)
	var res string
	h.step(obj{"o": "get", "rt": rt, "n": "p1"}, func() { res = w.get(rtOf(rt), "p1") })
	h.steps[len(h.steps)-1].(obj)["obs"].(obj)["get"] = res
	order := ""
	h.step(obj{"o": "parked-ack", "rt": rt, "v": "v1", "nonce": "n1", "slots": slotsJSON([][3]string{{"good", "p1", "p1#1"}}), "n": "x1"}, func() {
		flowArm()
		w.feed(mkResp(urlOf(rt), "v1", "n1", []*anypb.Any{anyStamped(rt, "p1", "p1#1")}))
		w.waitFor(flowParked, 5*time.Second)
		done := make(chan struct{})
		go func() { _ = w.get(rtOf(rt), "x1"); close(done) }()
		// the lookup's Watch either waits for the client lock (held by the parked receiver) or goes through
		w.waitFor(func() bool {
			if goroutineIn("sync.", "(*xdsClient).Watch") || goroutineIn("semacquire", "(*xdsClient).Watch") {
				order = "watch-waits"
				return true
			}
			select {
			case <-done:
				order = "watch-overtook"
				return true
			default:
				return false
			}
		}, 3*time.Second)
		flowRelease()
		select {
		case <-done:
		case <-time.After(5 * time.Second):
			w.hung = true
		}
	})
	h.steps[len(h.steps)-1].(obj)["order"] = order
	uni := obj{"lds": []string{xdsresource.ReservedLdsResourceName}, "rds": []string{}, "cds": []string{}, "eds": []string{}}
	uni[rt] = []string{"p1", "x1"}
	c.count("parked-ack", 1)
	c.count("parked-ack."+order, 1)
	c.emit(obj{"op": "hist", "cfg": obj{"nds": false, "ns": "default", "dom": "cluster.local"}, "universe": uni,
		"pre": pre, "obs0": obs0, "steps": h.steps})
}

// parkedWatchReconnect: a lookup that missed is parked at the moment it hands its request (which echoes the nonce of the
// current stream) to the channel; the stream fails meanwhile. Reset + drain of the reconnect and the enqueue of a request
// exclude each other (both under the client lock): the reconnect has to wait, so the stale request is drained (or dies
// with the old stream) and nothing on the new stream carries a nonce of the old one (C04).
func parkedWatchReconnect(c *ctx) {
	installYield()
	w, err := newWorld(worldOpts{ndsNotRequired: true, fetchTimeout: 2 * time.Millisecond})
	if err != nil {
		fmt.Println("flow: world:", err)
		return
	}
	defer func() { flowRelease(); w.close() }()
	h := &histRun{c: c, w: w}
	pre := []interface{}{obj{"o": "startup-lds", "stamp": inboundStamp}}
	obs0 := h.observe(0)
	var res string
	h.step(obj{"o": "get", "rt": "cds", "n": "p1"}, func() { res = w.get(rtOf("cds"), "p1") })
	h.steps[len(h.steps)-1].(obj)["obs"].(obj)["get"] = res
	h.step(obj{"o": "push", "rt": "cds", "v": "v1", "nonce": "n1", "slots": slotsJSON([][3]string{{"good", "p1", "p1#1"}})}, func() {
		w.feed(mkResp(urlOf("cds"), "v1", "n1", []*anypb.Any{anyStamped("cds", "p1", "p1#1")}))
	})
	order := ""
	h.step(obj{"o": "parked-watch-reconnect", "rt": "cds", "n": "x1"}, func() {
		flowArm()
		done := make(chan struct{})
		go func() { _ = w.get(rtOf("cds"), "x1"); close(done) }()
		w.waitFor(flowParked, 5*time.Second)
		w.feedErr(errors.New("verif: stream reset"))
		// the receiver's reconnect either waits for the client lock (held by the parked Watch) or goes through
		w.waitFor(func() bool {
			if goroutineIn("sync.", "(*xdsClient).reconnect") || goroutineIn("semacquire", "(*xdsClient).reconnect") {
				order = "reconnect-waits"
				return true
			}
			w.ads.mu.Lock()
			n := len(w.ads.streams)
			adopted := n >= 2 && w.ads.streams[n-1].sends > 0
			w.ads.mu.Unlock()
			if adopted {
				order = "reconnect-overtook"
				return true
			}
			return false
		}, 3*time.Second)
		flowRelease()
		select {
		case <-done:
		case <-time.After(5 * time.Second):
			w.hung = true
		}
		w.waitFor(func() bool {
			w.ads.mu.Lock()
			defer w.ads.mu.Unlock()
			return len(w.ads.streams) >= 2
		}, 5*time.Second)
	})
	h.steps[len(h.steps)-1].(obj)["order"] = order
	uni := obj{"lds": []string{xdsresource.ReservedLdsResourceName}, "rds": []string{}, "cds": []string{"p1", "x1"}, "eds": []string{}}
	c.count("parked-watch-reconnect", 1)
	c.count("parked-watch-reconnect."+order, 1)
	c.emit(obj{"op": "hist", "cfg": obj{"nds": false, "ns": "default", "dom": "cluster.local"}, "universe": uni,
		"pre": pre, "obs0": obs0, "steps": h.steps})
}

func init() {
	props["FLOW"] = func(c *ctx) { // development entry; the registered checks reach flowCase through C02 C03 C05 C07
		for _, k := range []string{"burst", "ack", "outage", "flood", "flood"} {
			flowCase(c, k, 1040)
		}
	}
}

// drainRace: requests are queued behind a stalled Send; the transport resumes slowly, and while the sender is working
// through the queue the stream fails: the sender takes requests out of the channel WHILE the receiver's reconnect drains it. Whoever gets which request, the reconnect completes: the new stream gets the full
// re-subscription, and lookups keep returning.
func drainRace(c *ctx, queued int) {
	w, err := newWorld(worldOpts{ndsNotRequired: true, fetchTimeout: time.Millisecond})
	if err != nil {
		fmt.Println("flow: world:", err)
		return
	}
	hung := false
	defer func() {
		if !hung {
			w.close()
		}
	}()
	gate := make(chan struct{})
	w.ads.mu.Lock()
	w.ads.streams[len(w.ads.streams)-1].sendGate = gate
	w.ads.mu.Unlock()
	_ = w.get(rtOf("cds"), "s0")
	w.waitFor(func() bool { return w.m.VerifQueueLen() == 0 }, 5*time.Second)
	for i := 0; i < queued; i++ {
		_ = w.get(rtOf("cds"), fmt.Sprintf("q%04d", i))
	}
	qlen := w.m.VerifQueueLen()
	// the transport becomes slow instead of stalled: the sender works through the queue, one request every few dozen
	// microseconds; once it is under way the stream fails
	w.ads.mu.Lock()
	w.ads.sendDelay = 20 * time.Microsecond
	for _, s := range w.ads.streams {
		s.sendGate = nil
	}
	w.ads.mu.Unlock()
	close(gate)
	w.waitFor(func() bool { return w.m.VerifQueueLen() < qlen }, 2*time.Second)
	w.feedErr(errors.New("verif: stream reset"))
	resub := w.waitFor(func() bool {
		w.ads.mu.Lock()
		defer w.ads.mu.Unlock()
		for _, q := range w.ads.log {
			if q.sid == 2 && q.req.TypeUrl == urlOf("cds") && len(q.req.ResourceNames) == queued+1 && q.req.ResponseNonce == "" {
				return true
			}
		}
		return false
	}, 5*time.Second)
	lookupDone := make(chan string, 1)
	go func() { lookupDone <- w.get(rtOf("cds"), "after") }()
	lookup := "hang"
	select {
	case lookup = <-lookupDone:
	case <-time.After(3 * time.Second):
		hung = true
		w.hung = true
	}
	state := ""
	if !resub || hung {
		if goroutineIn("chan receive", "manager.clearRequestCh") {
			state = "the receiver is parked in the drain of the request channel (inside reconnect, holding the client lock)"
		}
	}
	c.count("flow.drain-race", 1)
	c.emit(obj{"op": "flow", "kind": "drain-race", "n": queued, "obs": obj{"queuedAtFailure": qlen, "resubscribed": resub, "lookupAfter": lookup, "state": state, "wire": []interface{}{}}})
}

func init() {
	// debugging aid: `harness drainrace` runs the drain-race scenario alone, ten times
	props["drainrace"] = func(c *ctx) {
		for i := 0; i < 10; i++ {
			drainRace(c, 700)
		}
	}
}

// slowOutage: the stream fails and the next three attempts to open a new one fail too, with the client's REAL back-off
// between them (about 0.5 s, 0.75 s, 1.1 s). While the client is busy reconnecting, lookups behave as always: a cached
// name is served at once, an unknown name gives up at its fetch timeout (50 ms) - nothing the reconnect holds may be
// in their way for the length of the outage.
func slowOutage(c *ctx) {
	w, err := newWorld(worldOpts{ndsNotRequired: true, fetchTimeout: 50 * time.Millisecond})
	if err != nil {
		fmt.Println("flow: world:", err)
		return
	}
	hung := false
	defer func() {
		if !hung {
			w.close()
		}
	}()
	_ = w.get(rtOf("cds"), "kept")
	w.push(mkResp(urlOf("cds"), "v1", "n1", []*anypb.Any{anyStamped("cds", "kept", "kept#1")}))
	w.ads.mu.Lock()
	w.ads.failCreate = 3
	w.ads.mu.Unlock()
	w.feedErr(errors.New("verif: stream reset"))
	w.waitFor(func() bool {
		w.ads.mu.Lock()
		defer w.ads.mu.Unlock()
		return w.ads.createAttempts >= 2 // the first attempt has failed: the client is inside its back-off
	}, 3*time.Second)
	timed := func(name string) (string, int64) {
		ch := make(chan string, 1)
		t0 := time.Now()
		go func() { ch <- w.get(rtOf("cds"), name) }()
		select {
		case r := <-ch:
			return r, time.Since(t0).Milliseconds()
		case <-time.After(6 * time.Second):
			hung = true
			w.hung = true
			return "hang", time.Since(t0).Milliseconds()
		}
	}
	missRes, missMs := timed("unknown-during-outage")
	hitRes, hitMs := "skipped", int64(0)
	if !hung {
		hitRes, hitMs = timed("kept")
	}
	w.ads.mu.Lock()
	attempts := w.ads.createAttempts
	w.ads.mu.Unlock()
	reconnected := false
	if !hung {
		reconnected = w.waitFor(func() bool {
			w.ads.mu.Lock()
			defer w.ads.mu.Unlock()
			return len(w.ads.streams) >= 2
		}, 8*time.Second)
		w.settle()
	}
	c.count("flow.slow-outage", 1)
	c.emit(obj{"op": "flow", "kind": "slow-outage", "n": 1, "obs": obj{"miss": missRes, "missMs": missMs, "hit": hitRes, "hitMs": hitMs,
		"attemptsWhenLookedUp": attempts, "reconnected": reconnected, "fetchTimeoutMs": 50, "wire": []interface{}{}}})
}
