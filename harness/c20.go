package main

import (
	"errors"
	"fmt"
	"os"
	"os/exec"
	"runtime"
	"sort"
	"strings"
	"sync"
	"time"

	"google.golang.org/protobuf/encoding/protojson"
	"google.golang.org/protobuf/types/known/anypb"
	"google.golang.org/protobuf/types/known/structpb"

	xds "github.com/kitex-contrib/xds"
	"github.com/kitex-contrib/xds/core/manager"
	"github.com/kitex-contrib/xds/core/xdsresource"
	"github.com/kitex-contrib/xds/xdssuite"
)

func init() { props["C20"] = runC20 }

var c20Vars = []string{"POD_NAMESPACE", "POD_NAME", "INSTANCE_IP", "ISTIO_VERSION", "KITEX_XDS_DOMAIN", "KITEX_XDS_METAS"}

func structJSON(s *structpb.Struct) []interface{} {
	if s == nil {
		return nil
	}
	keys := make([]string, 0, len(s.Fields))
	for k := range s.Fields {
		keys = append(keys, k)
	}
	sort.Strings(keys)
	out := make([]interface{}, 0, len(keys))
	for _, k := range keys {
		v := s.Fields[k]
		if sv, ok := v.GetKind().(*structpb.Value_StringValue); ok {
			out = append(out, []interface{}{k, obj{"s": sv.StringValue}})
		} else {
			b, _ := protojson.Marshal(v)
			out = append(out, []interface{}{k, obj{"o": string(b)}})
		}
	}
	return out
}

func setEnv(env map[string]string) {
	for _, k := range c20Vars {
		if v, ok := env[k]; ok {
			os.Setenv(k, v)
		} else {
			os.Unsetenv(k)
		}
	}
}

func genIPList(r *rng, pod string) string {
	n := r.intn(4)
	var xs []string
	for i := 0; i < n; i++ {
		switch r.intn(6) {
		case 0:
			xs = append(xs, pod)
		case 1:
			xs = append(xs, pod+"0") // pod IP is a textual prefix of this address
		case 2:
			xs = append(xs, "1"+pod) // ... a textual suffix
		case 3:
			xs = append(xs, pod+".5")
		default:
			xs = append(xs, fmt.Sprintf("10.%d.0.%d", r.intn(3), r.intn(20)))
		}
	}
	return strings.Join(xs, ",")
}

func c20Case(c *ctx, env map[string]string) {
	setEnv(env)
	var bc *manager.BootstrapConfig
	var err error
	p, pmsg := recoverTo(func() { bc, err = manager.NewBootstrapConfigFromEnv(&manager.XDSServerConfig{}) })
	o := obj{"panic": p, "panicMsg": pmsg, "err": err != nil}
	if !p && err == nil && bc != nil {
		o["nodeId"] = bc.VerifNode().GetId()
		o["ns"] = bc.VerifNamespace()
		o["dom"] = bc.VerifDomain()
		o["meta"] = structJSON(bc.VerifNode().GetMetadata())
		// name expansion under THIS configuration (the same hosts under every configuration of the process: nothing one
		// configuration computed may show under another)
		o["expand"] = []interface{}{bc.VerifExpand("reviews"), bc.VerifExpand("reviews.team-x")}
	}
	// reference parse of the metadata JSON (protojson is the trusted external parser)
	var parsed interface{}
	if m, ok := env["KITEX_XDS_METAS"]; ok && m != "" {
		st := &structpb.Struct{Fields: map[string]*structpb.Value{}}
		if e := protojson.Unmarshal([]byte(m), st); e == nil {
			parsed = structJSON(st)
		}
	}
	e := obj{}
	for _, k := range c20Vars {
		if v, ok := env[k]; ok {
			e[k] = v
		}
	}
	if _, ok := env["KITEX_XDS_METAS"]; ok {
		c.count("metas-present", 1)
	}
	if parsed != nil {
		c.count("metas-valid", 1)
	}
	if err != nil {
		c.count("init-error", 1)
	}
	c.emit(obj{"op": "boot", "env": e, "parsed": parsed, "obs": o})
}

func runC20(c *ctx) {
	r := c.rng
	base := func() map[string]string {
		return map[string]string{"POD_NAMESPACE": "default", "POD_NAME": "pod-a", "INSTANCE_IP": "10.0.0.1"}
	}
	// fixed cases first
	fixed := []map[string]string{}
	add := func(mod func(m map[string]string)) { m := base(); mod(m); fixed = append(fixed, m) }
	add(func(m map[string]string) {})
	add(func(m map[string]string) { delete(m, "POD_NAMESPACE") })
	add(func(m map[string]string) { m["POD_NAME"] = "" })
	add(func(m map[string]string) { delete(m, "INSTANCE_IP") })
	add(func(m map[string]string) { m["KITEX_XDS_DOMAIN"] = "k8s.example.org"; m["ISTIO_VERSION"] = "1.16.3" })
	add(func(m map[string]string) { m["KITEX_XDS_METAS"] = `{"INSTANCE_IPS":"10.0.0.10"}` })
	add(func(m map[string]string) { m["KITEX_XDS_METAS"] = `{"INSTANCE_IPS":"110.0.0.1,10.0.0.1.5"}` })
	add(func(m map[string]string) { m["KITEX_XDS_METAS"] = `{"INSTANCE_IPS":"10.0.0.1,10.0.0.2"}` })
	add(func(m map[string]string) { m["KITEX_XDS_METAS"] = `{"INSTANCE_IPS":""}` })
	add(func(m map[string]string) { m["KITEX_XDS_METAS"] = `{"INSTANCE_IPS":5,"NAMESPACE":"other"}` })
	add(func(m map[string]string) { m["KITEX_XDS_METAS"] = `{"NAMESPACE":""}` })
	add(func(m map[string]string) { m["KITEX_XDS_METAS"] = `{"NAMESPACE":7,"a":{"b":[1,2]}}` })
	add(func(m map[string]string) { m["KITEX_XDS_METAS"] = `{not json` })
	add(func(m map[string]string) { m["KITEX_XDS_METAS"] = `[]` })
	add(func(m map[string]string) { m["KITEX_XDS_METAS"] = `{}` })
	for _, m := range fixed {
		c20Case(c, m)
	}
	for i := 0; i < 300*c.budget; i++ {
		m := map[string]string{}
		pod := r.pick([]string{"10.0.0.1", "10.0.0.10", "192.168.1.1", "fd00::1"})
		for _, k := range []string{"POD_NAMESPACE", "POD_NAME", "INSTANCE_IP"} {
			switch {
			case r.chance(4):
				// absent
			case r.chance(4):
				m[k] = ""
			default:
				switch k {
				case "POD_NAMESPACE":
					m[k] = r.pick([]string{"default", "prod", "ns-2"})
				case "POD_NAME":
					// (pod names may contain dots, also one that ends like the namespace)
					m[k] = r.pick([]string{"pod-a", "echo-7d9f-x2x", "db.prod", "web-0.default", "a.ns-2"})
				default:
					m[k] = pod
				}
			}
		}
		if r.chance(40) {
			m["KITEX_XDS_DOMAIN"] = r.pick([]string{"cluster.local", "k8s.example.org", ""})
		}
		if r.chance(50) {
			m["ISTIO_VERSION"] = r.pick([]string{"1.16.3", "", "1.20.0"})
		}
		if r.chance(75) {
			var fields []string
			if r.chance(70) {
				if r.chance(12) {
					fields = append(fields, `"INSTANCE_IPS":`+r.pick([]string{"3", "null", "true", `["10.0.0.1"]`}))
				} else {
					fields = append(fields, `"INSTANCE_IPS":"`+genIPList(r, pod)+`"`)
				}
			}
			if r.chance(30) {
				fields = append(fields, `"NAMESPACE":`+r.pick([]string{`"other"`, `""`, `5`, `"ns-2"`}))
			}
			if r.chance(15) {
				// a user label whose key equals NAMESPACE only when case is ignored: it is ordinary metadata, not the override
				fields = append(fields, r.pick([]string{`"namespace":"team-a"`, `"Namespace":"team-b"`}))
			}
			if r.chance(40) {
				fields = append(fields, `"CLUSTER_ID":"Kubernetes"`)
			}
			if r.chance(20) {
				fields = append(fields, `"LABELS":{"app":"x","n":1}`)
			}
			js := "{" + strings.Join(fields, ",") + "}"
			if r.chance(8) {
				js = js[:len(js)-1] // truncated: invalid JSON
			}
			if r.chance(4) {
				js = ""
			}
			m["KITEX_XDS_METAS"] = js
		}
		c20Case(c, m)
	}
	// every request carries the node: a manager built from an environment-derived config
	for i := 0; i < 3; i++ {
		env := base()
		env["KITEX_XDS_METAS"] = `{"INSTANCE_IPS":"10.0.0.10","CLUSTER_ID":"K"}`
		if i == 1 {
			env["KITEX_XDS_DOMAIN"] = "k8s.example.org"
		}
		if i == 2 {
			delete(env, "KITEX_XDS_METAS")
		}
		setEnv(env)
		svr := &manager.XDSServerConfig{SvrName: "fake", SvrAddr: "fake:0", NDSNotRequired: true, LDSNotRequired: true}
		bc, err := manager.NewBootstrapConfigFromEnv(svr)
		if err != nil {
			continue
		}
		ads := &fakeADS{}
		m, err := manager.NewXDSResourceManagerWithADS(bc, ads, manager.Option{F: func(op *manager.Options) { op.XDSSvrConfig = svr }})
		if err != nil {
			continue
		}
		w := &world{ads: ads, m: m}
		m.VerifWatch(xdsresource.ClusterType, "c1", false)
		m.VerifWatch(xdsresource.EndpointsType, "e1", false)
		w.settle()
		// every kind of request: an acknowledgement, a rejection, the re-subscription after a stream failure, and a
		// subscription change on the new stream
		w.push(mkResp(urlOf("cds"), "v1", "n1", []*anypb.Any{anyStamped("cds", "c1", "c1#1")}))
		w.push(mkResp(urlOf("eds"), "v1", "n2", []*anypb.Any{{TypeUrl: urlOf("eds"), Value: []byte{0xff, 0xff}}}))
		w.feedErr(errors.New("verif: stream reset"))
		w.waitFor(func() bool {
			ads.mu.Lock()
			defer ads.mu.Unlock()
			return len(ads.streams) >= 2
		}, 5*time.Second)
		w.settle()
		m.VerifWatch(xdsresource.RouteConfigType, "r1", false)
		w.settle()
		var reqs []interface{}
		ads.mu.Lock()
		for _, rq := range ads.log {
			reqs = append(reqs, obj{"rt": rtShort(rq.req.TypeUrl), "sid": rq.sid, "nodeId": rq.req.GetNode().GetId(), "meta": structJSON(rq.req.GetNode().GetMetadata())})
		}
		ads.mu.Unlock()
		e := obj{}
		for k, v := range env {
			e[k] = v
		}
		c.emit(obj{"op": "requests", "env": e, "obs": obj{"nodeId": bc.VerifNode().GetId(), "meta": structJSON(bc.VerifNode().GetMetadata()), "reqs": reqs}})
		w.close()
	}
	// process-wide singleton: child processes
	modes := []string{"init-missing", "set-twice"}
	for i := 0; i < 3*c.budget; i++ {
		modes = append(modes, "set-overlapping")
	}
	for _, mode := range modes {
		cmd := exec.Command(os.Args[0], "C20child:"+mode)
		cmd.Env = append(os.Environ(), "XDSVERIF_CHILD=1")
		out, err := cmd.Output()
		res := strings.TrimSpace(string(out))
		if err != nil {
			res = "child-failed: " + err.Error() + " " + res
		}
		c.emit(obj{"op": "singleton", "mode": mode, "obs": obj{"result": res}})
	}
}

// countParkedIn counts the goroutines whose stack contains `frame` and that are parked on a lock.
func countParkedIn(frame string) int {
	buf := make([]byte, 1<<21)
	st := string(buf[:runtime.Stack(buf, true)])
	n := 0
	for _, g := range strings.Split(st, "\n\n") {
		head := g
		if i := strings.IndexByte(g, '\n'); i >= 0 {
			head = g[:i]
		}
		if (strings.Contains(head, "sync.") || strings.Contains(head, "semacquire")) && strings.Contains(g, frame) {
			n++
		}
	}
	return n
}

type markedManager struct {
	*stubManager
	mark string
}

func init() {
	props["C20child:init-missing"] = func(c *ctx) {
		os.Setenv("POD_NAMESPACE", "default")
		os.Unsetenv("POD_NAME")
		os.Setenv("INSTANCE_IP", "10.0.0.1")
		var err error
		p, _ := recoverTo(func() { err = xds.Init() })
		fmt.Printf("panic=%v err=%v inited=%v", p, err != nil, xdssuite.XDSInited())
		// a failed initialisation stays failed: every further attempt on the same (partly repaired) environment reports it too
		os.Unsetenv("POD_NAMESPACE")
		os.Setenv("POD_NAME", "pod-a")
		p2, _ := recoverTo(func() { err = xds.Init() })
		fmt.Printf(" again: panic=%v err=%v inited=%v", p2, err != nil, xdssuite.XDSInited())
		p3, _ := recoverTo(func() { err = xds.Init() })
		fmt.Printf(" again: panic=%v err=%v inited=%v\n", p3, err != nil, xdssuite.XDSInited())
		c.k = -1
	}
	// overlapping FIRST initialisations: 16 callers are lined up at their first lock operation inside
	// SetXDSResourceManager (the script holds the holder's lock; read from the goroutine dump, no timing), then released.
	// Whatever the order in which they get the lock, one manager wins: what the suite uses right after each caller's own
	// call returned (a lookup of "probe-<i>" lands in that manager), and in the end, is one and the same manager.
	props["C20child:set-overlapping"] = func(c *ctx) {
		const n = 16
		ms := make([]*stubManager, n)
		for i := range ms {
			ms[i] = newStub()
		}
		release := xdssuite.VerifHoldManager()
		var wg sync.WaitGroup
		for i := 0; i < n; i++ {
			wg.Add(1)
			go func(i int) {
				defer wg.Done()
				_ = xdssuite.SetXDSResourceManager(ms[i])
				_, _ = xdssuite.NewXDSResolver().Resolve(nil, fmt.Sprintf("probe-%d", i))
			}(i)
		}
		deadline := time.Now().Add(3 * time.Second)
		for countParkedIn("xdssuite.SetXDSResourceManager") < n && time.Now().Before(deadline) {
			time.Sleep(time.Millisecond)
		}
		parked := countParkedIn("xdssuite.SetXDSResourceManager")
		release()
		wg.Wait()
		_, _ = xdssuite.NewXDSResolver().Resolve(nil, "probe-final")
		users := map[int]bool{}
		final := -1
		seen := 0
		for j, m := range ms {
			m.mu.Lock()
			for _, g := range m.gets {
				if g.rt != xdsresource.ClusterType {
					continue
				}
				users[j] = true
				seen++
				if g.name == "probe-final" {
					final = j
				}
			}
			m.mu.Unlock()
		}
		fmt.Printf("callers=%d parked=%d lookups=%d managers-used=%d final-used-by-all=%v\n", n, parked, seen, len(users), len(users) == 1 && users[final])
		c.k = -1
	}
	props["C20child:set-twice"] = func(c *ctx) {
		m1 := &markedManager{newStub(), "first"}
		m2 := &markedManager{newStub(), "second"}
		m1.res[stubKey{xdsresource.ClusterType, "probe"}] = &xdsresource.ClusterResource{EndpointName: "first", InlineEndpoints: nil}
		m2.res[stubKey{xdsresource.ClusterType, "probe"}] = &xdsresource.ClusterResource{EndpointName: "second"}
		e1 := xdssuite.SetXDSResourceManager(m1)
		e2 := xdssuite.SetXDSResourceManager(m2)
		// which manager do the suite's components use? the resolver asks it for cluster "probe" then endpoints <EndpointName>
		r := xdssuite.NewXDSResolver()
		_, _ = r.Resolve(nil, "probe")
		used := "none"
		if len(m1.gets) > 0 {
			used = "first"
		}
		if len(m2.gets) > 0 {
			used = "second"
		}
		// and a later Init must keep it
		os.Unsetenv("POD_NAME")
		e3 := xds.Init()
		fmt.Printf("set1=%v set2=%v used=%s init=%v inited=%v\n", e1 == nil, e2 == nil, used, e3 == nil, xdssuite.XDSInited())
		c.k = -1
	}
}
