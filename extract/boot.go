package main

import (
	"go/ast"
	"go/token"
	"strconv"
	"strings"
)

// constString resolves identifier -> string constant declared in the package (const blocks).
func constStrings(p pkgFiles) map[string]string {
	out := map[string]string{}
	for _, f := range p {
		for _, d := range f.Decls {
			gd, ok := d.(*ast.GenDecl)
			if !ok || gd.Tok != token.CONST {
				continue
			}
			for _, sp := range gd.Specs {
				vs := sp.(*ast.ValueSpec)
				for i, n := range vs.Names {
					if i < len(vs.Values) {
						if s, err := strconv.Unquote(src(vs.Values[i])); err == nil {
							out[n.Name] = s
						}
					}
				}
			}
		}
	}
	return out
}

func factsBoot(o *out, mgr pkgFiles) {
	consts := constStrings(mgr)
	ipsTest := ".other"
	if fd := mgr.findFunc("", "parseMetaEnvs"); fd != nil {
		ast.Inspect(fd.Body, func(n ast.Node) bool {
			is, ok := n.(*ast.IfStmt)
			if !ok {
				return true
			}
			c := src(is.Cond)
			switch {
			case c == "!strings.Contains(existips, podIP)":
				ipsTest = ".substring"
			case c == "!containsIP(existips, podIP)":
				// helper must be: for _, e := range strings.Split(ips, ",") { if e == ip { return true } }; return false
				if h := mgr.findFunc("", "containsIP"); h != nil && len(h.Body.List) == 2 {
					body := strings.Join(strings.Fields(src(h.Body)), " ")
					want := `{ for _, e := range strings.Split(ips, ",") { if e == ip { return true } } return false }`
					if body == want {
						ipsTest = ".element"
					} else {
						o.note("boot: containsIP body %q", body)
					}
				}
			}
			return true
		})
	} else {
		o.note("boot: parseMetaEnvs not found")
	}
	format := "?"
	if fd := mgr.findFunc("", "nodeId"); fd != nil {
		lits := stringLits(fd)
		if len(lits) == 1 && strings.Contains(src(fd.Body), "fmt.Sprintf("+strconv.Quote(lits[0])+", podIP, podName, namespace, namespace, nodeDomain)") {
			format = lits[0]
		} else {
			o.note("boot: nodeId body %q", src(fd.Body))
		}
	}
	defDomain := "?"
	var required []string
	if fd := mgr.findFunc("", "newBootstrapConfig"); fd != nil {
		// required variables: `x := os.Getenv(K); if x == "" { return nil, ... }` in order
		var lastVar, lastKey string
		for _, st := range fd.Body.List {
			switch s := st.(type) {
			case *ast.AssignStmt:
				if len(s.Lhs) == 1 && len(s.Rhs) == 1 {
					if ce, ok := s.Rhs[0].(*ast.CallExpr); ok && src(ce.Fun) == "os.Getenv" && len(ce.Args) == 1 {
						lastVar, lastKey = src(s.Lhs[0]), consts[src(ce.Args[0])]
					}
				}
			case *ast.IfStmt:
				c := src(s.Cond)
				if c == lastVar+` == ""` {
					if returnsError(s.Body) {
						required = append(required, lastKey)
					} else if lastVar == "nodeDomain" && len(s.Body.List) == 1 {
						if as, ok := s.Body.List[0].(*ast.AssignStmt); ok {
							if v, err := strconv.Unquote(src(as.Rhs[0])); err == nil {
								defDomain = v
							}
						}
					}
				}
			}
		}
	}
	o.line("def boot : Bootstrap.BootFacts := { ipsTest := %s, nodeFormat := %s, defaultDomain := %s, ipsKey := %s, nsKey := %s, versionKey := %s, required := %s }",
		ipsTest, leanStr(format), leanStr(defDomain), leanStr(consts["IstioMetaInstanceIPs"]), leanStr(consts["MetaNamespace"]),
		leanStr(consts["IstioVersion"]), leanStrList(required))
}

// factsInit: the process-wide singleton (xds.Init, xdssuite.SetXDSResourceManager, xdssuite.XDSInited): Init returns
// early only when a manager is installed, reports the construction error, and installs through the first-wins setter.
func factsInit(o *out, root, suite pkgFiles) {
	initB := bodyNorm(root.findFunc("", "Init"))
	setB := bodyNorm(suite.findFunc("", "SetXDSResourceManager"))
	inB := bodyNorm(suite.findFunc("", "XDSInited"))
	ok := initB == "{ if xdssuite.XDSInited() { return nil } m, err := manager.NewXDSResourceManager(nil, opts...) if err != nil { return err } return xdssuite.SetXDSResourceManager(m) }" &&
		setB == "{ xdsResourceManager.Lock() defer xdsResourceManager.Unlock() if xdsResourceManager.manager == nil { xdsResourceManager.manager = m } return nil }" &&
		inB == "{ xdsResourceManager.RLock() inited := xdsResourceManager.manager != nil xdsResourceManager.RUnlock() return inited }"
	if !ok {
		o.note("init: Init %q / SetXDSResourceManager %q / XDSInited %q", initB, setB, inB)
	}
	o.line("def initShape : Bool := %s", leanBool(ok))
}
