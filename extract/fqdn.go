package main

import (
	"go/ast"
	"go/token"
	"strconv"
)

// stringLits returns the string literals of a function body in source order.
func stringLits(fd *ast.FuncDecl) []string {
	var out []string
	if fd == nil || fd.Body == nil {
		return out
	}
	ast.Inspect(fd.Body, func(n ast.Node) bool {
		if bl, ok := n.(*ast.BasicLit); ok && bl.Kind == token.STRING {
			if s, err := strconv.Unquote(bl.Value); err == nil {
				out = append(out, s)
			}
		}
		return true
	})
	return out
}

func factsBootstrap(o *out, mgr pkgFiles) {
	// tryExpandFQDN: `strings.Contains(host, MARKER)`, `parts[2] == SVCLABEL`
	marker, svcLabel := "?", "?"
	fd := mgr.findFunc("BootstrapConfig", "tryExpandFQDN")
	if fd != nil {
		ast.Inspect(fd.Body, func(n ast.Node) bool {
			switch x := n.(type) {
			case *ast.CallExpr:
				if src(x.Fun) == "strings.Contains" && len(x.Args) == 2 && src(x.Args[0]) == "host" {
					if s, err := strconv.Unquote(src(x.Args[1])); err == nil {
						marker = s
					}
				}
			case *ast.BinaryExpr:
				if x.Op == token.EQL && src(x.X) == "parts[2]" {
					if s, err := strconv.Unquote(src(x.Y)); err == nil {
						svcLabel = s
					}
				}
			}
			return true
		})
	} else {
		o.note("fqdn: tryExpandFQDN not found")
	}
	// getListenerName: `port = "80"`, strings.Split(rName, ":"), cip + "_" + port
	port, sep, portSep := "?", "?", "?"
	fd = mgr.findFunc("xdsClient", "getListenerName")
	if fd != nil {
		ast.Inspect(fd.Body, func(n ast.Node) bool {
			switch x := n.(type) {
			case *ast.ValueSpec:
				for i, nm := range x.Names {
					if nm.Name == "port" && i < len(x.Values) {
						if s, err := strconv.Unquote(src(x.Values[i])); err == nil {
							port = s
						}
					}
				}
			case *ast.CallExpr:
				if src(x.Fun) == "strings.Split" && len(x.Args) == 2 && src(x.Args[0]) == "rName" {
					if s, err := strconv.Unquote(src(x.Args[1])); err == nil {
						portSep = s
					}
				}
			case *ast.BinaryExpr:
				if x.Op == token.ADD && src(x.Y) == "port" {
					if in, ok := x.X.(*ast.BinaryExpr); ok && in.Op == token.ADD && src(in.X) == "cip" {
						if s, err := strconv.Unquote(src(in.Y)); err == nil {
							sep = s
						}
					}
				}
			}
			return true
		})
	} else {
		o.note("fqdn: getListenerName not found")
	}
	o.line("def fqdn : Fqdn.FqdnFacts := { marker := %s, svcLabel := %s, defaultPort := %s, sep := %s, portSep := %s }",
		leanStr(marker), leanStr(svcLabel), leanStr(port), leanStr(sep), leanStr(portSep))
}
