module xdsverif/extract

go 1.18
