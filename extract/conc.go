package main

import (
	"crypto/sha256"
	"encoding/hex"
	"go/ast"
	"sort"
	"strconv"
	"strings"
)

// factsKinds: the kinds a lookup accepts = the keys of xdsresource.ResourceTypeToURL, as the numbers the iota block gives them.
func factsKinds(o *out, res pkgFiles) {
	num := map[string]int{}
	var keys []string
	for _, f := range res {
		for _, d := range f.Decls {
			gd, ok := d.(*ast.GenDecl)
			if !ok {
				continue
			}
			iotaBlock := false
			for i, sp := range gd.Specs {
				vs, ok := sp.(*ast.ValueSpec)
				if !ok {
					continue
				}
				if len(vs.Names) == 1 && vs.Type != nil && src(vs.Type) == "ResourceType" && len(vs.Values) == 1 && src(vs.Values[0]) == "iota" && i == 0 {
					iotaBlock = true
				}
				if iotaBlock && len(vs.Names) == 1 {
					if i > 0 && (vs.Type != nil || len(vs.Values) != 0) {
						o.note("kinds: the ResourceType block is not a plain iota enumeration at %s", vs.Names[0].Name)
					}
					num[vs.Names[0].Name] = i
				}
				if len(vs.Names) == 1 && vs.Names[0].Name == "ResourceTypeToURL" && len(vs.Values) == 1 {
					if cl, ok := vs.Values[0].(*ast.CompositeLit); ok {
						for _, e := range cl.Elts {
							if kv, ok := e.(*ast.KeyValueExpr); ok {
								keys = append(keys, src(kv.Key))
							}
						}
					}
				}
			}
		}
	}
	var ks []int
	for _, k := range keys {
		n, ok := num[k]
		if !ok {
			o.note("kinds: key %s of ResourceTypeToURL is not in the ResourceType enumeration", k)
			continue
		}
		ks = append(ks, n)
	}
	sort.Ints(ks)
	var parts []string
	for _, k := range ks {
		parts = append(parts, strconv.Itoa(k))
	}
	o.line("def knownKinds : List Nat := [%s]", strings.Join(parts, ", "))
}

// factsGet: shape facts of xdsResourceManager.Get, and the lock-nesting edges of the manager package.
func factsGet(o *out, mgr pkgFiles) {
	recheck, cleanup, reread, kindFirst := false, ".other", false, false
	if fd := mgr.findFunc("xdsResourceManager", "Get"); fd != nil {
		b := norm(src(fd.Body))
		kindFirst = strings.HasPrefix(b, "{ if _, ok := xdsresource.ResourceTypeToURL[rType]; !ok { return nil, fmt.Errorf(")
		li := strings.Index(b, "m.mu.Lock()")
		ni := strings.Index(b, "nf, ok := m.notifierMap[rType][rName]")
		if li >= 0 && ni > li {
			region := b[li:ni]
			recheck = strings.Contains(region, "if c, ok := m.cache[rType]; ok { if r, ok := c[rName]; ok { m.mu.Unlock() return r, nil } }")
			if !recheck && strings.Contains(region, "m.cache[") {
				o.note("get: a cache access under the lock that is not the recognised re-check")
			}
		}
		di := strings.Index(b, "case <-ctx.Done():")
		if di >= 0 {
			arm := b[di:]
			switch {
			case inOrder(arm, "m.mu.Lock()", "if cur, ok := m.notifierMap[rType][rName]; ok && cur == nf { nf.waiters-- if nf.waiters == 0 { delete(m.notifierMap[rType], rName) } }", "m.mu.Unlock()") &&
				inOrder(b, "nf.waiters++", "m.mu.Unlock()", "select {"):
				cleanup = ".lastWaiter"
			case inOrder(arm, "m.mu.Lock()", "delete(m.notifierMap[rType], rName)", "m.mu.Unlock()") && !strings.Contains(arm, "waiters"):
				cleanup = ".deleteEntry"
			default:
				o.note("get: timeout arm not recognised")
			}
		}
		switch {
		case strings.Contains(b, "res, _ = m.getFromCache(rType, rName) return res, nil"):
			reread = false
		case inOrder(b, "res, ok = m.getFromCache(rType, rName)", "if !ok { return nil, fmt.Errorf(", "return res, nil"):
			reread = true
		default:
			o.note("get: re-read after the wake-up not recognised")
		}
	} else {
		o.note("get: Get not found")
	}
	o.line("def getVariant : Conc.Variant := { recheckUnderLock := %s, cleanup := %s, checkReread := %s }", leanBool(recheck), cleanup, leanBool(reread))
	o.line("def kindCheckFirst : Bool := %s", leanBool(kindFirst))
	// the whole body of Get and of the functions it shares its critical sections with, as a fingerprint: the three
	// shape facts above only say what the recognisers looked for; any other change to these bodies (a new unlocked gap,
	// a second lock region, ...) must break the bridge lemma too
	fp := sha256.New()
	for _, fn := range [][2]string{{"xdsResourceManager", "Get"}, {"xdsResourceManager", "getFromCache"}, {"notifier", "notify"}} {
		if fd := mgr.findFunc(fn[0], fn[1]); fd != nil {
			fp.Write([]byte(fn[1] + ":" + norm(src(fd.Body)) + "\n"))
		} else {
			fp.Write([]byte(fn[1] + ":<missing>\n"))
		}
	}
	o.line("def getFingerprint : String := %s", leanStr(hex.EncodeToString(fp.Sum(nil))[:16]))

	// ---- lock nesting ----
	lockOf := func(x string) string {
		switch x {
		case "m.mu":
			return "m.mu"
		case "c.mu":
			return "c.mu"
		case "r.mu":
			return "r.mu"
		}
		return ""
	}
	type fnInfo struct {
		acquires map[string]bool
		calls    map[string]bool            // all callees
		heldCall map[string]map[string]bool // lock -> callees invoked while it is held
		heldAcq  map[string]map[string]bool // lock -> locks acquired directly while it is held
	}
	infos := map[string]*fnInfo{}
	for _, f := range mgr {
		for _, d := range f.Decls {
			fd, ok := d.(*ast.FuncDecl)
			if !ok || fd.Body == nil {
				continue
			}
			in := &fnInfo{acquires: map[string]bool{}, calls: map[string]bool{}, heldCall: map[string]map[string]bool{}, heldAcq: map[string]map[string]bool{}}
			infos[fd.Name.Name] = in
			held := map[string]bool{}
			var walk func(n ast.Node)
			visitCall := func(ce *ast.CallExpr) {
				se, ok := ce.Fun.(*ast.SelectorExpr)
				name := ""
				if ok {
					base := norm(src(se.X))
					if l := lockOf(base); l != "" {
						switch se.Sel.Name {
						case "Lock", "RLock":
							in.acquires[l] = true
							for h := range held {
								if h != l {
									if in.heldAcq[h] == nil {
										in.heldAcq[h] = map[string]bool{}
									}
									in.heldAcq[h][l] = true
								}
							}
							held[l] = true
						case "Unlock", "RUnlock":
							delete(held, l)
						}
						return
					}
					name = se.Sel.Name
				} else if id, ok := ce.Fun.(*ast.Ident); ok {
					name = id.Name
				}
				if name == "" {
					return
				}
				in.calls[name] = true
				for h := range held {
					if in.heldCall[h] == nil {
						in.heldCall[h] = map[string]bool{}
					}
					in.heldCall[h][name] = true
				}
			}
			walk = func(n ast.Node) {
				ast.Inspect(n, func(x ast.Node) bool {
					switch y := x.(type) {
					case *ast.DeferStmt:
						// `defer X.mu.Unlock()`: the lock stays held to the end of the function
						return false
					case *ast.FuncLit:
						return false
					case *ast.CallExpr:
						for _, a := range y.Args {
							walk(a)
						}
						visitCall(y)
						return false
					}
					return true
				})
			}
			walk(fd.Body)
		}
	}
	// transitive lock acquisition by callee name
	var acq func(name string, seen map[string]bool) map[string]bool
	acq = func(name string, seen map[string]bool) map[string]bool {
		out := map[string]bool{}
		in := infos[name]
		if in == nil || seen[name] {
			return out
		}
		seen[name] = true
		for l := range in.acquires {
			out[l] = true
		}
		for c := range in.calls {
			for l := range acq(c, seen) {
				out[l] = true
			}
		}
		return out
	}
	edges := map[string]bool{}
	for _, in := range infos {
		for h, ls := range in.heldAcq {
			for l := range ls {
				edges[h+">"+l] = true
			}
		}
		for h, cs := range in.heldCall {
			for c := range cs {
				for l := range acq(c, map[string]bool{}) {
					if l != h {
						edges[h+">"+l] = true
					} else if c != "" {
						// re-acquiring the lock already held through a callee: self-deadlock on a non-reentrant mutex
						edges[h+">"+l] = true
					}
				}
			}
		}
	}
	var es []string
	for e := range edges {
		p := strings.SplitN(e, ">", 2)
		es = append(es, "("+leanStr(p[0])+", "+leanStr(p[1])+")")
	}
	sort.Strings(es)
	o.line("def lockEdges : List (String × String) := [%s]", strings.Join(es, ", "))
}
