package main

import "strings"

// factsDecoders: shape facts of the decoders (rds.go, lds.go).
func factsDecoders(o *out, res pkgFiles) {
	// retry back-off: BaseInterval read from GetBaseInterval (ok) or from GetMaxInterval
	baseOk := "false"
	if fd := res.findFunc("", "unmarshalRoutes"); fd != nil {
		b := norm(src(fd.Body))
		switch {
		case strings.Contains(b, "BaseInterval: backoff.GetBaseInterval().AsDuration(), MaxInterval: backoff.GetMaxInterval().AsDuration()"):
			baseOk = "true"
		case strings.Contains(b, "BaseInterval: backoff.GetMaxInterval().AsDuration(), MaxInterval: backoff.GetMaxInterval().AsDuration()"):
		default:
			o.note("decoders: RetryBackOff construction not recognised")
		}
	}
	o.line("def rdsBackoffBaseOk : Bool := %s", baseOk)
}
