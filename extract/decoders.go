package main

import (
	"go/ast"
	"sort"
	"strings"
)

var decoderFiles = []string{"lds.go", "rds.go", "cds.go", "eds.go", "nds.go", "matcher.go"}

// directAccesses lists, per decoder function, the field selections `x.Field` that are not method calls and
// whose base is not an imported package: the places where a nil pointer would be dereferenced.
func directAccesses(res pkgFiles) []string {
	set := map[string]bool{}
	for _, fn := range decoderFiles {
		f := res[fn]
		if f == nil {
			continue
		}
		pkgs := map[string]bool{}
		for _, im := range f.Imports {
			name := ""
			if im.Name != nil {
				name = im.Name.Name
			} else {
				p := strings.Trim(im.Path.Value, `"`)
				name = p[strings.LastIndex(p, "/")+1:]
			}
			pkgs[name] = true
		}
		for _, d := range f.Decls {
			fd, ok := d.(*ast.FuncDecl)
			if !ok || fd.Body == nil {
				continue
			}
			calls := map[*ast.SelectorExpr]bool{}
			ast.Inspect(fd.Body, func(n ast.Node) bool {
				if ce, ok := n.(*ast.CallExpr); ok {
					if se, ok := ce.Fun.(*ast.SelectorExpr); ok {
						calls[se] = true
					}
				}
				return true
			})
			ast.Inspect(fd.Body, func(n ast.Node) bool {
				switch x := n.(type) {
				case *ast.CompositeLit:
					// field names of composite literals are not accesses; their types may be package-qualified
					for _, el := range x.Elts {
						if kv, ok := el.(*ast.KeyValueExpr); ok {
							ast.Inspect(kv.Value, func(m ast.Node) bool { return true })
						}
					}
				case *ast.SelectorExpr:
					if calls[x] {
						return true
					}
					if id, ok := x.X.(*ast.Ident); ok && pkgs[id.Name] {
						return true
					}
					set[fd.Name.Name+": "+norm(src(x))] = true
				}
				return true
			})
		}
	}
	var out []string
	for k := range set {
		out = append(out, k)
	}
	sort.Strings(out)
	return out
}

// knownAccesses: the direct field accesses the decoder model was written against. Each is either on a value
// that cannot be nil (an element of a repeated field, a freshly allocated message, a local struct) or is an
// explicit `Option … none = panic` site of the model, or is guarded by a nil check in the code.
var knownAccesses = map[string]string{
	// lds.go
	"UnmarshalLDS: lis.FilterChains":                                              "freshly allocated message",
	"UnmarshalLDS: lis.DefaultFilterChain":                                        "freshly allocated message",
	"UnmarshalLDS: lis.Name":                                                      "freshly allocated message",
	"unmarshalFilterChain: fc.Filters":                                            "element of a repeated field / checked non-nil",
	"unmarshalFilterChain: cfgType.TypedConfig":                                   "wrapper of a matched oneof case (non-nil)",
	"unmarshalFilterChain: cfgType.TypedConfig.TypeUrl":                           "model: PFilterCfg.typed none = panic (FromWire excludes)",
	"unmarshalThriftProxy: tp.RouteConfig":                                        "freshly allocated message; read through a nil-safe getter",
	"unmarshalThriftProxy: tp.RouteConfig.Name":                                   "only inside the loop over its routes (RouteConfig non-nil there)",
	"unmarshalThriftProxy: r.Route":                                               "element of a repeated field",
	"unmarshalThriftProxy: t.MethodName":                                          "wrapper of a matched oneof case",
	"unmarshalThriftProxy: t.ServiceName":                                         "wrapper of a matched oneof case",
	"unmarshalThriftProxy: cs.Cluster":                                            "wrapper of a matched oneof case",
	"unmarshalThriftProxy: cs.WeightedClusters":                                   "wrapper of a matched oneof case",
	"unmarshalThriftProxy: wcs.Clusters":                                          "model: PThriftCluster.weighted none = panic (FromWire excludes)",
	"unmarshalThriftProxy: routeMatch.Method":                                     "local struct",
	"unmarshalThriftProxy: routeMatch.ServiceName":                                "local struct",
	"unmarshalThriftProxy: routeMatch.Tags":                                       "local struct",
	"unmarshalThriftProxy: route.Match":                                           "local struct",
	"unmarshalThriftProxy: route.WeightedClusters":                                "local struct",
	"unmarshallHTTPConnectionManager: httpConnMng.RouteSpecifier":                 "freshly allocated message",
	"unmarshallHTTPConnectionManager: inlineRouteConfig.MaxTokens":                "result of unmarshalRouteConfig with nil error (non-nil)",
	"unmarshallHTTPConnectionManager: inlineRouteConfig.TokensPerFill":            "result of unmarshalRouteConfig with nil error (non-nil)",
	"getLocalRateLimitFromHttpConnectionManager: hcm.HttpFilters":                 "freshly allocated message",
	"getLocalRateLimitFromHttpConnectionManager: filter.ConfigType":               "element of a repeated field",
	"getLocalRateLimitFromHttpConnectionManager: lrl.TokenBucket":                 "freshly allocated message",
	"getLocalRateLimitFromHttpConnectionManager: filter.GetTypedConfig().TypeUrl": "guarded by filter.GetTypedConfig() == nil -> continue",
	"getLocalRateLimitFromHttpConnectionManager: lrl.TokenBucket.MaxTokens":       "guarded by lrl.TokenBucket != nil",
	"getLocalRateLimitFromHttpConnectionManager: lrl.TokenBucket.TokensPerFill":   "guarded by lrl.TokenBucket != nil; read through a getter",
	// rds.go
	"MatchPath: tm.Method": "receiver", "MatchMeta: tm.Tags": "receiver", "MatchPath: rm.Path": "receiver", "MatchPath: rm.Prefix": "receiver",
	"MatchMeta: rm.Headers": "receiver", "MarshalJSON: r.Match": "receiver", "MarshalJSON: r.WeightedClusters": "receiver", "MarshalJSON: r.Timeout": "receiver",
	"unmarshalRoutes: p.Prefix":                       "wrapper of a matched oneof case",
	"unmarshalRoutes: p.Path":                         "wrapper of a matched oneof case",
	"unmarshalRoutes: routeMatch.Prefix":              "local struct",
	"unmarshalRoutes: routeMatch.Path":                "local struct",
	"unmarshalRoutes: routeMatch.Headers":             "local struct",
	"unmarshalRoutes: route.Match":                    "local struct",
	"unmarshalRoutes: a.Route":                        "wrapper of a matched oneof case; read through nil-safe getters",
	"unmarshalRoutes: cs.Cluster":                     "wrapper of a matched oneof case",
	"unmarshalRoutes: cs.WeightedClusters":            "wrapper of a matched oneof case",
	"unmarshalRoutes: wcs.Clusters":                   "model: PClusterSpec.weighted none = panic (FromWire excludes)",
	"unmarshalRoutes: route.WeightedClusters":         "local struct",
	"unmarshalRoutes: route.Timeout":                  "local struct",
	"unmarshalRoutes: route.RetryPolicy":              "local struct",
	"unmarshalRoutes: header.Name":                    "element of a repeated field",
	"unmarshalRoutes: route.RetryPolicy.CBErrorRate":  "local struct",
	"unmarshalRoutes: route.RetryPolicy.Methods":      "local struct",
	"unmarshalRoutes: route.RetryPolicy.RetryBackOff": "local struct",
	"UnmarshalRDS: rcfg.Name":                         "freshly allocated message",
	// matcher.go
	"Match: rm.re":                     "receiver",
	"BuildMatchers: hm.StringMatch":    "wrapper of a matched oneof case; read through a nil-safe getter",
	"BuildMatchers: p.Exact":           "wrapper of a matched oneof case",
	"BuildMatchers: p.Prefix":          "wrapper of a matched oneof case",
	"BuildMatchers: p.SafeRegex":       "wrapper of a matched oneof case",
	"BuildMatchers: p.SafeRegex.Regex": "guarded by p.SafeRegex != nil",
	"BuildMatchers: header.Name":       "element of a repeated field",
	// cds.go
	"MarshalJSON: c.DiscoveryType": "receiver", "MarshalJSON: c.LbPolicy": "receiver", "MarshalJSON: c.EndpointName": "receiver",
	"InlineEDS: c.InlineEndpoints":                                        "receiver",
	"unmarshalCluster: c.Name":                                            "freshly allocated message",
	"unmarshalCluster: c.OutlierDetection":                                "freshly allocated message",
	"unmarshalCluster: c.OutlierDetection.FailurePercentageRequestVolume": "guarded by c.OutlierDetection != nil; read through a getter",
	"unmarshalCluster: c.OutlierDetection.FailurePercentageThreshold":     "guarded by c.OutlierDetection != nil; read through a getter",
	"unmarshalCluster: ret.OutlierDetection":                              "local struct",
	"unmarshalCluster: ret.EndpointName":                                  "local struct",
	"unmarshalCluster: ret.InlineEndpoints":                               "local struct",
	// eds.go
	"Addr: e.addr": "receiver", "Weight: e.weight": "receiver", "Meta: e.meta": "receiver", "MarshalJSON: e.addr": "receiver",
	"MarshalJSON: e.weight": "receiver", "MarshalJSON: e.meta": "receiver", "Tag: e.meta": "receiver",
	"UnmarshalEDS: cla.ClusterName": "freshly allocated message",
	// nds.go
	"UnmarshalNDS: nt.Table": "freshly allocated message",
	"UnmarshalNDS: v.Ips":    "map value produced by proto.Unmarshal (non-nil)",
}

// factsDecoders: shape facts of the decoders (rds.go, lds.go).
func factsDecoders(o *out, res pkgFiles) {
	// retry back-off: BaseInterval read from GetBaseInterval (ok) or from GetMaxInterval
	baseOk := "false"
	if fd := res.findFunc("", "unmarshalRoutes"); fd != nil {
		b := norm(src(fd.Body))
		switch {
		case strings.Contains(b, "BaseInterval: backoff.GetBaseInterval().AsDuration(), MaxInterval: backoff.GetMaxInterval().AsDuration()"):
			baseOk = "true"
		case strings.Contains(b, "BaseInterval: backoff.GetMaxInterval().AsDuration(), MaxInterval: backoff.GetMaxInterval().AsDuration()"):
		default:
			o.note("decoders: RetryBackOff construction not recognised")
		}
	}
	o.line("def rdsBackoffBaseOk : Bool := %s", baseOk)
	// rate-limit scan: is there a `return 0, 0, nil` as the last statement of the loop body (stops after the first filter)?
	scansAll := "false"
	if fd := res.findFunc("", "getLocalRateLimitFromHttpConnectionManager"); fd != nil {
		for _, st := range fd.Body.List {
			if rs, ok := st.(*ast.RangeStmt); ok && norm(src(rs.X)) == "hcm.HttpFilters" {
				n := len(rs.Body.List)
				if n > 0 {
					if _, isRet := rs.Body.List[n-1].(*ast.ReturnStmt); isRet {
						scansAll = "false"
					} else if _, isSwitch := rs.Body.List[n-1].(*ast.TypeSwitchStmt); isSwitch && n == 1 {
						scansAll = "true"
					} else {
						o.note("decoders: rate-limit loop body not recognised")
					}
				}
			}
		}
	}
	o.line("def decode : Decode.DecodeFacts := { backoffBaseOk := %s, rateLimitScansAll := %s }", baseOk, scansAll)
	var unknown []string
	for _, a := range directAccesses(res) {
		if _, ok := knownAccesses[a]; !ok {
			unknown = append(unknown, a)
		}
	}
	o.line("def unknownDerefs : List String := %s", leanStrList(unknown))
}
