package main

import (
	"go/ast"
	"strings"
)

func norm(s string) string { return strings.Join(strings.Fields(s), " ") }

func factsSuite(o *out, suite pkgFiles) {
	factsResolver(o, suite)
	factsLimiter(o, suite)
}

// factsLimiter: which network filters of the inbound listener getLimiterPolicy reads.
func factsLimiter(o *out, suite pkgFiles) {
	scope := ".other"
	b := bodyNorm(suite.findFunc("", "getLimiterPolicy"))
	switch {
	case strings.Contains(b, "for _, lis := range lds.NetworkFilters { if lis.InlineRouteConfig != nil { tpfs[lis.RoutePort] = lis.InlineRouteConfig.TokensPerFill } }"):
		scope = ".all"
	case strings.Contains(b, "for _, lis := range lds.NetworkFilters { if lis.FilterType == xdsresource.NetworkFilterTypeHTTP && lis.InlineRouteConfig != nil { tpfs[lis.RoutePort] = lis.InlineRouteConfig.TokensPerFill } }"):
		scope = ".httpOnly"
	default:
		o.note("limiter: getLimiterPolicy body %q", b)
	}
	o.line("def limiterScope : Handlers.LimiterScope := %s", scope)
}

func factsResolver(o *out, suite pkgFiles) {
	emptyCheck, inlineFirst, cacheable, keyIsDesc, targetTag := ".other", false, false, false, false
	if fd := suite.findFunc("XDSResolver", "getEndpoints"); fd != nil {
		hasLoc, hasFlat := false, false
		sawLoop := false
		for _, st := range fd.Body.List {
			switch s := st.(type) {
			case *ast.IfStmt:
				c := norm(src(s.Cond))
				switch {
				case c == "cluster.InlineEndpoints != nil":
					if s.Else != nil && strings.Contains(src(s.Else), "r.manager.Get(ctx, xdsresource.EndpointsType, cluster.EndpointName)") &&
						strings.Contains(norm(src(s.Body)), "endpoints = cluster.InlineEndpoints") {
						inlineFirst = true
					}
				case c == "endpoints == nil || len(endpoints.Localities) == 0":
					if returnsError(s.Body) && !sawLoop {
						hasLoc = true
					}
				case c == "len(eps) == 0":
					if returnsError(s.Body) && sawLoop {
						hasFlat = true
					}
				}
			case *ast.RangeStmt:
				if norm(src(s.X)) == "endpoints.Localities" && strings.Contains(norm(src(s.Body)), "eps = append(eps, locality.Endpoints...)") {
					sawLoop = true
				}
			}
		}
		switch {
		case hasLoc && hasFlat:
			emptyCheck = ".flattened"
		case hasLoc:
			emptyCheck = ".localities"
		default:
			o.note("resolver: empty check not recognised")
		}
	} else {
		o.note("resolver: getEndpoints not found")
	}
	if fd := suite.findFunc("XDSResolver", "Resolve"); fd != nil {
		b := norm(src(fd.Body))
		cacheable = strings.Contains(b, "Cacheable: true")
		keyIsDesc = strings.Contains(b, "CacheKey: desc")
	}
	if fd := suite.findFunc("XDSResolver", "Target"); fd != nil {
		b := norm(src(fd.Body))
		targetTag = strings.Contains(b, "dest, ok := target.Tag(RouterClusterKey)") &&
			strings.Contains(b, "if !ok { return target.ServiceName() } return dest")
	}
	o.line("def resolver : Resolve.ResolveFacts := { emptyCheck := %s, inlineFirst := %s, cacheable := %s, keyIsDesc := %s, targetTag := %s }",
		emptyCheck, leanBool(inlineFirst), leanBool(cacheable), leanBool(keyIsDesc), leanBool(targetTag))
}

// factsHandlers: how UpdateResource / RegisterXDSUpdateHandler feed the update handlers.
func factsHandlers(o *out, mgr pkgFiles) {
	view, first, replay := ".other", false, false
	if fd := mgr.findFunc("xdsResourceManager", "UpdateResource"); fd != nil {
		b := norm(src(fd.Body))
		switch {
		case strings.Contains(b, "for _, handler := range handlers { handler(up) }"):
			view = ".update"
		case inOrder(b, "view := up", "if !rt.RequireFullADSResponse() {", "view = make(map[string]xdsresource.Resource, len(m.cache[rt])+len(up))",
			"for name, res := range m.cache[rt] { view[name] = res }", "for name, res := range up { view[name] = res }",
			"for _, handler := range handlers { handler(view) }"):
			view = ".merged"
		default:
			o.note("handlers: handler call in UpdateResource not recognised")
		}
		hi := strings.Index(b, "handler(")
		wi := strings.Index(b, "m.cache[rt][name] = res")
		first = strings.HasPrefix(b, "{ m.mu.Lock() defer m.mu.Unlock()") && hi >= 0 && wi >= 0 && hi < wi
	}
	if fd := mgr.findFunc("xdsResourceManager", "RegisterXDSUpdateHandler"); fd != nil {
		b := norm(src(fd.Body))
		replay = strings.HasPrefix(b, "{ m.mu.Lock() defer m.mu.Unlock()") &&
			inOrder(b, "m.xdsHandlers[resourceType] = append(m.xdsHandlers[resourceType], handler)", "res, ok := m.cache[resourceType]", "if ok { handler(res) }")
	}
	o.line("def handlers : Handlers.HandlerFacts := { mergeView := %s, handlersFirst := %s, replayOnRegister := %s }", view, leanBool(first), leanBool(replay))
	// the shape of the registration as a whole (Model/Reg.lean): one m.mu section, or torn
	shape := ".other"
	if fd := mgr.findFunc("xdsResourceManager", "RegisterXDSUpdateHandler"); fd != nil {
		b := norm(src(fd.Body))
		if b == "{ m.mu.Lock() defer m.mu.Unlock() m.xdsHandlers[resourceType] = append(m.xdsHandlers[resourceType], handler) res, ok := m.cache[resourceType] if ok { handler(res) } }" {
			shape = ".atomic"
		} else {
			o.note("handlers: RegisterXDSUpdateHandler body %q", b)
		}
	}
	o.line("def regShape : Reg.RegShape := %s", shape)
}
