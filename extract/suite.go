package main

import (
	"go/ast"
	"strings"
)

func norm(s string) string { return strings.Join(strings.Fields(s), " ") }

func factsSuite(o *out, suite pkgFiles) {
	factsResolver(o, suite)
}

func factsResolver(o *out, suite pkgFiles) {
	emptyCheck, inlineFirst, cacheable, keyIsDesc, targetTag := ".other", false, false, false, false
	if fd := suite.findFunc("XDSResolver", "getEndpoints"); fd != nil {
		hasLoc, hasFlat := false, false
		sawLoop := false
		for _, st := range fd.Body.List {
			switch s := st.(type) {
			case *ast.IfStmt:
				c := norm(src(s.Cond))
				switch {
				case c == "cluster.InlineEndpoints != nil":
					if s.Else != nil && strings.Contains(src(s.Else), "r.manager.Get(ctx, xdsresource.EndpointsType, cluster.EndpointName)") &&
						strings.Contains(norm(src(s.Body)), "endpoints = cluster.InlineEndpoints") {
						inlineFirst = true
					}
				case c == "endpoints == nil || len(endpoints.Localities) == 0":
					if returnsError(s.Body) && !sawLoop {
						hasLoc = true
					}
				case c == "len(eps) == 0":
					if returnsError(s.Body) && sawLoop {
						hasFlat = true
					}
				}
			case *ast.RangeStmt:
				if norm(src(s.X)) == "endpoints.Localities" && strings.Contains(norm(src(s.Body)), "eps = append(eps, locality.Endpoints...)") {
					sawLoop = true
				}
			}
		}
		switch {
		case hasLoc && hasFlat:
			emptyCheck = ".flattened"
		case hasLoc:
			emptyCheck = ".localities"
		default:
			o.note("resolver: empty check not recognised")
		}
	} else {
		o.note("resolver: getEndpoints not found")
	}
	if fd := suite.findFunc("XDSResolver", "Resolve"); fd != nil {
		b := norm(src(fd.Body))
		cacheable = strings.Contains(b, "Cacheable: true")
		keyIsDesc = strings.Contains(b, "CacheKey: desc")
	}
	if fd := suite.findFunc("XDSResolver", "Target"); fd != nil {
		b := norm(src(fd.Body))
		targetTag = strings.Contains(b, "dest, ok := target.Tag(RouterClusterKey)") &&
			strings.Contains(b, "if !ok { return target.ServiceName() } return dest")
	}
	o.line("def resolver : Resolve.ResolveFacts := { emptyCheck := %s, inlineFirst := %s, cacheable := %s, keyIsDesc := %s, targetTag := %s }",
		emptyCheck, leanBool(inlineFirst), leanBool(cacheable), leanBool(keyIsDesc), leanBool(targetTag))
}
