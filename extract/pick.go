package main

import (
	"go/ast"
	"go/token"
	"strings"
)

// factsPick reads xdssuite.pickCluster.
func factsPick(o *out, suite pkgFiles) {
	strict, draw, guards, shape := "false", ".other", false, false
	fd := suite.findFunc("", "pickCluster")
	if fd == nil || fd.Body == nil {
		o.note("pick: pickCluster not found")
		o.line("def pick : Pick.PickFacts := { strict := false, draw := .other, guards := false, scanShape := false }")
		return
	}
	// guards: the if-conditions before the draw, in order
	var conds []string
	var loop *ast.RangeStmt
	initZero := false
	for _, st := range fd.Body.List {
		switch s := st.(type) {
		case *ast.IfStmt:
			if loop == nil && returnsError(s.Body) || loop == nil && len(conds) == 1 {
				conds = append(conds, src(s.Cond))
			}
		case *ast.RangeStmt:
			if loop == nil {
				loop = s
			}
		case *ast.AssignStmt:
			if len(s.Lhs) == 1 && len(s.Rhs) == 1 {
				l, r := src(s.Lhs[0]), src(s.Rhs[0])
				if l == "currWeight" && (r == "uint32(0)" || r == "0") {
					initZero = true
				}
				if l == "targetWeight" {
					switch {
					case r == "uint32(fastrand.Int31n(int32(totalWeight)))":
						draw = ".int31n"
					case r == "fastrand.Uint32n(totalWeight)" || r == "uint32(fastrand.Uint32n(totalWeight))":
						draw = ".uint32n"
					default:
						o.note("pick: unrecognised draw %q", r)
					}
				}
			}
		}
	}
	if len(conds) >= 3 && conds[0] == "len(wcs) == 0" && conds[1] == "len(wcs) == 1" &&
		(conds[2] == "totalWeight <= 0" || conds[2] == "totalWeight == 0") {
		guards = true
	} else {
		o.note("pick: guards %v", conds)
	}
	// loop shape: `currWeight += wc.Weight; if currWeight OP targetWeight { return wc.Name, nil }`
	okShape := false
	if loop != nil && loop.Body != nil && len(loop.Body.List) == 2 && src(loop.X) == "wcs" {
		a, ok1 := loop.Body.List[0].(*ast.AssignStmt)
		i, ok2 := loop.Body.List[1].(*ast.IfStmt)
		if ok1 && ok2 && a.Tok == token.ADD_ASSIGN && src(a.Lhs[0]) == "currWeight" && strings.HasSuffix(src(a.Rhs[0]), ".Weight") {
			if be, ok := i.Cond.(*ast.BinaryExpr); ok && src(be.X) == "currWeight" && src(be.Y) == "targetWeight" && i.Else == nil {
				switch be.Op {
				case token.GTR:
					strict, okShape = "true", true
				case token.GEQ:
					strict, okShape = "false", true
				default:
					o.note("pick: comparison operator %s", be.Op)
				}
				if len(i.Body.List) != 1 || !strings.HasPrefix(src(i.Body.List[0]), "return wc.Name, nil") {
					okShape = false
					o.note("pick: loop return %q", src(i.Body))
				}
			}
		}
	}
	if !okShape {
		o.note("pick: loop shape not recognised")
	}
	shape = okShape && initZero
	o.line("def pick : Pick.PickFacts := { strict := %s, draw := %s, guards := %s, scanShape := %s }",
		strict, draw, leanBool(guards), leanBool(shape))
}

func returnsError(b *ast.BlockStmt) bool {
	if b == nil || len(b.List) == 0 {
		return false
	}
	r, ok := b.List[len(b.List)-1].(*ast.ReturnStmt)
	if !ok || len(r.Results) != 2 {
		return false
	}
	return strings.Contains(src(r.Results[1]), "Errorf")
}
