package main

import (
	"go/ast"
	"go/token"
	"strconv"
	"strings"
)

func bodyNorm(fd *ast.FuncDecl) string {
	if fd == nil || fd.Body == nil {
		return ""
	}
	return norm(src(fd.Body))
}

// order reports whether the fragments occur in s in the given order.
func inOrder(s string, frags ...string) bool {
	pos := 0
	for _, f := range frags {
		i := strings.Index(s[pos:], f)
		if i < 0 {
			return false
		}
		pos += i + len(f)
	}
	return true
}

func factsTables(o *out, res, mgr pkgFiles) {}

func factsManager(o *out, mgr pkgFiles) {}

func factsClient(o *out, mgr pkgFiles) {}

func factsSeq(o *out, res, mgr pkgFiles) {
	// fullTypes: return expression of RequireFullADSResponse
	var full []string
	if fd := res.findFunc("ResourceType", "RequireFullADSResponse"); fd != nil && len(fd.Body.List) == 1 {
		if r, ok := fd.Body.List[0].(*ast.ReturnStmt); ok && len(r.Results) == 1 {
			okShape := true
			var walk func(e ast.Expr)
			walk = func(e ast.Expr) {
				switch x := e.(type) {
				case *ast.BinaryExpr:
					if x.Op == token.LOR {
						walk(x.X)
						walk(x.Y)
					} else if x.Op == token.EQL && src(x.X) == "rt" {
						switch src(x.Y) {
						case "ListenerType":
							full = append(full, ".lds")
						case "RouteConfigType":
							full = append(full, ".rds")
						case "ClusterType":
							full = append(full, ".cds")
						case "EndpointsType":
							full = append(full, ".eds")
						case "NameTableType":
							full = append(full, ".nds")
						default:
							okShape = false
						}
					} else {
						okShape = false
					}
				case *ast.ParenExpr:
					walk(x.X)
				default:
					okShape = false
				}
			}
			walk(r.Results[0])
			if !okShape {
				o.note("seq: RequireFullADSResponse expression %q", src(r.Results[0]))
				full = append(full, ".nds") // poison: never equals the expected list
			}
		}
	} else {
		o.note("seq: RequireFullADSResponse not found")
		full = []string{".nds"}
	}
	// channel capacities in newXdsClient
	reqCap, streamCap := 0, 0
	if fd := mgr.findFunc("", "newXdsClient"); fd != nil {
		ast.Inspect(fd.Body, func(n ast.Node) bool {
			kv, ok := n.(*ast.KeyValueExpr)
			if !ok {
				return true
			}
			ce, ok := kv.Value.(*ast.CallExpr)
			if !ok || src(ce.Fun) != "make" || len(ce.Args) != 2 {
				return true
			}
			v, err := strconv.Atoi(src(ce.Args[1]))
			if err != nil {
				return true
			}
			switch src(kv.Key) {
			case "reqCh":
				reqCap = v
			case "streamCh":
				streamCap = v
			}
			return true
		})
	}
	// expiry constant
	expire := 0
	for _, f := range mgr {
		for _, d := range f.Decls {
			gd, ok := d.(*ast.GenDecl)
			if !ok || gd.Tok != token.CONST {
				continue
			}
			for _, sp := range gd.Specs {
				vs := sp.(*ast.ValueSpec)
				for i, n := range vs.Names {
					if n.Name == "defaultCacheExpireTime" && i < len(vs.Values) {
						e := norm(src(vs.Values[i]))
						e = strings.TrimSuffix(strings.TrimPrefix(e, "time.Second * "), " * time.Second")
						if v, err := strconv.Atoi(e); err == nil {
							expire = v
						} else {
							o.note("seq: defaultCacheExpireTime = %q", src(vs.Values[i]))
						}
					}
				}
			}
		}
	}
	reservedName := constStrings(res)["ReservedLdsResourceName"]

	// ackShape: version only when err == nil, nonce always, ErrorDetail iff message non-empty, one sendRequest, all under c.mu
	ack := bodyNorm(mgr.findFunc("xdsClient", "updateAndACK"))
	ackShape := strings.HasPrefix(ack, "{ c.mu.Lock() defer c.mu.Unlock()") &&
		inOrder(ack, "if err == nil { c.versionMap[rType] = version } else { errMsg = err.Error() }",
			"c.nonceMap[rType] = nonce",
			"req := c.prepareRequest(rType, c.versionMap[rType], c.nonceMap[rType], c.watchedResource[rType])",
			`if errMsg != "" { req.ErrorDetail = &status.Status{`, "c.sendRequest(req)") &&
		strings.Count(ack, "c.versionMap[rType] =") == 1 && strings.Count(ack, "c.sendRequest(") == 1
	if !ackShape {
		o.note("seq: updateAndACK shape not recognised")
	}
	// reconnectShape
	rc := bodyNorm(mgr.findFunc("xdsClient", "reconnect"))
	reconnectShape := inOrder(rc, "as, err := c.connect()", "c.mu.Lock()", "c.nonceMap = make(map[xdsresource.ResourceType]string)",
		"clearRequestCh(c.reqCh, len(c.reqCh))", "c.mu.Unlock()", "c.streamCh <- as")
	if !reconnectShape {
		o.note("seq: reconnect shape not recognised")
	}
	// earlyReturn + filterShape for the four handlers
	earlyReturn, filterShape := true, true
	for _, h := range []struct{ fn, unm, typ string }{
		{"handleRDS", "UnmarshalRDS", "RouteConfigType"}, {"handleCDS", "UnmarshalCDS", "ClusterType"}, {"handleEDS", "UnmarshalEDS", "EndpointsType"}} {
		b := bodyNorm(mgr.findFunc("xdsClient", h.fn))
		if !inOrder(b, "res, err := xdsresource."+h.unm+"(resp.GetResources())",
			"c.updateAndACK(xdsresource."+h.typ+", resp.GetNonce(), resp.GetVersionInfo(), err)",
			"if err != nil { return", "c.resourceUpdater.UpdateResource(xdsresource."+h.typ+", res, resp.GetVersionInfo())") ||
			strings.Count(b, "UpdateResource(") != 1 {
			earlyReturn = false
			o.note("seq: %s early-return shape", h.fn)
		}
		if !inOrder(b, "c.mu.RLock()", "for name := range res {",
			"if _, ok := c.watchedResource[xdsresource."+h.typ+"][name]; !ok { delete(res, name) }", "c.mu.RUnlock()", "UpdateResource(") {
			filterShape = false
			o.note("seq: %s filter shape", h.fn)
		}
	}
	lds := bodyNorm(mgr.findFunc("xdsClient", "handleLDS"))
	if !inOrder(lds, "res, err := xdsresource.UnmarshalLDS(resp.GetResources())",
		"c.updateAndACK(xdsresource.ListenerType, resp.GetNonce(), resp.GetVersionInfo(), err)", "if err != nil {", "return err }",
		"c.resourceUpdater.UpdateResource(xdsresource.ListenerType, filteredRes, resp.GetVersionInfo())") ||
		strings.Count(lds, "UpdateResource(") != 1 {
		earlyReturn = false
		o.note("seq: handleLDS early-return shape")
	}
	if !inOrder(lds, "filteredRes := make(map[string]xdsresource.Resource)", "for n := range c.watchedResource[xdsresource.ListenerType] {",
		"if c.ndsRequired() && n != xdsresource.ReservedLdsResourceName {", "ln, err := c.getListenerName(n)",
		`if err != nil || ln == "" {`, "continue }", "if lis, ok := res[ln]; ok { filteredRes[n] = lis }",
		"} else if lis, ok := res[n]; ok { filteredRes[n] = lis }") {
		filterShape = false
		o.note("seq: handleLDS filter shape")
	}
	nds := bodyNorm(mgr.findFunc("xdsClient", "handleNDS"))
	if !inOrder(nds, "nt, err := xdsresource.UnmarshalNDS(resp.GetResources())",
		"c.updateAndACK(xdsresource.NameTableType, resp.GetNonce(), resp.GetVersionInfo(), err)", "if err != nil { return err }",
		"c.cipResolver.updateLookupTable(nt.NameTable)") {
		earlyReturn = false
		o.note("seq: handleNDS shape")
	}
	hr := bodyNorm(mgr.findFunc("xdsClient", "handleResponse"))
	if !inOrder(hr, "rType, ok := xdsresource.ResourceURLToType[url]", "if !ok {", "return nil }",
		"if _, ok := c.watchedResource[rType]; !ok { c.mu.RUnlock() return nil }", "switch rType {") {
		filterShape = false
		o.note("seq: handleResponse shape")
	}
	// watchShape
	w := bodyNorm(mgr.findFunc("xdsClient", "Watch"))
	watchShape := strings.HasPrefix(w, "{ c.mu.Lock() defer c.mu.Unlock()") &&
		inOrder(w, "if remove { delete(c.watchedResource[rType], rName) } else { c.watchedResource[rType][rName] = true }",
			"req := c.prepareRequest(rType, c.versionMap[rType], c.nonceMap[rType], c.watchedResource[rType])", "c.sendRequest(req)")
	pr := bodyNorm(mgr.findFunc("xdsClient", "prepareRequest"))
	watchShape = watchShape && inOrder(pr, "for name := range res { rNames = append(rNames, name) }",
		"VersionInfo: version", "Node: c.config.node", "TypeUrl: xdsresource.ResourceTypeToURL[rType]", "ResourceNames: rNames", "ResponseNonce: nonce")
	if !watchShape {
		o.note("seq: Watch/prepareRequest shape not recognised")
	}
	// updateOrder: top-level statements of UpdateResource
	var order []string
	if fd := mgr.findFunc("xdsResourceManager", "UpdateResource"); fd != nil {
		for _, st := range fd.Body.List {
			t := norm(src(st))
			switch {
			case t == "m.mu.Lock()":
				order = append(order, "lock")
			case t == "defer m.mu.Unlock()":
			case strings.HasPrefix(t, "if handlers, ok := m.xdsHandlers[rt]; ok { for _, handler := range handlers { handler(up) } }"):
				order = append(order, "handlers")
			case strings.HasPrefix(t, "if handlers, ok := m.xdsHandlers[rt]; ok {") && strings.Contains(t, "handler("):
				order = append(order, "handlers")
			case strings.HasPrefix(t, "for name, res := range up {") && strings.Contains(t, "m.cache[rt][name] = res") &&
				inOrder(t, "if nf, exist := m.notifierMap[rt][name]; exist {", "nf.notify(nil)", "delete(m.notifierMap[rt], name)"):
				order = append(order, "write+notify")
			case strings.HasPrefix(t, "if rt.RequireFullADSResponse() { for name := range m.cache[rt] { if _, ok := up[name]; !ok { delete(m.cache[rt], name) } } }"):
				order = append(order, "prune")
			case t == "m.updateMeta(rt, version)":
				order = append(order, "meta")
			default:
				order = append(order, "?"+t[:min(len(t), 40)])
			}
		}
	}
	// cleanerShape
	cl := bodyNorm(mgr.findFunc("xdsResourceManager", "cleaner"))
	cleanerShape := inOrder(cl, "case <-ticker.C:", "m.mu.Lock()", "for rt := range m.meta {", "for rName, meta := range m.meta[rt] {",
		"t, ok := meta.LastAccessTime.Load().(time.Time)", "if !ok { continue }",
		"if !isReservedResource(rt, rName) && time.Since(t) > defaultCacheExpireTime {", "delete(m.meta[rt], rName)",
		"if m.cache[rt] != nil { delete(m.cache[rt], rName) }", "m.client.Watch(rt, rName, true)", "m.mu.Unlock()")
	ir := bodyNorm(mgr.findFunc("", "isReservedResource"))
	cleanerShape = cleanerShape && ir == "{ return resourceType == xdsresource.ListenerType && resourceName == xdsresource.ReservedLdsResourceName }"
	if !cleanerShape {
		o.note("seq: cleaner shape not recognised")
	}
	// sendRequest gives up when the client is closed?
	sr := bodyNorm(mgr.findFunc("xdsClient", "sendRequest"))
	sendAborts := "false"
	switch sr {
	case "{ c.reqCh <- req }":
	case "{ select { case c.reqCh <- req: case <-c.closeCh: } }":
		sendAborts = "true"
	default:
		o.note("seq: sendRequest body %q", sr)
	}
	o.line("def seq : Seq.SeqFacts := { fullTypes := [%s], reqCap := %d, streamCap := %d, expireSec := %d, reserved := %s, ackShape := %s, reconnectShape := %s, earlyReturn := %s, filterShape := %s, watchShape := %s, updateOrder := %s, cleanerShape := %s }",
		strings.Join(full, ", "), reqCap, streamCap, expire, leanStr(reservedName), leanBool(ackShape), leanBool(reconnectShape),
		leanBool(earlyReturn), leanBool(filterShape), leanBool(watchShape), leanStrList(order), leanBool(cleanerShape))
	o.line("def sendAborts : Bool := %s", sendAborts)
	// the request path at goroutine granularity (Model/Flow.lean)
	sendBlocks := sr == "{ c.reqCh <- req }" || sr == "{ select { case c.reqCh <- req: case <-c.closeCh: } }"
	snd := bodyNorm(mgr.findFunc("xdsClient", "sender"))
	senderShape := snd == `{ currStream := as for { select { case <-c.closeCh: klog.Infof("KITEX: [XDS] client, stop ads client sender") return case s := <-c.streamCh: currStream = s if err := c.reqWhenReconnect(currStream); err != nil { currStream = nil continue } case req := <-c.reqCh: if currStream != nil { err := currStream.Send(req) if err != nil { klog.Errorf("KITEX: [XDS] client, send failed, error=%s", err) currStream = nil } } } } }`
	if !senderShape {
		o.note("flow: sender body %q", snd)
	}
	rwr := bodyNorm(mgr.findFunc("xdsClient", "reqWhenReconnect"))
	adoptLocks := rwr == "{ c.mu.Lock() defer c.mu.Unlock() for rType, res := range c.watchedResource { req := c.prepareRequest(rType, c.versionMap[rType], c.nonceMap[rType], res) if err := as.Send(req); err != nil { return err } } return nil }"
	if !adoptLocks {
		o.note("flow: reqWhenReconnect body %q", rwr)
	}
	clr := bodyNorm(mgr.findFunc("", "clearRequestCh"))
	drainAll := clr == "{ for i := 0; i < length; i++ { select { case _, ok := <-ch: if !ok { return } default: return } } }"
	if !drainAll {
		o.note("flow: clearRequestCh body %q", clr)
	}
	o.line("def flow : Flow.FlowFacts := { sendBlocks := %s, senderShape := %s, adoptLocks := %s, producersHoldLock := %s, drainThenPublish := %s }",
		leanBool(sendBlocks), leanBool(senderShape), leanBool(adoptLocks), leanBool(ackShape && watchShape), leanBool(reconnectShape && drainAll))
	// updateMeta: does a new entry start with a last-access time?
	um := bodyNorm(mgr.findFunc("xdsResourceManager", "updateMeta"))
	metaInit := "false"
	switch {
	case strings.Contains(um, "LastAccessTime: atomic.Value{}") && !strings.Contains(um, "LastAccessTime.Store("):
	case inOrder(um, "} else {", "mt := &xdsresource.ResourceMeta{", "mt.LastAccessTime.Store(updateTime)", "m.meta[rType][name] = mt"):
		metaInit = "true"
	default:
		o.note("seq: updateMeta shape not recognised")
	}
	o.line("def metaInitNow : Bool := %s", metaInit)
}

func min(a, b int) int {
	if a < b {
		return a
	}
	return b
}
