package main

func factsTables(o *out, res, mgr pkgFiles)  {}
func factsManager(o *out, mgr pkgFiles)      {}
func factsClient(o *out, mgr pkgFiles)       {}
func factsDecoders(o *out, res pkgFiles)     {}
