package main

func factsDecoders(o *out, res pkgFiles)     {}
