import XdsVerif.Model.Facts
import XdsVerif.Generated.Facts
import XdsVerif.Proofs.Pick
