import XdsVerif.Driver.Util
import XdsVerif.Driver.Hist
import XdsVerif.Driver.C08
import XdsVerif.Driver.C09
import XdsVerif.Driver.C10
import XdsVerif.Driver.C14
import XdsVerif.Driver.C15
import XdsVerif.Driver.C20
import XdsVerif.Driver.Handlers
import XdsVerif.Driver.Decode
import XdsVerif.Driver.Conc
import XdsVerif.Driver.Sys
import XdsVerif.Driver.Flow
open Lean XdsVerif.Driver

def dispatch (p : String) (j : Json) : Except String Verdict :=
  if jStrD j "op" "" = "flow" then Flow.check p j else
  match p with
  | "C01" => Hist.check "C01" j
  | "C02" => Hist.check "C02" j
  | "C03" => Hist.check "C03" j
  | "C04" => Hist.check "C04" j
  | "C19" => Hist.check "C19" j
  | "C05" => match jStrD j "op" "" with
    | "sys" => Sys.check "C05" j
    | "hist" => Hist.check "C05" j
    | _ => Conc.check "C05" j
  | "C06" => Conc.check "C06" j
  | "C07" => if jStrD j "op" "" = "sys" then Sys.check "C07" j else Conc.check "C07" j
  | "C08" => C08.check j
  | "C09" => C09.check j
  | "C10" => if jStrD j "op" "" = "sys" then Sys.check "C10" j else C10.check j
  | "C11" => Decode.check "C11" j
  | "C12" => Decode.check "C12" j
  | "C13" => Decode.check "C13" j
  | "C14" => C14.check j
  | "C15" => C15.check j
  | "C16" => if jStrD j "op" "" = "handlers-order" then Conc.check "C07" j else Handlers.checkCb j
  | "C17" => if jStrD j "op" "" = "handlers-order" then Conc.check "C07" j else Handlers.checkRetry j
  | "C18" => if jStrD j "op" "" = "handlers-order" then Conc.check "C07" j else Handlers.checkLimit j
  | "C20" => C20.check j
  | _ => .error s!"no driver for property {p}"

partial def loop (h : IO.FS.Stream) (out : IO.FS.Stream) : IO Unit := do
  let line ← h.getLine
  if line.isEmpty then return ()
  let line := line.trimAscii.toString
  if line.isEmpty then loop h out else
  match Json.parse line with
  | .error e => out.putStrLn s!"BAD ? parse: {e}"
  | .ok j =>
    match j.getObjVal? "stats" with
    | .ok _ => out.putStrLn s!"STATS {line}"
    | .error _ =>
      let k := jNatD j "k" 0
      let p := jStrD j "p" "?"
      match dispatch p j with
      | .error e => out.putStrLn s!"BAD {k} {e}"
      | .ok v =>
        match v.specfail with
        | some m => out.putStrLn s!"SPECFAIL {k} {m}"
        | none => pure ()
        match v.mismatch with
        | some m => out.putStrLn s!"MISMATCH {k} {m}"
        | none => pure ()
        if v.specfail.isNone && v.mismatch.isNone then
          out.putStrLn s!"ok {k} {if v.nontrivial then 1 else 0}"
  loop h out

def main : IO Unit := do
  let i ← IO.getStdin
  let o ← IO.getStdout
  loop i o
