import XdsVerif.Model.Flow
/-! Invariants of the request path (`Model/Flow.lean`): lock ownership, the capacity bound, FIFO without loss or
duplication, the fate of every request that left the channel; and the characterisation of the states in which nothing
can move. -/
namespace XdsVerif.Flow

variable {α : Type}

structure Inv (cap : Nat) (s : S α) : Prop where
  lockP : ∀ i, s.cmu = some (.prod i) ↔ ∃ r, s.pc i = .locked r
  lockR : s.cmu = some .recv ↔ ∃ r k, s.rpc = .ackLocked r k
  bound : s.queue.length ≤ cap
  fifo  : s.enq = s.gone ++ s.queue
  exitC : s.spc = .exited → s.closed = true
  stopC : s.closed = true → s.rpc = .stopped

theorem inv_init (cap : Nat) : Inv cap (init : S α) := by
  constructor <;> simp [init]

theorem doEnq_len {cap : Nat} (s : S α) (r : α) (t : Nat) (hb : s.queue.length ≤ cap) : (doEnq cap s r t).queue.length ≤ cap := by
  unfold doEnq; split
  · simp; omega
  · exact hb

theorem doEnq_fifo {cap : Nat} (s : S α) (r : α) (t : Nat) (hf : s.enq = s.gone ++ s.queue) : (doEnq cap s r t).enq = (doEnq cap s r t).gone ++ (doEnq cap s r t).queue := by
  unfold doEnq; split
  · simp [hf]
  · exact hf

@[simp] theorem doEnq_cmu {cap : Nat} (s : S α) (r : α) (t : Nat) : (doEnq cap s r t).cmu = s.cmu := by unfold doEnq; split <;> rfl
@[simp] theorem doEnq_pc {cap : Nat} (s : S α) (r : α) (t : Nat) : (doEnq cap s r t).pc = s.pc := by unfold doEnq; split <;> rfl
@[simp] theorem doEnq_rpc {cap : Nat} (s : S α) (r : α) (t : Nat) : (doEnq cap s r t).rpc = s.rpc := by unfold doEnq; split <;> rfl
@[simp] theorem doEnq_spc {cap : Nat} (s : S α) (r : α) (t : Nat) : (doEnq cap s r t).spc = s.spc := by unfold doEnq; split <;> rfl
@[simp] theorem doEnq_closed {cap : Nat} (s : S α) (r : α) (t : Nat) : (doEnq cap s r t).closed = s.closed := by unfold doEnq; split <;> rfl

theorem ncl {cap : Nat} {s : S α} (hI : Inv cap s) (h : s.rpc ≠ .stopped) : s.closed = false := by
  cases hc : s.closed with
  | false => rfl
  | true => exact absurd (hI.stopC hc) h

theorem inv_step {cap : Nat} {s s' : S α} {l : Lbl α} (hI : Inv cap s) (h : step cap s l = some s') : Inv cap s' := by
  cases l with
  | pStart i r =>
    simp only [step] at h
    split at h <;> simp at h
    next hp =>
    subst h
    constructor
    · intro j
      by_cases hj : j = i
      · subst hj; simp [setPc]; intro hc; have := (hI.lockP j).1 hc; simp [hp] at this
      · simp [setPc, hj]; exact hI.lockP j
    · exact hI.lockR
    · exact hI.bound
    · exact hI.fifo
    · exact hI.exitC
    · exact hI.stopC
  | pLock i =>
    simp only [step] at h
    split at h <;> simp at h
    next r hp hc =>
    subst h
    constructor
    · intro j
      by_cases hj : j = i
      · subst hj; simp [setPc]
      · simp [setPc, hj]
        constructor
        · intro hh; exact absurd hh.symm hj
        · intro ⟨r', hr'⟩; have := (hI.lockP j).2 ⟨r', hr'⟩; simp [hc] at this
    · simp [setPc]; intro r' k hk; have := hI.lockR.2 ⟨r', k, hk⟩; simp [hc] at this
    · exact hI.bound
    · exact hI.fifo
    · exact hI.exitC
    · exact hI.stopC
  | pEnq i =>
    simp only [step] at h
    split at h <;> try (simp at h; done)
    next r hp =>
    split at h <;> simp at h
    subst h
    have hown : s.cmu = some (.prod i) := (hI.lockP i).2 ⟨r, hp⟩
    constructor
    · intro j
      by_cases hj : j = i
      · subst hj; simp [setPc]
      · simp [setPc, hj]
        intro r' hr'; have := (hI.lockP j).2 ⟨r', hr'⟩; rw [hown] at this; injection this with this; injection this with this; exact hj this.symm
    · simp [setPc]; intro r' k hk; have := hI.lockR.2 ⟨r', k, hk⟩; rw [hown] at this; cases this
    · simp [setPc]; exact doEnq_len s r _ hI.bound
    · simp [setPc]; exact doEnq_fifo s r _ hI.fifo
    · simp [setPc]; exact hI.exitC
    · simp [setPc]; exact hI.stopC
  | sTakeReq =>
    simp only [step] at h
    split at h <;> try (simp at h; done)
    next r rest hs hq =>
    have hb : rest.length ≤ cap := by have := hI.bound; rw [hq] at this; simp at this; omega
    have hf : s.enq = (s.gone ++ [r]) ++ rest := by rw [hI.fifo, hq]; simp
    split at h <;> simp at h <;> subst h
    · exact ⟨hI.lockP, hI.lockR, hb, hf, by simp, hI.stopC⟩
    · exact ⟨hI.lockP, hI.lockR, hb, hf, by simp [hs], hI.stopC⟩
  | sSendDone =>
    simp only [step] at h
    split at h <;> try (simp at h; done)
    next r k hs =>
    split at h <;> try (simp at h; done)
    split at h <;> simp at h <;> subst h
    · exact ⟨hI.lockP, hI.lockR, hI.bound, hI.fifo, by simp, hI.stopC⟩
    · exact ⟨hI.lockP, hI.lockR, hI.bound, hI.fifo, by simp, hI.stopC⟩
  | sTakeStream =>
    simp only [step] at h
    split at h <;> simp at h
    subst h
    exact ⟨hI.lockP, hI.lockR, hI.bound, hI.fifo, by simp, hI.stopC⟩
  | sAdopt batch =>
    simp only [step] at h
    split at h <;> try (simp at h; done)
    split at h <;> simp at h <;> subst h
    · exact ⟨hI.lockP, hI.lockR, hI.bound, hI.fifo, by simp, hI.stopC⟩
    · exact ⟨hI.lockP, hI.lockR, hI.bound, hI.fifo, by simp, hI.stopC⟩
  | sExit =>
    simp only [step] at h
    split at h <;> try (simp at h; done)
    split at h <;> simp at h
    next hc =>
    subst h
    exact ⟨hI.lockP, hI.lockR, hI.bound, hI.fifo, by simp [hc], hI.stopC⟩
  | rResp r =>
    simp only [step] at h
    split at h <;> simp at h
    next k hr =>
    subst h
    refine ⟨hI.lockP, ?_, hI.bound, hI.fifo, hI.exitC, ?_⟩
    · simp; intro hc; have := hI.lockR.1 hc; simp [hr] at this
    · simp; exact ncl hI (by simp [hr])
  | rAckLock =>
    simp only [step] at h
    split at h <;> simp at h
    next r k hr hc =>
    subst h
    refine ⟨?_, by simp, hI.bound, hI.fifo, hI.exitC, ?_⟩
    · intro j; simp; intro r' hr'; have := (hI.lockP j).2 ⟨r', hr'⟩; simp [hc] at this
    · simp; exact ncl hI (by simp [hr])
  | rAckEnq =>
    simp only [step] at h
    split at h <;> try (simp at h; done)
    next r k hr =>
    split at h <;> simp at h
    subst h
    have hown : s.cmu = some .recv := hI.lockR.2 ⟨r, k, hr⟩
    refine ⟨?_, by simp, ?_, ?_, ?_, ?_⟩
    · intro j; simp; intro r' hr'; have := (hI.lockP j).2 ⟨r', hr'⟩; rw [hown] at this; cases this
    · simp; exact doEnq_len s r _ hI.bound
    · simp; exact doEnq_fifo s r _ hI.fifo
    · simp; exact hI.exitC
    · simp; exact ncl hI (by simp [hr])
  | rFail =>
    simp only [step] at h
    split at h <;> simp at h
    next k hr =>
    subst h
    refine ⟨hI.lockP, ?_, hI.bound, hI.fifo, hI.exitC, ?_⟩
    · simp; intro hc; have := hI.lockR.1 hc; simp [hr] at this
    · simp; exact ncl hI (by simp [hr])
  | rDrain =>
    simp only [step] at h
    split at h <;> simp at h
    next k hr hc =>
    subst h
    refine ⟨hI.lockP, ?_, by simp, ?_, hI.exitC, ?_⟩
    · simp; simp [hc]
    · simp; exact hI.fifo
    · simp; exact ncl hI (by simp [hr])
  | rPublish =>
    simp only [step] at h
    split at h <;> simp at h
    next k hr hc =>
    subst h
    refine ⟨hI.lockP, ?_, hI.bound, hI.fifo, hI.exitC, ?_⟩
    · simp; intro hcm; have := hI.lockR.1 hcm; simp [hr] at this
    · simp; exact ncl hI (by simp [hr])
  | rAuthFail =>
    simp only [step] at h
    split at h <;> simp at h
    next k hr =>
    subst h
    refine ⟨hI.lockP, ?_, hI.bound, hI.fifo, ?_, by simp⟩
    · simp; intro hcm; have := hI.lockR.1 hcm; simp [hr] at this
    · simp
  | stall =>
    simp only [step] at h; simp at h; subst h
    exact ⟨hI.lockP, hI.lockR, hI.bound, hI.fifo, hI.exitC, hI.stopC⟩
  | resume =>
    simp only [step] at h; simp at h; subst h
    exact ⟨hI.lockP, hI.lockR, hI.bound, hI.fifo, hI.exitC, hI.stopC⟩

theorem inv_run {cap : Nat} {s s' : S α} {ls : List (Lbl α)} (hI : Inv cap s) (h : run cap s ls = some s') : Inv cap s' := by
  induction ls generalizing s with
  | nil => simp [run] at h; subst h; exact hI
  | cons l ls ih =>
    simp only [run] at h
    split at h
    · next s1 h1 => exact ih (inv_step hI h1) h
    · simp at h

/-- every reachable state satisfies the invariant -/
theorem inv_reachable {cap : Nat} {s : S α} {ls : List (Lbl α)} (h : run cap init ls = some s) : Inv cap s :=
  inv_run (inv_init cap) h

/-- **Nothing moves by itself only when nothing is under way, or in the S12 shape.** In every state satisfying the
invariant in which the transport is not stalled, if no step of the program is enabled then either the client is
quiescent or the sender waits for the client lock held by a producer that waits for room in the full channel. -/
theorem stuck_cases {cap : Nat} (hcap : 0 < cap) {s : S α} (hI : Inv cap s) (hns : s.stalled = false)
    (hst : Stuck cap s) : Quiescent s ∨ S12 cap s := by
  -- helper facts used by several branches
  have noLockedOfCan : canEnq cap s = true → ∀ i r, s.pc i ≠ .locked r := by
    intro hc i r hp
    have := hst (.pEnq i) rfl
    simp [step, hp, hc] at this
  have noAckLockedOfCan : canEnq cap s = true → ∀ r k, s.rpc ≠ .ackLocked r k := by
    intro hc r k hr
    have := hst .rAckEnq rfl
    simp [step, hr, hc] at this
  have cmuNoneOfCan : canEnq cap s = true → s.cmu = none := by
    intro hc
    cases hm : s.cmu with
    | none => rfl
    | some hd =>
      cases hd with
      | prod i => obtain ⟨r, hr⟩ := (hI.lockP i).1 hm; exact absurd hr (noLockedOfCan hc i r)
      | recv => obtain ⟨r, k, hr⟩ := hI.lockR.1 hm; exact absurd hr (noAckLockedOfCan hc r k)
  have pcsOfCan : canEnq cap s = true → ∀ i, s.pc i = .idle ∨ s.pc i = .done := by
    intro hc i
    have hm := cmuNoneOfCan hc
    cases hp : s.pc i with
    | idle => exact Or.inl rfl
    | done => exact Or.inr rfl
    | locked r => exact absurd hp (noLockedOfCan hc i r)
    | want r =>
      have := hst (.pLock i) rfl
      simp [step, hp, hm] at this
  cases hs : s.spc with
  | sending r k =>
    have := hst .sSendDone rfl
    simp only [step, hs, hns] at this
    by_cases hd : s.dead k = true <;> simp [hd] at this
  | exited =>
    have hcl := hI.exitC hs
    have hc : canEnq cap s = true := by simp [canEnq, hcl]
    exact Or.inl ⟨pcsOfCan hc, cmuNoneOfCan hc, Or.inr hs, Or.inr (hI.stopC hcl)⟩
  | sel =>
    have hq : s.queue = [] := by
      cases hq : s.queue with
      | nil => rfl
      | cons r rest =>
        have := hst .sTakeReq rfl
        simp only [step, hs, hq] at this
        split at this <;> simp at this
    have hch : s.streamCh = none := by
      cases hch : s.streamCh with
      | none => rfl
      | some k => have := hst .sTakeStream rfl; simp [step, hs, hch] at this
    have hcl : s.closed = false := by
      cases hcl : s.closed with
      | false => rfl
      | true => have := hst .sExit rfl; simp [step, hs, hcl] at this
    have hc : canEnq cap s = true := by simp [canEnq, hq, hcap]
    have hm := cmuNoneOfCan hc
    refine Or.inl ⟨pcsOfCan hc, hm, Or.inl ⟨hs, hq, hch, hcl⟩, ?_⟩
    cases hr : s.rpc with
    | recv k => exact Or.inl ⟨k, rfl⟩
    | stopped => exact Or.inr rfl
    | ackWant r k => have := hst .rAckLock rfl; simp [step, hr, hm] at this
    | ackLocked r k => exact absurd hr (noAckLockedOfCan hc r k)
    | reconnWait k => have := hst .rDrain rfl; simp [step, hr, hm] at this
    | publish k => have := hst .rPublish rfl; simp [step, hr, hch] at this
  | adoptWait k =>
    right
    have hm : s.cmu ≠ none := by
      intro hm
      have := hst (.sAdopt []) rfl
      simp only [step, hs, hm] at this
      split at this <;> simp at this
    have hfull : ∀ {P : Prop}, canEnq cap s = false → s.queue.length = cap ∧ s.closed = false := by
      intro _ hc
      simp [canEnq] at hc
      exact ⟨by have := hI.bound; omega, hc.2⟩
    cases hmu : s.cmu with
    | none => exact absurd hmu hm
    | some hd =>
      cases hd with
      | prod i =>
        obtain ⟨r, hr⟩ := (hI.lockP i).1 hmu
        have hc : canEnq cap s = false := by
          cases hc : canEnq cap s with
          | false => rfl
          | true => exact absurd hr (noLockedOfCan hc i r)
        obtain ⟨h1, h2⟩ := @hfull True hc
        exact ⟨⟨k, hs⟩, h1, h2, Or.inl ⟨i, r, hmu, hr⟩⟩
      | recv =>
        obtain ⟨r, k', hr⟩ := hI.lockR.1 hmu
        have hc : canEnq cap s = false := by
          cases hc : canEnq cap s with
          | false => rfl
          | true => exact absurd hr (noAckLockedOfCan hc r k')
        obtain ⟨h1, h2⟩ := @hfull True hc
        exact ⟨⟨k, hs⟩, h1, h2, Or.inr ⟨r, k', hmu, hr⟩⟩

/-- conversely, the S12 shape is **absorbing**: whatever happens next — steps of the program (only the receiver's
pending hand-off can still run) or stimuli of the environment, short of `close()` on an authentication failure — the
state stays in the S12 shape: the lock holder never gets its room, the sender never gets the lock. -/
theorem s12_absorbing {cap : Nat} {s s' : S α} {l : Lbl α} (h12 : S12 cap s) (hl : l ≠ .rAuthFail)
    (h : step cap s l = some s') : S12 cap s' := by
  obtain ⟨⟨k, hs⟩, hlen, hcl, hhold⟩ := h12
  have hcan : canEnq cap s = false := by simp [canEnq, hlen, hcl]
  have hm : s.cmu ≠ none := by
    rcases hhold with ⟨i, r, hm, _⟩ | ⟨r, k', hm, _⟩ <;> simp [hm]
  cases l with
  | rAuthFail => exact absurd rfl hl
  | pStart j r' =>
    simp only [step] at h
    split at h <;> simp at h
    next hj =>
    subst h
    refine ⟨⟨k, hs⟩, hlen, hcl, ?_⟩
    rcases hhold with ⟨i, r, hmu, hp⟩ | hh
    · left
      refine ⟨i, r, hmu, ?_⟩
      have : i ≠ j := by intro e; subst e; rw [hp] at hj; cases hj
      simp [setPc, this, hp]
    · right; exact hh
  | pLock i =>
    simp only [step] at h
    split at h <;> simp at h
    next hc => exact absurd hc hm
  | pEnq i =>
    simp only [step] at h
    split at h <;> try (simp at h; done)
    simp [hcan] at h
  | sTakeReq => simp [step, hs] at h
  | sSendDone => simp [step, hs] at h
  | sTakeStream => simp [step, hs] at h
  | sAdopt b =>
    simp only [step] at h
    split at h <;> try (simp at h; done)
    next hc => exact absurd hc hm
  | sExit => simp [step, hs] at h
  | rResp r' =>
    simp only [step] at h
    split at h <;> simp at h
    next k' hr =>
    subst h
    refine ⟨⟨k, hs⟩, hlen, hcl, ?_⟩
    rcases hhold with hh | ⟨r, k'', _, hr'⟩
    · left; exact hh
    · rw [hr] at hr'; cases hr'
  | rAckLock =>
    simp only [step] at h
    split at h <;> simp at h
    next hc => exact absurd hc hm
  | rAckEnq =>
    simp only [step] at h
    split at h <;> try (simp at h; done)
    simp [hcan] at h
  | rFail =>
    simp only [step] at h
    split at h <;> simp at h
    next k' hr =>
    subst h
    refine ⟨⟨k, hs⟩, hlen, hcl, ?_⟩
    rcases hhold with hh | ⟨r, k'', _, hr'⟩
    · left; exact hh
    · rw [hr] at hr'; cases hr'
  | rDrain =>
    simp only [step] at h
    split at h <;> simp at h
    next hc => exact absurd hc hm
  | rPublish =>
    simp only [step] at h
    split at h <;> simp at h
    next k' hr hch =>
    subst h
    refine ⟨⟨k, hs⟩, hlen, hcl, ?_⟩
    rcases hhold with hh | ⟨r, k'', _, hr'⟩
    · left; exact hh
    · rw [hr] at hr'; cases hr'
  | stall => simp only [step] at h; simp at h; subst h; exact ⟨⟨k, hs⟩, hlen, hcl, hhold⟩
  | resume => simp only [step] at h; simp at h; subst h; exact ⟨⟨k, hs⟩, hlen, hcl, hhold⟩

/-- in the S12 shape the only step of the program that can still run is the receiver's pending hand-off -/
theorem s12_only_publish {cap : Nat} {s : S α} {l : Lbl α} (h12 : S12 cap s) (hi : l.internal = true)
    (hne : step cap s l ≠ none) : l = .rPublish := by
  obtain ⟨⟨k, hs⟩, hlen, hcl, hhold⟩ := h12
  have hcan : canEnq cap s = false := by simp [canEnq, hlen, hcl]
  have hm : s.cmu ≠ none := by
    rcases hhold with ⟨i, r, hm, _⟩ | ⟨r, k', hm, _⟩ <;> simp [hm]
  cases l with
  | rPublish => rfl
  | pStart _ _ | rResp _ | rFail | rAuthFail | stall | resume => simp [Lbl.internal] at hi
  | pLock i =>
    exfalso; apply hne; simp only [step]
    split <;> try rfl
    next hc => exact absurd hc hm
  | pEnq i =>
    exfalso; apply hne; simp only [step]
    split <;> try rfl
    simp [hcan]
  | sTakeReq => exfalso; apply hne; simp [step, hs]
  | sSendDone => exfalso; apply hne; simp [step, hs]
  | sTakeStream => exfalso; apply hne; simp [step, hs]
  | sAdopt b =>
    exfalso; apply hne; simp only [step]
    split <;> try rfl
    next hc => exact absurd hc hm
  | sExit => exfalso; apply hne; simp [step, hs]
  | rAckLock =>
    exfalso; apply hne; simp only [step]
    split <;> try rfl
    next hc => exact absurd hc hm
  | rAckEnq =>
    exfalso; apply hne; simp only [step]
    split <;> try rfl
    simp [hcan]
  | rDrain =>
    exfalso; apply hne; simp only [step]
    split <;> try rfl
    next hc => exact absurd hc hm

theorem run_append {cap : Nat} {s s1 s2 : S α} {a b : List (Lbl α)} (h1 : run cap s a = some s1) (h2 : run cap s1 b = some s2) :
    run cap s (a ++ b) = some s2 := by
  induction a generalizing s with
  | nil => simp [run] at h1; subst h1; simpa using h2
  | cons l ls ih =>
    simp only [run] at h1
    simp only [List.cons_append, run]
    split at h1
    · next s' hs' => exact ih h1
    · simp at h1

/-- the shape of the state while the producers fill the channel behind a published, not yet adopted stream -/
structure Filling (n : Nat) (s : S α) : Prop where
  cmu : s.cmu = none
  len : s.queue.length = n
  idle : ∀ i, n ≤ i → s.pc i = .idle
  open_ : s.closed = false
  sel : s.spc = .sel
  ch : s.streamCh = some 2

def one (r : α) (i : Nat) : List (Lbl α) := [.pStart i r, .pLock i, .pEnq i]

theorem fill_one {cap n : Nat} (r : α) {s : S α} (hF : Filling n s) (hn : n < cap) :
    ∃ s', run cap s (one r n) = some s' ∧ Filling (n + 1) s' := by
  have hp := hF.idle n (Nat.le_refl n)
  let s1 : S α := setPc s n (.want r)
  have h1 : step cap s (.pStart n r) = some s1 := by simp [step, hp, s1]
  let s2 : S α := { (setPc s1 n (.locked r)) with cmu := some (.prod n), lockEp := fun j => if j = n then s1.epoch else s1.lockEp j, lockSeq := s1.lockSeq ++ [r] }
  have h2 : step cap s1 (.pLock n) = some s2 := by simp [step, s1, s2, setPc, hF.cmu]
  let s3 : S α := { (setPc (doEnq cap s2 r (s2.lockEp n)) n .done) with cmu := none }
  have hlen2 : s2.queue.length = n := by simp [s2, s1, setPc, hF.len]
  have h3 : step cap s2 (.pEnq n) = some s3 := by
    have : s2.pc n = .locked r := by simp [s2, setPc]
    simp [step, this, canEnq, hlen2, hn, s3]
  refine ⟨s3, by simp [one, run, h1, h2, h3], ?_⟩
  have hq : (doEnq cap s2 r (s2.lockEp n)).queue = s2.queue ++ [r] := by simp [doEnq, hlen2, hn]
  constructor
  · simp [s3]
  · simp [s3, setPc, hq, hlen2]
  · intro i hi; have : i ≠ n := by omega
    simp [s3, s2, s1, setPc, this]; exact hF.idle i (by omega)
  · simp [s3, s2, s1, setPc, hF.open_]
  · simp [s3, s2, s1, setPc, hF.sel]
  · have : (doEnq cap s2 r (s2.lockEp n)).streamCh = s2.streamCh := by unfold doEnq; split <;> rfl
    simp [s3, setPc, this]; simp [s2, s1, setPc, hF.ch]

def fill (r : α) : Nat → Nat → List (Lbl α)
  | _, 0 => []
  | n, k + 1 => one r n ++ fill r (n + 1) k

theorem fill_many {cap : Nat} (r : α) (k : Nat) : ∀ {n : Nat} {s : S α}, Filling n s → n + k ≤ cap →
    ∃ s', run cap s (fill r n k) = some s' ∧ Filling (n + k) s' := by
  induction k with
  | zero => intro n s hF _; exact ⟨s, by simp [fill, run], by simpa using hF⟩
  | succ k ih =>
    intro n s hF hle
    obtain ⟨s1, h1, hF1⟩ := fill_one (cap := cap) r hF (by omega)
    obtain ⟨s2, h2, hF2⟩ := ih hF1 (by omega)
    exact ⟨s2, run_append h1 h2, by have : n + (k + 1) = n + 1 + k := by omega
                                    rw [this]; exact hF2⟩

/-- a schedule into the S12 shape, for any capacity: the stream fails and the receiver reconnects and publishes the
new stream; `cap` lookups miss and fill the channel (the sender has not run yet); one more lookup misses and waits for
room, holding the client lock; the sender's `select` takes the new stream. -/
def s12Schedule (cap : Nat) (r : α) : List (Lbl α) :=
  [.rFail, .rDrain, .rPublish] ++ (fill r 0 cap ++ [.pStart cap r, .pLock cap, .sTakeStream])

theorem s12_reachable (cap : Nat) (r : α) : ∃ s : S α, run cap init (s12Schedule cap r) = some s ∧ S12 cap s := by
  let s0 : S α := { (init : S α) with rpc := .recv 2, nextSid := 3, dead := fun j => if j = 1 then true else false, streamCh := some 2,
                                       epoch := 1, streamEp := fun j => if j = 2 then 1 else 0 }
  have h0 : run cap (init : S α) [.rFail, .rDrain, .rPublish] = some s0 := by
    simp [run, step, init, s0]
  have hF0 : Filling 0 s0 := by constructor <;> simp [s0, init]
  obtain ⟨s1, h1, hF1⟩ := fill_many (cap := cap) r cap hF0 (by omega)
  simp only [Nat.zero_add] at hF1
  have hp := hF1.idle cap (Nat.le_refl cap)
  let s2 : S α := setPc s1 cap (.want r)
  have e2 : step cap s1 (.pStart cap r) = some s2 := by simp [step, hp, s2]
  let s3 : S α := { (setPc s2 cap (.locked r)) with cmu := some (.prod cap), lockEp := fun j => if j = cap then s2.epoch else s2.lockEp j, lockSeq := s2.lockSeq ++ [r] }
  have e3 : step cap s2 (.pLock cap) = some s3 := by simp [step, s2, s3, setPc, hF1.cmu]
  let s4 : S α := { s3 with streamCh := none, spc := .adoptWait 2 }
  have e4 : step cap s3 .sTakeStream = some s4 := by simp [step, s3, s2, setPc, hF1.sel, hF1.ch, s4]
  have h2 : run cap s1 [.pStart cap r, .pLock cap, .sTakeStream] = some s4 := by simp [run, e2, e3, e4]
  refine ⟨s4, run_append h0 (run_append h1 h2), ?_⟩
  refine ⟨⟨2, by simp [s4]⟩, by simp [s4, s3, s2, setPc, hF1.len], by simp [s4, s3, s2, setPc, hF1.open_], Or.inl ⟨cap, r, by simp [s4, s3], by simp [s4, s3, setPc]⟩⟩


/-- the request the sender currently has in `Send` -/
def inflight (s : S α) : List α := match s.spc with | .sending r _ => [r] | _ => []

/-- where the requests went -/
structure Hist (s : S α) : Prop where
  /-- every request that left the channel is on the wire, was dropped for lack of a usable stream, was drained by a reconnect, or is in `Send` -/
  acct  : ∀ r ∈ s.gone, r ∈ s.sent.map (·.2) ∨ r ∈ s.dropped.map (·.1) ∨ r ∈ s.drained ∨ r ∈ inflight s
  /-- what is on the wire (and in `Send`) left the channel, in the same order, nothing twice -/
  order : (s.sent.map (·.2) ++ inflight s).Sublist s.gone
  /-- a request is dropped after a failed `Send` only on a stream that is dead -/
  dropDead : ∀ r k, (r, some k) ∈ s.dropped → s.dead k = true
  /-- a request goes out on the stream the sender holds, and the sender never holds a stream the receiver has not created -/
  sendingOn : ∀ r k, s.spc = .sending r k → s.senderStream = some k

theorem hist_init : Hist (init : S α) := by
  constructor <;> simp [init, inflight]

theorem hist_frame {s s' : S α} (hH : Hist s) (h1 : s'.gone = s.gone) (h2 : s'.sent = s.sent) (h3 : s'.dropped = s.dropped)
    (h4 : s'.drained = s.drained) (h5 : s'.spc = s.spc) (h6 : ∀ k, s.dead k = true → s'.dead k = true)
    (h7 : s'.senderStream = s.senderStream) : Hist s' := by
  have hi : inflight s' = inflight s := by simp [inflight, h5]
  constructor
  · rw [h1, h2, h3, h4, hi]; exact hH.acct
  · rw [h1, h2, hi]; exact hH.order
  · rw [h3]; intro r k hm; exact h6 k (hH.dropDead r k hm)
  · rw [h5, h7]; exact hH.sendingOn

theorem hist_step {cap : Nat} {s s' : S α} {l : Lbl α} (hH : Hist s) (h : step cap s l = some s') : Hist s' := by
  cases l with
  | pStart i r =>
    simp only [step] at h
    split at h <;> simp at h
    subst h; exact hist_frame hH rfl rfl rfl rfl rfl (fun _ h => h) rfl
  | pLock i =>
    simp only [step] at h
    split at h <;> simp at h
    subst h; exact hist_frame hH rfl rfl rfl rfl rfl (fun _ h => h) rfl
  | pEnq i =>
    simp only [step] at h
    split at h <;> try (simp at h; done)
    split at h <;> simp at h
    subst h
    refine hist_frame hH ?_ ?_ ?_ ?_ ?_ ?_ ?_ <;> (try intro k hk) <;> simp [setPc, doEnq] <;> (try split) <;> simp_all
  | sTakeReq =>
    simp only [step] at h
    split at h <;> try (simp at h; done)
    next r rest hs hq =>
    have hin : inflight s = [] := by simp [inflight, hs]
    split at h <;> simp at h <;> subst h
    · next k hk =>
      constructor
      · intro x hx
        simp only [List.mem_append, List.mem_singleton] at hx
        rcases hx with hx | hx
        · rcases hH.acct x hx with a | a | a | a
          · exact Or.inl a
          · exact Or.inr (Or.inl a)
          · exact Or.inr (Or.inr (Or.inl a))
          · simp [hin] at a
        · subst hx; simp [inflight]
      · have := hH.order; rw [hin] at this; simp at this
        simp [inflight]; exact this
      · exact hH.dropDead
      · intro r' k' h'; simp at h'; simp [hk, h'.2]
    · next hk =>
      constructor
      · intro x hx
        simp only [List.mem_append, List.mem_singleton] at hx
        rcases hx with hx | hx
        · rcases hH.acct x hx with a | a | a | a
          · exact Or.inl a
          · exact Or.inr (Or.inl (by simp; simp at a; exact Or.inl a))
          · exact Or.inr (Or.inr (Or.inl a))
          · simp [hin] at a
        · subst hx; simp
      · have := hH.order; rw [hin] at this; simp at this
        simp [inflight, hs]; exact List.Sublist.trans this (List.sublist_append_left _ _)
      · intro r' k' hm; simp at hm; exact hH.dropDead r' k' hm
      · intro r' k' h'; simp [hs] at h'
  | sSendDone =>
    simp only [step] at h
    split at h <;> try (simp at h; done)
    next r k hs =>
    have hin : inflight s = [r] := by simp [inflight, hs]
    split at h <;> try (simp at h; done)
    split at h <;> simp at h <;> subst h
    · next hd =>
      constructor
      · intro x hx
        rcases hH.acct x hx with a | a | a | a
        · exact Or.inl a
        · exact Or.inr (Or.inl (by simp; simp at a; exact Or.inl a))
        · exact Or.inr (Or.inr (Or.inl a))
        · rw [hin] at a; simp at a; subst a; exact Or.inr (Or.inl (by simp))
      · have := hH.order; rw [hin] at this
        simp [inflight]; exact List.Sublist.trans (List.sublist_append_left _ _) this
      · intro r' k' hm; simp at hm
        rcases hm with hm | ⟨_, hm⟩
        · exact hH.dropDead r' k' hm
        · subst hm; exact hd
      · intro r' k' h'; simp at h'
    · constructor
      · intro x hx
        rcases hH.acct x hx with a | a | a | a
        · exact Or.inl (by simp; simp at a; exact Or.inl a)
        · exact Or.inr (Or.inl a)
        · exact Or.inr (Or.inr (Or.inl a))
        · rw [hin] at a; simp at a; subst a; exact Or.inl (by simp)
      · have := hH.order; rw [hin] at this
        simpa [inflight] using this
      · exact hH.dropDead
      · intro r' k' h'; simp at h'
  | sTakeStream =>
    simp only [step] at h
    split at h <;> simp at h
    next k hs hch =>
    subst h
    have hin : inflight s = [] := by simp [inflight, hs]
    constructor
    · intro x hx; rcases hH.acct x hx with a | a | a | a
      · exact Or.inl a
      · exact Or.inr (Or.inl a)
      · exact Or.inr (Or.inr (Or.inl a))
      · simp [hin] at a
    · have := hH.order; rw [hin] at this; simpa [inflight] using this
    · exact hH.dropDead
    · intro r' k' h'; simp at h'
  | sAdopt batch =>
    simp only [step] at h
    split at h <;> try (simp at h; done)
    next k hs hc =>
    have hin : inflight s = [] := by simp [inflight, hs]
    split at h <;> simp at h <;> subst h
    all_goals
      constructor
      · intro x hx; rcases hH.acct x hx with a | a | a | a
        · exact Or.inl a
        · exact Or.inr (Or.inl a)
        · exact Or.inr (Or.inr (Or.inl a))
        · simp [hin] at a
      · have := hH.order; rw [hin] at this; simpa [inflight] using this
      · exact hH.dropDead
      · intro r' k' h'; simp at h'
  | sExit =>
    simp only [step] at h
    split at h <;> try (simp at h; done)
    next hs =>
    split at h <;> simp at h
    subst h
    have hin : inflight s = [] := by simp [inflight, hs]
    constructor
    · intro x hx; rcases hH.acct x hx with a | a | a | a
      · exact Or.inl a
      · exact Or.inr (Or.inl a)
      · exact Or.inr (Or.inr (Or.inl a))
      · simp [hin] at a
    · have := hH.order; rw [hin] at this; simpa [inflight] using this
    · exact hH.dropDead
    · intro r' k' h'; simp at h'
  | rResp r =>
    simp only [step] at h
    split at h <;> simp at h
    subst h; exact hist_frame hH rfl rfl rfl rfl rfl (fun _ h => h) rfl
  | rAckLock =>
    simp only [step] at h
    split at h <;> simp at h
    subst h; exact hist_frame hH rfl rfl rfl rfl rfl (fun _ h => h) rfl
  | rAckEnq =>
    simp only [step] at h
    split at h <;> try (simp at h; done)
    split at h <;> simp at h
    subst h
    refine hist_frame hH ?_ ?_ ?_ ?_ ?_ ?_ ?_ <;> (try intro k hk) <;> simp [doEnq] <;> (try split) <;> simp_all
  | rFail =>
    simp only [step] at h
    split at h <;> simp at h
    subst h
    refine hist_frame hH rfl rfl rfl rfl rfl ?_ rfl
    intro k hk; simp; exact Or.inr hk
  | rDrain =>
    simp only [step] at h
    split at h <;> simp at h
    subst h
    constructor
    · intro x hx
      simp only [List.mem_append] at hx
      rcases hx with hx | hx
      · rcases hH.acct x hx with a | a | a | a
        · exact Or.inl a
        · exact Or.inr (Or.inl a)
        · exact Or.inr (Or.inr (Or.inl (by simp; exact Or.inl a)))
        · exact Or.inr (Or.inr (Or.inr (by simpa [inflight] using a)))
      · exact Or.inr (Or.inr (Or.inl (by simp; exact Or.inr hx)))
    · have := hH.order
      simp only [inflight] at this ⊢
      exact List.Sublist.trans this (List.sublist_append_left _ _)
    · exact hH.dropDead
    · exact hH.sendingOn
  | rPublish =>
    simp only [step] at h
    split at h <;> simp at h
    subst h; exact hist_frame hH rfl rfl rfl rfl rfl (fun _ h => h) rfl
  | rAuthFail =>
    simp only [step] at h
    split at h <;> simp at h
    subst h; exact hist_frame hH rfl rfl rfl rfl rfl (fun _ h => h) rfl
  | stall => simp only [step] at h; simp at h; subst h; exact hist_frame hH rfl rfl rfl rfl rfl (fun _ h => h) rfl
  | resume => simp only [step] at h; simp at h; subst h; exact hist_frame hH rfl rfl rfl rfl rfl (fun _ h => h) rfl


theorem hist_run {cap : Nat} {s s' : S α} {ls : List (Lbl α)} (hH : Hist s) (h : run cap s ls = some s') : Hist s' := by
  induction ls generalizing s with
  | nil => simp [run] at h; subst h; exact hH
  | cons l ls ih =>
    simp only [run] at h
    split at h
    · next s1 h1 => exact ih (hist_step hH h1) h
    · simp at h


/-- bookkeeping by count: everything that left the channel has exactly one fate -/
def Cnt (s : S α) : Prop :=
  s.gone.length = s.sent.length + s.dropped.length + s.drained.length + (inflight s).length

theorem cnt_init : Cnt (init : S α) := by simp [Cnt, init, inflight]

theorem cnt_step {cap : Nat} {s s' : S α} {l : Lbl α} (hC : Cnt s) (h : step cap s l = some s') : Cnt s' := by
  unfold Cnt at *
  cases l <;> simp only [step] at h <;> (repeat' split at h) <;> (try (simp at h; done)) <;>
    (try (simp at h)) <;> (try subst h) <;> simp_all [inflight, setPc, doEnq] <;> (try split) <;> (try simp_all) <;> (try omega)


/-- no stream has failed so far -/
def NoFailure (s : S α) : Prop := ∀ k, s.dead k = false

structure Live (s : S α) : Prop where
  stream : s.senderStream = some 1
  nodrop : s.dropped = []
  nodrain : s.drained = []
  rpc : (∃ k, s.rpc = .recv k) ∨ (∃ r k, s.rpc = .ackWant r k) ∨ (∃ r k, s.rpc = .ackLocked r k) ∨ s.rpc = .stopped
  ch : s.streamCh = none
  spc : s.spc = .sel ∨ (∃ r, s.spc = .sending r 1) ∨ s.spc = .exited

theorem live_init : Live (init : S α) := by constructor <;> simp [init]

theorem dead_mono {cap : Nat} {s s' : S α} {l : Lbl α} (h : step cap s l = some s') (k : Nat) (hk : s.dead k = true) : s'.dead k = true := by
  cases l <;> simp only [step] at h <;> (repeat' split at h) <;> (try (simp at h; done)) <;>
    (try (simp at h)) <;> (try subst h) <;> simp_all [setPc, doEnq] <;> (try split) <;> (try simp_all)

theorem live_step {cap : Nat} {s s' : S α} {l : Lbl α} (hL : NoFailure s → Live s) (h : step cap s l = some s') :
    NoFailure s' → Live s' := by
  intro hn'
  have hn : NoFailure s := by
    intro k
    cases hk : s.dead k with
    | false => rfl
    | true => have := dead_mono h k hk; rw [hn' k] at this; cases this
  have hl := hL hn
  obtain ⟨h1, h2, h3, h4, h5, h6⟩ := hl
  cases l with
  | rFail =>
    exfalso
    simp only [step] at h
    split at h <;> simp at h
    next k hr =>
    subst h
    have := hn' k
    simp at this
  | rDrain =>
    exfalso
    simp only [step] at h
    split at h <;> simp at h
    next k hr hc =>
    rcases h4 with ⟨k', e⟩ | ⟨r, k', e⟩ | ⟨r, k', e⟩ | e <;> rw [hr] at e <;> cases e
  | rPublish =>
    exfalso
    simp only [step] at h
    split at h <;> simp at h
    next k hr hc =>
    rcases h4 with ⟨k', e⟩ | ⟨r, k', e⟩ | ⟨r, k', e⟩ | e <;> rw [hr] at e <;> cases e
  | sTakeStream =>
    exfalso
    simp only [step] at h
    split at h <;> simp at h
    next k hs hch => rw [h5] at hch; cases hch
  | sAdopt b =>
    exfalso
    simp only [step] at h
    split at h <;> try (simp at h; done)
    next k hs hc =>
    rcases h6 with e | ⟨r, e⟩ | e <;> rw [hs] at e <;> cases e
  | sTakeReq =>
    simp only [step] at h
    split at h <;> try (simp at h; done)
    next r rest hs hq =>
    rw [h1] at h
    simp at h; subst h
    exact ⟨rfl, h2, h3, h4, h5, Or.inr (Or.inl ⟨r, rfl⟩)⟩
  | sSendDone =>
    simp only [step] at h
    split at h <;> try (simp at h; done)
    next r k hs =>
    split at h <;> try (simp at h; done)
    rw [hn k] at h
    simp at h; subst h
    exact ⟨h1, h2, h3, h4, h5, Or.inl rfl⟩
  | sExit =>
    simp only [step] at h
    split at h <;> try (simp at h; done)
    split at h <;> simp at h
    subst h
    exact ⟨h1, h2, h3, h4, h5, Or.inr (Or.inr rfl)⟩
  | pStart i r =>
    simp only [step] at h
    split at h <;> simp at h
    subst h; exact ⟨h1, h2, h3, h4, h5, h6⟩
  | pLock i =>
    simp only [step] at h
    split at h <;> simp at h
    subst h; exact ⟨h1, h2, h3, h4, h5, h6⟩
  | pEnq i =>
    simp only [step] at h
    split at h <;> try (simp at h; done)
    split at h <;> simp at h
    subst h
    constructor <;> simp [setPc, doEnq] <;> (try split) <;> simp_all
  | rResp r =>
    simp only [step] at h
    split at h <;> simp at h
    next k hr =>
    subst h; exact ⟨h1, h2, h3, Or.inr (Or.inl ⟨r, k, rfl⟩), h5, h6⟩
  | rAckLock =>
    simp only [step] at h
    split at h <;> simp at h
    next r k hr hc =>
    subst h; exact ⟨h1, h2, h3, Or.inr (Or.inr (Or.inl ⟨r, k, rfl⟩)), h5, h6⟩
  | rAckEnq =>
    simp only [step] at h
    split at h <;> try (simp at h; done)
    next r k hr =>
    split at h <;> simp at h
    subst h
    constructor <;> simp [doEnq] <;> (try split) <;> simp_all
  | rAuthFail =>
    simp only [step] at h
    split at h <;> simp at h
    subst h; exact ⟨h1, h2, h3, Or.inr (Or.inr (Or.inr rfl)), h5, h6⟩
  | stall => simp only [step] at h; simp at h; subst h; exact ⟨h1, h2, h3, h4, h5, h6⟩
  | resume => simp only [step] at h; simp at h; subst h; exact ⟨h1, h2, h3, h4, h5, h6⟩


/-- the stream the receiver is concerned with -/
def rstream (s : S α) : Option Nat :=
  match s.rpc with
  | .recv k | .ackWant _ k | .ackLocked _ k | .reconnWait k | .publish k => some k
  | .stopped => none

/-- `k` is a stream whose reconnect has already reset the nonces (it is not the one the receiver is still waiting to drain for) -/
def Drained (s : S α) (k : Nat) : Prop := 1 ≤ k ∧ k < s.nextSid ∧ s.rpc ≠ .reconnWait k

structure Ep (s : S α) : Prop where
  len    : s.queueEp.length = s.queue.length
  tags   : ∀ e ∈ s.queueEp, e = s.epoch
  lockP  : ∀ i r, s.pc i = .locked r → s.lockEp i = s.epoch
  lockR  : ∀ r k, s.rpc = .ackLocked r k → s.rLockEp = s.epoch
  newest : ∀ k, rstream s = some k → 1 ≤ k ∧ k + 1 = s.nextSid
  alive  : ∀ k, 1 ≤ k → k < s.nextSid → s.dead k = false → k + 1 = s.nextSid
  aliveEp : ∀ k, Drained s k → s.dead k = false → s.streamEp k = s.epoch
  snd    : ∀ k, s.senderStream = some k → Drained s k
  ch     : ∀ k, s.streamCh = some k → Drained s k
  adopt  : ∀ k, s.spc = .adoptWait k → Drained s k
  sending : ∀ r k, s.spc = .sending r k → Drained s k
  infl   : ∀ r k, s.spc = .sending r k → s.dead k = false → s.inflightEp = s.streamEp k
  sent   : ∀ p ∈ s.sentEp, p.2 = s.streamEp p.1 ∧ Drained s p.1

theorem ep_init : Ep (init : S α) := by
  constructor <;> simp [init, rstream, Drained]
  · intro k h1 hk; omega




@[simp] theorem doEnq_nextSid {cap : Nat} (s : S α) (r : α) (t : Nat) : (doEnq cap s r t).nextSid = s.nextSid := by unfold doEnq; split <;> rfl
@[simp] theorem doEnq_dead {cap : Nat} (s : S α) (r : α) (t : Nat) : (doEnq cap s r t).dead = s.dead := by unfold doEnq; split <;> rfl
@[simp] theorem doEnq_streamEp {cap : Nat} (s : S α) (r : α) (t : Nat) : (doEnq cap s r t).streamEp = s.streamEp := by unfold doEnq; split <;> rfl
@[simp] theorem doEnq_senderStream {cap : Nat} (s : S α) (r : α) (t : Nat) : (doEnq cap s r t).senderStream = s.senderStream := by unfold doEnq; split <;> rfl
@[simp] theorem doEnq_streamCh {cap : Nat} (s : S α) (r : α) (t : Nat) : (doEnq cap s r t).streamCh = s.streamCh := by unfold doEnq; split <;> rfl
@[simp] theorem doEnq_inflightEp {cap : Nat} (s : S α) (r : α) (t : Nat) : (doEnq cap s r t).inflightEp = s.inflightEp := by unfold doEnq; split <;> rfl
@[simp] theorem doEnq_sentEp {cap : Nat} (s : S α) (r : α) (t : Nat) : (doEnq cap s r t).sentEp = s.sentEp := by unfold doEnq; split <;> rfl
@[simp] theorem doEnq_epoch {cap : Nat} (s : S α) (r : α) (t : Nat) : (doEnq cap s r t).epoch = s.epoch := by unfold doEnq; split <;> rfl
@[simp] theorem doEnq_lockEp {cap : Nat} (s : S α) (r : α) (t : Nat) : (doEnq cap s r t).lockEp = s.lockEp := by unfold doEnq; split <;> rfl
@[simp] theorem doEnq_rLockEp {cap : Nat} (s : S α) (r : α) (t : Nat) : (doEnq cap s r t).rLockEp = s.rLockEp := by unfold doEnq; split <;> rfl

theorem doEnq_lenEp {cap : Nat} (s : S α) (r : α) (t : Nat) (h : s.queueEp.length = s.queue.length) :
    (doEnq cap s r t).queueEp.length = (doEnq cap s r t).queue.length := by
  unfold doEnq; split <;> simp [h]

theorem doEnq_tags {cap : Nat} (s : S α) (r : α) (t : Nat) (h : ∀ e ∈ s.queueEp, e = s.epoch) (ht : t = s.epoch) :
    ∀ e ∈ (doEnq cap s r t).queueEp, e = s.epoch := by
  unfold doEnq; split
  · intro e he; simp at he; rcases he with he | he
    · exact h e he
    · rw [he, ht]
  · exact h

/-- after an enqueue nothing but the channel has changed: every clause that does not mention the channel carries over -/
theorem ep_after_enq {cap : Nat} {s : S α} (hE : Ep s) (r : α) (t : Nat) (ht : t = s.epoch) {s' : S α}
    (hq : s'.queueEp = (doEnq cap s r t).queueEp) (hqq : s'.queue = (doEnq cap s r t).queue) (he : s'.epoch = s.epoch)
    (hlp : ∀ i r', s'.pc i = .locked r' → s.pc i = .locked r' ∧ s'.lockEp i = s.lockEp i)
    (hlr : ∀ r' k, s'.rpc = .ackLocked r' k → s.rpc = .ackLocked r' k ∧ s'.rLockEp = s.rLockEp)
    (hrs : rstream s' = rstream s) (hrw : ∀ k, s'.rpc = .reconnWait k ↔ s.rpc = .reconnWait k)
    (hn : s'.nextSid = s.nextSid) (hd : s'.dead = s.dead) (hse : s'.streamEp = s.streamEp) (hss : s'.senderStream = s.senderStream)
    (hc : s'.streamCh = s.streamCh) (hsp : s'.spc = s.spc) (hin : s'.inflightEp = s.inflightEp) (hst : s'.sentEp = s.sentEp) : Ep s' := by
  have dr : ∀ k, Drained s' k ↔ Drained s k := by
    intro k; unfold Drained; rw [hn]; simp only [ne_eq, hrw k]
  constructor
  · rw [hq, hqq]; exact doEnq_lenEp s r t hE.len
  · rw [hq, he]; exact doEnq_tags s r t hE.tags ht
  · intro i r' h; obtain ⟨h1, h2⟩ := hlp i r' h; rw [h2, he]; exact hE.lockP i r' h1
  · intro r' k h; obtain ⟨h1, h2⟩ := hlr r' k h; rw [h2, he]; exact hE.lockR r' k h1
  · rw [hrs, hn]; exact hE.newest
  · rw [hn, hd]; exact hE.alive
  · intro k h1 h2; rw [hse, he]; exact hE.aliveEp k ((dr k).1 h1) (by rw [hd] at h2; exact h2)
  · intro k h; exact (dr k).2 (hE.snd k (by rw [hss] at h; exact h))
  · intro k h; exact (dr k).2 (hE.ch k (by rw [hc] at h; exact h))
  · intro k h; exact (dr k).2 (hE.adopt k (by rw [hsp] at h; exact h))
  · intro r' k h; exact (dr k).2 (hE.sending r' k (by rw [hsp] at h; exact h))
  · intro r' k h h2; rw [hin, hse]; exact hE.infl r' k (by rw [hsp] at h; exact h) (by rw [hd] at h2; exact h2)
  · intro p hp; rw [hst] at hp; obtain ⟨h1, h2⟩ := hE.sent p hp; exact ⟨by rw [hse]; exact h1, (dr p.1).2 h2⟩

/-- a step that changes none of the fields the epoch invariant reads, except program counters that move between
states the invariant does not distinguish -/
theorem ep_same {s s' : S α} (hE : Ep s)
    (hq : s'.queueEp = s.queueEp) (hqq : s'.queue.length = s.queue.length) (he : s'.epoch = s.epoch)
    (hlp : ∀ i r', s'.pc i = .locked r' → s'.lockEp i = s.epoch)
    (hlr : ∀ r' k, s'.rpc = .ackLocked r' k → s'.rLockEp = s.epoch)
    (hrs : rstream s' = rstream s ∨ rstream s' = none) (hrw : ∀ k, s'.rpc = .reconnWait k ↔ s.rpc = .reconnWait k)
    (hn : s'.nextSid = s.nextSid) (hd : s'.dead = s.dead) (hse : s'.streamEp = s.streamEp)
    (hss : ∀ k, s'.senderStream = some k → Drained s k)
    (hc : ∀ k, s'.streamCh = some k → Drained s k)
    (ha : ∀ k, s'.spc = .adoptWait k → Drained s k)
    (hsg : ∀ r' k, s'.spc = .sending r' k → Drained s k ∧ (s.dead k = false → s'.inflightEp = s.streamEp k))
    (hst : ∀ p ∈ s'.sentEp, p.2 = s.streamEp p.1 ∧ Drained s p.1) : Ep s' := by
  have dr : ∀ k, Drained s' k ↔ Drained s k := by
    intro k; unfold Drained; rw [hn]; simp only [ne_eq, hrw k]
  constructor
  · rw [hq, hqq]; exact hE.len
  · rw [hq, he]; exact hE.tags
  · intro i r' h; rw [he]; exact hlp i r' h
  · intro r' k h; rw [he]; exact hlr r' k h
  · intro k h; rw [hn]; rcases hrs with e | e
    · rw [e] at h; exact hE.newest k h
    · rw [e] at h; cases h
  · rw [hn, hd]; exact hE.alive
  · intro k h1 h2; rw [hse, he]; exact hE.aliveEp k ((dr k).1 h1) (by rw [hd] at h2; exact h2)
  · intro k h; exact (dr k).2 (hss k h)
  · intro k h; exact (dr k).2 (hc k h)
  · intro k h; exact (dr k).2 (ha k h)
  · intro r' k h; exact (dr k).2 (hsg r' k h).1
  · intro r' k h h2; rw [hse]; exact (hsg r' k h).2 (by rw [hd] at h2; exact h2)
  · intro p hp; obtain ⟨h1, h2⟩ := hst p hp; exact ⟨by rw [hse]; exact h1, (dr p.1).2 h2⟩


theorem drained_mono {s s' : S α} {k : Nat} (hD : Drained s k) (hn : s.nextSid ≤ s'.nextSid) (hr : s'.rpc ≠ .reconnWait k) : Drained s' k :=
  ⟨hD.1, by have := hD.2.1; omega, hr⟩

theorem ep_step {cap : Nat} {s s' : S α} {l : Lbl α} (hI : Inv cap s) (hE : Ep s) (h : step cap s l = some s') : Ep s' := by
  cases l with
  | pStart i r =>
    simp only [step] at h
    split at h <;> simp at h
    next hp =>
    subst h
    refine ep_same hE rfl rfl rfl ?_ (fun r' k h => hE.lockR r' k h) (Or.inl rfl) (fun k => Iff.rfl) rfl rfl rfl
      hE.snd hE.ch hE.adopt (fun r' k h => ⟨hE.sending r' k h, hE.infl r' k h⟩) hE.sent
    intro j r' hj
    by_cases hji : j = i
    · subst hji; simp [setPc] at hj
    · simp [setPc, hji] at hj; exact hE.lockP j r' hj
  | pLock i =>
    simp only [step] at h
    split at h <;> simp at h
    next r hp hc =>
    subst h
    refine ep_same hE rfl rfl rfl ?_ (fun r' k h => hE.lockR r' k h) (Or.inl rfl) (fun k => Iff.rfl) rfl rfl rfl
      hE.snd hE.ch hE.adopt (fun r' k h => ⟨hE.sending r' k h, hE.infl r' k h⟩) hE.sent
    intro j r' hj
    by_cases hji : j = i
    · subst hji; simp
    · simp [setPc, hji] at hj ⊢; exact hE.lockP j r' hj
  | pEnq i =>
    simp only [step] at h
    split at h <;> try (simp at h; done)
    next r hp =>
    split at h <;> simp at h
    subst h
    refine ep_after_enq (cap := cap) hE r (s.lockEp i) (hE.lockP i r hp) (by simp [setPc]) (by simp [setPc]) (by simp [setPc]) ?_ ?_ (by simp [setPc, rstream]) (by intro k; simp [setPc])
      (by simp [setPc]) (by simp [setPc]) (by simp [setPc]) (by simp [setPc]) (by simp [setPc]) (by simp [setPc]) (by simp [setPc]) (by simp [setPc])
    · intro j r' hj
      by_cases hji : j = i
      · subst hji; simp [setPc] at hj
      · simp [setPc, hji] at hj ⊢; exact hj
    · intro r' k hk; simp [setPc] at hk ⊢; exact hk
  | sTakeReq =>
    simp only [step] at h
    split at h <;> try (simp at h; done)
    next r rest hs hq =>
    have hne : s.queueEp ≠ [] := by
      intro he; have := hE.len; rw [he, hq] at this; simp at this
    have hlen : s.queueEp.tail.length = rest.length := by
      have := hE.len; rw [hq] at this; simp at this; simp [this]
    have htags : ∀ e ∈ s.queueEp.tail, e = s.epoch := fun e he => hE.tags e (List.mem_of_mem_tail he)
    split at h <;> simp at h <;> subst h
    · next k hk =>
      have hD := hE.snd k hk
      constructor
      · exact hlen
      · exact htags
      · exact hE.lockP
      · exact hE.lockR
      · exact hE.newest
      · exact hE.alive
      · exact hE.aliveEp
      · exact hE.snd
      · exact hE.ch
      · intro k' h'; simp at h'
      · intro r' k' h'; simp at h'; obtain ⟨_, hkk⟩ := h'; subst hkk; exact hD
      · intro r' k' h' hd
        simp at h'; simp
        obtain ⟨_, hkk⟩ := h'
        subst hkk
        have : s.queueEp.head?.getD 0 = s.epoch := by
          cases hqe : s.queueEp with
          | nil => exact absurd hqe hne
          | cons a l => simp; exact hE.tags a (by simp [hqe])
        rw [this]; exact (hE.aliveEp k hD hd).symm
      · exact hE.sent
    · next hk =>
      constructor
      · exact hlen
      · exact htags
      · exact hE.lockP
      · exact hE.lockR
      · exact hE.newest
      · exact hE.alive
      · exact hE.aliveEp
      · exact hE.snd
      · exact hE.ch
      · exact hE.adopt
      · exact hE.sending
      · exact hE.infl
      · exact hE.sent
  | sSendDone =>
    simp only [step] at h
    split at h <;> try (simp at h; done)
    next r k hs =>
    split at h <;> try (simp at h; done)
    split at h <;> simp at h <;> subst h
    · next hd =>
      refine ep_same hE rfl rfl rfl hE.lockP hE.lockR (Or.inl rfl) (fun k => Iff.rfl) rfl rfl rfl
        (by intro k' h'; simp at h') hE.ch (by intro k' h'; simp at h') (by intro r' k' h'; simp at h') hE.sent
    · next hd =>
      have hdf : s.dead k = false := by cases hx : s.dead k <;> simp_all
      refine ep_same hE rfl rfl rfl hE.lockP hE.lockR (Or.inl rfl) (fun k => Iff.rfl) rfl rfl rfl
        hE.snd hE.ch (by intro k' h'; simp at h') (by intro r' k' h'; simp at h') ?_
      intro p hp
      simp at hp
      rcases hp with hp | hp
      · exact hE.sent p hp
      · subst hp; exact ⟨hE.infl r k hs hdf, hE.sending r k hs⟩
  | sTakeStream =>
    simp only [step] at h
    split at h <;> simp at h
    next k hs hch =>
    subst h
    refine ep_same hE rfl rfl rfl hE.lockP hE.lockR (Or.inl rfl) (fun k => Iff.rfl) rfl rfl rfl
      hE.snd (by intro k' h'; simp at h') (by intro k' h'; simp at h'; rw [← h']; exact hE.ch k hch) (by intro r' k' h'; simp at h') hE.sent
  | sAdopt batch =>
    simp only [step] at h
    split at h <;> try (simp at h; done)
    next k hs hc =>
    split at h <;> simp at h <;> subst h
    · refine ep_same hE rfl rfl rfl hE.lockP hE.lockR (Or.inl rfl) (fun k => Iff.rfl) rfl rfl rfl
        (by intro k' h'; simp at h') hE.ch (by intro k' h'; simp at h') (by intro r' k' h'; simp at h') hE.sent
    · refine ep_same hE rfl rfl rfl hE.lockP hE.lockR (Or.inl rfl) (fun k => Iff.rfl) rfl rfl rfl
        (by intro k' h'; simp at h'; rw [← h']; exact hE.adopt k hs) hE.ch (by intro k' h'; simp at h') (by intro r' k' h'; simp at h') hE.sent
  | sExit =>
    simp only [step] at h
    split at h <;> try (simp at h; done)
    split at h <;> simp at h
    subst h
    refine ep_same hE rfl rfl rfl hE.lockP hE.lockR (Or.inl rfl) (fun k => Iff.rfl) rfl rfl rfl
      hE.snd hE.ch (by intro k' h'; simp at h') (by intro r' k' h'; simp at h') hE.sent
  | rResp r =>
    simp only [step] at h
    split at h <;> simp at h
    next k hr =>
    subst h
    refine ep_same hE rfl rfl rfl hE.lockP (by intro r' k' h'; simp at h') (Or.inl (by simp [rstream, hr])) (by intro k'; simp [hr]) rfl rfl rfl
      hE.snd hE.ch hE.adopt (fun r' k h => ⟨hE.sending r' k h, hE.infl r' k h⟩) hE.sent
  | rAckLock =>
    simp only [step] at h
    split at h <;> simp at h
    next r k hr hc =>
    subst h
    refine ep_same hE rfl rfl rfl hE.lockP (by intro r' k' h'; rfl) (Or.inl (by simp [rstream, hr])) (by intro k'; simp [hr]) rfl rfl rfl
      hE.snd hE.ch hE.adopt (fun r' k h => ⟨hE.sending r' k h, hE.infl r' k h⟩) hE.sent
  | rAckEnq =>
    simp only [step] at h
    split at h <;> try (simp at h; done)
    next r k hr =>
    split at h <;> simp at h
    subst h
    refine ep_after_enq (cap := cap) hE r s.rLockEp (hE.lockR r k hr) (by simp) (by simp) (by simp) ?_ ?_ (by simp [rstream, hr]) (by intro k'; simp [hr])
      (by simp) (by simp) (by simp) (by simp) (by simp) (by simp) (by simp) (by simp)
    · intro j r' hj; simp at hj ⊢; exact hj
    · intro r' k' hk; simp at hk
  | rFail =>
    simp only [step] at h
    split at h <;> simp at h
    next k hr =>
    subst h
    have hnew := hE.newest k (by simp [rstream, hr])
    have deadOld : ∀ k', 1 ≤ k' → k' < s.nextSid → (if k' = k then true else s.dead k') = false → False := by
      intro k' h1 h2 h3
      by_cases hk : k' = k
      · simp [hk] at h3
      · simp [hk] at h3
        have := hE.alive k' h1 h2 h3
        omega
    constructor
    · exact hE.len
    · exact hE.tags
    · exact hE.lockP
    · intro r' k' h'; simp at h'
    · intro k' h'; simp [rstream] at h'; subst h'; simp; omega
    · intro k' h1 h2 h3
      simp at h2 h3 ⊢
      by_cases hk : k' < s.nextSid
      · exact absurd (deadOld k' h1 hk (by simpa using h3)) id
      · omega
    · intro k' ⟨h1, h2, h3⟩ h4
      simp at h2 h3 h4
      have hk : k' < s.nextSid := by omega
      exact absurd (deadOld k' h1 hk (by simpa using h4)) id
    · intro k' h'; have hD := hE.snd k' h'; exact drained_mono hD (by simp) (by simp; have := hD.2.1; omega)
    · intro k' h'; have hD := hE.ch k' h'; exact drained_mono hD (by simp) (by simp; have := hD.2.1; omega)
    · intro k' h'; have hD := hE.adopt k' h'; exact drained_mono hD (by simp) (by simp; have := hD.2.1; omega)
    · intro r' k' h'; have hD := hE.sending r' k' h'; exact drained_mono hD (by simp) (by simp; have := hD.2.1; omega)
    · intro r' k' h' hd
      have hD := hE.sending r' k' h'
      simp at hd
      exact absurd (deadOld k' hD.1 hD.2.1 (by simpa using hd)) id
    · intro p hp; obtain ⟨h1, h2⟩ := hE.sent p hp; exact ⟨h1, drained_mono h2 (by simp) (by simp; have := h2.2.1; omega)⟩
  | rDrain =>
    simp only [step] at h
    split at h <;> simp at h
    next k hr hc =>
    subst h
    have hnew := hE.newest k (by simp [rstream, hr])
    have ne : ∀ k', Drained s k' → k' ≠ k := by
      intro k' ⟨_, _, h3⟩ e; subst e; exact h3 hr
    have onlyNew : ∀ k', Drained s k' → s.dead k' = false → False := by
      intro k' hD hd
      have := hE.alive k' hD.1 hD.2.1 hd
      exact ne k' hD (by omega)
    constructor
    · simp
    · intro e he; simp at he
    · intro i r' hp
      have := (hI.lockP i).2 ⟨r', hp⟩
      rw [hc] at this; cases this
    · intro r' k' h'; simp at h'
    · intro k' h'; simp [rstream] at h'; subst h'; exact hnew
    · exact hE.alive
    · intro k' ⟨h1, h2, _⟩ hd
      have := hE.alive k' h1 h2 hd
      have : k' = k := by omega
      simp [this]
    · intro k' h'; exact drained_mono (hE.snd k' h') (by simp) (by simp)
    · intro k' h'; exact drained_mono (hE.ch k' h') (by simp) (by simp)
    · intro k' h'; exact drained_mono (hE.adopt k' h') (by simp) (by simp)
    · intro r' k' h'; exact drained_mono (hE.sending r' k' h') (by simp) (by simp)
    · intro r' k' h' hd
      exact absurd (onlyNew k' (hE.sending r' k' h') hd) id
    · intro p hp
      obtain ⟨h1, h2⟩ := hE.sent p hp
      refine ⟨?_, drained_mono h2 (by simp) (by simp)⟩
      simp [ne p.1 h2]; exact h1
  | rPublish =>
    simp only [step] at h
    split at h <;> simp at h
    next k hr hch =>
    subst h
    have hnew := hE.newest k (by simp [rstream, hr])
    refine ep_same hE rfl rfl rfl hE.lockP (by intro r' k' h'; simp at h') (Or.inl (by simp [rstream, hr])) (by intro k'; simp [hr]) rfl rfl rfl
      hE.snd ?_ hE.adopt (fun r' k h => ⟨hE.sending r' k h, hE.infl r' k h⟩) hE.sent
    intro k' h'; simp at h'; subst h'
    exact ⟨hnew.1, by omega, by simp [hr]⟩
  | rAuthFail =>
    simp only [step] at h
    split at h <;> simp at h
    next k hr =>
    subst h
    refine ep_same hE rfl rfl rfl hE.lockP (by intro r' k' h'; simp at h') (Or.inr (by simp [rstream])) (by intro k'; simp [hr]) rfl rfl rfl
      hE.snd hE.ch hE.adopt (fun r' k h => ⟨hE.sending r' k h, hE.infl r' k h⟩) hE.sent
  | stall =>
    simp only [step] at h; simp at h; subst h
    exact ep_same hE rfl rfl rfl hE.lockP hE.lockR (Or.inl rfl) (fun k => Iff.rfl) rfl rfl rfl
      hE.snd hE.ch hE.adopt (fun r' k h => ⟨hE.sending r' k h, hE.infl r' k h⟩) hE.sent
  | resume =>
    simp only [step] at h; simp at h; subst h
    exact ep_same hE rfl rfl rfl hE.lockP hE.lockR (Or.inl rfl) (fun k => Iff.rfl) rfl rfl rfl
      hE.snd hE.ch hE.adopt (fun r' k h => ⟨hE.sending r' k h, hE.infl r' k h⟩) hE.sent


/-- the tags on the wire are parallel to the requests on the wire -/
def SentPar (s : S α) : Prop := s.sentEp.map (·.1) = s.sent.map (·.1)

theorem sentpar_init : SentPar (init : S α) := by simp [SentPar, init]

theorem sentpar_step {cap : Nat} {s s' : S α} {l : Lbl α} (hC : SentPar s) (h : step cap s l = some s') : SentPar s' := by
  unfold SentPar at *
  cases l <;> simp only [step] at h <;> (repeat' split at h) <;> (try (simp at h; done)) <;>
    (try (simp at h)) <;> (try subst h) <;> simp_all [setPc, doEnq] <;> (try split) <;> (try simp_all)

/-- the request of the producer (or acknowledging receiver) that is inside its lock section, if any -/
def pendingLocked (s : S α) : List α :=
  match s.cmu with
  | some (.prod i) => (match s.pc i with | .locked r => [r] | _ => [])
  | some .recv => (match s.rpc with | .ackLocked r _ => [r] | _ => [])
  | none => []

/-- while the client is running, requests enter the channel in the order in which their producers took the client lock -/
def LockOrder (s : S α) : Prop := s.closed = false → s.lockSeq = s.enq ++ pendingLocked s

theorem lockorder_init : LockOrder (init : S α) := by intro _; simp [init, pendingLocked]

theorem lockorder_step {cap : Nat} {s s' : S α} {l : Lbl α} (hI : Inv cap s) (hL : LockOrder s) (h : step cap s l = some s') : LockOrder s' := by
  intro hcl'
  cases l with
  | pStart i r =>
    simp only [step] at h
    split at h <;> simp at h
    next hp =>
    subst h
    have := hL hcl'
    simp only [pendingLocked] at this ⊢
    -- the lock holder (if any) is not `i` (whose pc is idle)
    cases hm : s.cmu with
    | none => simp [hm, setPc] at this ⊢; exact this
    | some hd =>
      cases hd with
      | recv => simp [hm, setPc] at this ⊢; exact this
      | prod j =>
        have hj : j ≠ i := by
          intro e; subst e
          obtain ⟨r', hr'⟩ := (hI.lockP j).1 hm
          rw [hp] at hr'; cases hr'
        simp [hm, setPc, hj] at this ⊢; exact this
  | pLock i =>
    simp only [step] at h
    split at h <;> simp at h
    next r hp hc =>
    subst h
    have := hL hcl'
    simp [pendingLocked, hc] at this
    simp [pendingLocked, setPc, this]
  | pEnq i =>
    simp only [step] at h
    split at h <;> try (simp at h; done)
    next r hp =>
    split at h <;> simp at h
    next hcan =>
    subst h
    simp [setPc] at hcl'
    have hown : s.cmu = some (.prod i) := (hI.lockP i).2 ⟨r, hp⟩
    have := hL hcl'
    simp [pendingLocked, hown, hp] at this
    have hroom : s.queue.length < cap := by
      simp [canEnq, hcl'] at hcan; exact hcan
    simp [pendingLocked, doEnq, hroom, setPc, this]
  | rAckLock =>
    simp only [step] at h
    split at h <;> simp at h
    next r k hr hc =>
    subst h
    have := hL hcl'
    simp [pendingLocked, hc] at this
    simp [pendingLocked, this]
  | rAckEnq =>
    simp only [step] at h
    split at h <;> try (simp at h; done)
    next r k hr =>
    split at h <;> simp at h
    next hcan =>
    subst h
    simp at hcl'
    have hown : s.cmu = some .recv := hI.lockR.2 ⟨r, k, hr⟩
    have := hL hcl'
    simp [pendingLocked, hown, hr] at this
    have hroom : s.queue.length < cap := by
      simp [canEnq, hcl'] at hcan; exact hcan
    simp [pendingLocked, doEnq, hroom, this]
  | rAuthFail =>
    simp only [step] at h
    split at h <;> simp at h
    subst h; simp at hcl'
  | sTakeReq =>
    simp only [step] at h
    split at h <;> try (simp at h; done)
    split at h <;> simp at h <;> subst h <;> exact hL hcl'
  | sSendDone =>
    simp only [step] at h
    split at h <;> try (simp at h; done)
    split at h <;> try (simp at h; done)
    split at h <;> simp at h <;> subst h <;> exact hL hcl'
  | sTakeStream =>
    simp only [step] at h
    split at h <;> simp at h
    subst h; exact hL hcl'
  | sAdopt b =>
    simp only [step] at h
    split at h <;> try (simp at h; done)
    split at h <;> simp at h <;> subst h <;> exact hL hcl'
  | sExit =>
    simp only [step] at h
    split at h <;> try (simp at h; done)
    split at h <;> simp at h
    subst h; exact hL hcl'
  | rResp r =>
    simp only [step] at h
    split at h <;> simp at h
    next k hr =>
    subst h
    have := hL hcl'
    simp only [pendingLocked] at this ⊢
    cases hm : s.cmu with
    | none => simp [hm] at this ⊢; exact this
    | some hd =>
      cases hd with
      | prod j => simp [hm] at this ⊢; exact this
      | recv =>
        obtain ⟨r', k', hr'⟩ := hI.lockR.1 hm
        rw [hr] at hr'; cases hr'
  | rFail =>
    simp only [step] at h
    split at h <;> simp at h
    next k hr =>
    subst h
    have := hL hcl'
    simp only [pendingLocked] at this ⊢
    cases hm : s.cmu with
    | none => simp [hm] at this ⊢; exact this
    | some hd =>
      cases hd with
      | prod j => simp [hm] at this ⊢; exact this
      | recv =>
        obtain ⟨r', k', hr'⟩ := hI.lockR.1 hm
        rw [hr] at hr'; cases hr'
  | rDrain =>
    simp only [step] at h
    split at h <;> simp at h
    next k hr hc =>
    subst h
    have := hL hcl'
    simp [pendingLocked, hc] at this ⊢
    exact this
  | rPublish =>
    simp only [step] at h
    split at h <;> simp at h
    next k hr hch =>
    subst h
    have := hL hcl'
    simp only [pendingLocked] at this ⊢
    cases hm : s.cmu with
    | none => simp [hm] at this ⊢; exact this
    | some hd =>
      cases hd with
      | prod j => simp [hm] at this ⊢; exact this
      | recv =>
        obtain ⟨r', k', hr'⟩ := hI.lockR.1 hm
        rw [hr] at hr'; cases hr'
  | stall => simp only [step] at h; simp at h; subst h; exact hL hcl'
  | resume => simp only [step] at h; simp at h; subst h; exact hL hcl'


/-- everything known about a reachable state -/
structure Reach (cap : Nat) (s : S α) : Prop where
  inv : Inv cap s
  hist : Hist s
  cnt : Cnt s
  live : NoFailure s → Live s
  ep : Ep s
  par : SentPar s
  lock : LockOrder s

theorem reach_init (cap : Nat) : Reach cap (init : S α) := ⟨inv_init cap, hist_init, cnt_init, fun _ => live_init, ep_init, sentpar_init, lockorder_init⟩

theorem reach_step {cap : Nat} {s s' : S α} {l : Lbl α} (hR : Reach cap s) (h : step cap s l = some s') : Reach cap s' :=
  ⟨inv_step hR.inv h, hist_step hR.hist h, cnt_step hR.cnt h, live_step hR.live h, ep_step hR.inv hR.ep h, sentpar_step hR.par h, lockorder_step hR.inv hR.lock h⟩

theorem reach_run {cap : Nat} {s s' : S α} {ls : List (Lbl α)} (hR : Reach cap s) (h : run cap s ls = some s') : Reach cap s' := by
  induction ls generalizing s with
  | nil => simp [run] at h; subst h; exact hR
  | cons l ls ih =>
    simp only [run] at h
    split at h
    · next s1 h1 => exact ih (reach_step hR h1) h
    · simp at h

theorem reachable {cap : Nat} {s : S α} {ls : List (Lbl α)} (h : run cap init ls = some s) : Reach cap s :=
  reach_run (reach_init cap) h

/-- **No request is lost inside the client**: whatever was put into the channel is still in it, on the wire, in `Send`,
was dropped because the sender had no usable stream, or was drained by a reconnect. -/
theorem no_request_lost {cap : Nat} {s : S α} (hR : Reach cap s) :
    ∀ r ∈ s.enq, r ∈ s.queue ∨ r ∈ s.sent.map (·.2) ∨ r ∈ inflight s ∨ r ∈ s.dropped.map (·.1) ∨ r ∈ s.drained := by
  intro r hr
  rw [hR.inv.fifo] at hr
  simp only [List.mem_append] at hr
  rcases hr with hr | hr
  · rcases hR.hist.acct r hr with a | a | a | a
    · exact Or.inr (Or.inl a)
    · exact Or.inr (Or.inr (Or.inr (Or.inl a)))
    · exact Or.inr (Or.inr (Or.inr (Or.inr a)))
    · exact Or.inr (Or.inr (Or.inl a))
  · exact Or.inl hr

/-- **The wire is a subsequence of what was produced**: same order, nothing twice, nothing invented. -/
theorem wire_subsequence {cap : Nat} {s : S α} (hR : Reach cap s) : (s.sent.map (·.2)).Sublist s.enq := by
  rw [hR.inv.fifo]
  exact List.Sublist.trans (List.Sublist.trans (List.sublist_append_left _ _) hR.hist.order) (List.sublist_append_left _ _)

/-- **On a stream that has not failed, at quiescence the wire carries exactly the requests produced, in order** —
however full the channel was on the way, however long `Send` was stalled. -/
theorem live_wire_eq_enq {cap : Nat} {s : S α} (hR : Reach cap s) (hn : NoFailure s) (hq : s.queue = []) (hi : inflight s = []) :
    s.sent.map (·.2) = s.enq := by
  have hl := hR.live hn
  have hf := hR.inv.fifo
  rw [hq, List.append_nil] at hf
  have ho := hR.hist.order
  rw [hi, List.append_nil] at ho
  have hc := hR.cnt
  unfold Cnt at hc
  rw [hl.nodrop, hl.nodrain, hi] at hc
  simp at hc
  rw [hf]
  exact ho.eq_of_length (by simp [hc])

/-- **Nonces stay on their stream (goroutine level)**: every request on the wire of stream `k` was built by a producer that
took the client lock in the epoch of stream `k` — after the reconnect that created `k` reset the nonces, and before the next
one. (The epoch is where the producer read the nonce it echoes; reset + drain and build + enqueue exclude each other.) -/
theorem wire_epoch {cap : Nat} {s : S α} (hR : Reach cap s) : ∀ p ∈ s.sentEp, p.2 = s.streamEp p.1 :=
  fun p hp => (hR.ep.sent p hp).1

/-- what waits in the channel was built in the current epoch: a reconnect leaves nothing of the previous stream behind -/
theorem queue_epoch {cap : Nat} {s : S α} (hR : Reach cap s) : ∀ e ∈ s.queueEp, e = s.epoch := hR.ep.tags

/-! ## Termination: the program cannot run for ever by itself -/

/-- sum of `f 0 … f (n-1)` -/
def psum (f : Nat → Nat) : Nat → Nat
  | 0 => 0
  | n + 1 => psum f n + f n

theorem psum_congr {f g : Nat → Nat} {n : Nat} (h : ∀ i, i < n → f i = g i) : psum f n = psum g n := by
  induction n with
  | zero => rfl
  | succ n ih =>
    simp only [psum]
    rw [ih (fun i hi => h i (by omega)), h n (by omega)]

/-- changing one summand -/
theorem psum_update (f : Nat → Nat) (i v : Nat) (n : Nat) (hi : i < n) :
    psum (fun j => if j = i then v else f j) n + f i = psum f n + v := by
  induction n with
  | zero => omega
  | succ n ih =>
    simp only [psum]
    by_cases h : i = n
    · subst h
      have : psum (fun j => if j = i then v else f j) i = psum f i :=
        psum_congr (fun j hj => by simp; intro e; omega)
      simp [this]; omega
    · have := ih (by omega)
      have hn : (if n = i then v else f n) = f n := by simp; intro e; omega
      rw [hn]; omega

def wP : PPC α → Nat
  | .idle => 0 | .want _ => 5 | .locked _ => 4 | .done => 0

def wS (s : S α) : Nat :=
  match s.spc with
  | .sel => if s.closed then 1 else 0
  | .sending _ _ => if s.closed then 2 else 1
  | .adoptWait _ => if s.closed then 2 else 1
  | .exited => 0

def wR : RPC α → Nat
  | .recv _ => 0 | .ackWant _ _ => 5 | .ackLocked _ _ => 4 | .reconnWait _ => 4 | .publish _ => 3 | .stopped => 0

/-- the work the program still has to do by itself, given that producers `≥ n` are not under way -/
def work (n : Nat) (s : S α) : Nat :=
  psum (fun i => wP (s.pc i)) n + 3 * s.queue.length + (if s.streamCh.isSome then 2 else 0) + wS s + wR s.rpc

/-- producers `≥ n` are not under way -/
def Supp (n : Nat) (s : S α) : Prop := ∀ i, n ≤ i → s.pc i = .idle ∨ s.pc i = .done


theorem lt_of_active {n : Nat} {s : S α} (hS : Supp n s) {i : Nat} (h : s.pc i ≠ .idle ∧ s.pc i ≠ .done) : i < n := by
  cases Nat.lt_or_ge i n with
  | inl h' => exact h'
  | inr h' => rcases hS i h' with e | e <;> simp [e] at h

theorem psum_setPc (n : Nat) (s : S α) (i : Nat) (p : PPC α) (hi : i < n) :
    psum (fun j => wP ((setPc s i p).pc j)) n + wP (s.pc i) = psum (fun j => wP (s.pc j)) n + wP p := by
  have := psum_update (fun j => wP (s.pc j)) i (wP p) n hi
  have e : (fun j => wP ((setPc s i p).pc j)) = (fun j => if j = i then wP p else wP (s.pc j)) := by
    funext j; simp only [setPc]; split <;> rfl
  rw [e]; exact this

@[simp] theorem doEnq_pcfun {cap : Nat} (s : S α) (r : α) (t : Nat) (j : Nat) : (doEnq cap s r t).pc j = s.pc j := by
  unfold doEnq; split <;> rfl
@[simp] theorem doEnq_streamCh' {cap : Nat} (s : S α) (r : α) (t : Nat) : (doEnq cap s r t).streamCh = s.streamCh := by
  unfold doEnq; split <;> rfl
theorem doEnq_qlen {cap : Nat} (s : S α) (r : α) (t : Nat) : (doEnq cap s r t).queue.length ≤ s.queue.length + 1 := by
  unfold doEnq; split <;> simp

theorem work_setPc {n : Nat} {s s' : S α} {i : Nat} {p : PPC α} (q' : Nat) (hi : i < n) (hpc : s'.pc = (setPc s i p).pc)
    (hq : s'.queue.length = q') (hch : s'.streamCh = s.streamCh) (hspc : s'.spc = s.spc) (hcl : s'.closed = s.closed) (hr : s'.rpc = s.rpc) :
    ∃ W, work n s' = W ∧ W + wP (s.pc i) + 3 * s.queue.length = work n s + wP p + 3 * q' := by
  have e1 : (fun j => wP (s'.pc j)) = (fun j => wP ((setPc s i p).pc j)) := by rw [hpc]
  have e2 : wS s' = wS s := by unfold wS; rw [hspc, hcl]
  have := psum_setPc n s i p hi
  refine ⟨_, rfl, ?_⟩
  unfold work
  rw [e1, e2, hch, hr, hq]
  omega

/-- **every step the program takes by itself is progress**: the remaining work strictly decreases -/
theorem internal_step_decreases {cap n : Nat} {s s' : S α} {l : Lbl α} (hS : Supp n s) (hi : l.internal = true)
    (h : step cap s l = some s') : work n s' < work n s ∧ Supp n s' := by
  cases l with
  | pStart _ _ | rResp _ | rFail | rAuthFail | stall | resume => simp [Lbl.internal] at hi
  | pLock i =>
    simp only [step] at h
    split at h <;> simp at h
    next r hp hc =>
    subst h
    have hin : i < n := lt_of_active hS (by simp [hp])
    obtain ⟨W, hW, hEq⟩ := work_setPc (n := n) (s := s) (s' := { (setPc s i (.locked r)) with cmu := some (.prod i), lockEp := fun j => if j = i then s.epoch else s.lockEp j, lockSeq := s.lockSeq ++ [r] })
      (p := .locked r) s.queue.length hin rfl rfl rfl rfl rfl rfl
    rw [hp] at hEq
    refine ⟨?_, ?_⟩
    · rw [hW]; simp only [wP] at hEq; omega
    · intro j hj; have : j ≠ i := by omega
      simp [setPc, this]; exact hS j hj
  | pEnq i =>
    simp only [step] at h
    split at h <;> try (simp at h; done)
    next r hp =>
    split at h <;> simp at h
    subst h
    have hin : i < n := lt_of_active hS (by simp [hp])
    have hq := doEnq_qlen (cap := cap) s r (s.lockEp i)
    obtain ⟨W, hW, hEq⟩ := work_setPc (n := n) (s := s) (s' := { (setPc (doEnq cap s r (s.lockEp i)) i .done) with cmu := none })
      (p := .done) (doEnq cap s r (s.lockEp i)).queue.length hin (by funext j; simp [setPc]) rfl (by simp [setPc]) (by simp [setPc]) (by simp [setPc]) (by simp [setPc])
    rw [hp] at hEq
    refine ⟨?_, ?_⟩
    · rw [hW]; simp only [wP] at hEq; omega
    · intro j hj; have : j ≠ i := by omega
      simp [setPc, this]; exact hS j hj
  | sTakeReq =>
    simp only [step] at h
    split at h <;> try (simp at h; done)
    next r rest hs hq =>
    split at h <;> simp at h <;> subst h
    · refine ⟨?_, hS⟩
      simp only [work, wS, hs, hq]; cases hcl : s.closed <;> simp <;> omega
    · refine ⟨?_, hS⟩
      simp only [work, wS, hs, hq]; cases hcl : s.closed <;> simp <;> omega
  | sSendDone =>
    simp only [step] at h
    split at h <;> try (simp at h; done)
    next r k hs =>
    split at h <;> try (simp at h; done)
    split at h <;> simp at h <;> subst h
    · refine ⟨?_, hS⟩
      simp only [work, wS, hs]; cases hcl : s.closed <;> simp <;> omega
    · refine ⟨?_, hS⟩
      simp only [work, wS, hs]; cases hcl : s.closed <;> simp <;> omega
  | sTakeStream =>
    simp only [step] at h
    split at h <;> simp at h
    next k hs hch =>
    subst h
    refine ⟨?_, hS⟩
    simp only [work, wS, hs, hch]; cases hcl : s.closed <;> simp <;> omega
  | sAdopt batch =>
    simp only [step] at h
    split at h <;> try (simp at h; done)
    next k hs hc =>
    split at h <;> simp at h <;> subst h
    · refine ⟨?_, hS⟩
      simp only [work, wS, hs]; cases hcl : s.closed <;> simp <;> omega
    · refine ⟨?_, hS⟩
      simp only [work, wS, hs]; cases hcl : s.closed <;> simp <;> omega
  | sExit =>
    simp only [step] at h
    split at h <;> try (simp at h; done)
    next hs =>
    split at h <;> simp at h
    next hc =>
    subst h
    refine ⟨?_, hS⟩
    simp only [work, wS, hs, hc]; simp
  | rAckLock =>
    simp only [step] at h
    split at h <;> simp at h
    next r k hr hc =>
    subst h
    refine ⟨?_, hS⟩
    simp only [work, wS, wR, hr]; simp
  | rAckEnq =>
    simp only [step] at h
    split at h <;> try (simp at h; done)
    next r k hr =>
    split at h <;> simp at h
    subst h
    have hq := doEnq_qlen (cap := cap) s r s.rLockEp
    refine ⟨?_, ?_⟩
    · simp only [work, wS, wR, hr] at *; simp at *; omega
    · intro j hj; simp; exact hS j hj
  | rDrain =>
    simp only [step] at h
    split at h <;> simp at h
    next k hr hc =>
    subst h
    refine ⟨?_, hS⟩
    simp only [work, wS, wR, hr]; simp; omega
  | rPublish =>
    simp only [step] at h
    split at h <;> simp at h
    next k hr hch =>
    subst h
    refine ⟨?_, hS⟩
    simp only [work, wS, wR, hr, hch]; simp; omega


theorem supp_mono {n m : Nat} {s : S α} (h : Supp n s) (hnm : n ≤ m) : Supp m s := fun i hi => h i (by omega)

theorem supp_step {cap n : Nat} {s s' : S α} {l : Lbl α} (hS : Supp n s) (h : step cap s l = some s') :
    ∃ m, n ≤ m ∧ Supp m s' := by
  by_cases hi : l.internal = true
  · exact ⟨n, Nat.le_refl n, (internal_step_decreases hS hi h).2⟩
  · cases l with
    | pLock _ | pEnq _ | sTakeReq | sSendDone | sTakeStream | sAdopt _ | sExit | rAckLock | rAckEnq | rDrain | rPublish =>
      simp [Lbl.internal] at hi
    | pStart i r =>
      simp only [step] at h
      split at h <;> simp at h
      subst h
      refine ⟨max n (i + 1), Nat.le_max_left _ _, ?_⟩
      intro j hj
      have h1 : n ≤ j := by omega
      have h2 : j ≠ i := by omega
      simp [setPc, h2]; exact hS j h1
    | rResp r => simp only [step] at h; split at h <;> simp at h; subst h; exact ⟨n, Nat.le_refl n, hS⟩
    | rFail => simp only [step] at h; split at h <;> simp at h; subst h; exact ⟨n, Nat.le_refl n, hS⟩
    | rAuthFail => simp only [step] at h; split at h <;> simp at h; subst h; exact ⟨n, Nat.le_refl n, hS⟩
    | stall => simp only [step] at h; simp at h; subst h; exact ⟨n, Nat.le_refl n, hS⟩
    | resume => simp only [step] at h; simp at h; subst h; exact ⟨n, Nat.le_refl n, hS⟩

/-- in every reachable state only finitely many producers are under way -/
theorem supp_reachable {cap : Nat} {ls : List (Lbl α)} : ∀ {s s' : S α} {n : Nat}, Supp n s → run cap s ls = some s' → ∃ m, Supp m s' := by
  induction ls with
  | nil => intro s s' n hS h; simp [run] at h; subst h; exact ⟨n, hS⟩
  | cons l ls ih =>
    intro s s' n hS h
    simp only [run] at h
    split at h
    · next s1 h1 =>
      obtain ⟨m, _, hm⟩ := supp_step hS h1
      exact ih hm h
    · simp at h

theorem supp_init : Supp 0 (init : S α) := fun _ _ => Or.inl rfl

/-- **the program cannot run for ever by itself**: a run of steps of the program alone is no longer than the work that
was outstanding when it started -/
theorem internal_run_bounded {cap n : Nat} : ∀ (ls : List (Lbl α)) {s s' : S α}, Supp n s → (∀ l ∈ ls, l.internal = true) →
    run cap s ls = some s' → ls.length + work n s' ≤ work n s ∧ Supp n s' := by
  intro ls
  induction ls with
  | nil => intro s s' hS _ h; simp [run] at h; subst h; exact ⟨by simp, hS⟩
  | cons l ls ih =>
    intro s s' hS hall h
    simp only [run] at h
    split at h
    · next s1 h1 =>
      obtain ⟨hlt, hS1⟩ := internal_step_decreases hS (hall l (by simp)) h1
      obtain ⟨hle, hS'⟩ := ih hS1 (fun l' hl' => hall l' (by simp [hl'])) h
      exact ⟨by simp; omega, hS'⟩
    · simp at h

/-- **left to itself the client comes to rest, quiescent or in S12** — from every reachable state, every execution of the
program alone is finite (bounded by the outstanding work), and the state in which nothing moves any more is, unless the
transport is stalled, the quiescent state or the S12 deadlock: there is no livelock and no other deadlock -/
theorem comes_to_rest {cap : Nat} (hcap : 0 < cap) {s : S α} (hR : Reach cap s) {n : Nat} (hS : Supp n s)
    (ls : List (Lbl α)) (hall : ∀ l ∈ ls, l.internal = true) {s' : S α} (h : run cap s ls = some s') :
    ls.length ≤ work n s ∧ (s'.stalled = false → Stuck cap s' → Quiescent s' ∨ S12 cap s') := by
  refine ⟨by have := (internal_run_bounded ls hS hall h).1; omega, ?_⟩
  intro hns hst
  exact stuck_cases hcap (reach_run hR h).inv hns hst


/-- **the wire follows the lock order**: on a stream that has not failed, at quiescence the control plane has received the
requests in exactly the order in which their producers held the client lock — the order of the atomic operations of the
sequential model, in which every request lists the interest set as its own operation left it -/
theorem live_wire_eq_lock_order {cap : Nat} {s : S α} (hR : Reach cap s) (hn : NoFailure s) (hq : s.queue = []) (hi : inflight s = [])
    (hc : s.cmu = none) (hcl : s.closed = false) : s.sent.map (·.2) = s.lockSeq := by
  rw [live_wire_eq_enq hR hn hq hi, hR.lock hcl]
  simp [pendingLocked, hc]

end XdsVerif.Flow
