import XdsVerif.Model.Sys
import XdsVerif.Proofs.Seq
import XdsVerif.Proofs.Conc
/-!
# The composed system projects onto its component layers

* `run_conc`: **every** schedule of `Sys` (receiver sections torn apart or not) is, on the lookup side, a run of the
  interleaving model `Conc` — so the invariants and theorems of C05–C07 hold for lookups racing the *real* response
  handling (interest filter, acknowledgement, sender, cleaner), not just anonymous deliveries;
* `run_seq`: every schedule whose receiver sections are contiguous is, on the client side, a history of `Seq` — so
  C01–C04 and C19 hold under every interleaving with any number of concurrent lookups;
* `coupled`: both components always see the same cache (of the lookups' resource type).
-/
namespace XdsVerif.Sys
open XdsVerif

/-! ### the association list handed to `UpdateResource` is the filter, pointwise -/

theorem lookupL_filterMap (f : Name → Option Val) (ws : List Name) (n : Name) :
    Conc.lookupL (ws.filterMap (fun m => (f m).map (fun v => (m, v)))) n = if ws.contains n then f n else none := by
  induction ws with
  | nil => simp [Conc.lookupL]
  | cons w rest ih =>
    simp only [List.filterMap_cons]
    cases hf : f w with
    | none =>
      simp only [Option.map_none, ih, List.contains_cons]
      by_cases hw : n = w
      · subst hw; simp [hf]
      · have : (n == w) = false := by simpa using hw
        simp [this]
    | some v =>
      simp only [Option.map_some, Conc.lookupL, ih, List.contains_cons]
      by_cases hw : n = w
      · subst hw
        simp only [BEq.rfl, Bool.true_or, if_true, hf]
        by_cases hc : rest.contains n = true
        · rw [if_pos hc]
        · rw [if_neg hc]
      · have h1 : (n == w) = false := by simpa using hw
        have h2 : ¬ w = n := fun e => hw e.symm
        simp only [h1, Bool.false_or, h2, if_false]
        by_cases hc : rest.contains n = true
        · rw [if_pos hc]
          cases f n <;> rfl
        · rw [if_neg hc]

theorem lookupL_itemsOf (cfg : Seq.Cfg) (s : Seq.St) (r : Seq.Resp) (n : Name) :
    Conc.lookupL (itemsOf cfg s r) n = Seq.filtered cfg s r n := by
  unfold itemsOf
  rw [lookupL_filterMap]
  unfold Seq.filtered
  cases hw : s.watched r.rt with
  | none => simp
  | some ws =>
    simp only [Option.getD_some]
    split <;> rfl

end XdsVerif.Sys

namespace XdsVerif.Sys
open XdsVerif

variable (cfg : Seq.Cfg) (V : Conc.Variant) (T : Seq.RType) (tn : Nat → Name)

/-! ### projection onto the lookup layer: every step, torn receiver sections included -/

theorem doApply_conc (s s' : St) (now : Nat) (cl : List Conc.Lbl)
    (h : doApply cfg V T tn s now = some (s', cl)) : Conc.runL V tn s.conc cl = some s'.conc := by
  unfold doApply at h
  split at h
  · rename_i r items _
    simp only at h
    split at h
    · split at h
      · rename_i c' hc
        cases h
        simp [Conc.runL, hc]
      · cases h
    · cases h; simp [Conc.runL]
  · cases h

/-- section 1 touches neither the lookups nor the cache -/
theorem doAck_frame (s s' : St) (r : Seq.Resp) (h : doAck s r = some s') :
    s'.conc = s.conc ∧ s'.seq.cache = s.seq.cache ∧ s.inflight = none := by
  unfold doAck at h
  split at h
  · cases h
  rename_i hin
  have hin' : s.inflight = none := by simpa using hin
  split at h
  · cases h
  split at h
  · cases h; exact ⟨rfl, rfl, hin'⟩
  split at h
  · cases h
  split at h
  · cases h
  split at h
  · cases h; exact ⟨rfl, rfl, hin'⟩
  split at h
  · cases h; exact ⟨rfl, rfl, hin'⟩
  · cases h; exact ⟨rfl, rfl, hin'⟩

/-- section 2 only computes the update map -/
theorem doFilter_frame (s s' : St) (h : doFilter cfg s = some s') :
    s'.conc = s.conc ∧ s'.seq = s.seq := by
  unfold doFilter at h
  split at h
  · cases h; exact ⟨rfl, rfl⟩
  · cases h

theorem step_conc (s s' : St) (l : Lbl) (e : Emit) (h : step cfg V T tn s l = some (s', e)) :
    Conc.runL V tn s.conc e.conc = some s'.conc := by
  cases l with
  | getStart i now =>
    simp only [step] at h
    split at h
    · rename_i c' q' hc hq; cases h; simp [Conc.runL, hc]
    · cases h
  | getRegister i =>
    simp only [step] at h
    split at h
    · cases h
    · rename_i c' hc
      split at h
      · cases h; simp [Conc.runL, hc]
      · split at h
        · cases h; simp [Conc.runL, hc]
        · cases h
  | getWake i =>
    simp only [step] at h
    split at h
    · rename_i c' hc; cases h; simp [Conc.runL, hc]
    · cases h
  | getDeadline i =>
    simp only [step] at h
    split at h
    · rename_i c' hc; cases h; simp [Conc.runL, hc]
    · cases h
  | getReread i now =>
    simp only [step] at h
    split at h
    · rename_i c' q' hc hq; cases h; simp [Conc.runL, hc]
    · cases h
  | getCleanup i =>
    simp only [step] at h
    split at h
    · rename_i c' hc; cases h; simp [Conc.runL, hc]
    · cases h
  | recvAck r =>
    simp only [step, Option.map_eq_some_iff] at h
    obtain ⟨s1, h1, h2⟩ := h
    cases h2
    simp [Conc.runL, (doAck_frame s _ r h1).1]
  | recvFilter =>
    simp only [step, Option.map_eq_some_iff] at h
    obtain ⟨s1, h1, h2⟩ := h
    cases h2
    simp [Conc.runL, (doFilter_frame cfg s _ h1).1]
  | recvApply now =>
    simp only [step, Option.map_eq_some_iff] at h
    obtain ⟨⟨s1, cl⟩, h1, h2⟩ := h
    cases h2
    exact doApply_conc cfg V T tn s _ now _ h1
  | op o =>
    cases o with
    | push r now =>
      simp only [step] at h
      split at h
      · cases h
      rename_i s1 h1
      split at h
      · cases h; simp [Conc.runL, (doAck_frame s _ r h1).1]
      · split at h
        · cases h
        rename_i s2 h2
        split at h
        · rename_i s3 cl h3
          cases h
          have := doApply_conc cfg V T tn s2 _ now _ h3
          rw [(doFilter_frame cfg s1 s2 h2).1, (doAck_frame s s1 r h1).1] at this
          exact this
        · cases h
    | evict rt n now =>
      simp only [step] at h
      split at h
      · cases h
      split at h
      · split at h
        · rename_i c' hc; cases h; simp [Conc.runL, hc]
        · cases h
      · cases h; simp [Conc.runL]
    | pushUnknown | subscribe _ _ | touch _ _ _ | authFail | reconnectDrain | publish | senderAdopt _ _ | senderSend _ =>
      simp only [step] at h
      split at h
      · cases h
      · split at h
        · cases h; simp [Conc.runL]
        · cases h

theorem runL_append (s : Conc.S) (a b : List Conc.Lbl) :
    Conc.runL V tn s (a ++ b) = (Conc.runL V tn s a).bind (fun s' => Conc.runL V tn s' b) := by
  induction a generalizing s with
  | nil => simp [Conc.runL]
  | cons l ls ih =>
    simp only [List.cons_append, Conc.runL]
    cases Conc.cstep V tn s l with
    | none => simp
    | some s1 => simp [ih]

/-- **every schedule of the composed system is a run of the interleaving model on the lookup side** -/
theorem run_conc (ls : List Lbl) (s s' : St) (e : Emit) (h : run cfg V T tn s ls = some (s', e)) :
    Conc.runL V tn s.conc e.conc = some s'.conc := by
  induction ls generalizing s e with
  | nil => simp only [run] at h; cases h; simp [Conc.runL]
  | cons l ls ih =>
    simp only [run] at h
    split at h
    · cases h
    rename_i s1 e1 h1
    split at h
    · cases h
    rename_i s2 e2 h2
    cases h
    simp only [runL_append, step_conc cfg V T tn s s1 l e1 h1, Option.bind_some]
    exact ih s1 e2 h2

theorem seq_run_append (s : Seq.St) (a b : List Seq.Op) :
    Seq.run cfg s (a ++ b) = (Seq.run cfg s a).bind (fun s' => Seq.run cfg s' b) := by
  induction a generalizing s with
  | nil => simp [Seq.run]
  | cons o os ih =>
    simp only [List.cons_append, Seq.run]
    cases Seq.step cfg s o with
    | none => simp
    | some s1 => simp [ih]

/-! ### both components see one cache -/

/-- the lookups read the cache the client writes -/
def Coupled (s : St) : Prop := ∀ n, s.conc.cache n = s.seq.cache T n

theorem coupled_init : Coupled T init := by intro n; rfl

/-- the steps of a lookup never write the cache (any shape of `Get`) -/
theorem cstep_get_cache (c c' : Conc.S) (l : Conc.Lbl)
    (hl : ∀ full items, l ≠ .deliver full items) (he : ∀ m, l ≠ .evict m)
    (h : Conc.cstep V tn c l = some c') : c'.cache = c.cache := by
  cases l with
  | deliver full items => exact absurd rfl (hl full items)
  | evict m => exact absurd rfl (he m)
  | getStart j =>
    simp only [Conc.cstep] at h
    split at h <;> try (cases h; done)
    split at h <;> cases h <;> rfl
  | getRegister j =>
    simp only [Conc.cstep] at h
    split at h <;> try (cases h; done)
    split at h
    · cases h; rfl
    · split at h <;> cases h <;> rfl
  | getWake j =>
    simp only [Conc.cstep] at h
    split at h <;> try (cases h; done)
    split at h <;> cases h; rfl
  | getDeadline j =>
    simp only [Conc.cstep] at h
    split at h <;> try (cases h; done)
    cases h; rfl
  | getReread j =>
    simp only [Conc.cstep] at h
    split at h <;> try (cases h; done)
    split at h <;> cases h <;> rfl
  | getCleanup j =>
    simp only [Conc.cstep] at h
    split at h <;> try (cases h; done)
    cases h
    simp only [Conc.setPc]
    split
    · rfl
    · split <;> rfl
    · rfl

/-- client operations other than a response and an eviction never write the cache -/
theorem seq_step_cache (q q' : Seq.St) (o : Seq.Op)
    (hp : ∀ r now, o ≠ .push r now) (he : ∀ rt n now, o ≠ .evict rt n now)
    (h : Seq.step cfg q o = some q') : q'.cache = q.cache := by
  cases o with
  | push r now => exact absurd rfl (hp r now)
  | evict rt n now => exact absurd rfl (he rt n now)
  | pushUnknown => simp only [Seq.step] at h; split at h <;> cases h; rfl
  | subscribe rt n =>
    simp only [Seq.step] at h
    split at h
    · split at h <;> cases h; rfl
    · cases h; rfl
  | touch rt n now => simp only [Seq.step] at h; cases h; rfl
  | authFail => simp only [Seq.step] at h; split at h <;> cases h; rfl
  | reconnectDrain => simp only [Seq.step] at h; split at h <;> cases h; rfl
  | publish => simp only [Seq.step] at h; split at h <;> cases h; rfl
  | senderAdopt order upto =>
    simp only [Seq.step] at h
    split at h
    · cases h
    · split at h
      · cases h; rfl
      · split at h
        · cases h
        · split at h <;> cases h <;> rfl
  | senderSend fails =>
    simp only [Seq.step] at h
    split at h
    · cases h
    · split at h
      · cases h; rfl
      · split at h
        · cases h; rfl
        · split at h <;> cases h <;> rfl

theorem doApply_coupled (s s' : St) (now : Nat) (cl : List Conc.Lbl) (hC : Coupled T s)
    (h : doApply cfg V T tn s now = some (s', cl)) : Coupled T s' := by
  unfold doApply at h
  split at h
  · rename_i r items _
    simp only at h
    split at h
    · rename_i hrt
      split at h
      · rename_i c' hc
        cases h
        simp only [Conc.cstep] at hc
        cases hc
        intro n
        simp only [Seq.applyUpdate, hrt, if_true]
        cases Conc.lookupL items n with
        | some v => rfl
        | none => simp only; rw [hC n]
      · cases h
    · rename_i hrt
      cases h
      intro n
      have : ¬ T = r.rt := fun e => hrt e.symm
      simp only [Seq.applyUpdate, this, if_false]
      exact hC n
  · cases h

theorem seq_evict_cache (q q' : Seq.St) (rt : Seq.RType) (n : Name) (now : Nat)
    (h : Seq.step cfg q (.evict rt n now) = some q') :
    ∀ t m, q'.cache t m = if t = rt ∧ m = n then none else q.cache t m := by
  simp only [Seq.step] at h
  split at h
  · cases h
  split at h
  · split at h
    · cases h
    · split at h <;> cases h <;> intro t m <;> rfl
  · cases h

/-- **coupling is preserved by every step**, torn receiver sections included -/
theorem coupled_step (s s' : St) (l : Lbl) (e : Emit) (hC : Coupled T s)
    (h : step cfg V T tn s l = some (s', e)) : Coupled T s' := by
  cases l with
  | getStart i now =>
    simp only [step] at h
    split at h
    · rename_i c' q' hc hq
      cases h
      intro n
      show c'.cache n = q'.cache T n
      rw [cstep_get_cache V tn _ _ _ (by intros; simp) (by intros; simp) hc,
          seq_step_cache cfg _ _ _ (by intros; simp) (by intros; simp) hq]
      exact hC n
    · cases h
  | getReread i now =>
    simp only [step] at h
    split at h
    · rename_i c' q' hc hq
      cases h
      intro n
      show c'.cache n = q'.cache T n
      rw [cstep_get_cache V tn _ _ _ (by intros; simp) (by intros; simp) hc,
          seq_step_cache cfg _ _ _ (by intros; simp) (by intros; simp) hq]
      exact hC n
    · cases h
  | getRegister i =>
    simp only [step] at h
    split at h
    · cases h
    · rename_i c' hc
      have hcc := cstep_get_cache V tn _ _ _ (by intros; simp) (by intros; simp) hc
      split at h
      · cases h
        intro n
        show c'.cache n = s.seq.cache T n
        rw [hcc]; exact hC n
      · split at h
        · rename_i q' hq
          cases h
          intro n
          show c'.cache n = q'.cache T n
          rw [hcc, seq_step_cache cfg _ _ _ (by intros; simp) (by intros; simp) hq]
          exact hC n
        · cases h
  | getWake i =>
    simp only [step] at h
    split at h
    · rename_i c' hc
      cases h
      intro n
      show c'.cache n = s.seq.cache T n
      rw [cstep_get_cache V tn _ _ _ (by intros; simp) (by intros; simp) hc]; exact hC n
    · cases h
  | getDeadline i =>
    simp only [step] at h
    split at h
    · rename_i c' hc
      cases h
      intro n
      show c'.cache n = s.seq.cache T n
      rw [cstep_get_cache V tn _ _ _ (by intros; simp) (by intros; simp) hc]; exact hC n
    · cases h
  | getCleanup i =>
    simp only [step] at h
    split at h
    · rename_i c' hc
      cases h
      intro n
      show c'.cache n = s.seq.cache T n
      rw [cstep_get_cache V tn _ _ _ (by intros; simp) (by intros; simp) hc]; exact hC n
    · cases h
  | recvAck r =>
    simp only [step, Option.map_eq_some_iff] at h
    obtain ⟨s1, h1, h2⟩ := h
    cases h2
    have hf := doAck_frame s _ r h1
    intro n
    rw [hf.1, hf.2.1]; exact hC n
  | recvFilter =>
    simp only [step, Option.map_eq_some_iff] at h
    obtain ⟨s1, h1, h2⟩ := h
    cases h2
    have hf := doFilter_frame cfg s _ h1
    intro n
    rw [hf.1, hf.2]; exact hC n
  | recvApply now =>
    simp only [step, Option.map_eq_some_iff] at h
    obtain ⟨⟨s1, cl⟩, h1, h2⟩ := h
    cases h2
    exact doApply_coupled cfg V T tn s _ now _ hC h1
  | op o =>
    cases o with
    | push r now =>
      simp only [step] at h
      split at h
      · cases h
      rename_i s1 h1
      have hf := doAck_frame s s1 r h1
      have hC1 : Coupled T s1 := by intro n; rw [hf.1, hf.2.1]; exact hC n
      split at h
      · cases h; exact hC1
      · split at h
        · cases h
        rename_i s2 h2
        have hf2 := doFilter_frame cfg s1 s2 h2
        have hC2 : Coupled T s2 := by intro n; rw [hf2.1, hf2.2]; exact hC1 n
        split at h
        · rename_i s3 cl h3
          cases h
          exact doApply_coupled cfg V T tn s2 _ now _ hC2 h3
        · cases h
    | evict rt n now =>
      simp only [step] at h
      split at h
      · cases h
      rename_i q' hq
      have hqc := seq_evict_cache cfg _ _ rt n now hq
      split at h
      · rename_i hcond
        split at h
        · rename_i c' hc
          cases h
          simp only [Conc.cstep] at hc
          split at hc
          · cases hc
          cases hc
          intro m
          show (if m = n then none else s.conc.cache m) = q'.cache T m
          rw [hqc T m]
          by_cases hm : m = n
          · simp [hm, hcond.1]
          · simp only [hm, if_false, and_false]; exact hC m
        · cases h
      · rename_i hcond
        cases h
        intro m
        show s.conc.cache m = q'.cache T m
        rw [hqc T m]
        by_cases hm : T = rt ∧ m = n
        · simp only [hm, and_self, if_true]
          obtain ⟨h1, h2⟩ := hm
          subst h1; subst h2
          have : ¬ (s.conc.cache m).isSome = true := fun hh => hcond ⟨rfl, hh⟩
          cases hcm : s.conc.cache m with
          | none => rfl
          | some v => rw [hcm] at this; simp at this
        · simp only [hm, if_false]; exact hC m
    | pushUnknown | subscribe _ _ | touch _ _ _ | authFail | reconnectDrain | publish | senderAdopt _ _ | senderSend _ =>
      simp only [step] at h
      split at h
      · cases h
      · split at h
        · rename_i q' hq
          cases h
          intro m
          show s.conc.cache m = q'.cache T m
          rw [seq_step_cache cfg _ _ _ (by intros; simp) (by intros; simp) hq]
          exact hC m
        · cases h

theorem coupled_run (ls : List Lbl) (s s' : St) (e : Emit) (hC : Coupled T s)
    (h : run cfg V T tn s ls = some (s', e)) : Coupled T s' := by
  induction ls generalizing s e with
  | nil => simp only [run] at h; cases h; exact hC
  | cons l ls ih =>
    simp only [run] at h
    split at h
    · cases h
    rename_i s1 e1 h1
    split at h
    · cases h
    rename_i s2 e2 h2
    cases h
    exact ih s1 e2 (coupled_step cfg V T tn s s1 l e1 hC h1) h2

/-! ### projection onto the client layer: schedules whose receiver sections are contiguous -/

/-- the three receiver sections back to back are the atomic `push` of `Seq` -/
theorem push_seq (s s' : St) (r : Seq.Resp) (now : Nat) (e : Emit) (hin : s.inflight = none)
    (h : step cfg V T tn s (.op (.push r now)) = some (s', e)) :
    Seq.step cfg s.seq (.push r now) = some s'.seq ∧ s'.inflight = none ∧ e.seq = [.push r now] := by
  simp only [step] at h
  split at h
  · cases h
  rename_i s1 h1
  unfold doAck at h1
  split at h1
  · cases h1
  split at h1
  · cases h1
  rename_i hgo
  split at h1
  · -- never-watched type
    rename_i hw
    cases h1
    simp only [hin] at h
    cases h
    refine ⟨?_, hin, rfl⟩
    simp only [Seq.step, hgo, hw]
    simp
  rename_i ws hw
  split at h1
  · cases h1
  rename_i hnonce
  split at h1
  · cases h1
  rename_i hwire
  split at h1
  · -- undecodable: NACK only
    rename_i hdec
    cases h1
    simp only [hin] at h
    cases h
    refine ⟨?_, rfl, rfl⟩
    simp only [Seq.step, hgo, hw, hnonce, hwire, hdec]
    simp
  rename_i hdec
  have hdec' : r.decodes = true := by simpa using hdec
  split at h1
  · -- name table
    rename_i hnds
    cases h1
    simp only [hin] at h
    cases h
    refine ⟨?_, rfl, rfl⟩
    simp only [Seq.step, hgo, hw, hnonce, hwire, hdec']
    simp [hnds]
  rename_i hnds
  cases h1
  simp only at h
  -- filter + apply
  simp only [doFilter] at h
  simp only [doApply] at h
  have hfun : Conc.lookupL (itemsOf cfg (Seq.ack s.seq r true s.seq.recvStream) r)
      = Seq.filtered cfg (Seq.ack s.seq r true s.seq.recvStream) r := by
    funext n; exact lookupL_itemsOf cfg _ r n
  split at h
  · rename_i s3 cl h3
    cases h
    split at h3
    · split at h3
      · cases h3
        refine ⟨?_, rfl, rfl⟩
        simp only [Seq.step, hgo, hw, hnonce, hwire, hdec', hnds, hfun]
        simp
      · cases h3
    · cases h3
      refine ⟨?_, rfl, rfl⟩
      simp only [Seq.step, hgo, hw, hnonce, hwire, hdec', hnds, hfun]
      simp
  · cases h

theorem step_seq (s s' : St) (l : Lbl) (e : Emit) (hin : s.inflight = none) (hl : fine l = false)
    (h : step cfg V T tn s l = some (s', e)) : Seq.run cfg s.seq e.seq = some s'.seq ∧ s'.inflight = none := by
  cases l with
  | recvAck r => cases hl
  | recvFilter => cases hl
  | recvApply now => cases hl
  | getStart i now =>
    simp only [step] at h
    split at h
    · rename_i c' q' hc hq; cases h; exact ⟨by simp [Seq.run, hq], hin⟩
    · cases h
  | getReread i now =>
    simp only [step] at h
    split at h
    · rename_i c' q' hc hq; cases h; exact ⟨by simp [Seq.run, hq], hin⟩
    · cases h
  | getRegister i =>
    simp only [step] at h
    split at h
    · cases h
    · split at h
      · cases h; exact ⟨by simp [Seq.run], hin⟩
      · split at h
        · rename_i q' hq; cases h; exact ⟨by simp [Seq.run, hq], hin⟩
        · cases h
  | getWake i =>
    simp only [step] at h
    split at h
    · cases h; exact ⟨by simp [Seq.run], hin⟩
    · cases h
  | getDeadline i =>
    simp only [step] at h
    split at h
    · cases h; exact ⟨by simp [Seq.run], hin⟩
    · cases h
  | getCleanup i =>
    simp only [step] at h
    split at h
    · cases h; exact ⟨by simp [Seq.run], hin⟩
    · cases h
  | op o =>
    cases o with
    | push r now =>
      obtain ⟨h1, h2, h3⟩ := push_seq cfg V T tn s s' r now e hin h
      rw [h3]
      exact ⟨by simp [Seq.run, h1], h2⟩
    | evict rt n now =>
      simp only [step] at h
      split at h
      · cases h
      rename_i q' hq
      split at h
      · split at h
        · cases h; exact ⟨by simp [Seq.run, hq], hin⟩
        · cases h
      · cases h; exact ⟨by simp [Seq.run, hq], hin⟩
    | pushUnknown | subscribe _ _ | touch _ _ _ | authFail | reconnectDrain | publish | senderAdopt _ _ | senderSend _ =>
      simp only [step] at h
      split at h
      · cases h
      · split at h
        · rename_i q' hq; cases h; exact ⟨by simp [Seq.run, hq], hin⟩
        · cases h

/-- **every schedule whose receiver sections are contiguous is a history of the client state machine** — with any
number of lookups of type `T` running concurrently, at the granularity of `Get`'s lock sections -/
theorem run_seq (ls : List Lbl) (s s' : St) (e : Emit) (hin : s.inflight = none) (ha : atomic ls = true)
    (h : run cfg V T tn s ls = some (s', e)) : Seq.run cfg s.seq e.seq = some s'.seq ∧ s'.inflight = none := by
  induction ls generalizing s e with
  | nil => simp only [run] at h; cases h; exact ⟨by simp [Seq.run], hin⟩
  | cons l ls ih =>
    simp only [atomic, List.all_cons, Bool.and_eq_true, Bool.not_eq_eq_eq_not, Bool.not_true] at ha
    simp only [run] at h
    split at h
    · cases h
    rename_i s1 e1 h1
    split at h
    · cases h
    rename_i s2 e2 h2
    cases h
    obtain ⟨hr1, hin1⟩ := step_seq cfg V T tn s s1 l e1 hin ha.1 h1
    obtain ⟨hr2, hin2⟩ := ih s1 e2 hin1 (by simpa [atomic] using ha.2) h2
    exact ⟨by simp [seq_run_append, hr1, hr2], hin2⟩

/-- every step is at most one step of the interleaving model -/
theorem step_emit_len (s s' : St) (l : Lbl) (e : Emit) (h : step cfg V T tn s l = some (s', e)) :
    e.conc.length ≤ 1 := by
  cases l with
  | getStart i now => simp only [step] at h; split at h <;> cases h; simp
  | getReread i now => simp only [step] at h; split at h <;> cases h; simp
  | getRegister i =>
    simp only [step] at h
    split at h
    · cases h
    · split at h
      · cases h; simp
      · split at h <;> cases h; simp
  | getWake i => simp only [step] at h; split at h <;> cases h; simp
  | getDeadline i => simp only [step] at h; split at h <;> cases h; simp
  | getCleanup i => simp only [step] at h; split at h <;> cases h; simp
  | recvAck r =>
    simp only [step, Option.map_eq_some_iff] at h
    obtain ⟨s1, _, h2⟩ := h
    cases h2; simp
  | recvFilter =>
    simp only [step, Option.map_eq_some_iff] at h
    obtain ⟨s1, _, h2⟩ := h
    cases h2; simp
  | recvApply now =>
    simp only [step, Option.map_eq_some_iff] at h
    obtain ⟨⟨s1, cl⟩, h1, h2⟩ := h
    cases h2
    unfold doApply at h1
    split at h1
    · simp only at h1
      split at h1
      · split at h1 <;> cases h1; simp
      · cases h1; simp
    · cases h1
  | op o =>
    cases o with
    | push r now =>
      simp only [step] at h
      split at h
      · cases h
      split at h
      · cases h; simp
      · split at h
        · cases h
        split at h
        · rename_i s2 _ s3 cl h3
          cases h
          unfold doApply at h3
          split at h3
          · simp only at h3
            split at h3
            · split at h3 <;> cases h3; simp
            · cases h3; simp
          · cases h3
        · cases h
    | evict rt n now =>
      simp only [step] at h
      split at h
      · cases h
      split at h
      · split at h <;> cases h; simp
      · cases h; simp
    | pushUnknown | subscribe _ _ | touch _ _ _ | authFail | reconnectDrain | publish | senderAdopt _ _ | senderSend _ =>
      simp only [step] at h
      split at h
      · cases h
      · split at h <;> cases h; simp

/-- a step either leaves the lookup side alone or is exactly one step of the interleaving model -/
theorem step_conc_one (s s' : St) (l : Lbl) (e : Emit) (h : step cfg V T tn s l = some (s', e)) :
    (e.conc = [] ∧ s'.conc = s.conc) ∨ ∃ l', e.conc = [l'] ∧ Conc.cstep V tn s.conc l' = some s'.conc := by
  have hlen := step_emit_len cfg V T tn s s' l e h
  have hrun := step_conc cfg V T tn s s' l e h
  match hc : e.conc with
  | [] =>
    rw [hc] at hrun
    simp only [Conc.runL, Option.some.injEq] at hrun
    exact Or.inl ⟨rfl, hrun.symm⟩
  | [l'] =>
    rw [hc] at hrun
    simp only [Conc.runL] at hrun
    split at hrun
    · rename_i c1 hc1
      simp only [Option.some.injEq] at hrun
      exact Or.inr ⟨l', rfl, by rw [hc1, hrun]⟩
    · cases hrun
  | _ :: _ :: _ => rw [hc] at hlen; simp at hlen

end XdsVerif.Sys
