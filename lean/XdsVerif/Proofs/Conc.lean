import XdsVerif.Model.Conc
/-! Invariant of the `Get` / `UpdateResource` interleavings for the variant the source has after the repairs
(re-check under the lock, last-waiter cleanup, checked re-read). Ported from DESIGN appendix E.2 and extended
with the waiter count. -/
namespace XdsVerif.Conc

def attached (s : S) (i nf : Nat) : Prop := s.pc i = .waiting nf ∨ s.pc i = .timedOut nf

structure Inv (tn : Nat → Name) (s : S) : Prop where
  fresh   : ∀ n nf, s.notif n = some nf → nf < s.nextNf
  inj     : ∀ n m nf, s.notif n = some nf → s.notif m = some nf → n = m
  open_   : ∀ n nf, s.notif n = some nf → s.closed nf = false
  nocache : ∀ n nf, s.notif n = some nf → s.cache n = none
  /-- **WaitInv**: a thread waiting on an open notifier is reachable from the table under its own name -/
  wait    : ∀ i nf, s.pc i = .waiting nf → s.closed nf = false → s.notif (tn i) = some nf
  waitlt  : ∀ i nf, attached s i nf → nf < s.nextNf
  closedlt : ∀ nf, s.closed nf = true → nf < s.nextNf
  /-- the waiter count stored in a notifier bounds the number of threads attached to it -/
  cnt     : ∀ nf (L : List Nat), L.Nodup → (∀ i ∈ L, attached s i nf) → L.length ≤ s.waiters nf

theorem inv_init (tn) : Inv tn init := by
  constructor <;> try (simp [init, attached]; done)
  intro nf L _ h
  cases L with
  | nil => simp
  | cons a l => have := h a (by simp); simp [init, attached] at this

theorem lookupL_some_mem {items : List (Name × Val)} {n : Name} {v : Val}
    (h : lookupL items n = some v) : n ∈ items.map Prod.fst := by
  induction items generalizing v with
  | nil => simp [lookupL] at h
  | cons kv rest ih =>
    obtain ⟨k, w⟩ := kv
    simp only [lookupL] at h
    cases hl : lookupL rest n with
    | some u => simp [ih hl]
    | none =>
      rw [hl] at h
      by_cases hk : k = n
      · simp [hk]
      · simp [hk] at h

theorem lookupL_isSome_of_mem {items : List (Name × Val)} {n : Name}
    (h : n ∈ items.map Prod.fst) : ∃ v, lookupL items n = some v := by
  induction items with
  | nil => simp at h
  | cons kv rest ih =>
    obtain ⟨k, w⟩ := kv
    simp only [lookupL]
    cases hl : lookupL rest n with
    | some u => exact ⟨u, rfl⟩
    | none =>
      simp only [List.map_cons, List.mem_cons] at h
      rcases h with h | h
      · simp [h]
      · obtain ⟨v, hv⟩ := ih h; rw [hv] at hl; cases hl

/-- changing only thread `i`'s pc, from a pc that is not attached to a pc that is not attached, preserves `Inv` -/
theorem inv_setPc_detached {tn : Nat → Name} {s : S} (hI : Inv tn s) (i : Nat) (p : PC)
    (hp : ∀ nf, p ≠ .waiting nf ∧ p ≠ .timedOut nf) : Inv tn (setPc s i p) := by
  have hatt : ∀ j nf, attached (setPc s i p) j nf → attached s j nf := by
    intro j nf h
    unfold attached setPc at h
    simp only at h
    by_cases hj : j = i
    · simp only [hj, if_true] at h
      rcases h with h | h
      · exact absurd h (hp nf).1
      · exact absurd h (hp nf).2
    · simp only [hj, if_false] at h; exact h
  constructor
  · exact hI.fresh
  · exact hI.inj
  · exact hI.open_
  · exact hI.nocache
  · intro j nf hj hc
    have : s.pc j = .waiting nf := by
      simp only [setPc] at hj
      split at hj
      · exact absurd hj (hp nf).1
      · exact hj
    exact hI.wait j nf this hc
  · intro j nf h; exact hI.waitlt j nf (hatt j nf h)
  · exact hI.closedlt
  · intro nf L hd h; exact hI.cnt nf L hd (fun j hj => hatt j nf (h j hj))


theorem nodup_length_le_one (L : List Nat) (i : Nat) (hd : L.Nodup) (h : ∀ j ∈ L, j = i) : L.length ≤ 1 := by
  cases L with
  | nil => simp
  | cons a l =>
    cases l with
    | nil => simp
    | cons b l' =>
      have ha := h a (by simp)
      have hb := h b (by simp)
      simp only [List.nodup_cons, List.mem_cons, not_or] at hd
      exact absurd (ha.trans hb.symm) hd.1.1

theorem inv_step (tn : Nat → Name) (s s' : S) (l : Lbl) (hI : Inv tn s)
    (hs : cstep expectedVariant tn s l = some s') : Inv tn s' := by
  cases l with
  | getStart i =>
    simp only [cstep] at hs
    split at hs <;> try (cases hs; done)
    split at hs <;> (cases hs) <;> exact inv_setPc_detached hI _ _ (by simp)
  | getWake i =>
    simp only [cstep] at hs
    split at hs <;> try (cases hs; done)
    rename_i nf hpc
    split at hs
    · cases hs
      -- the thread leaves the notifier (without touching the count): only fewer threads are attached
      constructor
      · exact hI.fresh
      · exact hI.inj
      · exact hI.open_
      · exact hI.nocache
      · intro j nf' hj hc
        simp only [setPc] at hj
        split at hj
        · cases hj
        · exact hI.wait j nf' hj hc
      · intro j nf' h
        apply hI.waitlt j nf'
        unfold attached setPc at h
        simp only at h
        split at h
        · rcases h with h | h <;> cases h
        · exact h
      · exact hI.closedlt
      · intro nf' L hd h
        apply hI.cnt nf' L hd
        intro j hj
        have := h j hj
        unfold attached setPc at this
        simp only at this
        split at this
        · rcases this with h | h <;> cases h
        · exact this
    · cases hs
  | getDeadline i =>
    simp only [cstep] at hs
    split at hs <;> try (cases hs; done)
    rename_i nf hpc
    cases hs
    have hatt : ∀ j nf', attached (setPc s i (.timedOut nf)) j nf' → attached s j nf' := by
      intro j nf' h
      unfold attached setPc at h
      simp only at h
      by_cases hj : j = i
      · simp only [hj, if_true] at h
        rcases h with h | h
        · cases h
        · cases h; subst hj; exact Or.inl hpc
      · simp only [hj, if_false] at h; exact h
    constructor
    · exact hI.fresh
    · exact hI.inj
    · exact hI.open_
    · exact hI.nocache
    · intro j nf' hj hc
      simp only [setPc] at hj
      split at hj
      · cases hj
      · exact hI.wait j nf' hj hc
    · intro j nf' h; exact hI.waitlt j nf' (hatt j nf' h)
    · exact hI.closedlt
    · intro nf' L hd h; exact hI.cnt nf' L hd (fun j hj => hatt j nf' (h j hj))
  | getReread i =>
    simp only [cstep] at hs
    split at hs <;> try (cases hs; done)
    split at hs <;> (cases hs) <;> exact inv_setPc_detached hI _ _ (by simp)
  | evict n =>
    simp only [cstep] at hs
    split at hs
    · cases hs
    cases hs
    constructor
    · exact hI.fresh
    · exact hI.inj
    · exact hI.open_
    · intro m nf hm
      show (if m = n then none else s.cache m) = none
      split
      · rfl
      · exact hI.nocache m nf hm
    · exact hI.wait
    · exact hI.waitlt
    · exact hI.closedlt
    · exact hI.cnt
  | deliver full items =>
    simp only [cstep] at hs
    cases hs
    constructor
    · intro n nf h
      simp only at h
      split at h
      · cases h
      · exact hI.fresh n nf h
    · intro n m nf h1 h2
      simp only at h1 h2
      split at h1
      · cases h1
      · split at h2
        · cases h2
        · exact hI.inj n m nf h1 h2
    · intro n nf h
      simp only at h ⊢
      split at h
      · cases h
      · rename_i hl
        have ho := hI.open_ n nf h
        simp only [ho, Bool.false_or, decide_eq_false_iff_not]
        rintro ⟨m, hm, hmn⟩
        have := hI.inj n m nf h hmn
        subst this
        obtain ⟨v, hv⟩ := lookupL_isSome_of_mem hm
        rw [hv] at hl
        cases hl
    · intro n nf h
      simp only at h ⊢
      split at h
      · cases h
      · split
        · rfl
        · exact hI.nocache n nf h
    · intro j nf hj hcl
      simp only at hj hcl ⊢
      simp only [Bool.or_eq_false_iff, decide_eq_false_iff_not] at hcl
      obtain ⟨hc1, hc2⟩ := hcl
      have hw := hI.wait j nf hj hc1
      split
      · rename_i v hv
        exact absurd ⟨tn j, lookupL_some_mem hv, hw⟩ hc2
      · exact hw
    · exact hI.waitlt
    · intro nf h
      simp only [Bool.or_eq_true, decide_eq_true_eq] at h
      rcases h with h | ⟨m, _, hm⟩
      · exact hI.closedlt nf h
      · exact hI.fresh m nf hm
    · exact hI.cnt
  | getRegister i =>
    simp only [cstep, expectedVariant, if_true] at hs
    split at hs <;> try (cases hs; done)
    rename_i hpc
    cases hc : s.cache (tn i) with
    | some v =>
      simp only [hc] at hs; cases hs
      exact inv_setPc_detached hI _ _ (by simp)
    | none =>
      simp only [hc] at hs
      cases hn : s.notif (tn i) with
      | some nf =>
        simp only [hn] at hs; cases hs
        have hatt : ∀ j nf', j ≠ i → attached (setPc (attachExisting s nf) i (.waiting nf)) j nf' → attached s j nf' := by
          intro j nf' hj h
          unfold attached setPc attachExisting at h
          simp only [hj, if_false] at h
          exact h
        have hself : ∀ nf', attached (setPc (attachExisting s nf) i (.waiting nf)) i nf' → nf' = nf := by
          intro nf' h
          unfold attached setPc at h
          simp only [if_true] at h
          rcases h with h | h <;> cases h; rfl
        constructor
        · exact hI.fresh
        · exact hI.inj
        · exact hI.open_
        · exact hI.nocache
        · intro j nf' hj hcl
          simp only [setPc] at hj
          split at hj
          · rename_i hji; cases hj; rw [hji]; exact hn
          · exact hI.wait j nf' hj hcl
        · intro j nf' h
          by_cases hj : j = i
          · subst hj; rw [hself nf' h]; exact hI.fresh _ _ hn
          · exact hI.waitlt j nf' (hatt j nf' hj h)
        · exact hI.closedlt
        · intro nf' L hd h
          show L.length ≤ (if nf' = nf then s.waiters nf + 1 else s.waiters nf')
          by_cases hi : i ∈ L
          · have hinf : nf' = nf := hself nf' (h i hi)
            subst hinf
            simp only [if_true]
            have hle := hI.cnt nf' (L.erase i) (hd.erase i) (by
              intro j hj
              have hjL := List.mem_of_mem_erase hj
              have hji : j ≠ i := by
                intro e; subst e
                exact (List.Nodup.not_mem_erase hd) hj
              exact hatt j nf' hji (h j hjL))
            rw [List.length_erase_of_mem hi] at hle
            omega
          · have hle := hI.cnt nf' L hd (fun j hj => hatt j nf' (by intro e; subst e; exact hi hj) (h j hj))
            by_cases hq : nf' = nf
            · subst hq; simp only [if_true]; omega
            · simp only [hq, if_false]; exact hle
      | none =>
        simp only [hn] at hs; cases hs
        have hatt : ∀ j nf', j ≠ i → attached (setPc (attachNew s (tn i)) i (.waiting s.nextNf)) j nf' → attached s j nf' := by
          intro j nf' hj h
          unfold attached setPc attachNew at h
          simp only [hj, if_false] at h
          exact h
        have hself : ∀ nf', attached (setPc (attachNew s (tn i)) i (.waiting s.nextNf)) i nf' → nf' = s.nextNf := by
          intro nf' h
          unfold attached setPc at h
          simp only [if_true] at h
          rcases h with h | h <;> cases h; rfl
        constructor
        · intro n nf h
          simp only [setPc, attachNew] at h
          split at h
          · cases h; exact Nat.lt_succ_self _
          · exact Nat.lt_succ_of_lt (hI.fresh n nf h)
        · intro n m nf h1 h2
          simp only [setPc, attachNew] at h1 h2
          split at h1 <;> split at h2
          · rename_i a b; rw [a, b]
          · cases h1; exact absurd (hI.fresh _ _ h2) (Nat.lt_irrefl _)
          · cases h2; exact absurd (hI.fresh _ _ h1) (Nat.lt_irrefl _)
          · exact hI.inj n m nf h1 h2
        · intro n nf h
          simp only [setPc, attachNew] at h ⊢
          split at h
          · cases h
            cases hcl : s.closed s.nextNf with
            | false => rfl
            | true => exact absurd (hI.closedlt _ hcl) (Nat.lt_irrefl _)
          · exact hI.open_ n nf h
        · intro n nf h
          simp only [setPc, attachNew] at h ⊢
          split at h
          · rename_i a; rw [a]; exact hc
          · exact hI.nocache n nf h
        · intro j nf hj hcl
          simp only [setPc, attachNew] at hj hcl ⊢
          split at hj
          · rename_i hji; cases hj; simp [hji]
          · have := hI.wait j nf hj hcl
            split
            · rename_i a; rw [a] at this; rw [hn] at this; cases this
            · exact this
        · intro j nf' h
          by_cases hj : j = i
          · subst hj; rw [hself nf' h]; exact Nat.lt_succ_self _
          · exact Nat.lt_succ_of_lt (hI.waitlt j nf' (hatt j nf' hj h))
        · intro nf h
          exact Nat.lt_succ_of_lt (hI.closedlt nf h)
        · intro nf' L hd h
          show L.length ≤ (if nf' = s.nextNf then 1 else s.waiters nf')
          by_cases hnf : nf' = s.nextNf
          · simp only [hnf, if_true]
            apply nodup_length_le_one L i hd
            intro j hj
            by_cases hji : j = i
            · exact hji
            · exfalso
              have := hI.waitlt j nf' (hatt j nf' hji (h j hj))
              omega
          · simp only [hnf, if_false]
            apply hI.cnt nf' L hd
            intro j hj
            by_cases hji : j = i
            · subst hji; exact absurd (hself nf' (h j hj)) hnf
            · exact hatt j nf' hji (h j hj)
  | getCleanup i =>
    simp only [cstep, expectedVariant] at hs
    split at hs <;> try (cases hs; done)
    rename_i nf hpc
    cases hs
    by_cases hent : s.notif (tn i) = some nf
    · simp only [hent, if_true]
      have hatt : ∀ j nf', attached (setPc (detachLast s (tn i) nf) i (.done .err)) j nf' → j ≠ i ∧ attached s j nf' := by
        intro j nf' h
        unfold attached setPc detachLast at h
        simp only at h
        by_cases hj : j = i
        · simp only [hj, if_true] at h; rcases h with h | h <;> cases h
        · simp only [hj, if_false] at h; exact ⟨hj, h⟩
      have hnotif : ∀ n nf', (detachLast s (tn i) nf).notif n = some nf' → s.notif n = some nf' := by
        intro n nf' h
        simp only [detachLast] at h
        split at h
        · cases h
        · exact h
      constructor
      · intro n nf' h; exact hI.fresh n nf' (hnotif n nf' h)
      · intro n m nf' h1 h2; exact hI.inj n m nf' (hnotif n nf' h1) (hnotif m nf' h2)
      · intro n nf' h; exact hI.open_ n nf' (hnotif n nf' h)
      · intro n nf' h; exact hI.nocache n nf' (hnotif n nf' h)
      · -- **one caller's timeout affects only that caller**
        intro j nf' hj hcl
        simp only [setPc] at hj
        split at hj
        · cases hj
        · rename_i hji
          have hw := hI.wait j nf' hj hcl
          show (if tn j = tn i ∧ s.waiters nf - 1 = 0 then none else s.notif (tn j)) = some nf'
          by_cases hsame : tn j = tn i
          · rw [hsame] at hw
            rw [hent] at hw
            cases hw
            have h2 := hI.cnt nf [j, i] (by simp [hji]) (by
              intro k hk
              simp only [List.mem_cons, List.not_mem_nil, or_false] at hk
              rcases hk with rfl | rfl
              · exact Or.inl hj
              · exact Or.inr hpc)
            simp only [List.length_cons, List.length_nil] at h2
            have : ¬ (s.waiters nf - 1 = 0) := by omega
            simp only [hsame, this, and_false, if_false]
            exact hent
          · simp only [hsame, false_and, if_false]; exact hw
      · intro j nf' h; exact hI.waitlt j nf' (hatt j nf' h).2
      · exact hI.closedlt
      · intro nf' L hd h
        show L.length ≤ (if nf' = nf then s.waiters nf - 1 else s.waiters nf')
        have hiL : i ∉ L := fun hi => (hatt i nf' (h i hi)).1 rfl
        by_cases hnf : nf' = nf
        · subst hnf
          simp only [if_true]
          have := hI.cnt nf' (i :: L) (by simp [hiL, hd]) (by
            intro k hk
            simp only [List.mem_cons] at hk
            rcases hk with rfl | hk
            · exact Or.inr hpc
            · exact (hatt k nf' (h k hk)).2)
          simp only [List.length_cons] at this
          omega
        · simp only [hnf, if_false]
          exact hI.cnt nf' L hd (fun j hj => (hatt j nf' (h j hj)).2)
    · simp only [hent, if_false]
      exact inv_setPc_detached hI _ _ (by simp)

/-- every reachable state satisfies `Inv` -/
theorem inv_reach (tn : Nat → Name) (ls : List Lbl) (s s' : S) (hI : Inv tn s)
    (h : runL expectedVariant tn s ls = some s') : Inv tn s' := by
  induction ls generalizing s with
  | nil => simp [runL] at h; subst h; exact hI
  | cons l ls ih =>
    simp only [runL] at h
    split at h
    · rename_i s1 h1; exact ih s1 (inv_step tn s s1 l hI h1) h
    · cases h

/-! ### no lost wake-up over whole executions -/

/-- steps that neither fire thread `i`'s deadline nor remove the name it looks up -/
def harmless (tn : Nat → Name) (i : Nat) : Lbl → Bool
  | .getDeadline j => j != i
  | .evict n => n != tn i
  | .deliver full items => !full || (lookupL items (tn i)).isSome
  | _ => true

/-- thread `i` has been supplied: the resource is in the cache, and the thread is not (and cannot get) stuck -/
structure Supplied (tn : Nat → Name) (i : Nat) (s : S) : Prop where
  cached : (s.cache (tn i)).isSome = true
  notStart : s.pc i ≠ .start
  woken : ∀ nf, s.pc i = .waiting nf → s.closed nf = true
  noTimeout : ∀ nf, s.pc i ≠ .timedOut nf
  noErr : s.pc i ≠ .done .err
  noNil : s.pc i ≠ .done .nilnil

theorem supplied_step (tn : Nat → Name) (i : Nat) (s s' : S) (l : Lbl) (hG : Supplied tn i s)
    (hl : harmless tn i l = true) (hs : cstep expectedVariant tn s l = some s') : Supplied tn i s' := by
  obtain ⟨v, hv⟩ := Option.isSome_iff_exists.mp hG.cached
  cases l with
  | getStart j =>
    simp only [cstep] at hs
    split at hs <;> try (cases hs; done)
    rename_i hpj
    have hji : j ≠ i := by intro e; subst e; exact hG.notStart hpj
    have hpc : ∀ p, (setPc s j p).pc i = s.pc i := by intro p; simp [setPc, Ne.symm hji]
    split at hs <;> cases hs <;>
      exact ⟨hG.cached, by rw [hpc]; exact hG.notStart, by intro nf h; rw [hpc] at h; exact hG.woken nf h,
             by intro nf; rw [hpc]; exact hG.noTimeout nf, by rw [hpc]; exact hG.noErr, by rw [hpc]; exact hG.noNil⟩
  | getRegister j =>
    simp only [cstep, expectedVariant, if_true] at hs
    split at hs <;> try (cases hs; done)
    rename_i hpj
    by_cases hji : j = i
    · subst hji
      simp only [hv] at hs
      cases hs
      exact ⟨hG.cached, by simp [setPc], by intro nf h; simp [setPc] at h, by intro nf; simp [setPc],
             by simp [setPc], by simp [setPc]⟩
    · have hij : ¬ i = j := fun e => hji e.symm
      split at hs
      · cases hs
        exact ⟨hG.cached, by simp only [setPc, hij, if_false]; exact hG.notStart,
               by intro nf h; simp only [setPc, hij, if_false] at h; exact hG.woken nf h,
               by intro nf; simp only [setPc, hij, if_false]; exact hG.noTimeout nf,
               by simp only [setPc, hij, if_false]; exact hG.noErr, by simp only [setPc, hij, if_false]; exact hG.noNil⟩
      · split at hs <;> cases hs <;>
          exact ⟨hG.cached, by simp only [setPc, attachExisting, attachNew, hij, if_false]; exact hG.notStart,
                 by intro nf h; simp only [setPc, attachExisting, attachNew, hij, if_false] at h; exact hG.woken nf h,
                 by intro nf; simp only [setPc, attachExisting, attachNew, hij, if_false]; exact hG.noTimeout nf,
                 by simp only [setPc, attachExisting, attachNew, hij, if_false]; exact hG.noErr,
                 by simp only [setPc, attachExisting, attachNew, hij, if_false]; exact hG.noNil⟩
  | getWake j =>
    simp only [cstep] at hs
    split at hs <;> try (cases hs; done)
    split at hs <;> try (cases hs; done)
    cases hs
    by_cases hji : j = i
    · subst hji
      exact ⟨hG.cached, by simp [setPc], by intro nf h; simp [setPc] at h, by intro nf; simp [setPc],
             by simp [setPc], by simp [setPc]⟩
    · have hij : ¬ i = j := fun e => hji e.symm
      exact ⟨hG.cached, by simp only [setPc, hij, if_false]; exact hG.notStart,
             by intro nf h; simp only [setPc, hij, if_false] at h; exact hG.woken nf h,
             by intro nf; simp only [setPc, hij, if_false]; exact hG.noTimeout nf,
             by simp only [setPc, hij, if_false]; exact hG.noErr, by simp only [setPc, hij, if_false]; exact hG.noNil⟩
  | getDeadline j =>
    simp only [harmless, bne_iff_ne, ne_eq] at hl
    simp only [cstep] at hs
    split at hs <;> try (cases hs; done)
    cases hs
    have hij : ¬ i = j := fun e => hl e.symm
    exact ⟨hG.cached, by simp only [setPc, hij, if_false]; exact hG.notStart,
           by intro nf h; simp only [setPc, hij, if_false] at h; exact hG.woken nf h,
           by intro nf; simp only [setPc, hij, if_false]; exact hG.noTimeout nf,
           by simp only [setPc, hij, if_false]; exact hG.noErr, by simp only [setPc, hij, if_false]; exact hG.noNil⟩
  | getReread j =>
    simp only [cstep] at hs
    split at hs <;> try (cases hs; done)
    by_cases hji : j = i
    · subst hji
      simp only [hv] at hs
      cases hs
      exact ⟨hG.cached, by simp [setPc], by intro nf h; simp [setPc] at h, by intro nf; simp [setPc],
             by simp [setPc], by simp [setPc]⟩
    · have hij : ¬ i = j := fun e => hji e.symm
      split at hs <;> cases hs <;>
        exact ⟨hG.cached, by simp only [setPc, hij, if_false]; exact hG.notStart,
               by intro nf h; simp only [setPc, hij, if_false] at h; exact hG.woken nf h,
               by intro nf; simp only [setPc, hij, if_false]; exact hG.noTimeout nf,
               by simp only [setPc, hij, if_false]; exact hG.noErr, by simp only [setPc, hij, if_false]; exact hG.noNil⟩
  | getCleanup j =>
    simp only [cstep, expectedVariant] at hs
    split at hs <;> try (cases hs; done)
    rename_i nf hpj
    have hji : j ≠ i := by intro e; subst e; exact hG.noTimeout nf hpj
    have hij : ¬ i = j := fun e => hji e.symm
    cases hs
    refine ⟨?_, ?_, ?_, ?_, ?_, ?_⟩
    · simp only [setPc]; split <;> exact hG.cached
    · simp only [setPc, hij, if_false]; split <;> exact hG.notStart
    · intro nf' h
      simp only [setPc, hij, if_false] at h ⊢
      split at h <;> (split <;> exact hG.woken nf' h)
    · intro nf'; simp only [setPc, hij, if_false]; split <;> exact hG.noTimeout nf'
    · simp only [setPc, hij, if_false]; split <;> exact hG.noErr
    · simp only [setPc, hij, if_false]; split <;> exact hG.noNil
  | evict n =>
    simp only [harmless, bne_iff_ne, ne_eq] at hl
    simp only [cstep] at hs
    split at hs
    · cases hs
    cases hs
    have : ¬ tn i = n := fun e => hl e.symm
    exact ⟨by simp only [this, if_false]; exact hG.cached, hG.notStart, hG.woken, hG.noTimeout, hG.noErr, hG.noNil⟩
  | deliver full items =>
    simp only [harmless, Bool.or_eq_true, Bool.not_eq_eq_eq_not, Bool.not_true] at hl
    simp only [cstep] at hs
    cases hs
    refine ⟨?_, hG.notStart, ?_, hG.noTimeout, hG.noErr, hG.noNil⟩
    · show (match lookupL items (tn i) with | some v => some v | none => if full = true then none else s.cache (tn i)).isSome = true
      cases hlk : lookupL items (tn i) with
      | some w => rfl
      | none =>
        rcases hl with hf | hsome
        · simp only [hf]; exact hG.cached
        · rw [hlk] at hsome; cases hsome
    · intro nf h
      show (s.closed nf || decide (∃ n ∈ items.map Prod.fst, s.notif n = some nf)) = true
      rw [hG.woken nf h]; rfl

theorem supplied_run (tn : Nat → Name) (i : Nat) (ls : List Lbl) (s s' : S) (hG : Supplied tn i s)
    (hl : ls.all (harmless tn i) = true) (h : runL expectedVariant tn s ls = some s') : Supplied tn i s' := by
  induction ls generalizing s with
  | nil => simp only [runL] at h; cases h; exact hG
  | cons l ls ih =>
    simp only [List.all_cons, Bool.and_eq_true] at hl
    simp only [runL] at h
    split at h
    · rename_i s1 h1; exact ih s1 (supplied_step tn i s s1 l hG hl.1 h1) hl.2 h
    · cases h

/-- the delivery itself supplies every unfinished, started thread of that name whose deadline has not fired -/
theorem deliver_supplies (tn : Nat → Name) (i : Nat) (s s' : S) (full : Bool) (items : List (Name × Val))
    (hI : Inv tn s) (hns : s.pc i ≠ .start) (hnt : ∀ nf, s.pc i ≠ .timedOut nf) (hnd : ∀ r, s.pc i ≠ .done r)
    (hmem : tn i ∈ items.map Prod.fst)
    (hs : cstep expectedVariant tn s (.deliver full items) = some s') : Supplied tn i s' := by
  simp only [cstep] at hs
  cases hs
  obtain ⟨v, hv⟩ := lookupL_isSome_of_mem hmem
  refine ⟨by simp [hv], hns, ?_, hnt, hnd _, hnd _⟩
  intro nf hw
  show (s.closed nf || decide (∃ n ∈ items.map Prod.fst, s.notif n = some nf)) = true
  cases hc : s.closed nf with
  | true => rfl
  | false =>
    have := hI.wait i nf hw hc
    simp only [Bool.false_or, decide_eq_true_eq]
    exact ⟨tn i, hmem, this⟩

end XdsVerif.Conc
