import XdsVerif.Proofs.Stream
/-!
# Requests carry the interest set (C03): invariants of every reachable state
-/
namespace XdsVerif.Seq

/-- names of the last request of type `rt` in a list of requests -/
def lastNames (rt : RType) (l : List Req) : Option (List Name) :=
  ((l.filter (fun q => q.rt = rt)).getLast?).map (·.names)

/-- the requests sent on stream `k`, in order -/
def onStream (k : Nat) (w : List (Nat × Req)) : List Req := (w.filter (fun kq => kq.1 = k)).map (·.2)

theorem lastNames_append (rt : RType) (a b : List Req) :
    lastNames rt (a ++ b) = match lastNames rt b with
      | some x => some x
      | none => lastNames rt a := by
  unfold lastNames
  rw [List.filter_append, List.getLast?_append]
  cases h : (List.filter (fun q => decide (q.rt = rt)) b).getLast? <;> simp

theorem lastNames_singleton (rt : RType) (q : Req) :
    lastNames rt [q] = if q.rt = rt then some q.names else none := by
  unfold lastNames
  by_cases h : q.rt = rt <;> simp [List.filter, h]

theorem lastNames_nil (rt : RType) : lastNames rt [] = none := rfl

theorem lastNames_cons_of_some (rt : RType) (q : Req) (rest : List Req) (ns : List Name)
    (h : lastNames rt rest = some ns) : lastNames rt (q :: rest) = some ns := by
  have := lastNames_append rt [q] rest
  simp only [List.singleton_append] at this
  rw [this, h]

theorem onStream_append (k : Nat) (a b : List (Nat × Req)) : onStream k (a ++ b) = onStream k a ++ onStream k b := by
  simp [onStream, List.filter_append]

theorem onStream_all (k : Nat) (b : List (Nat × Req)) (h : ∀ kq ∈ b, kq.1 = k) : onStream k b = b.map (·.2) := by
  unfold onStream
  rw [List.filter_eq_self.mpr]
  intro kq hkq; simp [h kq hkq]

theorem onStream_none (k : Nat) (b : List (Nat × Req)) (h : ∀ kq ∈ b, kq.1 ≠ k) : onStream k b = [] := by
  unfold onStream
  rw [List.filter_eq_nil_iff.mpr]
  · rfl
  · intro kq hkq; simp [h kq hkq]

/-- whenever the queue holds a request of a type, the last such lists the current interest set -/
def QInv (s : St) : Prop :=
  s.closed = true ∨ ∀ rt ns, lastNames rt s.queue = some ns → s.watched rt = some ns

def Stale (s : St) : Prop :=
  s.closed = true ∨ s.handoff.isSome = true ∨ s.pending.isSome = true ∨ s.senderStream ≠ some s.recvStream

/-- on the live stream the last request of every watched type (sent or still queued) lists the interest set -/
def Live (s : St) : Prop :=
  ∀ rt ws, s.watched rt = some ws → lastNames rt (onStream s.recvStream s.wire ++ s.queue) = some ws

structure CInv (s : St) : Prop where
  si : SInv s
  qi : QInv s
  li : Stale s ∨ Live s

theorem cinv_init : CInv init := by
  refine ⟨sinv_init, Or.inr ?_, Or.inr ?_⟩
  · intro rt ns h; simp [init, lastNames] at h
  · intro rt ws h; simp [init] at h

/-- a request built by `mkReq` for a watched type lists the interest set -/
theorem mkReq_names (s : St) (rt : RType) (e : Bool) (ws : List Name) (h : s.watched rt = some ws) :
    (mkReq s rt e).names = ws := by simp [mkReq, h]

/-- effect of appending one request of type `rt` whose names are the (possibly new) interest set of `rt` -/
theorem enqueue_preserves (s s' : St) (rt : RType) (q : Req) (ws : List Name)
    (hq : q.rt = rt) (hn : q.names = ws) (hw' : s'.watched rt = some ws)
    (hwo : ∀ t, t ≠ rt → s'.watched t = s.watched t)
    (hQ : s'.queue = s.queue ++ [q]) (hcl : s'.closed = s.closed)
    (hwire : s'.wire = s.wire) (hr : s'.recvStream = s.recvStream) (hss : s'.senderStream = s.senderStream)
    (hp : s'.pending = s.pending) (hh : s'.handoff = s.handoff)
    (qi : QInv s) (li : Stale s ∨ Live s) : QInv s' ∧ (Stale s' ∨ Live s') := by
  constructor
  · rcases qi with qi | qi
    · left; rw [hcl]; exact qi
    · right
      intro t ns h
      rw [hQ, lastNames_append, lastNames_singleton] at h
      by_cases ht : t = rt
      · subst ht
        simp only [hq, if_true, Option.some.injEq] at h
        rw [hw', ← h, hn]
      · have : ¬ q.rt = t := by rw [hq]; exact fun e => ht e.symm
        simp only [this, if_false] at h
        rw [hwo t ht]
        exact qi t ns h
  · rcases li with li | li
    · left
      unfold Stale at *
      rw [hcl, hh, hp, hss, hr]; exact li
    · right
      intro t ws' h
      rw [hwire, hr, hQ, ← List.append_assoc, lastNames_append, lastNames_singleton]
      by_cases ht : t = rt
      · subst ht
        rw [hw'] at h; cases h
        simp [hq, hn]
      · have : ¬ q.rt = t := by rw [hq]; exact fun e => ht e.symm
        simp only [this, if_false]
        rw [hwo t ht] at h
        exact li t ws' h


theorem getLast?_const {α} (x : α) (l : List α) (hne : l ≠ []) (hall : ∀ y ∈ l, y = x) : l.getLast? = some x := by
  induction l with
  | nil => exact absurd rfl hne
  | cons a l ih =>
    cases l with
    | nil => simp [hall a (by simp)]
    | cons b l =>
      rw [List.getLast?_cons_cons]
      exact ih (by simp) (fun y hy => hall y (List.mem_cons_of_mem _ hy))

/-- the resubscription batch contains, for every watched type in it, a request listing the interest set -/
theorem lastNames_batch (s : St) (order : List RType) (rt : RType) (ws : List Name)
    (hw : s.watched rt = some ws) (hmem : rt ∈ order) :
    lastNames rt (order.map (fun t => mkReq s t false)) = some ws := by
  unfold lastNames
  have hall : ∀ y ∈ List.filter (fun q => decide (q.rt = rt)) (order.map (fun t => mkReq s t false)), y = mkReq s rt false := by
    intro y hy
    simp only [List.mem_filter, List.mem_map, decide_eq_true_eq] at hy
    obtain ⟨⟨t, _, rfl⟩, ht⟩ := hy
    have : t = rt := ht
    rw [this]
  have hne : List.filter (fun q => decide (q.rt = rt)) (order.map (fun t => mkReq s t false)) ≠ [] := by
    intro h0
    have := List.filter_eq_nil_iff.mp h0 (mkReq s rt false) (List.mem_map.mpr ⟨rt, hmem, rfl⟩)
    simp [mkReq] at this
  rw [getLast?_const _ _ hne hall]
  simp [mkReq, hw]

/-- states that agree on everything the two interest invariants read -/
theorem qi_li_congr (s s' : St) (hQ : s'.queue = s.queue) (hw : s'.watched = s.watched) (hcl : s'.closed = s.closed)
    (hwire : s'.wire = s.wire) (hr : s'.recvStream = s.recvStream) (hss : s'.senderStream = s.senderStream)
    (hp : s'.pending = s.pending) (hh : s'.handoff = s.handoff)
    (qi : QInv s) (li : Stale s ∨ Live s) : QInv s' ∧ (Stale s' ∨ Live s') := by
  unfold QInv Stale Live at *
  rw [hQ, hw, hcl, hwire, hr, hss, hp, hh]
  exact ⟨qi, li⟩

theorem watch_preserves (s0 s : St) (rt : RType) (n : Name) (rm : Bool)
    (hQ : s.queue = s0.queue) (hw : s.watched = s0.watched) (hcl : s.closed = s0.closed)
    (hwire : s.wire = s0.wire) (hr : s.recvStream = s0.recvStream) (hss : s.senderStream = s0.senderStream)
    (hp : s.pending = s0.pending) (hh : s.handoff = s0.handoff)
    (qi : QInv s0) (li : Stale s0 ∨ Live s0) : QInv (watch s rt n rm) ∧ (Stale (watch s rt n rm) ∨ Live (watch s rt n rm)) := by
  obtain ⟨qi1, li1⟩ := qi_li_congr s0 s hQ hw hcl hwire hr hss hp hh qi li
  refine enqueue_preserves s (watch s rt n rm) rt _ _ rfl rfl ?_ ?_ rfl rfl rfl rfl rfl rfl rfl qi1 li1
  · simp [watch, mkReq]
  · intro t ht; simp [watch, ht]

theorem cinv_step (cfg : Cfg) (s s' : St) (op : Op) (hI : CInv s) (hs : step cfg s op = some s') : CInv s' := by
  have si' := sinv_step cfg s s' op hI.si hs
  suffices h : QInv s' ∧ (Stale s' ∨ Live s') from ⟨si', h.1, h.2⟩
  have closedCase : ∀ s1 : St, s1.closed = true → QInv s1 ∧ (Stale s1 ∨ Live s1) :=
    fun s1 h => ⟨Or.inl h, Or.inl (Or.inl h)⟩
  cases op with
  | pushUnknown =>
    simp only [step] at hs
    split at hs <;> cases hs
    exact ⟨hI.qi, hI.li⟩
  | touch rt n now =>
    simp only [step] at hs
    cases hs
    exact qi_li_congr s _ rfl rfl rfl rfl rfl rfl rfl rfl hI.qi hI.li
  | authFail =>
    simp only [step] at hs
    split at hs <;> cases hs
    exact closedCase _ rfl
  | subscribe rt n =>
    simp only [step] at hs
    split at hs
    · rename_i hc
      split at hs
      · cases hs; exact closedCase _ hc.1
      · cases hs
    · cases hs
      exact watch_preserves s s rt n false rfl rfl rfl rfl rfl rfl rfl rfl hI.qi hI.li
  | evict rt n now =>
    simp only [step] at hs
    split at hs
    · cases hs
    · split at hs
      · split at hs
        · cases hs
        · split at hs
          · rename_i hc; cases hs; exact closedCase _ hc.1
          · cases hs
            exact watch_preserves s _ rt n true rfl rfl rfl rfl rfl rfl rfl rfl hI.qi hI.li
      · cases hs
  | push r now =>
    simp only [step] at hs
    split at hs
    · cases hs
    · cases hw : s.watched r.rt with
      | none => simp only [hw] at hs; cases hs; exact ⟨hI.qi, hI.li⟩
      | some ws =>
        simp only [hw] at hs
        split at hs
        · cases hs
        · split at hs
          · cases hs
          · have key : ∀ s1 : St, s1.queue = (ack s r r.decodes s.recvStream).queue → s1.watched = s.watched →
                s1.closed = s.closed → s1.wire = s.wire → s1.recvStream = s.recvStream →
                s1.senderStream = s.senderStream → s1.pending = s.pending → s1.handoff = s.handoff →
                QInv s1 ∧ (Stale s1 ∨ Live s1) := by
              intro s1 h1 h2 h3 h4 h5 h6 h7 h8
              have hq : ∃ q, (ack s r r.decodes s.recvStream).queue = s.queue ++ [q] ∧ q.rt = r.rt ∧ q.names = ws :=
                ⟨_, rfl, rfl, by simp [mkReq, hw]⟩
              obtain ⟨q, hq1, hq2, hq3⟩ := hq
              refine enqueue_preserves s s1 r.rt q ws hq2 hq3 (by rw [h2]; exact hw)
                (by intro t _; rw [h2]) (by rw [h1]; exact hq1) h3 h4 h5 h6 h7 h8 hI.qi hI.li
            split at hs
            · cases hs; exact key _ rfl rfl rfl rfl rfl rfl rfl rfl
            · split at hs <;> cases hs <;> exact key _ rfl rfl rfl rfl rfl rfl rfl rfl
  | reconnectDrain =>
    simp only [step] at hs
    split at hs
    · cases hs
    · cases hs
      refine ⟨Or.inr ?_, Or.inl (Or.inr (Or.inl rfl))⟩
      intro rt ns h; simp [lastNames] at h
  | publish =>
    simp only [step] at hs
    split at hs
    · cases hs
      refine ⟨?_, Or.inl (Or.inr (Or.inr (Or.inl rfl)))⟩
      exact hI.qi
    · cases hs
  | senderSend fails =>
    simp only [step] at hs
    split at hs
    · cases hs
    · rename_i q rest hq
      have qiRest : ∀ s1 : St, s1.queue = rest → s1.watched = s.watched → s1.closed = s.closed → QInv s1 := by
        intro s1 h1 h2 h3
        rcases hI.qi with qi | qi
        · left; rw [h3]; exact qi
        · right
          intro rt ns h
          rw [h1] at h
          rw [h2]
          exact qi rt ns (by rw [hq]; exact lastNames_cons_of_some rt q rest ns h)
      split at hs
      · rename_i hc; cases hs; exact closedCase _ hc
      · rename_i hncl
        split at hs
        · rename_i hss
          cases hs
          refine ⟨qiRest _ rfl rfl rfl, Or.inl (Or.inr (Or.inr (Or.inr ?_)))⟩
          show s.senderStream ≠ some s.recvStream
          rw [hss]; simp
        · rename_i k hk
          split at hs
          · cases hs
            refine ⟨qiRest _ rfl rfl rfl, Or.inl (Or.inr (Or.inr (Or.inr ?_)))⟩
            simp
          · cases hs
            refine ⟨qiRest _ rfl rfl rfl, ?_⟩
            by_cases hkr : k = s.recvStream
            · subst hkr
              -- the sender is on the live stream: none of the staleness conditions can hold
              have hlive : Live s := by
                rcases hI.li with st | lv
                · rcases st with h | h | h | h
                  · exact absurd h hncl
                  · cases hh : s.handoff with
                    | none => rw [hh] at h; cases h
                    | some hv =>
                      have := hI.si.sLtH _ hv hk hh
                      have := hI.si.sidH hv hh
                      omega
                  · cases hp : s.pending with
                    | none => rw [hp] at h; cases h
                    | some pv =>
                      have := hI.si.sLtP _ pv hk hp
                      have := hI.si.sidP pv hp
                      omega
                  · exact absurd hk h
                · exact lv
              right
              intro rt ws hw
              have := hlive rt ws hw
              show lastNames rt (onStream s.recvStream (s.wire ++ [(s.recvStream, q)]) ++ rest) = some ws
              rw [onStream_append, onStream_all s.recvStream [(s.recvStream, q)] (by simp)]
              simpa [hq] using this
            · left; right; right; right
              show s.senderStream ≠ some s.recvStream
              rw [hk]; intro e; cases e; exact hkr rfl
  | senderAdopt order upto =>
    simp only [step] at hs
    split at hs
    · cases hs
    · rename_i k hp
      split at hs
      · rename_i hc; cases hs; exact closedCase _ hc
      · split at hs
        · cases hs
        · rename_i hncl hperm
          split at hs
          · cases hs
            refine ⟨hI.qi, Or.inl (Or.inr (Or.inr (Or.inr ?_)))⟩
            simp
          · cases hs
            refine ⟨hI.qi, ?_⟩
            by_cases hkr : k = s.recvStream
            · subst hkr
              right
              have hnoW : ∀ kq ∈ s.wire, kq.1 ≠ s.recvStream := hI.si.pendR _ hp
              intro rt ws hw
              have hw : s.watched rt = some ws := hw
              show lastNames rt (onStream s.recvStream (s.wire ++ order.map (fun rt => (s.recvStream, mkReq s rt false))) ++ s.queue) = some ws
              rw [onStream_append, onStream_none _ _ hnoW, onStream_all _ _ (by intro kq h; simp only [List.mem_map] at h; obtain ⟨_, _, rfl⟩ := h; rfl)]
              simp only [List.nil_append, List.map_map]
              rw [lastNames_append]
              cases hq : lastNames rt s.queue with
              | some ns =>
                simp only
                rcases hI.qi with qc | qi
                · rw [qc] at hncl; exact absurd rfl hncl
                · have := qi rt ns hq
                  rw [hw] at this; cases this; rfl
              | none =>
                simp only
                -- the batch contains a request for every watched type, built from the current interest set
                have hmem : rt ∈ order := by
                  have hp' : isPerm order (watchedTypes s) = true := by simpa using hperm
                  simp only [isPerm, Bool.and_eq_true, List.all_eq_true] at hp'
                  have hin : rt ∈ watchedTypes s := by
                    unfold watchedTypes
                    rw [List.mem_filter]
                    exact ⟨by cases rt <;> decide, by simp [hw]⟩
                  have := hp'.1.2 rt hin
                  simpa using this
                exact lastNames_batch s order rt ws hw hmem
            · left; right; right; right
              show some k ≠ some s.recvStream
              intro e; cases e; exact hkr rfl

theorem cinv_run (cfg : Cfg) (ops : List Op) (s s' : St) (hI : CInv s) (h : run cfg s ops = some s') : CInv s' := by
  induction ops generalizing s with
  | nil => simp [run] at h; subst h; exact hI
  | cons o os ih =>
    simp only [run] at h
    split at h
    · rename_i s1 h1; exact ih s1 (cinv_step cfg s s1 o hI h1) h
    · cases h

end XdsVerif.Seq
