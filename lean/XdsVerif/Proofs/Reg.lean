import XdsVerif.Model.Reg
namespace XdsVerif.Reg

/-- in the atomic shape no registration is ever "between its sections" -/
theorem atomic_no_pending (s s' : S) (o : Op) (hp : ∀ h, s.pending h = none) (h : step .atomic s o = some s') :
    ∀ k, s'.pending k = none := by
  cases o with
  | update v => simp [step] at h; subst h; exact hp
  | regBegin k =>
    simp only [step] at h
    split at h <;> try (simp at h; done)
    simp at h; subst h
    intro j; cases hc : s.cache <;> simp [setApplied, hp]
  | regEnd k =>
    simp only [step] at h
    rw [hp k] at h; simp at h

theorem pbd_step_atomic (s s' : S) (o : Op) (hp : ∀ h, s.pending h = none) (hI : PolicyBeforeData s)
    (h : step .atomic s o = some s') : PolicyBeforeData s' := by
  cases o with
  | update v =>
    simp [step] at h; subst h
    intro k hk _ w hw
    simp at hw; subst hw
    have hk' : k ∈ s.handlers := hk
    simp [hk']
  | regBegin k =>
    simp only [step] at h
    split at h <;> try (simp at h; done)
    next hnot =>
    simp at h; subst h
    intro j hj _ w hw
    cases hc : s.cache with
    | none => simp [hc] at hw
    | some v =>
      simp [hc] at hw hj ⊢
      simp [setApplied, hc] at hw
      subst hw
      by_cases hjk : j = k
      · subst hjk; simp [setApplied]
      · simp [setApplied, hjk]
        rcases hj with hj | hj
        · exact hI j hj (by simp [hp j]) v hc
        · exact absurd hj hjk
  | regEnd k =>
    simp only [step] at h
    rw [hp k] at h; simp at h

/-- **policy before data, all interleavings**: with the atomic registration the source has, after any sequence of
updates and registrations (any number of handlers) every registered handler has completed for exactly the content a
lookup can see -/
theorem policy_before_data_all (ops : List Op) (s : S) (h : run .atomic init ops = some s) :
    PolicyBeforeData s ∧ ∀ k, s.pending k = none := by
  suffices H : ∀ (ops : List Op) (s0 s : S), (∀ k, s0.pending k = none) → PolicyBeforeData s0 → run .atomic s0 ops = some s →
      PolicyBeforeData s ∧ ∀ k, s.pending k = none by
    exact H ops init s (by simp [init]) (by intro k hk; simp [init] at hk) h
  intro ops
  induction ops with
  | nil => intro s0 s hp hI hr; simp [run] at hr; subst hr; exact ⟨hI, hp⟩
  | cons o os ih =>
    intro s0 s hp hI hr
    simp only [run] at hr
    split at hr
    · next s1 h1 => exact ih s1 s (atomic_no_pending s0 s1 o hp h1) (pbd_step_atomic s0 s1 o hp hI h1) hr
    · simp at hr

/-- the torn shape "replay, then append": an update between the two sections reaches the cache but never the new
handler — lookups expose version 2 while the handler has completed for version 1 only -/
theorem torn_replay_then_append :
    (run .replayThenAppend init [.update 1, .regBegin 7, .update 2, .regEnd 7]).map
      (fun s => (s.cache, s.handlers, s.applied 7)) = some (some 2, [7], some 1) := by decide

/-- the torn shape "append, then replay outside the lock": the stale snapshot is applied on top of the newer update -/
theorem torn_append_then_replay :
    (run .appendThenReplay init [.update 1, .regBegin 7, .update 2, .regEnd 7]).map
      (fun s => (s.cache, s.handlers, s.applied 7)) = some (some 2, [7], some 1) := by decide

/-- non-vacuity: the same history with the atomic shape (the second operation of the torn registration does not exist) -/
example : (run .atomic init [.update 1, .regBegin 7, .update 2]).map
      (fun s => (s.cache, s.handlers, s.applied 7)) = some (some 2, [7], some 2) := by decide

end XdsVerif.Reg
