import XdsVerif.Model.Decode
/-! Helper lemmas about the listener / route decoders (C11, C13). -/
namespace XdsVerif.Decode
open XdsVerif.Route

/-- the matcher a header condition contributes, if it is *supported* (non-empty exact / prefix, non-empty compiling regex) -/
def supported (compiles : Oracles) (h : PHeader) : Option (String × Matcher) :=
  match h.spec with
  | .stringMatch (.exact s) => if s ≠ "" then some (h.name, .exact s) else none
  | .stringMatch (.pfx s) => if s ≠ "" then some (h.name, .pfx s) else none
  | .stringMatch (.safeRegex (some r)) => if r ≠ "" ∧ compiles.compiles r then some (h.name, .regex r) else none
  | _ => none

def step (compiles : Oracles) (m : Headers) (h : PHeader) : Headers :=
  match supported compiles h with
  | some (k, v) => mapSet m k v
  | none => m

theorem buildMatchers_eq_foldl (compiles : Oracles) (hs : List PHeader) :
    buildMatchers compiles hs = hs.foldl (step compiles) [] := by
  unfold buildMatchers
  congr 1
  funext m h
  unfold step supported
  cases h.spec with
  | other => rfl
  | stringMatch p =>
    cases p with
    | exact s => by_cases hs : s ≠ "" <;> simp [hs]
    | pfx s => by_cases hs : s ≠ "" <;> simp [hs]
    | safeRegex r =>
      cases r with
      | none => rfl
      | some r => by_cases hr : r ≠ "" ∧ compiles.compiles r = true <;> simp [hr]
    | other => rfl

theorem mapSet_fresh (m : Headers) (k : String) (v : Matcher) (h : ∀ e ∈ m, e.1 ≠ k) : mapSet m k v = m ++ [(k, v)] := by
  unfold mapSet
  rw [List.filter_eq_self.mpr]
  intro e he; simp [h e he]

/-- with pairwise distinct names among the supported conditions, `BuildMatchers` keeps every one of them, in order -/
theorem foldl_step_nodup (compiles : Oracles) (hs : List PHeader) (acc : Headers)
    (hd : ((acc ++ hs.filterMap (supported compiles)).map (·.1)).Nodup) :
    hs.foldl (step compiles) acc = acc ++ hs.filterMap (supported compiles) := by
  induction hs generalizing acc with
  | nil => simp
  | cons h hs ih =>
    simp only [List.foldl_cons, List.filterMap_cons]
    cases hsup : supported compiles h with
    | none =>
      simp only [step, hsup]
      apply ih
      simpa [List.filterMap_cons, hsup] using hd
    | some kv =>
      obtain ⟨k, v⟩ := kv
      simp only [step, hsup]
      simp only [List.filterMap_cons, hsup] at hd
      have hfresh : ∀ e ∈ acc, e.1 ≠ k := by
        intro e he hek
        rw [List.map_append, List.nodup_append] at hd
        have := hd.2.2 e.1 (List.mem_map_of_mem he) k (by simp)
        exact this hek
      rw [mapSet_fresh acc k v hfresh, ih]
      · simp
      · simpa [List.append_assoc] using hd

/-! ### no panic -/

def clusterSpecWire : PClusterSpec → Bool
  | .weighted none => false
  | _ => true

def routeWire (r : PRoute) : Bool :=
  match r.action with
  | .route a => clusterSpecWire a.spec
  | _ => true

def rcWire (c : PRouteConfiguration) : Bool := c.vhosts.all (fun v => v.routes.all routeWire)

theorem decodeRoute_no_panic (F : DecodeFacts) (compiles : Oracles) (r : PRoute) (h : routeWire r = true) :
    decodeRoute F compiles r ≠ .panic := by
  unfold decodeRoute
  cases r.mtch with
  | none => simp
  | some m =>
    simp only
    unfold routeWire at h
    cases ha : r.action with
    | none => simp
    | other => simp
    | route a =>
      rw [ha] at h
      simp only at h ⊢
      cases hs : a.spec with
      | cluster n => simp
      | other => simp
      | weighted cs =>
        cases cs with
        | none => rw [hs] at h; simp [clusterSpecWire] at h
        | some l => simp

theorem decodeRoutes_no_panic (F : DecodeFacts) (compiles : Oracles) (rs : List PRoute)
    (h : rs.all routeWire = true) : decodeRoutes F compiles rs ≠ .panic := by
  induction rs with
  | nil => simp [decodeRoutes]
  | cons r rs ih =>
    simp only [List.all_cons, Bool.and_eq_true] at h
    have h1 := decodeRoute_no_panic F compiles r h.1
    have h2 := ih h.2
    simp only [decodeRoutes]
    cases hr : decodeRoute F compiles r with
    | panic => exact absurd hr h1
    | err e => simp
    | ok d =>
      simp only
      cases hrs : decodeRoutes F compiles rs with
      | panic => exact absurd hrs h2
      | err e => simp
      | ok ds => simp

theorem decodeVHosts_no_panic (F : DecodeFacts) (compiles : Oracles) (vs : List PVirtualHost)
    (h : vs.all (fun v => v.routes.all routeWire) = true) : decodeVHosts F compiles vs ≠ .panic := by
  induction vs with
  | nil => simp [decodeVHosts]
  | cons v vs ih =>
    simp only [List.all_cons, Bool.and_eq_true] at h
    have h1 := decodeRoutes_no_panic F compiles v.routes h.1
    have h2 := ih h.2
    simp only [decodeVHosts]
    cases hr : decodeRoutes F compiles v.routes with
    | panic => exact absurd hr h1
    | err e => simp
    | ok d =>
      simp only
      cases hrs : decodeVHosts F compiles vs with
      | panic => exact absurd hrs h2
      | err e => simp
      | ok ds => simp

theorem decodeRouteConfig_no_panic (F : DecodeFacts) (compiles : Oracles) (c : PRouteConfiguration)
    (h : rcWire c = true) : decodeRouteConfig F compiles c ≠ .panic := by
  unfold decodeRouteConfig
  have := decodeVHosts_no_panic F compiles c.vhosts h
  cases hv : decodeVHosts F compiles c.vhosts with
  | panic => exact absurd hv this
  | err e => simp
  | ok vs => simp

end XdsVerif.Decode
