import XdsVerif.Model.Seq
/-!
# Per-stream nonces (C04): an invariant of every reachable state, arbitrary fault positions

Ported from the design prototype (DESIGN appendix E.5) to the full state machine.
-/
namespace XdsVerif.Seq

def okN (s : St) (k : Nat) (n : String) : Prop := n = "" ∨ (k, n) ∈ s.issued

structure SInv (s : St) : Prop where
  j1 : ∀ q ∈ s.queue, okN s s.recvStream q.nonce
  j2 : ∀ rt, okN s s.recvStream (s.nonce rt)
  j3 : ∀ kq ∈ s.wire, okN s kq.1 kq.2.nonce
  sidR : s.recvStream < s.nextSid
  sidW : ∀ kq ∈ s.wire, kq.1 < s.nextSid
  sidS : ∀ k, s.senderStream = some k → k ≤ s.recvStream
  sidP : ∀ k, s.pending = some k → k ≤ s.recvStream
  sidH : ∀ k, s.handoff = some k → k = s.recvStream
  behind : (∀ kq ∈ s.wire, kq.1 ≠ s.recvStream) → (∀ rt, s.nonce rt = "") ∧ (∀ q ∈ s.queue, q.nonce = "")
  onRecv : (∃ kq ∈ s.wire, kq.1 = s.recvStream) → (s.senderStream = some s.recvStream ∨ s.senderStream = none)
  pendR : ∀ k, s.pending = some k → (∀ kq ∈ s.wire, kq.1 ≠ k)
  handR : ∀ k, s.handoff = some k → (∀ kq ∈ s.wire, kq.1 ≠ k)
  pendH : ∀ k, s.pending = some k → k ≠ s.recvStream → s.handoff = some s.recvStream
  sLtP : ∀ k p, s.senderStream = some k → s.pending = some p → k < p
  sLtH : ∀ k h, s.senderStream = some k → s.handoff = some h → k < h
  pLtH : ∀ p h, s.pending = some p → s.handoff = some h → p < h

theorem sinv_init : SInv init := by
  constructor <;> simp [init, okN]

/-- the invariant only reads the stream-related fields -/
theorem sinv_congr (s s' : St) (hI : SInv s)
    (h1 : s'.queue = s.queue) (h2 : s'.nonce = s.nonce) (h3 : s'.wire = s.wire) (h4 : s'.issued = s.issued)
    (h5 : s'.recvStream = s.recvStream) (h6 : s'.nextSid = s.nextSid) (h7 : s'.senderStream = s.senderStream)
    (h8 : s'.pending = s.pending) (h9 : s'.handoff = s.handoff) : SInv s' := by
  constructor
  · intro q hq; rw [h1] at hq; have := hI.j1 q hq; unfold okN at *; rw [h4, h5]; exact this
  · intro rt; have := hI.j2 rt; unfold okN at *; rw [h2, h4, h5]; exact this
  · intro kq hkq; rw [h3] at hkq; have := hI.j3 kq hkq; unfold okN at *; rw [h4]; exact this
  · rw [h5, h6]; exact hI.sidR
  · intro kq hkq; rw [h3] at hkq; rw [h6]; exact hI.sidW kq hkq
  · intro k hk; rw [h7] at hk; rw [h5]; exact hI.sidS k hk
  · intro k hk; rw [h8] at hk; rw [h5]; exact hI.sidP k hk
  · intro k hk; rw [h9] at hk; rw [h5]; exact hI.sidH k hk
  · intro hw; rw [h3, h5] at hw; rw [h2, h1]; exact hI.behind hw
  · intro hw; rw [h3, h5] at hw; rw [h7, h5]; exact hI.onRecv hw
  · intro k hk; rw [h8] at hk; rw [h3]; exact hI.pendR k hk
  · intro k hk; rw [h9] at hk; rw [h3]; exact hI.handR k hk
  · intro k hk hne; rw [h8] at hk; rw [h5] at hne; rw [h9, h5]; exact hI.pendH k hk hne
  · intro k p hk hp; rw [h7] at hk; rw [h8] at hp; exact hI.sLtP k p hk hp
  · intro k h hk hh; rw [h7] at hk; rw [h9] at hh; exact hI.sLtH k h hk hh
  · intro p h hp hh; rw [h8] at hp; rw [h9] at hh; exact hI.pLtH p h hp hh

/-- enqueueing a request that carries the current nonce of its type -/
theorem sinv_enqueue (s s' : St) (hI : SInv s) (q : Req) (rt : RType) (hq : q.nonce = s.nonce rt)
    (h1 : s'.queue = s.queue ++ [q]) (h2 : s'.nonce = s.nonce) (h3 : s'.wire = s.wire) (h4 : s'.issued = s.issued)
    (h5 : s'.recvStream = s.recvStream) (h6 : s'.nextSid = s.nextSid) (h7 : s'.senderStream = s.senderStream)
    (h8 : s'.pending = s.pending) (h9 : s'.handoff = s.handoff) : SInv s' := by
  constructor
  · intro x hx
    rw [h1] at hx
    simp only [List.mem_append, List.mem_singleton] at hx
    unfold okN; rw [h4, h5]
    rcases hx with hx | hx
    · exact hI.j1 x hx
    · subst hx; rw [hq]; exact hI.j2 rt
  · intro t; have := hI.j2 t; unfold okN at *; rw [h2, h4, h5]; exact this
  · intro kq hkq; rw [h3] at hkq; have := hI.j3 kq hkq; unfold okN at *; rw [h4]; exact this
  · rw [h5, h6]; exact hI.sidR
  · intro kq hkq; rw [h3] at hkq; rw [h6]; exact hI.sidW kq hkq
  · intro k hk; rw [h7] at hk; rw [h5]; exact hI.sidS k hk
  · intro k hk; rw [h8] at hk; rw [h5]; exact hI.sidP k hk
  · intro k hk; rw [h9] at hk; rw [h5]; exact hI.sidH k hk
  · intro hw
    rw [h3, h5] at hw
    obtain ⟨a, b⟩ := hI.behind hw
    rw [h2, h1]
    refine ⟨a, ?_⟩
    intro x hx
    simp only [List.mem_append, List.mem_singleton] at hx
    rcases hx with hx | hx
    · exact b x hx
    · subst hx; rw [hq]; exact a rt
  · intro hw; rw [h3, h5] at hw; rw [h7, h5]; exact hI.onRecv hw
  · intro k hk; rw [h8] at hk; rw [h3]; exact hI.pendR k hk
  · intro k hk; rw [h9] at hk; rw [h3]; exact hI.handR k hk
  · intro k hk hne; rw [h8] at hk; rw [h5] at hne; rw [h9, h5]; exact hI.pendH k hk hne
  · intro k p hk hp; rw [h7] at hk; rw [h8] at hp; exact hI.sLtP k p hk hp
  · intro k h hk hh; rw [h7] at hk; rw [h9] at hh; exact hI.sLtH k h hk hh
  · intro p h hp hh; rw [h8] at hp; rw [h9] at hh; exact hI.pLtH p h hp hh

/-- dropping the head of the queue, and possibly the sender's stream -/
theorem sinv_dequeue_drop (s s' : St) (hI : SInv s) (q : Req) (rest : List Req) (hq : s.queue = q :: rest)
    (h1 : s'.queue = rest) (h2 : s'.nonce = s.nonce) (h3 : s'.wire = s.wire) (h4 : s'.issued = s.issued)
    (h5 : s'.recvStream = s.recvStream) (h6 : s'.nextSid = s.nextSid)
    (h7 : s'.senderStream = s.senderStream ∨ s'.senderStream = none)
    (h8 : s'.pending = s.pending) (h9 : s'.handoff = s.handoff) : SInv s' := by
  have hmem : ∀ x ∈ rest, x ∈ s.queue := by intro x hx; rw [hq]; exact List.mem_cons_of_mem _ hx
  constructor
  · intro x hx; rw [h1] at hx; have := hI.j1 x (hmem x hx); unfold okN at *; rw [h4, h5]; exact this
  · intro t; have := hI.j2 t; unfold okN at *; rw [h2, h4, h5]; exact this
  · intro kq hkq; rw [h3] at hkq; have := hI.j3 kq hkq; unfold okN at *; rw [h4]; exact this
  · rw [h5, h6]; exact hI.sidR
  · intro kq hkq; rw [h3] at hkq; rw [h6]; exact hI.sidW kq hkq
  · intro k hk; rw [h5]
    rcases h7 with h7 | h7
    · rw [h7] at hk; exact hI.sidS k hk
    · rw [h7] at hk; cases hk
  · intro k hk; rw [h8] at hk; rw [h5]; exact hI.sidP k hk
  · intro k hk; rw [h9] at hk; rw [h5]; exact hI.sidH k hk
  · intro hw
    rw [h3, h5] at hw
    obtain ⟨a, b⟩ := hI.behind hw
    rw [h2, h1]
    exact ⟨a, fun x hx => b x (hmem x hx)⟩
  · intro hw; rw [h3, h5] at hw; rw [h5]
    rcases h7 with h7 | h7
    · rw [h7]; exact hI.onRecv hw
    · exact Or.inr h7
  · intro k hk; rw [h8] at hk; rw [h3]; exact hI.pendR k hk
  · intro k hk; rw [h9] at hk; rw [h3]; exact hI.handR k hk
  · intro k hk hne; rw [h8] at hk; rw [h5] at hne; rw [h9, h5]; exact hI.pendH k hk hne
  · intro k p hk hp; rw [h8] at hp
    rcases h7 with h7 | h7
    · rw [h7] at hk; exact hI.sLtP k p hk hp
    · rw [h7] at hk; cases hk
  · intro k h hk hh; rw [h9] at hh
    rcases h7 with h7 | h7
    · rw [h7] at hk; exact hI.sLtH k h hk hh
    · rw [h7] at hk; cases hk
  · intro p h hp hh; rw [h8] at hp; rw [h9] at hh; exact hI.pLtH p h hp hh


/-- `updateAndACK` on the receiver's stream, under E2 (a request of that type is already on that stream) -/
theorem sinv_ack (s : St) (hI : SInv s) (r : Resp) (ok : Bool)
    (hwire : ∃ kq ∈ s.wire, kq.1 = s.recvStream) : SInv (ack s r ok s.recvStream) := by
  obtain ⟨kq, hkq, hk1⟩ := hwire
  have hsub : ∀ x ∈ s.issued, x ∈ s.issued ++ [(s.recvStream, r.nonce)] := by
    intro x hx; simp [hx]
  constructor
  · intro q hq
    simp only [ack, List.mem_append, List.mem_singleton] at hq
    rcases hq with hq | hq
    · rcases hI.j1 q hq with h | h
      · exact Or.inl h
      · exact Or.inr (hsub _ h)
    · subst hq
      right
      simp [ack, mkReq]
  · intro t
    show okN _ _ (if t = r.rt then r.nonce else s.nonce t)
    split
    · exact Or.inr (by simp [ack])
    · rcases hI.j2 t with h | h
      · exact Or.inl h
      · exact Or.inr (hsub _ h)
  · intro kq' hkq'
    rcases hI.j3 kq' hkq' with h | h
    · exact Or.inl h
    · exact Or.inr (hsub _ h)
  · exact hI.sidR
  · exact hI.sidW
  · exact hI.sidS
  · exact hI.sidP
  · exact hI.sidH
  · intro hw
    exact absurd hk1 (hw kq hkq)
  · exact hI.onRecv
  · exact hI.pendR
  · exact hI.handR
  · exact hI.pendH
  · exact hI.sLtP
  · exact hI.sLtH
  · exact hI.pLtH

theorem sinv_step (cfg : Cfg) (s s' : St) (op : Op) (hI : SInv s) (hs : step cfg s op = some s') : SInv s' := by
  cases op with
  | pushUnknown =>
    simp only [step] at hs
    split at hs <;> cases hs
    exact hI
  | touch rt n now =>
    simp only [step] at hs
    cases hs
    exact sinv_congr s _ hI rfl rfl rfl rfl rfl rfl rfl rfl rfl
  | authFail =>
    simp only [step] at hs
    split at hs <;> cases hs
    exact sinv_congr s _ hI rfl rfl rfl rfl rfl rfl rfl rfl rfl
  | subscribe rt n =>
    simp only [step] at hs
    split at hs
    · split at hs
      · cases hs; exact sinv_congr s _ hI rfl rfl rfl rfl rfl rfl rfl rfl rfl
      · cases hs
    · cases hs
      exact sinv_enqueue s _ hI _ rt rfl rfl rfl rfl rfl rfl rfl rfl rfl rfl
  | evict rt n now =>
    simp only [step] at hs
    split at hs
    · cases hs
    · split at hs
      · split at hs
        · cases hs
        · split at hs
          · cases hs; exact sinv_congr s _ hI rfl rfl rfl rfl rfl rfl rfl rfl rfl
          · cases hs
            exact sinv_enqueue s _ hI _ rt rfl rfl rfl rfl rfl rfl rfl rfl rfl rfl
      · cases hs
  | push r now =>
    simp only [step] at hs
    split at hs
    · cases hs
    · split at hs
      · cases hs; exact hI
      · split at hs
        · cases hs
        · split at hs
          · cases hs
          · rename_i hwire
            have hw : ∃ kq ∈ s.wire, kq.1 = s.recvStream := by
              simp only [Decidable.not_not, List.any_eq_true, decide_eq_true_eq] at hwire
              obtain ⟨kq, hkq, hk1, _⟩ := hwire
              exact ⟨kq, hkq, hk1⟩
            have h2 := sinv_ack s hI r r.decodes hw
            split at hs
            · cases hs; exact h2
            · split at hs
              · cases hs; exact sinv_congr _ _ h2 rfl rfl rfl rfl rfl rfl rfl rfl rfl
              · cases hs; exact sinv_congr _ _ h2 rfl rfl rfl rfl rfl rfl rfl rfl rfl
  | reconnectDrain =>
    simp only [step] at hs
    split at hs
    · cases hs
    · rename_i hh
      cases hs
      have hh' : s.handoff = none := by
        cases h : s.handoff with
        | none => rfl
        | some k => simp [h] at hh
      constructor
      · intro q hq; cases hq
      · intro rt; exact Or.inl rfl
      · exact hI.j3
      · exact Nat.lt_succ_self _
      · intro kq hkq; exact Nat.lt_succ_of_lt (hI.sidW kq hkq)
      · intro k hk; exact Nat.le_of_lt (Nat.lt_of_le_of_lt (hI.sidS k hk) hI.sidR)
      · intro k hk; exact Nat.le_of_lt (Nat.lt_of_le_of_lt (hI.sidP k hk) hI.sidR)
      · intro k hk; cases hk; rfl
      · intro _; exact ⟨fun _ => rfl, fun q hq => by cases hq⟩
      · rintro ⟨kq, hkq, hk⟩
        have := hI.sidW kq hkq
        simp only at hk
        omega
      · exact hI.pendR
      · intro k hk kq hkq
        cases hk
        have := hI.sidW kq hkq
        omega
      · intro k _ _; rfl
      · exact hI.sLtP
      · intro k h hk hh2; cases hh2
        exact Nat.lt_of_le_of_lt (hI.sidS k hk) hI.sidR
      · intro p h hp hh2; cases hh2
        exact Nat.lt_of_le_of_lt (hI.sidP p hp) hI.sidR
  | publish =>
    simp only [step] at hs
    split at hs
    · rename_i k hh hp
      cases hs
      have hk := hI.sidH k hh
      constructor
      · exact hI.j1
      · exact hI.j2
      · exact hI.j3
      · exact hI.sidR
      · exact hI.sidW
      · exact hI.sidS
      · intro k' hk'; cases hk'; exact Nat.le_of_eq hk
      · intro k' hk'; cases hk'
      · exact hI.behind
      · exact hI.onRecv
      · intro k' hk'; cases hk'; exact hI.handR k hh
      · intro k' hk'; cases hk'
      · intro k' hk' hne; cases hk'; exact absurd hk hne
      · intro k' p hk' hp; cases hp; exact hI.sLtH k' k hk' hh
      · intro k' h hk' hh2; cases hh2
      · intro p h hp hh2; cases hh2
    · cases hs
  | senderSend fails =>
    simp only [step] at hs
    split at hs
    · cases hs
    · rename_i q rest hq
      have hmem : ∀ x ∈ rest, x ∈ s.queue := by intro x hx; rw [hq]; exact List.mem_cons_of_mem _ hx
      have hqm : q ∈ s.queue := by rw [hq]; exact List.mem_cons_self
      split at hs
      · cases hs
        exact sinv_dequeue_drop s _ hI q rest hq rfl rfl rfl rfl rfl rfl (Or.inl rfl) rfl rfl
      · split at hs
        · cases hs
          exact sinv_dequeue_drop s _ hI q rest hq rfl rfl rfl rfl rfl rfl (Or.inl rfl) rfl rfl
        · rename_i k hk
          split at hs
          · cases hs
            exact sinv_dequeue_drop s _ hI q rest hq rfl rfl rfl rfl rfl rfl (Or.inr rfl) rfl rfl
          · cases hs
            have hkq : okN s k q.nonce := by
              by_cases hkr : k = s.recvStream
              · rw [hkr]; exact hI.j1 q hqm
              · have hnow : ∀ kq ∈ s.wire, kq.1 ≠ s.recvStream := by
                  intro kq hkq hk1
                  rcases hI.onRecv ⟨kq, hkq, hk1⟩ with h | h
                  · rw [hk] at h; cases h; exact hkr rfl
                  · rw [hk] at h; cases h
                exact Or.inl ((hI.behind hnow).2 q hqm)
            constructor
            · intro x hx; exact hI.j1 x (hmem x hx)
            · exact hI.j2
            · intro kq hkq'
              simp only [List.mem_append, List.mem_singleton] at hkq'
              rcases hkq' with h | h
              · exact hI.j3 kq h
              · subst h; exact hkq
            · exact hI.sidR
            · intro kq hkq'
              simp only [List.mem_append, List.mem_singleton] at hkq'
              rcases hkq' with h | h
              · exact hI.sidW kq h
              · subst h; exact Nat.lt_of_le_of_lt (hI.sidS k hk) hI.sidR
            · exact hI.sidS
            · exact hI.sidP
            · exact hI.sidH
            · intro hw
              have hw' : ∀ kq ∈ s.wire, kq.1 ≠ s.recvStream := fun kq h => hw kq (by simp [h])
              obtain ⟨h1, h2⟩ := hI.behind hw'
              exact ⟨h1, fun x hx => h2 x (hmem x hx)⟩
            · rintro ⟨kq, hkq', hk1⟩
              simp only [List.mem_append, List.mem_singleton] at hkq'
              rcases hkq' with h | h
              · exact hI.onRecv ⟨kq, h, hk1⟩
              · subst h; simp only at hk1; left; rw [hk, hk1]
            · intro p hp kq hkq'
              simp only [List.mem_append, List.mem_singleton] at hkq'
              rcases hkq' with h | h
              · exact hI.pendR p hp kq h
              · subst h; simp only; exact Nat.ne_of_lt (hI.sLtP k p hk hp)
            · intro h hh kq hkq'
              simp only [List.mem_append, List.mem_singleton] at hkq'
              rcases hkq' with h' | h'
              · exact hI.handR h hh kq h'
              · subst h'; simp only; exact Nat.ne_of_lt (hI.sLtH k h hk hh)
            · exact hI.pendH
            · exact hI.sLtP
            · exact hI.sLtH
            · exact hI.pLtH
  | senderAdopt order upto =>
    simp only [step] at hs
    split at hs
    · cases hs
    · rename_i k hp
      split at hs
      · -- the client was stopped: the hand-off is consumed, nothing is sent
        cases hs
        constructor
        · exact hI.j1
        · exact hI.j2
        · exact hI.j3
        · exact hI.sidR
        · exact hI.sidW
        · intro k' hk'; cases hk'
        · intro k' hk'; cases hk'
        · exact hI.sidH
        · exact hI.behind
        · intro _; exact Or.inr rfl
        · intro k' hk'; cases hk'
        · exact hI.handR
        · intro k' hk'; cases hk'
        · intro k' p hk'; cases hk'
        · intro k' h hk'; cases hk'
        · intro p h hp'; cases hp'
      · split at hs
        · cases hs
        · have hbatch : ∀ kq ∈ order.map (fun rt => (k, mkReq s rt false)), kq.1 = k ∧ okN s k kq.2.nonce := by
            intro kq hkq
            simp only [List.mem_map] at hkq
            obtain ⟨rt, _, rfl⟩ := hkq
            refine ⟨rfl, ?_⟩
            by_cases hkr : k = s.recvStream
            · rw [hkr]; exact hI.j2 rt
            · have hh := hI.pendH k hp hkr
              have hnow : ∀ kq ∈ s.wire, kq.1 ≠ s.recvStream := hI.handR _ hh
              exact Or.inl ((hI.behind hnow).1 rt)
          have hkle := hI.sidP k hp
          split at hs
          · cases hs
            have hpre : ∀ kq ∈ (order.map (fun rt => (k, mkReq s rt false))).take upto,
                kq ∈ order.map (fun rt => (k, mkReq s rt false)) := fun kq h => List.mem_of_mem_take h
            constructor
            · exact hI.j1
            · exact hI.j2
            · intro kq hkq
              simp only [List.mem_append] at hkq
              rcases hkq with h | h
              · exact hI.j3 kq h
              · obtain ⟨h1, h2⟩ := hbatch kq (hpre kq h); rw [h1]; exact h2
            · exact hI.sidR
            · intro kq hkq
              simp only [List.mem_append] at hkq
              rcases hkq with h | h
              · exact hI.sidW kq h
              · rw [(hbatch kq (hpre kq h)).1]; exact Nat.lt_of_le_of_lt hkle hI.sidR
            · intro k' hk'; cases hk'
            · intro k' hk'; cases hk'
            · exact hI.sidH
            · intro hw
              exact hI.behind (fun kq h => hw kq (by simp [h]))
            · intro _; exact Or.inr rfl
            · intro k' hk'; cases hk'
            · intro h hh kq hkq
              simp only [List.mem_append] at hkq
              rcases hkq with h' | h'
              · exact hI.handR h hh kq h'
              · rw [(hbatch kq (hpre kq h')).1]; exact Nat.ne_of_lt (hI.pLtH k h hp hh)
            · intro k' hk'; cases hk'
            · intro k' p hk'; cases hk'
            · intro k' h hk'; cases hk'
            · intro p h hp'; cases hp'
          · cases hs
            constructor
            · exact hI.j1
            · exact hI.j2
            · intro kq hkq
              simp only [List.mem_append] at hkq
              rcases hkq with h | h
              · exact hI.j3 kq h
              · obtain ⟨h1, h2⟩ := hbatch kq h; rw [h1]; exact h2
            · exact hI.sidR
            · intro kq hkq
              simp only [List.mem_append] at hkq
              rcases hkq with h | h
              · exact hI.sidW kq h
              · rw [(hbatch kq h).1]; exact Nat.lt_of_le_of_lt hkle hI.sidR
            · intro k' hk'; cases hk'; exact hkle
            · intro k' hk'; cases hk'
            · exact hI.sidH
            · intro hw
              exact hI.behind (fun kq h => hw kq (by simp [h]))
            · rintro ⟨kq, hkq, hk1⟩
              simp only [List.mem_append] at hkq
              rcases hkq with h | h
              · rcases hI.onRecv ⟨kq, h, hk1⟩ with h' | h'
                · have := hI.sLtP _ k h' hp
                  omega
                · by_cases hkr : k = s.recvStream
                  · left; rw [hkr]
                  · have hh := hI.pendH k hp hkr
                    exact absurd hk1 (hI.handR _ hh kq h)
              · left; rw [← hk1, (hbatch kq h).1]
            · intro k' hk'; cases hk'
            · intro h hh kq hkq
              simp only [List.mem_append] at hkq
              rcases hkq with h' | h'
              · exact hI.handR h hh kq h'
              · rw [(hbatch kq h').1]; exact Nat.ne_of_lt (hI.pLtH k h hp hh)
            · intro k' hk'; cases hk'
            · intro k' p hk' hp'; cases hp'
            · intro k' h hk' hh; cases hk'; exact hI.pLtH k h hp hh
            · intro p h hp'; cases hp'

theorem sinv_run (cfg : Cfg) (ops : List Op) (s s' : St) (hI : SInv s) (h : run cfg s ops = some s') : SInv s' := by
  induction ops generalizing s with
  | nil => simp [run] at h; subst h; exact hI
  | cons o os ih =>
    simp only [run] at h
    split at h
    · rename_i s1 h1; exact ih s1 (sinv_step cfg s s1 o hI h1) h
    · cases h

end XdsVerif.Seq
