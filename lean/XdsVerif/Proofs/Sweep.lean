import XdsVerif.Proofs.Seq
/-!
# One whole tick of the cleaner (C19)

`Seq.step (.evict rt n now)` is one *firing* iteration of the cleaner's loop. Here the whole tick is a fold of the loop
body over the entries of `m.meta` **in an arbitrary order** (Go's map iteration), and the theorems say what the tick as a
whole does — whatever that order was, and whether or not an entry is listed twice.
-/
namespace XdsVerif.Sweep
open XdsVerif.Seq

private theorem filter_true' {α : Type} (l : List α) : l.filter (fun _ => true) = l := by
  induction l with
  | nil => rfl
  | cons a as ih => simp [List.filter, ih]

/-- the cleaner's test on one entry of `m.meta` -/
def expiredB (s : St) (rt : RType) (n : Name) (now : Nat) : Bool :=
  match s.acc rt n with
  | some (some t) => decide (now - t > expire) && !(decide (rt = .lds ∧ n = reserved))
  | _ => false

/-- the loop body on one entry: fires when enabled, otherwise leaves the state alone -/
def visit (cfg : Cfg) (now : Nat) (s : St) (e : RType × Name) : St :=
  match step cfg s (.evict e.1 e.2 now) with
  | some s' => s'
  | none => s

/-- one tick: the entries are visited in the order `es` -/
def sweep (cfg : Cfg) (now : Nat) (s : St) (es : List (RType × Name)) : St := es.foldl (visit cfg now) s

/-- what a firing iteration leaves behind -/
def evicted (s : St) (e : RType × Name) : St :=
  watch { s with cache := fun t' m => if t' = e.1 ∧ m = e.2 then none else s.cache t' m,
                 acc := fun t' m => if t' = e.1 ∧ m = e.2 then none else s.acc t' m } e.1 e.2 true

theorem visit_eq (cfg : Cfg) (now : Nat) (s : St) (e : RType × Name) (hq : s.closed = false) :
    visit cfg now s e = if expiredB s e.1 e.2 now then evicted s e else s := by
  unfold visit expiredB
  simp only [step, hq, Bool.false_eq_true, false_and, if_false]
  cases h : s.acc e.1 e.2 with
  | none => simp
  | some a =>
    cases a with
    | none => simp
    | some t =>
      by_cases hr : (e.1 = RType.lds ∧ e.2 = reserved)
      · simp [hr]
      · by_cases ht : now - t > expire
        · simp [hr, ht, evicted, hq]
        · simp [hr, ht]

@[simp] theorem evicted_closed (s : St) (e : RType × Name) : (evicted s e).closed = s.closed := by
  simp [evicted, watch]

@[simp] theorem evicted_cache (s : St) (e : RType × Name) (rt : RType) (n : Name) :
    (evicted s e).cache rt n = if rt = e.1 ∧ n = e.2 then none else s.cache rt n := by
  simp [evicted, watch]

@[simp] theorem evicted_acc (s : St) (e : RType × Name) (rt : RType) (n : Name) :
    (evicted s e).acc rt n = if rt = e.1 ∧ n = e.2 then none else s.acc rt n := by
  simp [evicted, watch]

theorem evicted_watched (s : St) (e : RType × Name) (rt : RType) :
    ((evicted s e).watched rt).getD [] =
      if rt = e.1 then ((s.watched rt).getD []).filter (· ≠ e.2) else (s.watched rt).getD [] := by
  by_cases h : rt = e.1
  · subst h; simp [evicted, watch]
  · simp [evicted, watch, h]

theorem evicted_queue (s : St) (e : RType × Name) :
    ∃ q, (evicted s e).queue = s.queue ++ [q] ∧ q.rt = e.1 ∧
      q.names = ((s.watched e.1).getD []).filter (· ≠ e.2) := by
  refine ⟨_, rfl, rfl, ?_⟩
  simp [watch, mkReq]

theorem visit_closed (cfg : Cfg) (now : Nat) (s : St) (e : RType × Name) (hq : s.closed = false) :
    (visit cfg now s e).closed = false := by
  rw [visit_eq cfg now s e hq]; split <;> simp [hq]

/-- after the iteration on `e`: `e` itself is no longer expired, every other entry is as it was -/
theorem expired_after_visit (cfg : Cfg) (now : Nat) (s : St) (e : RType × Name) (hq : s.closed = false)
    (rt : RType) (n : Name) :
    expiredB (visit cfg now s e) rt n now = (if rt = e.1 ∧ n = e.2 then false else expiredB s rt n now) := by
  rw [visit_eq cfg now s e hq]
  by_cases hx : expiredB s e.1 e.2 now = true
  · simp only [hx, if_true]
    by_cases hr : rt = e.1 ∧ n = e.2
    · simp [expiredB, hr]
    · simp [expiredB, hr]
  · simp only [hx, Bool.false_eq_true, if_false]
    by_cases hr : rt = e.1 ∧ n = e.2
    · obtain ⟨h1, h2⟩ := hr
      subst h1; subst h2
      simpa using hx
    · simp [hr]

/-- the entry is listed and its clock says "expired" -/
def gone (s : St) (es : List (RType × Name)) (now : Nat) (rt : RType) (n : Name) : Bool :=
  decide ((rt, n) ∈ es) && expiredB s rt n now

theorem gone_cons (cfg : Cfg) (now : Nat) (s : St) (e : RType × Name) (es : List (RType × Name)) (hq : s.closed = false)
    (rt : RType) (n : Name) :
    gone s (e :: es) now rt n =
      ((decide (rt = e.1 ∧ n = e.2) && expiredB s rt n now) || gone (visit cfg now s e) es now rt n) := by
  unfold gone
  rw [expired_after_visit cfg now s e hq]
  by_cases hr : rt = e.1 ∧ n = e.2
  · obtain ⟨h1, h2⟩ := hr
    subst h1; subst h2
    simp
  · have hne : (rt, n) ≠ e := by
      intro h; apply hr; subst h; exact ⟨rfl, rfl⟩
    simp [hr, hne]

theorem sweep_closed (cfg : Cfg) (now : Nat) (es : List (RType × Name)) :
    ∀ s : St, s.closed = false → (sweep cfg now s es).closed = false := by
  induction es with
  | nil => intro s h; exact h
  | cons e es ih => intro s h; exact ih _ (visit_closed cfg now s e h)

/-- **what a tick removes**: exactly the listed entries whose clock says "expired" (idle for longer than the period, not the
reserved listener) lose their cache entry — every other entry keeps its value -/
theorem sweep_cache (cfg : Cfg) (now : Nat) (es : List (RType × Name)) :
    ∀ s : St, s.closed = false → ∀ rt n,
      (sweep cfg now s es).cache rt n = if gone s es now rt n then none else s.cache rt n := by
  induction es with
  | nil => intro s _ rt n; simp [sweep, gone]
  | cons e es ih =>
    intro s hq rt n
    have h1 := ih (visit cfg now s e) (visit_closed cfg now s e hq) rt n
    show (sweep cfg now (visit cfg now s e) es).cache rt n = _
    rw [h1, gone_cons cfg now s e es hq]
    rw [visit_eq cfg now s e hq]
    by_cases hx : expiredB s e.1 e.2 now = true
    · by_cases hr : rt = e.1 ∧ n = e.2
      · obtain ⟨h1, h2⟩ := hr
        subst h1; subst h2
        simp [hx]
      · simp [hx, hr]
    · by_cases hr : rt = e.1 ∧ n = e.2
      · obtain ⟨h1, h2⟩ := hr
        subst h1; subst h2
        simp [hx]
      · simp [hx, hr]

/-- the same for the access records (`m.meta`) -/
theorem sweep_acc (cfg : Cfg) (now : Nat) (es : List (RType × Name)) :
    ∀ s : St, s.closed = false → ∀ rt n,
      (sweep cfg now s es).acc rt n = if gone s es now rt n then none else s.acc rt n := by
  induction es with
  | nil => intro s _ rt n; simp [sweep, gone]
  | cons e es ih =>
    intro s hq rt n
    have h1 := ih (visit cfg now s e) (visit_closed cfg now s e hq) rt n
    show (sweep cfg now (visit cfg now s e) es).acc rt n = _
    rw [h1, gone_cons cfg now s e es hq]
    rw [visit_eq cfg now s e hq]
    by_cases hx : expiredB s e.1 e.2 now = true
    · by_cases hr : rt = e.1 ∧ n = e.2
      · obtain ⟨h1, h2⟩ := hr
        subst h1; subst h2
        simp [hx]
      · simp [hx, hr]
    · by_cases hr : rt = e.1 ∧ n = e.2
      · obtain ⟨h1, h2⟩ := hr
        subst h1; subst h2
        simp [hx]
      · simp [hx, hr]

/-- **what a tick unsubscribes**: the interest set of every type loses exactly the removed names -/
theorem sweep_watched (cfg : Cfg) (now : Nat) (es : List (RType × Name)) :
    ∀ s : St, s.closed = false → ∀ rt,
      ((sweep cfg now s es).watched rt).getD [] = ((s.watched rt).getD []).filter (fun n => !gone s es now rt n) := by
  induction es with
  | nil => intro s _ rt; simp [sweep, gone, filter_true']
  | cons e es ih =>
    intro s hq rt
    have h1 := ih (visit cfg now s e) (visit_closed cfg now s e hq) rt
    show ((sweep cfg now (visit cfg now s e) es).watched rt).getD [] = _
    rw [h1]
    have hw : ((visit cfg now s e).watched rt).getD [] =
        ((s.watched rt).getD []).filter (fun n => !(decide (rt = e.1 ∧ n = e.2) && expiredB s rt n now)) := by
      rw [visit_eq cfg now s e hq]
      by_cases hx : expiredB s e.1 e.2 now = true
      · simp only [hx, if_true]
        rw [evicted_watched]
        by_cases hr : rt = e.1
        · subst hr
          simp only [if_true]
          apply List.filter_congr
          intro n _
          by_cases hn : n = e.2
          · subst hn; simp [hx]
          · simp [hn]
        · simp [hr, filter_true']
      · simp only [hx, Bool.false_eq_true, if_false]
        symm
        rw [List.filter_eq_self]
        intro n _
        by_cases hr : rt = e.1 ∧ n = e.2
        · obtain ⟨h1, h2⟩ := hr
          subst h1; subst h2
          simpa using hx
        · simp [hr]
    rw [hw, List.filter_filter]
    apply List.filter_congr
    intro n _
    rw [gone_cons cfg now s e es hq]
    cases (decide (rt = e.1 ∧ n = e.2) && expiredB s rt n now) <;> cases gone (visit cfg now s e) es now rt n <;> rfl

/-- **order independence**: two ticks that visit the same entries (in any order, with any repetitions) leave the same
cache, the same access records and the same interest sets -/
theorem sweep_order_independent (cfg : Cfg) (now : Nat) (s : St) (hq : s.closed = false)
    (es es' : List (RType × Name)) (hp : ∀ e, e ∈ es ↔ e ∈ es') :
    (∀ rt n, (sweep cfg now s es).cache rt n = (sweep cfg now s es').cache rt n) ∧
    (∀ rt n, (sweep cfg now s es).acc rt n = (sweep cfg now s es').acc rt n) ∧
    (∀ rt, ((sweep cfg now s es).watched rt).getD [] = ((sweep cfg now s es').watched rt).getD []) := by
  have hg : ∀ rt n, gone s es now rt n = gone s es' now rt n := by
    intro rt n
    unfold gone
    have := hp (rt, n)
    by_cases h : (rt, n) ∈ es
    · simp [h, this.mp h]
    · have h' : (rt, n) ∉ es' := fun x => h (this.mpr x)
      simp [h, h']
  refine ⟨?_, ?_, ?_⟩
  · intro rt n; rw [sweep_cache cfg now es s hq, sweep_cache cfg now es' s hq, hg]
  · intro rt n; rw [sweep_acc cfg now es s hq, sweep_acc cfg now es' s hq, hg]
  · intro rt; rw [sweep_watched cfg now es s hq, sweep_watched cfg now es' s hq]
    apply List.filter_congr
    intro n _; rw [hg]

/-- the requests of a tick: the queue only grows, by requests that each omit the name whose removal produced them, and
for every removed entry there is one -/
theorem sweep_requests (cfg : Cfg) (now : Nat) (es : List (RType × Name)) :
    ∀ s : St, s.closed = false →
      ∃ qs, (sweep cfg now s es).queue = s.queue ++ qs ∧
        ∀ rt n, gone s es now rt n = true → ∃ q ∈ qs, q.rt = rt ∧ n ∉ q.names := by
  induction es with
  | nil => intro s _; exact ⟨[], by simp [sweep], by intro rt n h; simp [gone] at h⟩
  | cons e es ih =>
    intro s hq
    obtain ⟨qs, hqs, hall⟩ := ih (visit cfg now s e) (visit_closed cfg now s e hq)
    by_cases hx : expiredB s e.1 e.2 now = true
    · obtain ⟨q, hq1, hq2, hq3⟩ := evicted_queue s e
      have hv : visit cfg now s e = evicted s e := by rw [visit_eq cfg now s e hq]; simp [hx]
      refine ⟨q :: qs, ?_, ?_⟩
      · show (sweep cfg now (visit cfg now s e) es).queue = _
        rw [hqs, hv, hq1]; simp
      · intro rt n hg
        rw [gone_cons cfg now s e es hq] at hg
        rcases Bool.or_eq_true _ _ |>.mp hg with h | h
        · have hr : rt = e.1 ∧ n = e.2 := by
            have := (Bool.and_eq_true _ _).mp h
            exact of_decide_eq_true this.1
          refine ⟨q, by simp, ?_, ?_⟩
          · rw [hq2]; exact hr.1.symm
          · rw [hq3, hr.2]; simp
        · obtain ⟨q', hm, h1, h2⟩ := hall rt n h
          exact ⟨q', by simp [hm], h1, h2⟩
    · have hv : visit cfg now s e = s := by rw [visit_eq cfg now s e hq]; simp [hx]
      refine ⟨qs, ?_, ?_⟩
      · show (sweep cfg now (visit cfg now s e) es).queue = _
        rw [hqs, hv]
      · intro rt n hg
        rw [gone_cons cfg now s e es hq] at hg
        rcases Bool.or_eq_true _ _ |>.mp hg with h | h
        · exfalso
          have := (Bool.and_eq_true _ _).mp h
          have hr : rt = e.1 ∧ n = e.2 := of_decide_eq_true this.1
          obtain ⟨h1, h2⟩ := hr
          subst h1; subst h2
          exact hx this.2
        · exact hall rt n h

end XdsVerif.Sweep
