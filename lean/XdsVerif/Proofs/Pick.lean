import XdsVerif.Model.Pick
/-! Helper lemmas for the weighted pick (C09). -/
namespace XdsVerif.Pick

/-- the scan over unbounded naturals (no wrap-around) -/
def scanN (strict : Bool) : List Nat → Nat → Nat → Nat → Option Nat
  | [], _, _, _ => none
  | w :: ws, cur, tgt, idx =>
    if cmp strict (cur + w) tgt then some idx
    else scanN strict ws (cur + w) tgt (idx + 1)

theorem scan_eq_scanN (strict : Bool) (ws : List Nat) (cur tgt idx : Nat) (h : cur + ws.sum < W) :
    scan strict ws cur tgt idx = scanN strict ws cur tgt idx := by
  induction ws generalizing cur idx with
  | nil => rfl
  | cons w ws ih =>
    simp only [List.sum_cons] at h
    have hm : (cur + w) % W = cur + w := Nat.mod_eq_of_lt (by omega)
    simp only [scan, scanN, hm]
    rw [ih (cur + w) (idx + 1) (by omega)]

theorem foldl_total (ws : List Nat) (a : Nat) (h : a + ws.sum < W) :
    ws.foldl (fun a w => (a + w) % W) a = a + ws.sum := by
  induction ws generalizing a with
  | nil => simp
  | cons w ws ih =>
    simp only [List.sum_cons] at h
    simp only [List.foldl_cons, List.sum_cons]
    rw [Nat.mod_eq_of_lt (by omega), ih (a + w) (by omega)]
    omega

theorem total_eq_sum (ws : List Nat) (h : ws.sum < W) : total ws = ws.sum := by
  unfold total
  rw [foldl_total ws 0 (by omega)]
  omega

theorem scanN_ge (strict : Bool) (ws : List Nat) (cur tgt idx j : Nat)
    (h : scanN strict ws cur tgt idx = some j) : idx ≤ j := by
  induction ws generalizing cur idx with
  | nil => simp [scanN] at h
  | cons w ws ih =>
    unfold scanN at h
    split at h
    · cases h; exact Nat.le_refl _
    · exact Nat.le_of_succ_le (ih _ _ h)

theorem scanN_iff (ws : List Nat) (cur tgt idx k : Nat) (h : cur ≤ tgt) :
    scanN true ws cur tgt idx = some (idx + k) ↔
      ∃ w, ws[k]? = some w ∧ cur + (ws.take k).sum ≤ tgt ∧ tgt < cur + (ws.take k).sum + w := by
  induction ws generalizing cur idx k with
  | nil => simp [scanN]
  | cons w ws ih =>
    unfold scanN
    by_cases hc : cur + w > tgt
    · have : cmp true (cur + w) tgt = true := by simp [cmp, hc]
      rw [if_pos this]
      cases k with
      | zero => simp; omega
      | succ k =>
        simp only [Option.some.injEq, List.getElem?_cons_succ, List.take_succ_cons, List.sum_cons]
        constructor
        · intro h1; omega
        · rintro ⟨x, _, h1, _⟩; omega
    · have : ¬ (cmp true (cur + w) tgt = true) := by simp [cmp]; omega
      rw [if_neg this]
      cases k with
      | zero =>
        simp only [Nat.add_zero, List.getElem?_cons_zero, Option.some.injEq, List.take_zero,
          List.sum_nil]
        constructor
        · intro h1
          have := scanN_ge true ws (cur + w) tgt (idx + 1) idx h1
          omega
        · rintro ⟨x, rfl, _, h2⟩; omega
      | succ k =>
        have := ih (cur + w) (idx + 1) k (by omega)
        rw [show idx + (k + 1) = idx + 1 + k by omega, this]
        simp only [List.getElem?_cons_succ, List.take_succ_cons, List.sum_cons, Nat.add_assoc]

theorem scanN_total (ws : List Nat) (cur tgt idx : Nat) (hc0 : cur ≤ tgt) (h : tgt < cur + ws.sum) :
    ∃ j, scanN true ws cur tgt idx = some j := by
  induction ws generalizing cur idx with
  | nil => simp at h; omega
  | cons w ws ih =>
    unfold scanN
    split
    · exact ⟨idx, rfl⟩
    · rename_i hc
      simp [cmp] at hc
      exact ih (cur + w) (idx + 1) (by omega) (by simp only [List.sum_cons] at h; omega)

theorem count_interval_gen (n a b : Nat) :
    ((List.range n).filter (fun t => decide (a ≤ t ∧ t < b))).length = min n b - min n a := by
  induction n with
  | zero => simp
  | succ n ih =>
    rw [List.range_succ, List.filter_append, List.length_append, ih]
    by_cases hp : a ≤ n ∧ n < b
    · simp [hp]; omega
    · simp [hp]; omega

theorem take_sum_add_le (ws : List Nat) (k w : Nat) (hk : ws[k]? = some w) :
    (ws.take k).sum + w ≤ ws.sum := by
  have hlt : k < ws.length := by
    rcases Nat.lt_or_ge k ws.length with h | h
    · exact h
    · rw [List.getElem?_eq_none h] at hk; cases hk
  have h2 : ws.drop k = w :: ws.drop (k + 1) := by
    rw [List.drop_eq_getElem_cons hlt]
    rw [List.getElem?_eq_getElem hlt] at hk
    cases hk; rfl
  have hsum : ws.sum = (ws.take k).sum + (ws.drop k).sum := by
    rw [← List.sum_append, List.take_append_drop]
  rw [hsum, h2, List.sum_cons]; omega

/-- the facts under which the property theorems are stated: strict scan, unsigned draw, guards in place -/
def Good (F : PickFacts) : Prop :=
  F.strict = true ∧ F.draw = .uint32n ∧ F.guards = true ∧ F.scanShape = true

/-- for ≥2 clusters, no wrap, positive total: `pick` is the natural-number scan -/
theorem pick_eq_scanN (F : PickFacts) (hF : Good F) (a b : Nat) (rest : List Nat) (t : Nat)
    (hnw : (a :: b :: rest).sum < W) (hpos : 0 < (a :: b :: rest).sum) :
    pick F (a :: b :: rest) t =
      match scanN true (a :: b :: rest) 0 t 0 with
      | some i => .idx i
      | none => .err := by
  obtain ⟨hs, hd, _, _⟩ := hF
  unfold pick
  simp only
  rw [total_eq_sum _ hnw]
  have : ¬ ((a :: b :: rest).sum = 0) := by omega
  rw [if_neg this, hd, hs]
  simp only [drawRange]
  rw [scan_eq_scanN true _ 0 t 0 (by omega)]
  rfl

end XdsVerif.Pick
