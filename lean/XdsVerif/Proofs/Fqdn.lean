import XdsVerif.Model.Fqdn
/-! Helper lemmas about `splitOn`, `hasInfix` and `expand` (C14). -/
namespace XdsVerif.Fqdn

theorem hasInfix_append_left (sub a b : Str) (h : hasInfix sub b = true) : hasInfix sub (a ++ b) = true := by
  induction a with
  | nil => simpa using h
  | cons c cs ih =>
    simp only [List.cons_append, hasInfix, Bool.or_eq_true]
    exact Or.inr ih

theorem isPrefixOf_append (sub a : Str) : sub.isPrefixOf (sub ++ a) = true := by
  induction sub with
  | nil => simp
  | cons c cs ih => simp [List.isPrefixOf, ih]

theorem hasInfix_self_append (sub a : Str) (hne : sub ≠ []) : hasInfix sub (sub ++ a) = true := by
  cases sub with
  | nil => exact absurd rfl hne
  | cons c cs =>
    simp only [List.cons_append, hasInfix, Bool.or_eq_true]
    left
    have := isPrefixOf_append (c :: cs) a
    simpa using this

theorem hasInfix_mid (sub a b : Str) (hne : sub ≠ []) : hasInfix sub (a ++ sub ++ b) = true := by
  rw [List.append_assoc]
  exact hasInfix_append_left sub a _ (hasInfix_self_append sub b hne)

def joinWith (sep : Char) : List Str → Str
  | [] => []
  | [p] => p
  | p :: q :: rest => p ++ sep :: joinWith sep (q :: rest)

theorem splitOn_ne_nil (sep : Char) (h : Str) : splitOn sep h ≠ [] := by
  induction h with
  | nil => simp [splitOn]
  | cons c cs ih =>
    simp only [splitOn]
    split
    · simp
    · split
      · simp
      · simp

theorem join_split (sep : Char) (h : Str) : joinWith sep (splitOn sep h) = h := by
  induction h with
  | nil => simp [splitOn, joinWith]
  | cons c cs ih =>
    simp only [splitOn]
    split
    · rename_i hc
      cases hs : splitOn sep cs with
      | nil => exact absurd hs (splitOn_ne_nil sep cs)
      | cons p ps =>
        rw [hs] at ih
        simp only [joinWith, List.nil_append, ih, hc]
    · cases hs : splitOn sep cs with
      | nil => exact absurd hs (splitOn_ne_nil sep cs)
      | cons p ps =>
        rw [hs] at ih
        simp only
        cases ps with
        | nil => simp only [joinWith] at ih ⊢; rw [ih]
        | cons q rest => simp only [joinWith, List.cons_append] at ih ⊢; rw [ih]

theorem expand_qualified (ns dom h : Str) (hq : hasInfix svc h = true) : expand ns dom h = h := by
  simp [expand, hq]

/-- the result either contains ".svc." or is the input unchanged -/
theorem expand_cases (ns dom h : Str) :
    hasInfix svc (expand ns dom h) = true ∨ expand ns dom h = h := by
  unfold expand
  split
  · right; rfl
  · simp only
    split
    · left
      have := hasInfix_mid svc (h ++ ['.'] ++ ns) dom (by decide)
      simpa [List.append_assoc] using this
    · left
      exact hasInfix_mid svc h dom (by decide)
    · split
      · rename_i hlen h3
        left
        have hj := join_split '.' h
        match hp : splitOn '.' h, hlen, h3 with
        | [p0, p1, p2], _, h3 =>
          simp only [List.getElem?_cons_succ, List.getElem?_cons_zero, Option.some.injEq] at h3
          subst h3
          rw [hp] at hj
          simp only [joinWith] at hj
          have : h ++ ['.'] ++ dom = (p0 ++ '.' :: p1) ++ svc ++ dom := by
            rw [← hj]; simp [svc, List.append_assoc]
          rw [this]
          exact hasInfix_mid svc _ dom (by decide)
      · right; rfl
    · left
      have := hasInfix_mid svc (h ++ ['.'] ++ ns) dom (by decide)
      simpa [List.append_assoc] using this

/-- closed form of `resolveL` -/
theorem resolveL_eq (ns dom : Str) (t : Table) (h : Str) :
    resolveL ns dom t h =
      match firstIp t (expand ns dom h) with
      | some ip => ip
      | none => (firstIp t h).getD [] := by
  unfold resolveL
  simp only
  cases hf : firstIp t (expand ns dom h) with
  | some ip => rfl
  | none =>
    simp only
    by_cases he : expand ns dom h = h
    · rw [he] at hf
      simp [he, hf]
    · simp only [ne_eq, he, not_false_eq_true, if_true]
      cases firstIp t h <;> rfl

end XdsVerif.Fqdn
