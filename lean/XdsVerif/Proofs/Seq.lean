import XdsVerif.Model.Seq
import XdsVerif.Spec.Seq
/-! Refinement of the state machine to the backward-scan specification (C01 and the shared lemmas of C02–C04, C19). -/
namespace XdsVerif.Seq
open XdsVerif.Spec.Seq

theorem contains_filter_ne (l : List Name) (n m : Name) :
    (l.filter (· ≠ n)).contains m = (decide (m ≠ n) && l.contains m) := by
  induction l with
  | nil => simp
  | cons a l ih =>
    by_cases ha : a = n
    · subst ha
      simp only [List.filter, ne_eq, not_true_eq_false, decide_false, ih, List.contains_cons]
      by_cases hm : m = a <;> simp [hm]
    · simp only [List.filter, ne_eq, ha, not_false_eq_true, decide_true, List.contains_cons, ih]
      by_cases hm : m = n
      · subst hm
        have : ¬ m = a := fun e => ha e.symm
        simp [this]
      · simp [hm]

theorem contains_add (l : List Name) (n m : Name) :
    (if l.contains n then l else l ++ [n]).contains m = (decide (m = n) || l.contains m) := by
  by_cases hc : l.contains n = true
  · simp only [hc, if_true]
    by_cases hm : m = n
    · subst hm; simpa using hc
    · simp [hm]
  · simp only [hc, Bool.false_eq_true, if_false, List.contains_append, List.contains_cons, List.contains_nil,
      Bool.or_false]
    by_cases hm : m = n
    · simp [hm]
    · simp [hm, Bool.or_comm]

/-- what `Watch` does to the interest set, as membership -/
theorem watch_watched_isSome (s : St) (rt : RType) (n : Name) (rm : Bool) (t : RType) :
    ((watch s rt n rm).watched t).isSome = (decide (rt = t) || (s.watched t).isSome) := by
  unfold watch
  by_cases h : t = rt
  · subst h; simp
  · have : ¬ rt = t := fun e => h e.symm
    simp [h, this]

theorem watch_watched_contains (s : St) (rt : RType) (n : Name) (rm : Bool) (t : RType) (m : Name) :
    (((watch s rt n rm).watched t).getD []).contains m =
      if rt = t then
        (if rm then (decide (m ≠ n) && ((s.watched t).getD []).contains m)
         else (decide (m = n) || ((s.watched t).getD []).contains m))
      else ((s.watched t).getD []).contains m := by
  unfold watch
  by_cases h : t = rt
  · subst h
    simp only [if_true, Option.getD_some]
    cases rm
    · simp only [Bool.false_eq_true, if_false]; exact contains_add _ _ _
    · simp only [if_true]; exact contains_filter_ne _ _ _
  · have : ¬ rt = t := fun e => h e.symm
    simp [h, this]

theorem watch_cache (s : St) (rt : RType) (n : Name) (rm : Bool) : (watch s rt n rm).cache = s.cache := rfl
theorem watch_table (s : St) (rt : RType) (n : Name) (rm : Bool) : (watch s rt n rm).table = s.table := rfl
theorem watch_version (s : St) (rt : RType) (n : Name) (rm : Bool) : (watch s rt n rm).version = s.version := rfl

theorem ack_version_false (s : St) (r : Resp) (sid : Nat) : (ack s r false sid).version = s.version := by
  funext t; simp [ack]
theorem ack_version_true (s : St) (r : Resp) (sid : Nat) :
    (ack s r true sid).version = fun t => if t = r.rt then r.version else s.version t := by
  funext t; simp [ack]
theorem ack_watched (s : St) (r : Resp) (ok : Bool) (sid : Nat) : (ack s r ok sid).watched = s.watched := rfl
theorem ack_table (s : St) (r : Resp) (ok : Bool) (sid : Nat) : (ack s r ok sid).table = s.table := rfl
theorem ack_cache (s : St) (r : Resp) (ok : Bool) (sid : Nat) : (ack s r ok sid).cache = s.cache := rfl

/-- the state agrees with the specification of the history -/
structure Agree (cfg : Cfg) (s : St) (rops : List Op) : Prop where
  cache : ∀ rt n, s.cache rt n = served cfg rops rt n
  watchedT : ∀ rt, (s.watched rt).isSome = typeWatchedAt rops rt
  watchedN : ∀ rt n, ((s.watched rt).getD []).contains n = subscribedAt rops rt n
  table : s.table = tableAt rops
  version : ∀ rt, s.version rt = versionAt rops rt

theorem agree_init (cfg : Cfg) : Agree cfg init [] := by
  constructor <;> intros <;> simp [init, served, typeWatchedAt, subscribedAt, tableAt, versionAt]


/-- operations that change neither cache, interest, table nor version, and that the specification skips -/
theorem agree_frame (cfg : Cfg) (s s' : St) (op : Op) (rops : List Op) (hA : Agree cfg s rops)
    (hc : s'.cache = s.cache) (hw : s'.watched = s.watched) (ht : s'.table = s.table) (hv : s'.version = s.version)
    (h1 : ∀ rt n, served cfg (op :: rops) rt n = served cfg rops rt n)
    (h2 : ∀ rt, typeWatchedAt (op :: rops) rt = typeWatchedAt rops rt)
    (h3 : ∀ rt n, subscribedAt (op :: rops) rt n = subscribedAt rops rt n)
    (h4 : tableAt (op :: rops) = tableAt rops)
    (h5 : ∀ rt, versionAt (op :: rops) rt = versionAt rops rt) : Agree cfg s' (op :: rops) := by
  constructor
  · intro rt n; rw [hc, h1]; exact hA.cache rt n
  · intro rt; rw [hw, h2]; exact hA.watchedT rt
  · intro rt n; rw [hw, h3]; exact hA.watchedN rt n
  · rw [ht, h4]; exact hA.table
  · intro rt; rw [hv, h5]; exact hA.version rt

theorem filtered_eq_carried (cfg : Cfg) (s : St) (rops : List Op) (r : Resp) (n : Name)
    (hw : (s.watched r.rt).isSome = true)
    (hN : ∀ n, ((s.watched r.rt).getD []).contains n = subscribedAt rops r.rt n)
    (ht : s.table = tableAt rops) :
    filtered cfg s r n = carried cfg rops r n := by
  unfold filtered carried
  cases hws : s.watched r.rt with
  | none => rw [hws] at hw; cases hw
  | some ws =>
    have := hN n
    rw [hws] at this
    simp only [Option.getD_some] at this
    simp only [this, ht]
    rfl

theorem agree_step (cfg : Cfg) (s s' : St) (op : Op) (rops : List Op) (hA : Agree cfg s rops)
    (hs : step cfg s op = some s') : Agree cfg s' (op :: rops) := by
  have hN : ∀ rt n, decide (n ∈ (s.watched rt).getD []) = subscribedAt rops rt n := by
    intro rt n; have := hA.watchedN rt n; simpa using this
  cases op with
  | pushUnknown =>
    simp only [step] at hs
    split at hs
    · cases hs
    · cases hs
      exact agree_frame cfg s s _ rops hA rfl rfl rfl rfl (by intros; rfl) (by intros; rfl) (by intros; rfl) rfl (by intros; rfl)
  | touch rt n now =>
    simp only [step] at hs
    cases hs
    exact agree_frame cfg s _ _ rops hA rfl rfl rfl rfl (by intros; rfl) (by intros; rfl) (by intros; rfl) rfl (by intros; rfl)
  | authFail =>
    simp only [step] at hs
    split at hs
    · cases hs
    · cases hs
      exact agree_frame cfg s _ _ rops hA rfl rfl rfl rfl (by intros; rfl) (by intros; rfl) (by intros; rfl) rfl (by intros; rfl)
  | reconnectDrain =>
    simp only [step] at hs
    split at hs
    · cases hs
    · cases hs
      exact agree_frame cfg s _ _ rops hA rfl rfl rfl rfl (by intros; rfl) (by intros; rfl) (by intros; rfl) rfl (by intros; rfl)
  | publish =>
    simp only [step] at hs
    split at hs
    · cases hs
      exact agree_frame cfg s _ _ rops hA rfl rfl rfl rfl (by intros; rfl) (by intros; rfl) (by intros; rfl) rfl (by intros; rfl)
    · cases hs
  | senderAdopt order upto =>
    simp only [step] at hs
    split at hs
    · cases hs
    · split at hs
      · cases hs
        exact agree_frame cfg s _ _ rops hA rfl rfl rfl rfl (by intros; rfl) (by intros; rfl) (by intros; rfl) rfl (by intros; rfl)
      · split at hs
        · cases hs
        · split at hs <;> cases hs <;>
          exact agree_frame cfg s _ _ rops hA rfl rfl rfl rfl (by intros; rfl) (by intros; rfl) (by intros; rfl) rfl (by intros; rfl)
  | senderSend fails =>
    simp only [step] at hs
    split at hs
    · cases hs
    · split at hs
      · cases hs
        exact agree_frame cfg s _ _ rops hA rfl rfl rfl rfl (by intros; rfl) (by intros; rfl) (by intros; rfl) rfl (by intros; rfl)
      · split at hs
        · cases hs
          exact agree_frame cfg s _ _ rops hA rfl rfl rfl rfl (by intros; rfl) (by intros; rfl) (by intros; rfl) rfl (by intros; rfl)
        · split at hs <;> cases hs <;>
          exact agree_frame cfg s _ _ rops hA rfl rfl rfl rfl (by intros; rfl) (by intros; rfl) (by intros; rfl) rfl (by intros; rfl)
  | subscribe rt n =>
    simp only [step] at hs
    have key : ∀ s1 : St, s1.cache = s.cache → s1.table = s.table → s1.version = s.version →
        s1.watched = (watch s rt n false).watched → Agree cfg s1 (.subscribe rt n :: rops) := by
      intro s1 h1 h2 h3 h4
      constructor
      · intro t m; rw [h1]; simp only [served]; exact hA.cache t m
      · intro t; rw [h4, watch_watched_isSome]; simp only [typeWatchedAt]; rw [hA.watchedT]
      · intro t m
        rw [h4, watch_watched_contains]
        simp only [subscribedAt, Bool.false_eq_true, if_false]
        by_cases ht : rt = t
        · subst ht
          by_cases hm : n = m
          · subst hm; simp
          · have : ¬ m = n := fun e => hm e.symm
            simp [hm, this, hN]
        · simp [ht, hN]
      · rw [h2]; simp only [tableAt]; exact hA.table
      · intro t; rw [h3]; simp only [versionAt]; exact hA.version t
    split at hs
    · split at hs
      · cases hs; exact key _ rfl rfl rfl rfl
      · cases hs
    · cases hs; exact key _ rfl rfl rfl rfl
  | evict rt n now =>
    simp only [step] at hs
    split at hs
    · cases hs
    · split at hs
      · rename_i t hacc
        split at hs
        · cases hs
        · have key : ∀ s1 : St,
              s1.cache = (fun t' m => if t' = rt ∧ m = n then none else s.cache t' m) →
              s1.table = s.table → s1.version = s.version →
              s1.watched = (watch s rt n true).watched → Agree cfg s1 (.evict rt n now :: rops) := by
            intro s1 h1 h2 h3 h4
            constructor
            · intro t' m
              rw [h1]
              simp only [served]
              by_cases hc : rt = t' ∧ n = m
              · obtain ⟨rfl, rfl⟩ := hc; simp
              · have : ¬ (t' = rt ∧ m = n) := fun ⟨a, b⟩ => hc ⟨a.symm, b.symm⟩
                simp only [this, if_false, hc]
                exact hA.cache t' m
            · intro t'; rw [h4, watch_watched_isSome]; simp only [typeWatchedAt]; rw [hA.watchedT]
            · intro t' m
              rw [h4, watch_watched_contains]
              simp only [subscribedAt, if_true]
              by_cases ht : rt = t'
              · subst ht
                by_cases hm : n = m
                · subst hm; simp
                · have : ¬ m = n := fun e => hm e.symm
                  simp [hm, this, hN]
              · simp [ht, hN]
            · rw [h2]; simp only [tableAt]; exact hA.table
            · intro t'; rw [h3]; simp only [versionAt]; exact hA.version t'
          split at hs <;> cases hs <;> exact key _ rfl rfl rfl rfl
      · cases hs
  | push r now =>
    simp only [step] at hs
    split at hs
    · cases hs
    · cases hw : s.watched r.rt with
      | none =>
        simp only [hw] at hs
        cases hs
        have hnw : typeWatchedAt rops r.rt = false := by rw [← hA.watchedT, hw]; rfl
        refine agree_frame cfg s s _ rops hA rfl rfl rfl rfl ?_ (by intros; rfl) (by intros; rfl) ?_ ?_
        · intro rt n; simp [served, accepted, hnw]
        · simp [tableAt, accepted, hnw]
        · intro rt; simp [versionAt, accepted, hnw]
      | some ws =>
        simp only [hw] at hs
        split at hs
        · cases hs
        · split at hs
          · cases hs
          · have hwt : typeWatchedAt rops r.rt = true := by rw [← hA.watchedT, hw]; rfl
            cases hd : r.decodes with
            | false =>
              simp only [hd, Bool.not_false, if_true, Bool.false_eq_true, and_false, if_false] at hs
              cases hs
              refine agree_frame cfg s _ _ rops hA rfl rfl rfl ?_ ?_ (by intros; rfl) (by intros; rfl) ?_ ?_
              · exact ack_version_false s r _
              · intro rt n; simp [served, accepted, hd]
              · simp [tableAt, accepted, hd]
              · intro rt; simp [versionAt, accepted, hd]
            | true =>
              simp only [hd, Bool.not_true, Bool.false_eq_true, if_false, and_true] at hs
              have hacc : accepted rops r = true := by simp [accepted, hwt, hd]
              have hver : ∀ (s1 : St), s1.version = (fun t => if t = r.rt then r.version else s.version t) →
                  ∀ rt, s1.version rt = versionAt (.push r now :: rops) rt := by
                intro s1 h1 rt
                rw [h1]
                simp only [versionAt, hacc, and_true]
                by_cases h : rt = r.rt
                · subst h; simp
                · have : ¬ r.rt = rt := fun e => h e.symm
                  simp [h, this, hA.version]
              by_cases hrt : r.rt = .nds
              · simp only [hrt, if_true] at hs
                cases hs
                constructor
                · intro rt n
                  simp only [served, hrt]
                  have : ¬ (RType.nds = rt ∧ rt ≠ RType.nds ∧ accepted rops r = true) := by
                    rintro ⟨a, b, _⟩; exact b a.symm
                  simp only [this, if_false]
                  exact hA.cache rt n
                · intro rt; simp only [typeWatchedAt]; exact hA.watchedT rt
                · intro rt n; simp only [subscribedAt]; exact hA.watchedN rt n
                · simp [tableAt, hrt, hacc]
                · exact hver _ (ack_version_true s r s.recvStream)
              · simp only [hrt, if_false] at hs
                cases hs
                constructor
                · intro rt n
                  simp only [applyUpdate, served, hacc, and_true]
                  by_cases h : rt = r.rt
                  · subst h
                    simp only [if_true, ne_eq, hrt, not_false_eq_true, and_self]
                    have hf := filtered_eq_carried cfg (ack s r true s.recvStream) rops r n
                      (by show (s.watched r.rt).isSome = true; simp [hw]) (fun m => hA.watchedN r.rt m) hA.table
                    rw [hf]
                    cases carried cfg rops r n with
                    | some v => rfl
                    | none =>
                      simp only
                      split
                      · rfl
                      · exact hA.cache _ n
                  · have h' : ¬ r.rt = rt := fun e => h e.symm
                    simp only [h, h', if_false, false_and]
                    exact hA.cache rt n
                · intro rt; simp only [applyUpdate, typeWatchedAt]; exact hA.watchedT rt
                · intro rt n; simp only [applyUpdate, subscribedAt]; exact hA.watchedN rt n
                · simp only [applyUpdate, tableAt, hrt, false_and, if_false]
                  exact hA.table
                · exact hver _ (ack_version_true s r s.recvStream)

/-- the refinement for every history -/
theorem agree_run (cfg : Cfg) (ops : List Op) (s s' : St) (rops : List Op) (hA : Agree cfg s rops)
    (h : run cfg s ops = some s') : Agree cfg s' (ops.reverse ++ rops) := by
  induction ops generalizing s rops with
  | nil => simp [run] at h; subst h; simpa using hA
  | cons o os ih =>
    simp only [run] at h
    split at h
    · rename_i s1 h1
      have := ih s1 (o :: rops) (agree_step cfg s s1 o rops hA h1) h
      simpa [List.reverse_cons, List.append_assoc] using this
    · cases h

end XdsVerif.Seq

namespace XdsVerif.Seq
open XdsVerif.Spec.Seq

/-- specification level: whatever the fold serves for `(rt, n)` is subscribed at the end of the history -/
theorem served_subscribed (cfg : Cfg) (rops : List Op) (rt : RType) (n : Name) (v : Val)
    (h : served cfg rops rt n = some v) : subscribedAt rops rt n = true := by
  induction rops with
  | nil => simp [served] at h
  | cons op rest ih =>
    cases op with
    | push r now =>
      simp only [served] at h
      simp only [subscribedAt]
      split at h
      · rename_i hc
        cases hcar : carried cfg rest r n with
        | some w =>
          unfold carried at hcar
          split at hcar
          · rename_i hs; rw [← hc.1]; exact hs
          · cases hcar
        | none =>
          rw [hcar] at h
          simp only at h
          split at h
          · cases h
          · exact ih h
      · exact ih h
    | evict rt' n' now =>
      simp only [served] at h
      simp only [subscribedAt]
      split at h
      · cases h
      · rename_i hne; simp only [hne, if_false]; exact ih h
    | subscribe rt' n' =>
      simp only [served] at h
      simp only [subscribedAt]
      split
      · rfl
      · exact ih h
    | pushUnknown => simp only [served] at h; simp only [subscribedAt]; exact ih h
    | touch _ _ _ => simp only [served] at h; simp only [subscribedAt]; exact ih h
    | authFail => simp only [served] at h; simp only [subscribedAt]; exact ih h
    | reconnectDrain => simp only [served] at h; simp only [subscribedAt]; exact ih h
    | publish => simp only [served] at h; simp only [subscribedAt]; exact ih h
    | senderAdopt _ _ => simp only [served] at h; simp only [subscribedAt]; exact ih h
    | senderSend _ => simp only [served] at h; simp only [subscribedAt]; exact ih h

/-- **what is cached is subscribed**: in every reachable state of the client state machine a cached name is in
the interest set of its type (so it keeps receiving updates, and an eviction really unsubscribes) -/
theorem cached_is_subscribed (cfg : Cfg) (ops : List Op) (s : St) (h : run cfg init ops = some s)
    (rt : RType) (n : Name) (v : Val) (hc : s.cache rt n = some v) :
    ((s.watched rt).getD []).contains n = true := by
  have hA := agree_run cfg ops init s [] (agree_init cfg) h
  simp only [List.append_nil] at hA
  rw [hA.watchedN rt n]
  apply served_subscribed cfg ops.reverse rt n v
  rw [← hA.cache rt n]; exact hc

end XdsVerif.Seq
