import XdsVerif.Model.Bootstrap
import XdsVerif.Proofs.Fqdn
namespace XdsVerif.Bootstrap
open XdsVerif.Fqdn

theorem splitOn_no_sep (sep : Char) (s : Str) (h : sep ∉ s) : splitOn sep s = [s] := by
  induction s with
  | nil => rfl
  | cons c cs ih =>
    simp only [List.mem_cons, not_or] at h
    have hc : ¬ c = sep := fun e => h.1 e.symm
    simp only [splitOn, hc, if_false, ih h.2]

theorem splitOn_append_sep (sep : Char) (a b : Str) :
    splitOn sep (a ++ sep :: b) = splitOn sep a ++ splitOn sep b := by
  induction a with
  | nil => simp [splitOn]
  | cons c cs ih =>
    by_cases hc : c = sep
    · simp [splitOn, hc, ih]
    · simp only [List.cons_append, splitOn, hc, if_false, ih]
      cases hs : splitOn sep cs with
      | nil => exact absurd hs (splitOn_ne_nil sep cs)
      | cons p ps => simp

theorem lookup_set_self (o : JObj) (k : String) (v v0 : JV) (h : lookup o k = some v0) :
    lookup (set o k v) k = some v := by
  induction o with
  | nil => simp [lookup] at h
  | cons kv rest ih =>
    obtain ⟨k', w⟩ := kv
    simp only [lookup] at h
    by_cases hk : k' = k
    · simp [set, lookup, hk]
    · simp only [hk, if_false] at h
      simp only [set, List.map_cons, hk, if_false, lookup]
      exact ih h

theorem lookup_set_other (o : JObj) (k k2 : String) (v : JV) (h : k2 ≠ k) :
    lookup (set o k v) k2 = lookup o k2 := by
  induction o with
  | nil => rfl
  | cons kv rest ih =>
    obtain ⟨k', w⟩ := kv
    by_cases hk : k' = k
    · have : ¬ k' = k2 := by rw [hk]; exact fun e => h e.symm
      simp only [set, List.map_cons, hk, if_true, lookup]
      rw [if_neg (by rw [← hk]; exact this), if_neg (by rw [← hk]; exact this)]
      exact ih
    · simp only [set, List.map_cons, hk, if_false, lookup]
      split
      · rfl
      · exact ih

end XdsVerif.Bootstrap
