import XdsVerif.Model.Reg
import XdsVerif.Driver.Util
import XdsVerif.Model.Conc
import XdsVerif.Generated.Facts
/-! Trace validation of concurrent-lookup schedules (C05–C07) and the executable specs on the traces. -/
namespace XdsVerif.Driver.Conc
open Lean XdsVerif.Conc

def showRes : Res → String
  | .val v => s!"val:{v}"
  | .err => "err"
  | .nilnil => "nilnil"

/-- canonical class of an implementation result -/
def resClass (s : String) : String :=
  if s.startsWith "val:" then s else if s.startsWith "err:" then "err" else s

structure R where
  s : S
  mismatch : Option String := none

def R.fail (r : R) (m : String) : R := if r.mismatch.isNone then { r with mismatch := some m } else r

def R.step (V : Variant) (tn : Nat → String) (r : R) (l : Lbl) (what : String) : R :=
  match cstep V tn r.s l with
  | some s' => { r with s := s' }
  | none => r.fail s!"trace validation: step not enabled in the model: {what}"

def parseItems (j : Json) : List (String × String) :=
  match jArr j "items" with
  | .ok a => a.toList.filterMap (fun e => match e with | .arr p => (match p[0]!, p[1]! with | .str n, .str v => some (n, v) | _, _ => none) | _ => none)
  | .error _ => []

/-- wall-clock side of C05 (the model has a deadline *event*): the lookup of a resource that never arrives ends with an
error no later than the earlier of fetch timeout and caller deadline, plus generous scheduling slack -/
def checkDeadline (j : Json) : Except String Verdict := do
  let fetch := jNatD j "fetchMs" 0
  let caller := jNatD j "callerMs" 0
  let o ← j.getObjVal? "obs"
  let res := jStrD o "result" "?"
  let el := jNatD o "elapsedMs" 0
  let bound := if caller = 0 then fetch else min fetch caller
  let slack := 1500
  let sf : Option String :=
    if !res.startsWith "err:" then some s!"C05.result_shape: a resource that was never delivered was answered with '{res}'"
    else if el > bound + slack then
      some s!"C05.deadline_bounded: lookup with fetch timeout {fetch} ms and caller deadline {caller} ms (0 = none) returned after {el} ms, later than the earlier of the two plus {slack} ms"
    else none
  return { nontrivial := caller != 0, mismatch := none, specfail := sf }

/-- C07 "policy before data", on the observed order of events of the real manager: when the lookup exposes the
resource, every handler registered by then has been run (to completion) on the update that delivered it -/
def checkHandlersOrder (pid : String) (j : Json) : Except String Verdict := do
  let o ← j.getObjVal? "obs"
  let n := jStrD j "n" "?"
  let ev ← jStrList o "events"
  if jBoolD o "hang" false then
    return { nontrivial := true, mismatch := none, specfail := some s!"C07.no_deadlock: update, lookup and handler registration did not all finish: {ev}" }
  let idx (e : String) : Option Nat := ev.findIdx? (· == e)
  if jStrD j "kind" "" = "handler-panic" then
    -- a handler panicked inside an update: every lock section that was entered is left again (model: sections are atomic
    -- steps; nothing stays locked), so a cached name is served and a missing one ends at its deadline
    let cached := jStrD o "cached" "?"
    let missing := jStrD o "missing" "?"
    let ok := cached.startsWith "val:" && missing = "err:timeout"
    return { nontrivial := true
             mismatch := if ok then none else some s!"handler panic: model: cached lookup served, missing lookup times out; impl: cached={cached}, missing={missing}"
             specfail := if ok then none else some s!"C07.deadlock_free: after a registered update handler panicked inside an update (the receive loop recovered), a lookup of the CACHED {jStrD j "rt" ""} resource returned '{cached}' and a lookup of a missing one '{missing}': the manager lock was never given back" }
  if jStrD j "kind" "" = "cb-policy" then
    -- the suite's own circuit-breaker handler: at every exposure the configuration of that update is in force
    -- (model: handlers run inside the update's lock section, before the cache write and the wake-up - `handlersFirst`)
    let rounds := jNatD o "rounds" 0
    let ok := jNatD o "inForce" 0 = rounds
    let notes := (jStrList o "notes").toOption.getD []
    return { nontrivial := rounds > 0
             mismatch := if ok then none else some s!"breaker policy before data: model: in force at all {rounds} exposures; impl: at {jNatD o "inForce" 0} ({notes})"
             specfail := if ok then none else some s!"C07.policy_before_data: with the suite's own circuit-breaker handler registered, a lookup exposed a cluster before the breaker configuration derived from the update that delivered it was in force ({jNatD o "stale" 0} of {rounds} exposures): {notes}" }
  if jStrD j "kind" "" = "lock-stress" then
    -- a large response handled while the interest set of its type keeps changing: both sides finish (model: every lock
    -- section is entered once and left, `lock_edges_ranked`)
    let ok := jBoolD o "applied" false && jBoolD o "watchersDone" false
    return { nontrivial := jNatD o "changes" 0 > 0
             mismatch := if ok then none else some s!"lock stress ({jStrD j "rt" ""}, {n} names): model: the receiver's filter and the subscriptions always finish; impl: response applied={jBoolD o "applied" false}, subscriptions finished={jBoolD o "watchersDone" false}"
             specfail := if ok then none else some s!"C07.deadlock_free: a response with {n} subscribed names of type {jStrD j "rt" ""} was being filtered while subscriptions of that type changed; after six seconds the response is not applied / the subscribing callers have not returned: {jStrD o "state" ""}" }
  if jStrD j "kind" "" = "dump" then
    -- a dump parked while it renders the cache, an update of the same type: they exclude each other (manager lock)
    let sf : Option String :=
      match idx "update done", idx "dump done" with
      | some u, some d =>
        if u < d then some s!"C07.race_free: an update wrote the cache of a type while a dump was iterating it (the dump no longer holds the manager lock while it renders): a data race between dumps and updates, and a crash of the process when the two overlap inside the map (\"concurrent map iteration and map write\"): {ev}"
        else none
      | _, _ => some s!"C07: dump or update did not finish: {ev}"
    let mm : Option String := if ev.contains "update waits" then none else some s!"dump racing an update: in the model the update waits for the manager lock the dump holds: {ev}"
    return { nontrivial := true, mismatch := mm, specfail := sf }
  if jStrD j "kind" "" = "registration" then
    -- the lookup at the end returns the content of the second update; the handler registered meanwhile has seen it
    let sf : Option String :=
      match ev.findIdx? (fun e => e.startsWith "get ") with
      | none => some s!"C07: no lookup result: {ev}"
      | some g =>
        let res := ((ev.getD g "").drop 4).toString
        if res != s!"val:{n}#2" then some s!"C07.linearizable: after two accepted updates the lookup returned {res}: {ev}"
        else match idx s!"H2 saw {n}#2" with
          | some k =>
            if k ≥ g then some s!"C07.policy_before_data: the handler saw {n}#2 only after the lookup exposed it: {ev}"
            else match (ev.filter (fun e => e.startsWith "H2 applied ")).getLast? with
              | some a => if a = s!"H2 applied {n}#2" then none
                          else some s!"C07.policy_before_data: the last content the handler applied is '{(a.drop 11).toString}', older than what lookups are served ({n}#2): the replay of a registration ran after a newer update: {ev}"
              | none => some s!"C07: the handler never completed: {ev}"
          | none => some s!"C07.policy_before_data: a handler whose registration overlapped the update never saw {n}#2 although it is registered and the lookup exposes that content: {ev}"
    -- trace validation against `Model/Reg.lean` with the registration shape read from the source: update 1, the
    -- registration of handler 7 (its replay parked by the script), update 2
    let lastApplied := ((ev.filter (fun e => e.startsWith "H2 applied ")).getLast?).map (fun a => (a.drop 11).toString)
    let mm : Option String :=
      match Reg.run Generated.regShape Reg.init [.update 1, .regBegin 7, .update 2] with
      | none => some "trace validation: a registration in one lock section is not what the source does any more (registration shape not recognised)"
      | some ms =>
        let want := (ms.applied 7).map (fun v => s!"{n}#{v}")
        if want != lastApplied then some s!"registration racing an update: model leaves the handler at {want}, impl at {lastApplied}: {ev}"
        else match idx s!"H2 applied {n}#1", idx s!"H2 saw {n}#2" with
          | some a, some b => if a < b then none else some s!"registration racing an update: the update ran inside the registration (model: it waits for the manager lock): {ev}"
          | _, _ => some s!"registration racing an update: expected events missing: {ev}"
    return { nontrivial := true, mismatch := mm, specfail := sf }
  let sf : Option String :=
    match ev.findIdx? (fun e => e.startsWith "get val:") with
    | none =>
      if pid = "C06" then some s!"C06.no_lost_wakeup: the response that supplies {n} was accepted (its update ran the registered handlers) while a lookup of {n} was under way, well before that lookup's deadline, but the lookup did not return it: {ev}"
      else some s!"C07: the lookup of the delivered resource did not return it: {ev}"
    | some g =>
      match idx "H1 exit" with
      | none => some s!"C07.policy_before_data: the first handler never completed: {ev}"
      | some x =>
        if x > g then some s!"C07.policy_before_data: the lookup exposed {n} while a registered handler was still running for the update that delivered it: {ev}"
        else if (ev.findIdx? (fun e => e.startsWith "wget val:")).any (fun wgi => wgi < x) then
          some s!"C07.policy_before_data: the lookup that was WAITING for {n} was woken and returned it while a registered handler was still running for the update that delivered it: {ev}"
        else if (ev.any (fun e => e.startsWith "wget ")) && !(ev.any (fun e => e.startsWith "wget val:")) then
          some s!"C06/C07: the lookup that was waiting for {n} did not return it: {ev}"
        else match idx "H2 registered" with
          | some r2 =>
            if r2 < g then
              match idx s!"H2 saw {n}" with
              | some s2 => if s2 < g then none else some s!"C07.policy_before_data: handler H2 was registered before the lookup exposed {n} but saw it only afterwards: {ev}"
              | none => some s!"C07.policy_before_data: handler H2 was registered before the lookup exposed {n} but was never run for the update that delivered it: {ev}"
            else none
          | none => none
  return { nontrivial := true, mismatch := none, specfail := sf }

/-- a lookup with an arbitrary kind number: accepted iff the kind has a type URL (model `kindAccepted` over the regenerated
`knownKinds`); a rejected kind returns its error at once and leaves nothing behind -/
def checkKind (j : Json) : Except String Verdict := do
  let k := match j.getObjVal? "kind" with | .ok v => (v.getInt?.toOption.getD 0) | _ => 0
  let obs ← j.getObjVal? "obs"
  let res := jStrD obs "result" "?"
  let el := jNatD obs "elapsedMs" 0
  let accepted := kindAccepted Generated.knownKinds k
  let left := jBoolD obs "interestChanged" false || jNatD obs "requests" 0 > 0 || jNatD obs "waiters" 0 > 0
  if accepted then
    -- a resource kind: the lookup subscribes and (nothing is delivered here) ends at its fetch timeout
    let mm := if res = "err:invalid-kind" then some s!"kind {k}: model accepts it, impl rejects it" else none
    return { nontrivial := true, mismatch := mm, specfail := none }
  let mm := if res != "err:invalid-kind" then some s!"kind {k}: model rejects it at the first statement, impl returned {res}" else none
  let sf :=
    if res.startsWith "panic" then some s!"C05.never_panics: a lookup with kind {k} panicked: {res}"
    else if left then some s!"C05.unknown_kind_rejected: a lookup with kind {k} (not a resource kind) was not rejected without subscribing: interest set changed={jBoolD obs "interestChanged" false}, requests sent={jNatD obs "requests" 0}, waiters left={jNatD obs "waiters" 0}; it returned {res} after {el} ms"
    else if res != "err:invalid-kind" || el > 150 then some s!"C05.unknown_kind_rejected: a lookup with kind {k} (not a resource kind) returned {res} after {el} ms instead of being rejected immediately"
    else none
  return { nontrivial := true, mismatch := mm, specfail := sf }

/-- two waiting lookups, one response that carries one resource well-formed and the other - under its own name - not
convertible: the response is rejected as a whole (Seq model: a bad slot applies nothing), both lookups end with an error -/
def checkPlaceholder (j : Json) : Except String Verdict := do
  let obs ← j.getObjVal? "obs"
  let good := jStrD obs "good" "?"
  let bad := jStrD obs "bad" "?"
  let rt := jStrD j "rt" "?"
  let mm := if good = "err:timeout" && bad = "err:timeout" then none
            else some s!"rejected {rt} response: model: both lookups time out; impl: well-formed name -> {good}, unconvertible name -> {bad}"
  let sf :=
    if bad = "typednil" || bad = "nilnil" || bad.startsWith "val:" then
      some s!"C05.no_placeholder: the {rt} resource the control plane did not usably supply (it could not be converted; the response was rejected) was handed to the waiting lookup as '{bad}' without an error"
    else if !(bad.startsWith "err:") then some s!"C05.value_xor_error: lookup of the unconvertible {rt} resource returned '{bad}'"
    else if !(good.startsWith "err:") && !(good.startsWith "val:") then some s!"C05.value_xor_error: lookup returned '{good}'"
    else none
  return { nontrivial := true, mismatch := mm, specfail := sf }

/-- a name that was delivered, removed by a complete update and idle for longer than the expiry period is looked up
again and delivered again: in the model the waiting lookup is woken by the delivery and re-reads the cache
(`getWake`: the value), whatever the access record says -/
def checkAgedRecord (pid : String) (j : Json) : Except String Verdict := do
  let obs ← j.getObjVal? "obs"
  let res := jStrD obs "result" "?"
  let rt := jStrD j "rt" "?"
  let ok := res = "val:back-again#3"
  return { nontrivial := jBoolD obs "aged" false
           mismatch := if ok then none else some s!"aged access record ({rt}): model: the lookup returns the delivered value, impl {res}"
           specfail := if ok then none else some s!"{if pid = "C05" then "C05.value_xor_error" else "C06.no_lost_wakeup"}: the {rt} resource was delivered (accepted) while its lookup was waiting, well before the deadline; the lookup returned '{res}' - the resource had been delivered once before, removed by the control plane and not asked for during more than the expiry period (its old access record was still around)" }

def check (pid : String) (j : Json) : Except String Verdict := do
  if jStrD j "op" "" = "aged-record" then return ← checkAgedRecord pid j
  if jStrD j "op" "" = "placeholder" then return ← checkPlaceholder j
  if jStrD j "op" "" = "evict-during-update" then return ← checkEvictDuringUpdate pid j
  if jStrD j "op" "" = "deadline" then return ← checkDeadline j
  if jStrD j "op" "" = "kind" then return ← checkKind j
  if jStrD j "op" "" = "handlers-order" then return ← checkHandlersOrder pid j
  let sc ← j.getObjVal? "scenario"
  let names ← jStrList sc "names"
  let tn : Nat → String := fun i => names.getD i "?"
  let V := Generated.getVariant
  let tr ← jArr j "trace"
  let mut r : R := { s := init }
  let mut idx := 0
  -- bookkeeping for the specs
  let mut startAt : List (Nat × Nat) := []          -- thread, trace index of its start
  let mut deadlineAt : List (Nat × Nat) := []       -- thread, trace index of its deadline (cancel / forced)
  let mut doneAt : List (Nat × Nat × String) := []  -- thread, index, result
  let mut delivers : List (Nat × List (String × String)) := []
  let mut evicts : List (Nat × String) := []
  let mut forced : List Nat := []
  let mut inSelect : List Nat := []                 -- threads released into the select and not yet out of it
  let mut early : Option String := none             -- a fetch timeout that fired before its time
  for e in tr.toList do
    idx := idx + 1
    let kind := jStrD e "s" "?"
    let i := jNatD e "i" 0
    let at_ := jNatD e "at" 0
    let done : Option String := match e.getObjVal? "done" with | .ok (.str s) => some s | _ => none
    match kind with
    | "start" =>
      startAt := startAt ++ [(i, idx)]
      r := r.step V tn (.getStart i) s!"start {i}"
      match r.s.pc i, done with
      | .done res, some d => if showRes res != resClass d then r := r.fail s!"start {i}: model {showRes res}, impl {d}"
      | .missed, none => if at_ != 1 then r := r.fail s!"start {i}: model missed, impl at point {at_}"
      | p, d => r := r.fail s!"start {i}: model pc {repr p}, impl at={at_} done={d}"
      if let some d := done then doneAt := doneAt ++ [(i, idx, d)]
    | "go" =>
      let from_ := jNatD e "from" 0
      match from_ with
      | 1 =>
        r := r.step V tn (.getRegister i) s!"register {i}"
        match r.s.pc i, done with
        | .done res, some d => if showRes res != resClass d then r := r.fail s!"register {i}: model {showRes res}, impl {d}"
        | .waiting _, none => if at_ != 2 then r := r.fail s!"register {i}: model waiting, impl at point {at_}"
        | p, d => r := r.fail s!"register {i}: model pc {repr p}, impl at={at_} done={d}"
      | 2 =>
        -- entering the select; it may come out at once
        if at_ = 3 then r := r.step V tn (.getWake i) s!"wake {i} (on entering the select)"
        else if at_ = 4 then
          r := r.step V tn (.getDeadline i) s!"deadline {i} (on entering the select)"
          -- nobody cancelled this lookup: the arm that fired is its fetch timeout; it cannot fire before that time has passed
          let ftMs := jNatD sc "ftMs" 0
          let el := jNatD e "elapsedMs" 0
          if ftMs > 0 && !(deadlineAt.any (fun d => d.1 = i)) && 2 * el < ftMs && early.isNone then
            early := some s!"lookup {i} of {tn i}: the deadline arm fired {el} ms after the lookup started, the fetch timeout is {ftMs} ms and nobody cancelled it: a spurious time-out (the resource accepted before the real deadline is never returned to it)"
        else
          inSelect := inSelect ++ [i]
          -- still in the select: the model must not have a closed notifier for it
          match r.s.pc i with
          | .waiting nf => if r.s.closed nf then r := r.fail s!"thread {i} stays in the select although the model's notifier {nf} is closed"
          | _ => pure ()
      | 3 =>
        r := r.step V tn (.getReread i) s!"reread {i}"
        match r.s.pc i, done with
        | .done res, some d => if showRes res != resClass d then r := r.fail s!"reread {i}: model {showRes res}, impl {d}"
        | p, d => r := r.fail s!"reread {i}: model pc {repr p}, impl done={d}"
      | 4 =>
        r := r.step V tn (.getCleanup i) s!"cleanup {i}"
        match r.s.pc i, done with
        | .done res, some d => if showRes res != resClass d then r := r.fail s!"cleanup {i}: model {showRes res}, impl {d}"
        | p, d => r := r.fail s!"cleanup {i}: model pc {repr p}, impl done={d}"
      | x => r := r.fail s!"go from point {x}"
      if let some d := done then doneAt := doneAt ++ [(i, idx, d)]
    | "deliver" =>
      let items := parseItems e
      delivers := delivers ++ [(idx, items)]
      r := r.step V tn (.deliver (jBoolD e "full" true) items) "deliver"
      let woke : List (Nat × Nat) := match jArr e "woke" with
        | .ok a => a.toList.filterMap (fun w => match w with | .arr p => (match (p[0]!).getNat?, (p[1]!).getNat? with | .ok a, .ok b => some (a, b) | _, _ => none) | _ => none)
        | .error _ => []
      for (t, p) in woke do
        inSelect := inSelect.filter (· ≠ t)
        if p = 3 then r := r.step V tn (.getWake t) s!"wake {t} after deliver"
        else if p = 4 then r := r.step V tn (.getDeadline t) s!"deadline {t} after deliver"
      -- threads the model considers woken-able but the implementation left waiting
      for t in List.range names.length do
        match r.s.pc t with
        | .waiting nf =>
          if r.s.closed nf && inSelect.contains t then
            r := r.fail s!"after deliver: model's notifier {nf} of thread {t} is closed, the implementation's thread is still waiting"
        | _ => pure ()
    | "cancel" =>
      deadlineAt := deadlineAt ++ [(i, idx)]
      inSelect := inSelect.filter (· ≠ i)
      if at_ = 4 then r := r.step V tn (.getDeadline i) s!"deadline {i}"
      else if at_ = 3 then r := r.step V tn (.getWake i) s!"wake {i} (raced with its deadline)"
      else r := r.fail s!"cancel {i}: the thread did not leave the select"
    | "forced" => forced := forced ++ [i]
    | "evict" =>
      let n := jStrD e "n" ""
      evicts := evicts ++ [(idx, n)]
      r := r.step V tn (.evict n) s!"evict {n}"
    | "end" => pure ()
    | "streamfail" =>
      -- a transient stream failure + reconnect: no step of the lookup model (waiting lookups are not concerned)
      match (jArr e "woke").toOption.map (·.toList) with
      | some (w :: _) =>
        let t := match w with | .arr p => (p[0]!).getNat?.toOption.getD 0 | _ => 0
        r := r.fail s!"stream failure: the implementation's lookup {t} left its select; in the model a stream failure does not touch waiting lookups"
        return { nontrivial := true, mismatch := r.mismatch
                 specfail := some s!"{if pid = "C07" then "C07.explained_by_a_sequential_order" else if pid = "C05" then "C05.error_only_at_deadline" else "C06.no_lost_wakeup"}: a transient stream failure ended the waiting lookup {t} of {tn t} long before its deadline; the client reconnects and the response that supplies {tn t} is accepted on the new stream well inside that deadline" }
      | _ => pure ()
    | "stuck" =>
      let what := jStrD e "what" ""
      r := r.fail s!"stuck: {what}; in the model every party can always take its next step (locks are given back)"
      return { nontrivial := true, mismatch := r.mismatch
               specfail := some s!"{if pid = "C07" then "C07.deadlock_free" else if pid = "C06" then "C06.only_that_caller" else "C05.bounded_time"}: {what}: a lock is never given back - every later lookup, update and eviction hangs behind it" }
    | x => throw s!"trace entry {x}"
  -- ---- specs, on the trace alone ----
  let mut sf : Option String := none
  let valueAt : String → Nat → Option String := fun n k =>
    -- cache content of name n after trace entry k
    let evs : List (Nat × Option String) :=
      (delivers.filterMap (fun (d, items) => if d ≤ k then some (d, (items.reverse.find? (fun it => it.1 = n)).map (·.2)) else none)) ++
      (evicts.filterMap (fun (d, m) => if d ≤ k && m = n then some (d, none) else none))
    match (evs.toArray.qsort (fun a b => a.1 < b.1)).toList.getLast? with
    | some (_, v) => v
    | none => none
  for (t, dIdx, res) in doneAt do
    let n := tn t
    let sIdx := ((startAt.find? (fun e => e.1 = t)).map (·.2)).getD 0
    let dl := (deadlineAt.find? (fun e => e.1 = t)).map (·.2)
    if pid = "C05" && sf.isNone then
      if !(res.startsWith "val:" || res.startsWith "err:") then
        sf := some s!"C05.result_shape: lookup {t} of {n} returned '{res}' (neither a value of the requested kind nor an error)"
    if pid = "C06" && sf.isNone then
      -- a delivery of the name strictly after the start and before the deadline (if any), not followed by a removal (eviction, or a full update omitting the name) before completion
      let supplied := delivers.any (fun (d, items) => d > sIdx && d < dIdx && (match dl with | some x => d < x | none => true)
        && items.any (fun it => it.1 = n) && !(evicts.any (fun (ev, m) => m = n && ev > d && ev < dIdx))
        -- clusters are a full type: a later accepted update that omits the name removes it again
        && !(delivers.any (fun (d2, items2) => d2 > d && d2 < dIdx && !items2.any (fun it => it.1 = n))))
      if supplied && !res.startsWith "val:" then
        sf := some s!"C06.no_lost_wakeup: lookup {t} of {n}: the resource was accepted before its deadline, but it returned '{res}'"
      else if supplied && forced.contains t then
        sf := some s!"C06.no_lost_wakeup: lookup {t} of {n} was supplied but returned only because its deadline was fired"
      -- one caller is affected only by what concerns its own name: the "removed again" error needs a response that
      -- supplied the name while the lookup was under way
      else if res = "err:other" && !(delivers.any (fun (d, items) => d > sIdx && d < dIdx && items.any (fun it => it.1 = n))) then
        sf := some s!"C06.only_own_name: lookup {t} of {n} was ended with the removed-error although no response supplied {n} while it waited (it was woken by an update for other names)"
    if pid = "C07" && sf.isNone then
      -- real-time order for a blocking lookup: an update that supplied the name completed after the lookup had started and
      -- before its deadline fired, and nothing removed the name again: in every sequential order consistent with real time
      -- the lookup comes after that update and before its deadline, so it returns the value
      let suppliedRT := delivers.any (fun (d, items) => d > sIdx && d < dIdx && (match dl with | some x => d < x | none => true)
        && items.any (fun it => it.1 = n) && !(evicts.any (fun (ev, m) => m = n && ev > d && ev < dIdx))
        && !(delivers.any (fun (d2, items2) => d2 > d && d2 < dIdx && !items2.any (fun it => it.1 = n))))
      if suppliedRT && !res.startsWith "val:" then
        sf := some s!"C07.real_time_order: lookup {t} of {n} returned '{res}' although an update supplying {n} completed while it waited, before its deadline, and the value stayed current: no sequential order consistent with real time explains that result"
      else if suppliedRT && forced.contains t then
        sf := some s!"C07.real_time_order: lookup {t} of {n} slept through the update that supplied {n} and returned only when its deadline was fired"
    if pid = "C07" && sf.isNone then
      if res.startsWith "val:" then
        let v := (res.drop 4).toString
        -- linearizable: v was the current value at some point between the lookup's start and its return
        let current := (List.range (dIdx - sIdx + 1)).any (fun k => valueAt n (sIdx - 1 + k) == some v)
        if !current then sf := some s!"C07.linearizable: lookup {t} of {n} returned {v}, which was not current at any point between its start and its return"
      else if res = "err:timeout" then
        if dl.isNone && !forced.contains t then sf := some s!"C07: lookup {t} reported a timeout although its deadline never fired"
  if sf.isNone then
    sf := early.map (fun m => s!"{if pid = "C05" then "C05.deadline_bounded" else if pid = "C06" then "C06.no_lost_wakeup" else "C07.real_time_order"}: {m}")
  let nt := delivers.any (fun (d, _) => startAt.any (fun (t, s) => s < d && doneAt.any (fun (t', e, _) => t' = t && d < e)))
  return { nontrivial := nt, mismatch := r.mismatch, specfail := sf }

end XdsVerif.Driver.Conc
