import XdsVerif.Proofs.Sweep
import XdsVerif.Driver.Util
import XdsVerif.Model.Seq
import XdsVerif.Generated.Facts
import XdsVerif.Spec.Hist
/-! Replay of observed histories in the state machine (trace validation) + the executable specs. -/
namespace XdsVerif.Driver.Hist
open Lean XdsVerif.Seq XdsVerif.Spec.Hist

def rtOfStr (s : String) : Option RType :=
  match s with
  | "lds" => some .lds | "rds" => some .rds | "cds" => some .cds | "eds" => some .eds | "nds" => some .nds
  | _ => none

def rtStr : RType → String
  | .lds => "lds" | .rds => "rds" | .cds => "cds" | .eds => "eds" | .nds => "nds"

def parseTable (j : Json) (k : String) : Except String (List (String × List String)) := do
  let a ← jArr j k
  a.toList.mapM (fun e => do
    let p ← e.getArr?
    let vs ← (p[1]!).getArr?
    pure ((← (p[0]!).getStr?), (← vs.toList.mapM (·.getStr?))))

def parseObs (j : Json) : Except String Obs := do
  if jBoolD j "hang" false then
    return { reqs := [], cache := fun _ => [], interest := fun _ => none, ver := fun _ => ("", ""), table := [], closed := false, streams := 0, hang := true }
  let ra ← jArr j "reqs"
  let reqs ← ra.toList.mapM (fun r => do
    let rt ← match rtOfStr (jStrD r "rt" "?") with | some t => pure t | none => throw "request of unknown type"
    pure ({ sid := jNatD r "sid" 0, rt := rt, version := jStrD r "v" "", nonce := jStrD r "nonce" "",
            names := sortStr (← jStrList r "names"), err := jBoolD r "err" false } : OReq))
  let cj ← j.getObjVal? "cache"
  let cache : RType → List (String × String) := fun rt =>
    match cj.getObjVal? (rtStr rt) with
    | .ok o => (jKVs o).map (fun (k, v) => (k, match v with | .str s => s | _ => "?"))
    | .error _ => []
  let ij ← j.getObjVal? "interest"
  let interest : RType → Option (List String) := fun rt =>
    match ij.getObjVal? (rtStr rt) with
    | .ok (.arr a) => some (sortStr (a.toList.map (fun v => match v with | .str s => s | _ => "?")))
    | .ok .null => some []
    | _ => none
  let vj ← j.getObjVal? "ver"
  let ver : RType → String × String := fun rt =>
    match vj.getObjVal? (rtStr rt) with
    | .ok (.arr a) => ((match a[0]! with | .str s => s | _ => ""), (match a[1]! with | .str s => s | _ => ""))
    | _ => ("", "")
  let table ← parseTable j "table"
  let get := match j.getObjVal? "get" with | .ok (.str s) => some s | _ => none
  return { reqs := reqs, cache := cache, interest := interest, ver := ver, table := table,
           closed := jBoolD j "closed" false, streams := jNatD j "streams" 0, get := get }

def nodeOk (j : Json) : Bool :=
  match jArr j "reqs" with
  | .ok a => a.toList.all (fun r => (jStrD r "node" "").startsWith "sidecar~")
  | .error _ => true

def accOf (j : Json) (rt : RType) (n : String) : Option Bool :=
  match (j.getObjVal? "acc").toOption.bind (fun a => (a.getObjVal? (rtStr rt)).toOption) with
  | some o => match o.getObjVal? n with | .ok (.bool b) => some b | _ => none
  | none => none

structure R where
  s : St
  rops : List Op := []
  wireSeen : Nat := 0
  failing : List Nat := []          -- streams whose Send fails
  issued : List (Nat × String) := []
  lastOnLive : List (RType × List String) := []   -- last request names per type on the live stream
  liveSid : Nat := 1
  mismatch : Option String := none
  spec : List String := []
  nontrivial : Bool := false

def R.fail (r : R) (m : String) : R := if r.mismatch.isNone then { r with mismatch := some m } else r
def R.specFail (r : R) (m : Option String) : R := match m with | some x => { r with spec := r.spec ++ [x] } | none => r

/-- run one model operation; a disabled operation is a trace-validation failure -/
def R.op (cfg : Cfg) (r : R) (o : Op) (what : String) : R :=
  match step cfg r.s o with
  | some s' => { r with s := s', rops := o :: r.rops }
  | none => r.fail s!"trace validation: operation not enabled in the model: {what}"

/-- the sender drains the queue (the harness waited for quiescence) -/
partial def R.drain (cfg : Cfg) (r : R) : R :=
  match r.s.queue with
  | [] => r
  | _ :: _ =>
    let fails := match r.s.senderStream with | some k => r.failing.contains k | none => false
    let r' := r.op cfg (.senderSend fails) "senderSend"
    if r'.s.queue.length < r.s.queue.length then r'.drain cfg else r'

def showReq (q : OReq) : String := s!"[sid {q.sid} {rtStr q.rt} v={q.version} nonce={q.nonce} names={q.names} err={q.err}]"

def modelNewReqs (r : R) : List OReq :=
  (r.s.wire.drop r.wireSeen).map (fun kq => { sid := kq.1, rt := kq.2.rt, version := kq.2.version, nonce := kq.2.nonce,
                                              names := sortStr kq.2.names, err := kq.2.err })

def universeOf (j : Json) : RType → List String := fun rt =>
  match (j.getObjVal? "universe").toOption.bind (fun u => (u.getObjVal? (rtStr rt)).toOption) with
  | some (.arr a) => a.toList.map (fun v => match v with | .str s => s | _ => "?")
  | _ => []

/-- compare the model state with the observation after a step -/
def R.compare (r : R) (o : Obs) (oj : Json) (uni : RType → List String) (what : String) : R := Id.run do
  let mut r := r
  if o.hang then return r.fail s!"{what}: implementation hangs"
  let mreqs := modelNewReqs r
  if mreqs != o.reqs then
    r := r.fail s!"{what}: requests on the wire: model {mreqs.map showReq}, impl {o.reqs.map showReq}"
  r := { r with wireSeen := r.s.wire.length }
  for rt in [RType.lds, .rds, .cds, .eds] do
    for n in uni rt do
      if r.s.cache rt n != lookupC o rt n then
        r := r.fail s!"{what}: cache {rtStr rt}/{n}: model {r.s.cache rt n}, impl {lookupC o rt n}"
      let macc : Option Bool := (r.s.acc rt n).map Option.isSome
      if macc != accOf oj rt n then
        r := r.fail s!"{what}: access bookkeeping {rtStr rt}/{n}: model {macc}, impl {accOf oj rt n}"
    for e in o.cache rt do
      if !(uni rt).contains e.1 then r := r.fail s!"{what}: cache has {rtStr rt}/{e.1} outside the case's universe"
  for rt in RType.all do
    let mi := (r.s.watched rt).map sortStr
    if mi != o.interest rt then r := r.fail s!"{what}: interest {rtStr rt}: model {mi}, impl {o.interest rt}"
    if (r.s.version rt, r.s.nonce rt) != o.ver rt then
      r := r.fail s!"{what}: version/nonce {rtStr rt}: model {(r.s.version rt, r.s.nonce rt)}, impl {o.ver rt}"
  let canonT (t : List (String × List String)) := (t.toArray.qsort (fun a b => a.1 < b.1)).toList
  if canonT r.s.table != canonT o.table then r := r.fail s!"{what}: name table: model {canonT r.s.table}, impl {canonT o.table}"
  if r.s.closed != o.closed then r := r.fail s!"{what}: closed: model {r.s.closed}, impl {o.closed}"
  return r

/-- bookkeeping for the specs: last request per type on the live stream -/
def R.track (r : R) (o : Obs) : R :=
  let live := o.streams
  let base := if live != r.liveSid then [] else r.lastOnLive
  let upd := o.reqs.foldl (fun acc q => if q.sid = live then (acc.filter (fun e => e.1 ≠ q.rt)) ++ [(q.rt, q.names)] else acc) base
  { r with lastOnLive := upd, liveSid := live }

def parseSlots (j : Json) : Except String (List Slot) := do
  let a ← jArr j "slots"
  a.toList.mapM (fun s => do
    if jBoolD s "bad" false then pure Slot.bad
    else pure (Slot.good (← jStr s "n") (← jStr s "v")))

/-- C19 across a stream failure: idle names and one name in use are cached and subscribed; the sweep at `now` runs while
the connection is stalled, then the in-flight `Send` fails, the stream breaks and the client reconnects. Expected interest
set and cache come from `Sweep.sweep` (the definition the C19 theorems are about) over the entries in a fixed order; the
control plane's last word on the new stream must be that interest set. -/
def checkSweepFailover (j : Json) : Except String Verdict := do
  let idle ← jStrList j "idle"
  let used ← jStr j "used"
  let now := jNatD j "now" 130
  let t0 := jNatD j "idleSince" 60
  let t1 := jNatD j "usedSince" 129
  let obs ← j.getObjVal? "obs"
  let cfg : Cfg := { sendAborts := Generated.sendAborts, metaInitNow := Generated.metaInitNow, ndsRequired := false, ns := "default".toList, dom := "cluster.local".toList }
  let all := idle ++ [used]
  let s0 : St := { Seq.init with
    watched := fun rt => if rt = .eds then some all else none
    cache := fun rt n => if rt = .eds && all.contains n then some (n ++ "#1") else none
    acc := fun rt n => if rt = .eds && idle.contains n then some (some t0) else if rt = .eds && n = used then some (some t1) else none }
  let sw := Sweep.sweep cfg now s0 (all.map (fun n => (RType.eds, n)))
  let wantInterest := sortStr ((sw.watched .eds).getD [])
  let wantCached := sortStr (all.filter (fun n => (sw.cache .eds n).isSome))
  let interest := sortStr ((jStrList obs "interest").toOption.getD [])
  let cached := sortStr ((jStrList obs "cached").toOption.getD [])
  let last := sortStr ((jStrList obs "lastReqNames").toOption.getD [])
  let streams := jNatD obs "streams" 0
  let mm : Option String :=
    if interest != wantInterest then some s!"sweep across a stream failure: interest set model {wantInterest}, impl {interest}"
    else if cached != wantCached then some s!"sweep across a stream failure: cache model {wantCached}, impl {cached}"
    else if streams < 2 then some "sweep across a stream failure: the client did not reconnect"
    else if last != wantInterest then some s!"sweep across a stream failure: last request on the new stream: model {wantInterest}, impl {last}"
    else none
  let sf : Option String :=
    match idle.find? (fun n => cached.contains n) with
    | some n => some s!"C19.sweep: eds/{n} (idle since {t0}) is still cached after the sweep at {now}"
    | none =>
      match idle.find? (fun n => interest.contains n) with
      | some n => some s!"C19.sweep: eds/{n} was removed but is still in the interest set"
      | none =>
        if streams < 2 then none
        else match idle.find? (fun n => last.contains n) with
          | some n => some s!"C19.sweep (withdrawn from the interest set - a request without it is sent): the stream failed while the sweep's first withdrawal was in flight; after the reconnect the control plane's last word on the new stream still names the evicted eds/{n} ({last.length} names; the interest set is {interest}): it keeps the subscription although the client dropped it"
          | none =>
            if !cached.contains used || !interest.contains used then some s!"C19.recent_kept: eds/{used} (looked up at {t1}) was removed by the sweep at {now}"
            else if !last.contains used then some s!"C19: the last request on the new stream does not name eds/{used}, which is still subscribed"
            else none
  return { nontrivial := true, mismatch := mm, specfail := sf }

def check (pid : String) (j : Json) : Except String Verdict := do
  if jStrD j "op" "" = "sweep-failover" then return ← checkSweepFailover j
  if jStrD j "op" "" = "evict-during-update" then return ← checkEvictDuringUpdate pid j
  let cj ← j.getObjVal? "cfg"
  let cfg : Cfg := { sendAborts := Generated.sendAborts, metaInitNow := Generated.metaInitNow,
                     ndsRequired := jBoolD cj "nds" true, ns := (jStrD cj "ns" "default").toList, dom := (jStrD cj "dom" "cluster.local").toList }
  let uni := universeOf j
  let mut r : R := { s := init }
  -- start-up handshake
  let pre ← jArr j "pre"
  for p in pre.toList do
    match jStrD p "o" "" with
    | "startup-nds" =>
      r := r.op cfg (.subscribe .nds "") "startup subscribe nds"
      r := r.drain cfg
      r := r.op cfg (.push { rt := .nds, version := "nds-init", nonce := "nds-n0", slots := [.good "" ""], table := some [] } 0) "startup nds push"
      r := r.drain cfg
      r := { r with issued := r.issued ++ [(1, "nds-n0")] }
    | "startup-lds" =>
      r := r.op cfg (.subscribe .lds reserved) "startup subscribe lds"
      r := r.drain cfg
      r := r.op cfg (.push { rt := .lds, version := "lds-init", nonce := "lds-n0", slots := [.good reserved (jStrD p "stamp" "")] } 0) "startup lds push"
      r := r.drain cfg
      r := { r with issued := r.issued ++ [(1, "lds-n0")] }
    | x => throw s!"pre step {x}"
  let o0j ← j.getObjVal? "obs0"
  let mut prev ← parseObs o0j
  r := r.compare prev o0j uni "start-up"
  r := r.track prev
  if pid = "C03" then r := r.specFail (c03 prev (nodeOk o0j))
  let steps ← jArr j "steps"
  let mut idx := 0
  let mut accepted := 0
  let mut idleSince : List (RType × String × Nat) := []   -- C19: last lookup (or caching) time per entry
  -- C02: the version of the last ACCEPTED response per type, kept by the script of the history (not read from the client)
  let mut lastAcc : List (RType × String) := RType.all.map (fun rt => (rt, (prev.ver rt).1))
  let mut evicted : List (RType × String) := []           -- C19: names removed and unsubscribed by a sweep
  let mut current : List (RType × String × String) := []   -- C19: the control plane's latest value per name
  let mut lastNonce : List (RType × String) := []          -- C19: nonce of the latest response per type (no reconnects there)
  for st in steps.toList do
    idx := idx + 1
    let kind := jStrD st "o" "?"
    if kind = "sendfail-on" then
      r := { r with failing := r.failing ++ [r.s.recvStream] }
      continue
    if kind = "backdate" then
      let rt ← match rtOfStr (jStrD st "rt" "?") with | some t => pure t | none => throw "backdate: type"
      let n ← jStr st "n"
      let applied := jBoolD st "applied" false
      let hasClock := match r.s.acc rt n with | some (some _) => true | _ => false
      if applied != hasClock then r := r.fail s!"step {idx} (backdate {rtStr rt}/{n}): model last-access present={hasClock}, impl {applied}"
      if applied then
        r := r.op cfg (.touch rt n (jNatD st "now" 0)) "backdate"
        idleSince := (idleSince.filter (fun e => !(e.1 = rt && e.2.1 = n))) ++ [(rt, n, jNatD st "now" 0)]
      continue
    let now := jNatD st "now" 0
    let what := s!"step {idx} ({kind})"
    let oj ← st.getObjVal? "obs"
    let o ← if kind = "flood" then pure prev else parseObs oj
    let sendOk := !(r.failing.contains r.s.recvStream) && !r.s.closed && r.s.senderStream == some r.s.recvStream
    let wasClosed := r.s.closed
    match kind with
    | "tick" =>
      -- evictions in the order the cleaner performed them, read off the requests: each lists one name fewer
      let mut cur : RType → List String := fun rt => (prev.interest rt).getD []
      let before := r.s
      for q in o.reqs do
        let before := cur q.rt
        match before.filter (fun n => !q.names.contains n) with
        | [n] =>
          r := r.op cfg (.evict q.rt n now) s!"{what}: evict {rtStr q.rt}/{n}"
          evicted := evicted ++ [(q.rt, n)]
          let rtq := q.rt
          let nm := q.names
          let old := cur
          cur := fun rt => if rt = rtq then nm else old rt
        | l => r := r.fail s!"{what}: request {showReq q} does not remove exactly one name (removed {l})"
      -- the tick as a whole (`Sweep.sweep`, the definition the C19 theorems are about), over the universe in a fixed order,
      -- must leave the cache and the interest sets the replayed evictions left (whatever order the real sweep used)
      if !before.closed && r.mismatch.isNone then
        let es : List (RType × String) := [RType.lds, .rds, .cds, .eds].flatMap (fun rt => (uni rt).map (fun n => (rt, n)))
        let sw := Sweep.sweep cfg now before es
        for (rt, n) in es do
          if sw.cache rt n != r.s.cache rt n then
            r := r.fail s!"{what}: Sweep.sweep and the replayed evictions disagree on the cache entry {rtStr rt}/{n}"
        for rt in [RType.lds, .rds, .cds, .eds] do
          if sortStr ((sw.watched rt).getD []) != sortStr ((r.s.watched rt).getD []) then
            r := r.fail s!"{what}: Sweep.sweep and the replayed evictions disagree on the interest set of {rtStr rt}"
      r := r.drain cfg
      r := r.compare o oj uni what
      -- nothing else was evictable: every remaining entry of the universe is not enabled for eviction
      for rt in [RType.lds, .rds, .cds, .eds] do
        for n in uni rt do
          if (step cfg r.s (.evict rt n now)).isSome then
            r := r.fail s!"{what}: model says {rtStr rt}/{n} is expired but the sweep kept it"
      if pid = "C19" then r := r.specFail (c19tick prev o idleSince now)
      idleSince := idleSince.filter (fun x => (lookupC o x.1 x.2.1).isSome || ((o.interest x.1).getD []).contains x.2.1)
    | "get" =>
      let rt ← match rtOfStr (jStrD st "rt" "?") with | some t => pure t | none => throw "get: type"
      let n ← jStr st "n"
      if (lookupC prev rt n).isSome then
        idleSince := (idleSince.filter (fun e => !(e.1 = rt && e.2.1 = n))) ++ [(rt, n, now)]
      r := r.op cfg (.touch rt n now) what
      let expected := match r.s.cache rt n with
        | some v => s!"val:{v}"
        | none => "err:timeout"
      let missed := (r.s.cache rt n).isNone
      if missed then r := r.op cfg (.subscribe rt n) what
      r := r.drain cfg
      r := r.compare o oj uni what
      if o.get != some expected then r := r.fail s!"{what}: lookup {rtStr rt}/{n}: model {expected}, impl {o.get}"
      if pid = "C19" && evicted.contains (rt, n) then
        r := r.specFail (c19relookup prev o rt n sendOk ((lastNonce.find? (fun e => e.1 = rt)).map (·.2)))
        match o.get, current.find? (fun e => e.1 = rt && e.2.1 = n) with
        | some g, some (_, _, v) =>
          if g.startsWith "val:" && g != s!"val:{v}" then
            r := r.specFail (some s!"C19.relookup_current: {rtStr rt}/{n} was evicted; the later lookup returned {g}, the control plane's current value is {v}")
        | _, _ => pure ()
      if pid = "C01" then
        r := r.specFail (c01get cfg r.rops rt n (o.get.getD "?"))
        r := r.specFail (c01 cfg r.rops uni o)
      if pid = "C03" then
        r := r.specFail (c03change prev o (if missed then some (rt, n) else none))
      if pid = "C04" && wasClosed then r := r.specFail (c04stopped o)
    | "evict" =>
      -- one firing iteration of the cleaner (verif hook: the body without the age test; the script moved the clock)
      let rt ← match rtOfStr (jStrD st "rt" "?") with | some t => pure t | none => throw "evict: type"
      let n ← jStr st "n"
      r := r.op cfg (.evict rt n now) what
      r := r.drain cfg
      r := r.compare o oj uni what
      if pid = "C01" then r := r.specFail (c01 cfg r.rops uni o)
      if pid = "C03" then
        r := r.specFail (c03change prev o none (some (rt, n)))
        if sendOk && !(o.reqs.any (fun q => q.rt = rt && !q.names.contains n)) then
          r := r.specFail (some s!"C03.each_change_requested: {rtStr rt}/{n} was evicted and withdrawn from the interest set, but no request without it followed")
    | "outage" =>
      -- stream creation failed for whole reconnect budgets (no state change in the model: the receiver retries), then
      -- succeeded: one reconnect
      if jBoolD oj "noNewStream" false then
        r := r.fail s!"{what}: the control plane became reachable again but the client never opened a new stream"
        if pid = "C04" then r := r.specFail (some "C04.converges_after_reconnect: after stream creation failed for a whole reconnect budget the client never reconnects: no stream, no re-subscription, no further updates")
        return { nontrivial := true, mismatch := r.mismatch, specfail := r.spec.head? }
      if jBoolD oj "burstHang" false then
        let k := jNatD oj "returned" 0
        r := r.fail s!"{what}: lookup number {k + 1} during the outage never returned; the model never blocks (the sender takes every request, with or without a stream)"
        r := r.specFail (some s!"{if pid = "C05" then "C05.bounded_time" else "C04.lookups_during_outage"}: while the control plane was unreachable, lookup number {k + 1} of an uncached name never returned (no value, no error, far past its fetch timeout); it holds the manager lock, so every other lookup hangs behind it")
        return { nontrivial := true, mismatch := r.mismatch, specfail := r.spec.head? }
      r := r.op cfg (.touch .eds "e1" now) what
      -- lookups that missed during the outage: the first request is lost with the dead stream, the others are taken
      -- and dropped by the sender (it has no stream); the re-subscription carries the names
      let burst := (jStrList st "names").toOption.getD []
      let mut firstB := true
      for n in burst do
        r := r.op cfg (.touch .eds n now) what
        r := r.op cfg (.subscribe .eds n) what
        r := r.op cfg (.senderSend firstB) s!"{what}: request taken while the stream is dead"
        firstB := false
      r := r.op cfg .reconnectDrain what
      r := r.op cfg .publish what
      let newSid := o.streams
      let order := (o.reqs.filter (fun q => q.sid = newSid)).map (·.rt) |>.take (watchedTypes r.s).length
      r := r.op cfg (.senderAdopt order order.length) what
      r := r.drain cfg
      r := r.compare o oj uni what
      if pid = "C04" then
        -- the lookups that missed during the outage are subscribed; nothing else may have changed
        let prevB : Obs := { prev with interest := fun rt => if rt = .eds && !burst.isEmpty then (prev.interest rt).map (fun ws => sortStr (ws ++ burst)) else prev.interest rt }
        r := r.specFail (c04reconnect prevB o newSid)
        if jStrD oj "servedDuring" "" != "val:e1#1" then
          r := r.specFail (some s!"C04.cache_survives: during the outage the cached endpoint set was answered with {jStrD oj "servedDuring" ""}")
    | "double-failure" =>
      -- two failures while the sender is stuck in Send: stream 2 is published and dies unadopted; stream 3 is handed over
      -- once the sender has taken (and failed to re-subscribe on) stream 2
      let rt ← match rtOfStr (jStrD st "rt" "?") with | some t => pure t | none => throw "double-failure: type"
      let first ← jStr st "first"
      r := r.op cfg (.touch rt first now) what
      r := r.op cfg (.subscribe rt first) what
      r := r.op cfg (.senderSend true) s!"{what}: the stalled Send fails"
      r := r.op cfg .reconnectDrain what
      r := r.op cfg .publish what
      r := r.op cfg .reconnectDrain s!"{what}: second failure"
      r := r.op cfg (.senderAdopt (watchedTypes r.s) 0) s!"{what}: the sender takes the dead stream 2; its first Send fails"
      r := r.op cfg .publish s!"{what}: hand-off of stream 3"
      let newSid := o.streams
      let order := (o.reqs.filter (fun q => q.sid = newSid)).map (·.rt) |>.take (watchedTypes r.s).length
      r := r.op cfg (.senderAdopt order order.length) what
      r := r.drain cfg
      r := r.compare o oj uni what
      if pid = "C04" then
        if newSid != 3 then r := r.specFail (some s!"C04: after two failures the newest stream is {newSid}")
        let prevB : Obs := { prev with interest := fun t => if t = rt then (prev.interest t).map (fun ws => sortStr (ws ++ [first])) else prev.interest t }
        r := r.specFail (c04reconnect prevB o newSid)
      if pid = "C03" then
        -- quiescent after two failures in a row: the last request of every subscribed type on the LIVE (newest) stream is
        -- the interest set
        for t in RType.all do
          match o.interest t with
          | some ws =>
            match (o.reqs.filter (fun q => q.sid = newSid && q.rt = t)).getLast? with
            | some q => if sortStr q.names != sortStr ws then r := r.specFail (some s!"C03.quiescent_last_request: after two stream failures in a row the last {rtStr t} request on the live stream {newSid} lists {q.names}, the interest set is {ws}")
            | none => r := r.specFail (some s!"C03.quiescent_last_request: after two stream failures in a row the live stream {newSid} never received a {rtStr t} request although {ws} is subscribed (the requests went to a dead stream)")
          | none => pure ()
    | "parked-ack" =>
      -- the receiver is parked while it hands the acknowledgement to the channel; a lookup of another name misses meanwhile
      let rt ← match rtOfStr (jStrD st "rt" "?") with | some t => pure t | none => throw "parked-ack: type"
      let v ← jStr st "v"
      let nonce ← jStr st "nonce"
      let n ← jStr st "n"
      let resp : Resp := { rt := rt, version := v, nonce := nonce, slots := ← parseSlots st }
      r := r.op cfg (.push resp now) what
      r := { r with issued := r.issued ++ [(o.streams, nonce)] }
      r := r.op cfg (.touch rt n now) what
      r := r.op cfg (.subscribe rt n) what
      r := r.drain cfg
      r := r.compare o oj uni what
    | "parked-watch-reconnect" =>
      -- a lookup is parked while it hands its request to the channel; the stream fails meanwhile; the reconnect waits for it
      let rt ← match rtOfStr (jStrD st "rt" "?") with | some t => pure t | none => throw "parked-watch-reconnect: type"
      let n ← jStr st "n"
      r := r.op cfg (.touch rt n now) what
      r := r.op cfg (.subscribe rt n) what
      r := r.op cfg .reconnectDrain what
      r := r.op cfg .publish what
      let newSid := o.streams
      let order := (o.reqs.filter (fun q => q.sid = newSid)).map (·.rt) |>.take (watchedTypes r.s).length
      r := r.op cfg (.senderAdopt order order.length) what
      r := r.drain cfg
      r := r.compare o oj uni what
      if pid = "C04" then
        let prevB : Obs := { prev with interest := fun t => if t = rt then (prev.interest t).map (fun ws => sortStr (ws ++ [n])) else prev.interest t }
        r := r.specFail (c04reconnect prevB o newSid)
    | "stalled-reconnect" =>
      let rt ← match rtOfStr (jStrD st "rt" "?") with | some t => pure t | none => throw "stalled-reconnect: type"
      let first ← jStr st "first"
      let names ← jStrList st "names"
      -- the lookup whose request is in flight when the connection stalls; its Send fails once the stream is closed
      r := r.op cfg (.touch rt first now) what
      r := r.op cfg (.subscribe rt first) what
      r := r.op cfg (.senderSend true) s!"{what}: the stalled Send fails"
      r := r.op cfg .reconnectDrain what
      r := r.op cfg .publish what
      for n in names do
        r := r.op cfg (.touch rt n now) what
        r := r.op cfg (.subscribe rt n) what
      -- the sender's choice (new stream first, or queued requests first) is read off the new stream's log
      let newSid := o.streams
      let onNew := o.reqs.filter (fun q => q.sid = newSid)
      let nW := (watchedTypes r.s).length
      let order := (onNew.map (·.rt)).take nW
      let sentAfter := onNew.length - nW
      let dropped := names.length - sentAfter
      for _ in List.range dropped do
        r := r.op cfg (.senderSend false) s!"{what}: request taken while the sender has no stream"
      r := r.op cfg (.senderAdopt order order.length) what
      r := r.drain cfg
      r := r.compare o oj uni what
      if pid = "C04" then r := r.specFail (c04stalled prev o newSid)
    | "stalled-ack" =>
      -- the connection is stalled; one lookup's request is in flight; a response is handled (its acknowledgement waits in
      -- the queue); lookups of another type miss; observed after the connection resumed
      let rt ← match rtOfStr (jStrD st "rt" "?") with | some t => pure t | none => throw "stalled-ack: type"
      let brt ← match rtOfStr (jStrD st "brt" "?") with | some t => pure t | none => throw "stalled-ack: burst type"
      let v ← jStr st "v"
      let nonce ← jStr st "nonce"
      let first ← jStr st "first"
      let resp : Resp := { rt := rt, version := v, nonce := nonce, slots := ← parseSlots st }
      r := r.op cfg (.touch brt first now) what
      r := r.op cfg (.subscribe brt first) what
      r := r.op cfg (.senderSend false) s!"{what}: the stalled Send (completes when the connection resumes)"
      r := r.op cfg (.push resp now) what
      r := { r with issued := r.issued ++ [(o.streams, nonce)] }
      if resp.decodes then lastAcc := (lastAcc.filter (fun e => e.1 ≠ rt)) ++ [(rt, v)]
      -- a second response of the same type while the first acknowledgement is still queued
      let second : Option (Resp × String × String) ← match jObj? st "second" with
        | some sj => do
          let v2 ← jStr sj "v"
          let n2 ← jStr sj "nonce"
          pure (some ({ rt := rt, version := v2, nonce := n2, slots := ← parseSlots sj }, v2, n2))
        | none => pure none
      if let some (resp2, v2, n2) := second then
        r := r.op cfg (.push resp2 now) what
        r := { r with issued := r.issued ++ [(o.streams, n2)] }
        if resp2.decodes then lastAcc := (lastAcc.filter (fun e => e.1 ≠ rt)) ++ [(rt, v2)]
      for n in (← jStrList st "names") do
        r := r.op cfg (.touch brt n now) what
        r := r.op cfg (.subscribe brt n) what
      r := r.drain cfg
      r := r.compare o oj uni what
      if pid = "C02" then
        match second with
        | none => r := r.specFail (c02stalled prev o rt v nonce resp.decodes)
        | some (resp2, v2, n2) =>
          -- exactly two requests of the type, in order: the acknowledgement of the first response as it deserved it, then
          -- that of the second
          let qs := o.reqs.filter (fun q => q.rt = rt)
          let lastOk := (prev.ver rt).1
          let want1 : String × String × Bool := (if resp.decodes then v else lastOk, nonce, !resp.decodes)
          let base2 := if resp.decodes then v else lastOk
          let want2 : String × String × Bool := (if resp2.decodes then v2 else base2, n2, !resp2.decodes)
          match qs with
          | [q1, q2] =>
            if (q1.version, q1.nonce, q1.err) ≠ want1 then
              r := r.specFail (some s!"C02.ack_exact: the first of two responses accepted/rejected back to back was acknowledged with (version, nonce, error detail) = {(q1.version, q1.nonce, q1.err)}, expected {want1}: the queued acknowledgement was overwritten by the next one")
            else if (q2.version, q2.nonce, q2.err) ≠ want2 then
              r := r.specFail (some s!"C02.ack_exact: the second of two responses was acknowledged with {(q2.version, q2.nonce, q2.err)}, expected {want2}")
          | l => r := r.specFail (some s!"C02.ack_exact: two responses of a type were handled while the connection was stalled; {l.length} requests of that type reached the control plane, expected exactly two")
    | "burst" =>
      -- lookups of distinct uncached names while the connection is stalled; observed after it resumed
      let rt ← match rtOfStr (jStrD st "rt" "?") with | some t => pure t | none => throw "burst: type"
      for n in (← jStrList st "names") do
        r := r.op cfg (.touch rt n now) what
        r := r.op cfg (.subscribe rt n) what
      r := r.drain cfg
      r := r.compare o oj uni what
      if pid = "C03" then r := r.specFail (c03burst prev o rt (← jStrList st "names") (nodeOk oj))
    | "pushUnknown" =>
      r := r.op cfg .pushUnknown what
      r := r.drain cfg
      r := r.compare o oj uni what
      if pid = "C02" then r := r.specFail (c02 prev o none "" "" true sendOk)
    | "push" =>
      let rt ← match rtOfStr (jStrD st "rt" "?") with | some t => pure t | none => throw "push: type"
      let v ← jStr st "v"
      let nonce ← jStr st "nonce"
      let resp : Resp ←
        if rt = .nds then do
          let bad := jBoolD st "bad" false
          let empty := jBoolD st "empty" false
          let tbl ← parseTable st "table"
          pure { rt := .nds, version := v, nonce := nonce, slots := if empty then [] else [if bad then .bad else .good "" ""],
                 table := if bad || empty then none else some tbl }
        else do
          pure { rt := rt, version := v, nonce := nonce, slots := ← parseSlots st }
      r := r.op cfg (.push resp now) what
      r := { r with issued := r.issued ++ [(o.streams, nonce)] }
      r := r.drain cfg
      r := r.compare o oj uni what
      if resp.decodes && (prev.interest rt).isSome then
        accepted := accepted + 1
        lastAcc := (lastAcc.filter (fun e => e.1 ≠ rt)) ++ [(rt, v)]
      -- C19 bookkeeping: a newly cached entry is idle since it was cached
      for e in o.cache rt do
        if (lookupC prev rt e.1).isNone && !(idleSince.any (fun x => x.1 = rt && x.2.1 = e.1)) then
          idleSince := idleSince ++ [(rt, e.1, now)]
      -- (an entry the control plane removes keeps its access record: it is still subscribed and ages like any other)
      if pid = "C19" then
        lastNonce := (lastNonce.filter (fun e => e.1 ≠ rt)) ++ [(rt, nonce)]
        r := r.specFail (c19crossed prev o evicted)
        for sl in resp.slots do
          match sl with
          | .good n v => current := (current.filter (fun e => !(e.1 = rt && e.2.1 = n))) ++ [(rt, n, v)]
          | _ => pure ()
      if pid = "C19" && (lookupC prev rt "").isNone then r := r.specFail (c01 cfg r.rops uni o)
      if pid = "C01" then r := r.specFail (c01 cfg r.rops uni o)
      if pid = "C02" then r := r.specFail (c02 prev o (some rt) v nonce resp.decodes sendOk (r.s.watched rt).isSome)
      if pid = "C03" then r := r.specFail (c03change prev o none)
    | "recvfail" =>
      r := r.op cfg .reconnectDrain what
      r := r.op cfg .publish what
      -- the map-iteration order of the resubscription batch is read off the new stream's log
      let newSid := o.streams
      let order := (o.reqs.filter (fun q => q.sid = newSid)).map (·.rt) |>.take (watchedTypes r.s).length
      r := r.op cfg (.senderAdopt order order.length) what
      r := r.drain cfg
      r := r.compare o oj uni what
      if pid = "C04" then r := r.specFail (c04reconnect prev o newSid)
      if pid = "C01" then r := r.specFail (c01 cfg r.rops uni o)
    | "authfail" =>
      r := r.op cfg .authFail what
      r := r.drain cfg
      r := r.compare o oj uni what
      if pid = "C04" then
        r := r.specFail (if sameState prev o then none else some "C04.cache_survives: the stop changed the cache")
        r := r.specFail (c04stopped o)
    | "flood" =>
      -- `count` lookups of an uncached name after the client stopped, then one lookup of a cached name
      let rt ← match rtOfStr (jStrD st "rt" "?") with | some t => pure t | none => throw "flood: type"
      let n ← jStr st "n"
      let count := jNatD st "count" 0
      let mut blockedAt : Option Nat := none
      for i in List.range count do
        if blockedAt.isNone then
          match step cfg r.s (.touch rt n now) with
          | some s1 =>
            match step cfg s1 (.subscribe rt n) with
            | some s2 => r := { r with s := s2, rops := .subscribe rt n :: .touch rt n now :: r.rops }
            | none => blockedAt := some i
          | none => blockedAt := some i
      let implHang := jBoolD oj "hang" false
      let returned := jNatD oj "returned" 0
      match blockedAt with
      | some i =>
        if !implHang then r := r.fail s!"{what}: model blocks at lookup {i} (request channel full, nobody drains), impl returned all"
        else if returned != i then r := r.fail s!"{what}: model blocks at lookup {i}, impl at {returned}"
      | none => if implHang then r := r.fail s!"{what}: model never blocks, impl hangs after {returned} lookups"
      if pid = "C04" then
        if implHang then
          r := r.specFail (some s!"C04.lookup_returns_after_stop: after the authentication stop, lookup number {returned + 1} never returned (and holds the manager lock)")
        else if jStrD oj "final" "" != "val:c1#1" then
          r := r.specFail (some s!"C04: cached resource not served after the stop: {jStrD oj "final" ""}")
      return { nontrivial := true, mismatch := r.mismatch, specfail := r.spec.head? }
    | x => throw s!"unknown step {x}"
    r := r.track o
    if pid = "C03" then
      if kind != "burst" && kind != "stalled-reconnect" && kind != "stalled-ack" && kind != "parked-ack" then r := r.specFail (c03 o (nodeOk oj))
      let stale := o.closed || !sendOk || r.failing.contains o.streams
      if !stale then r := r.specFail (c03quiescent o (fun rt => (r.lastOnLive.find? (fun e => e.1 = rt)).map (·.2)))
    if pid = "C04" then r := r.specFail (c04nonces o r.issued)
    if pid = "C02" then
      -- the acknowledged version of a type is the version of the last response of that type that was accepted — whatever
      -- else happened since (lookups, evictions, rejected responses, stream failures)
      match lastAcc.filter (fun e => (o.ver e.1).1 ≠ e.2) with
      | (rt, v) :: _ => r := r.specFail (some s!"C02.version_is_last_accepted: after {what} the client holds version '{(o.ver rt).1}' for {rtStr rt}; the last accepted response of that type carried '{v}' (a later rejection would be reported to the control plane against the wrong version)")
      | [] => pure ()
    prev := o
  let nt := match pid with
    | "C01" => accepted ≥ 2
    | "C02" => steps.toList.any (fun st => jStrD st "o" "" = "push" && (match jArr st "slots" with | .ok a => a.toList.any (fun s => jBoolD s "bad" false) | _ => false))
    | "C04" => steps.toList.any (fun st => let k := jStrD st "o" ""; k = "recvfail" || k = "authfail")
    | "C19" => steps.toList.any (fun st => jStrD st "o" "" = "tick" && (match (st.getObjVal? "obs").toOption.bind (fun o => (jArr o "reqs").toOption) with | some a => !a.isEmpty | none => false))
    | _ => steps.size ≥ 10
  return { nontrivial := nt, mismatch := r.mismatch, specfail := r.spec.head? }

end XdsVerif.Driver.Hist
