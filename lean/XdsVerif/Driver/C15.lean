import XdsVerif.Driver.RouteJson
import XdsVerif.Model.Middleware
import XdsVerif.Generated.Facts
import XdsVerif.Spec.C15
import XdsVerif.Spec.C08
namespace XdsVerif.Driver.C15
open Lean XdsVerif.Route XdsVerif.Middleware

def supply {α} (kind : String) (v : Option α) : Lk α :=
  match kind with
  | "val" => match v with | some a => .val a | none => .err
  | "typednil" => .typedNil
  | "nilnil" => .nilnil
  | _ => .err

/-- the deterministic destination of a route whose clusters have at most one non-zero weight (spec side) -/
def detPick (r : Route) : Option (String × Nat) :=
  match r.clusters with
  | [] => none
  | [(c, _)] => some (c, r.timeoutMs)
  | cs => match cs.filter (fun cw => cw.2 > 0) with
    | [(c, _)] => some (c, r.timeoutMs)
    | _ => none

def checkE2E (j : Json) : Except String Verdict := do
  -- real manager, name-table-free configuration: the control plane answers a listener subscription
  -- with a response that does / does not contain the listener
  let supplied := jBoolD j "supplied" false
  let obs ← j.getObjVal? "obs"
  let o : Spec.C15.Obs := {
    tag := match obs.getObjVal? "tag" with | .ok (.str s) => some s | _ => none
    locked := jBoolD obs "locked" false
    timeoutMs := jNatD obs "timeoutMs" 0
    next := jNatD obs "next" 0
    err := jStrD obs "err" ""
    panicked := jBoolD obs "panic" false }
  let want : Option (String × Nat) := if supplied then some ("c-e2e", 250) else none
  return { nontrivial := true
           specfail := (Spec.C15.middleware none want o).map (fun m => s!"C15.{m} (real manager, listener {if supplied then "supplied" else "withheld"})") }

def checkE2ERds (j : Json) : Except String Verdict := do
  -- real manager, one middleware, three calls around a rejected and an accepted new version of the named route table
  let calls ← jArr j "calls"
  let mut sf : Option String := none
  let mut idx := 0
  for cj in calls.toList do
    idx := idx + 1
    let obs ← cj.getObjVal? "obs"
    let o : Spec.C15.Obs := {
      tag := match obs.getObjVal? "tag" with | .ok (.str s) => some s | _ => none
      locked := jBoolD obs "locked" false
      timeoutMs := jNatD obs "timeoutMs" 0
      next := jNatD obs "next" 0
      err := jStrD obs "err" ""
      panicked := jBoolD obs "panic" false }
    let want : Option (String × Nat) := match jObj? cj "want" with
      | some w => some (jStrD w "cluster" "", jNatD w "timeoutMs" 0)
      | none => none
    if sf.isNone then
      sf := (Spec.C15.middleware none want o).map (fun m => s!"C15.{m} (real manager, call {idx} of 3: table delivered / malformed version rejected / new version accepted)")
  return { nontrivial := true, specfail := sf }

def check (j : Json) : Except String Verdict := do
  let op ← jStr j "op"
  if op = "e2e" then return ← checkE2E j
  if op = "e2e-rds" then return ← checkE2ERds j
  let lsup ← jStr j "lsup"
  let nsup ← jStr j "nsup"
  let lis ← match jObj? j "listener" with
    | none => pure none
    | some l => do pure (some (← parseListener l))
  let namedCfg ← match jObj? j "named" with
    | none => pure none
    | some c => do pure (some (← parseCfg c))
  let pretagS := jStrD j "pretag" ""
  let pretag := if pretagS = "" then none else some pretagS
  let matchMethod := jBoolD j "matchMethod" false
  let method := jStrD j "method" ""
  let obs ← j.getObjVal? "obs"
  let o : Spec.C15.Obs := {
    tag := match obs.getObjVal? "tag" with | .ok (.str s) => some s | _ => none
    locked := jBoolD obs "locked" false
    timeoutMs := jNatD obs "timeoutMs" 0
    next := jNatD obs "next" 0
    err := jStrD obs "err" ""
    panicked := jBoolD obs "panic" false }
  let keyUsed := jStrD obs "keyUsed" ""
  let inv : Invocation := ⟨"pkg", "svc", method, method⟩
  let rx : String → String → Bool := match parseRx j with | .ok t => rxOf t | .error _ => fun _ _ => false
  let md : Meta := match parseMeta j with | .ok m => m | .error _ => []
  let lk : Lk Listener := supply lsup lis
  let nk : String → Lk RouteCfg := fun n => if n = "rc-a" then supply nsup namedCfg else .err
  -- model (draw value 0 is enough: generated cluster vectors have at most one non-zero weight)
  let ro := routeCall Generated.pick rx lk nk false md inv 0
  let c0 : Call := ⟨pretag, false, jNatD j "initMs" 0⟩   -- the call may carry a timeout of its own
  let showCall (c : Call) : String := s!"tag={c.tag} locked={c.locked} timeout={c.timeoutMs}"
  let implCall : Call := ⟨o.tag, o.locked, o.timeoutMs⟩
  -- an already decided tag is not locked by this step; the probe reports its lock state as found
  let mm : Option String :=
    if op = "mw" then
      let m := middleware c0 ro
      let mErr := match m.err with | some _ => "route" | none => ""
      if m.panicked != o.panicked then some s!"middleware: model panic={m.panicked}, impl panic={o.panicked}"
      else if m.panicked then none
      else if showCall m.call != showCall implCall then some s!"middleware: model {showCall m.call}, impl {showCall implCall}"
      else if m.nextCalls != o.next || mErr != o.err then some s!"middleware: model next={m.nextCalls} err={mErr}, impl next={o.next} err={o.err}"
      else none
    else
      let m := retryKey matchMethod c0 ro method
      if m.panicked != o.panicked then some s!"retryKey: model panic={m.panicked}, impl panic={o.panicked}"
      else if m.panicked then none
      else if showCall m.call != showCall implCall then some s!"retryKey: model {showCall m.call}, impl {showCall implCall}"
      else if keyUsed != s!"policy-of:{m.key}" then some s!"retryKey: model key '{m.key}', impl {keyUsed}"
      else none
  -- spec: judged only when every supply is something the manager may return (error or value)
  let inDomain := (lsup != "typednil" && lsup != "nilnil") && (nsup != "typednil" && nsup != "nilnil")
  let expectedRoute : Option (String × Nat) :=
    match Spec.C08.expected rx lk.toOption (fun n => (nk n).toOption) false md inv with
    | .inr r => detPick r
    | .inl _ => none
  let sf : Option String :=
    if !inDomain then none
    else if op = "mw" then (Spec.C15.middleware pretag expectedRoute o).map (fun m => s!"C15.{m}")
    else (Spec.C15.retryKey pretag expectedRoute o).map (fun m => s!"C15.{m}")
  return { nontrivial := !(pretag.isNone && expectedRoute.isSome), mismatch := mm, specfail := sf }

end XdsVerif.Driver.C15
