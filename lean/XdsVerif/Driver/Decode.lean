import XdsVerif.Driver.Util
import XdsVerif.Model.Decode
import XdsVerif.Model.DecodeCE
import XdsVerif.Generated.Facts
/-! Driver for C11–C13: message trees (reference parse of the harness) → model decode → canonical summary,
compared with the summary of what the repo's decoders returned; plus the executable specs. -/
namespace XdsVerif.Driver.Decode
open Lean XdsVerif.Decode XdsVerif.Route

def optNat (j : Json) (k : String) : Option Nat :=
  match j.getObjVal? k with
  | .ok .null => none
  | .ok v => v.getNat?.toOption
  | .error _ => none

def optInt (j : Json) (k : String) : Option Int :=
  match j.getObjVal? k with
  | .ok .null => none
  | .ok v => v.getInt?.toOption
  | .error _ => none

def parseHeader (j : Json) : PHeader :=
  let name := jStrD j "name" ""
  let v := jStrD j "v" ""
  match jStrD j "k" "other" with
  | "exact" => ⟨name, .stringMatch (.exact v)⟩
  | "prefix" => ⟨name, .stringMatch (.pfx v)⟩
  | "regex" => ⟨name, .stringMatch (.safeRegex (some v))⟩
  | "regexNil" => ⟨name, .stringMatch (.safeRegex none)⟩
  | "smOther" => ⟨name, .stringMatch .other⟩
  | _ => ⟨name, .other⟩

def parseHeaders (j : Json) (k : String) : List PHeader :=
  match jArr j k with | .ok a => a.toList.map parseHeader | .error _ => []

def parseWeighted (j : Json) (k : String) : Option (List (String × Option Nat)) :=
  match j.getObjVal? k with
  | .ok (.arr a) => some (a.toList.map (fun e => match e with
      | .arr p => ((match p[0]! with | .str s => s | _ => ""), (match p[1]! with | .null => none | v => v.getNat?.toOption))
      | _ => ("", none)))
  | _ => none

def parseRC (j : Json) : PRouteConfiguration :=
  let vhs := match jArr j "vhosts" with | .ok a => a.toList | .error _ => []
  { name := jStrD j "name" ""
    vhosts := vhs.map (fun v =>
      let rs := match jArr v "routes" with | .ok a => a.toList | .error _ => []
      { name := jStrD v "name" ""
        routes := rs.map (fun r =>
          let mtch : Option PRouteMatch := (jObj? r "match").map (fun m =>
            { path := match jStrD m "pk" "other" with
                | "prefix" => .pfx (jStrD m "pv" "")
                | "path" => .path (jStrD m "pv" "")
                | _ => .other
              headers := parseHeaders m "headers" })
          let action : PAction := match jObj? r "action" with
            | none => .none
            | some a => match jStrD a "k" "none" with
              | "none" => .none
              | "route" =>
                let spec : PClusterSpec := match jStrD a "spec" "other" with
                  | "cluster" => .cluster (jStrD a "cluster" "")
                  | "weighted" => .weighted (parseWeighted a "weighted")
                  | _ => .other
                let retry : Option PRetry := (jObj? a "retry").map (fun p =>
                  { retryOn := jStrD p "retryOn" "", numRetries := optNat p "num", perTry := optInt p "perTry", perTryIdle := optInt p "perTryIdle"
                    retriable := parseHeaders p "retriable"
                    backoff := (jObj? p "backoff").map (fun b => ⟨optInt b "base", optInt b "max"⟩) })
                .route ⟨spec, optInt a "timeout", retry⟩
              | _ => .other
          ⟨jStrD r "name" "", mtch, action⟩) }) }

def parseHttpFilter (j : Json) : PHttpFilter :=
  match jStrD j "k" "other" with
  | "typedNil" => .typed none
  | "otherUrl" => .typed (some .otherUrl)
  | "rl" =>
    if jStrD j "p" "ok" = "badBytes" then .typed (some (.rateLimit .badBytes))
    else match j.getObjVal? "bucket" with
      | .ok (.arr a) => .typed (some (.rateLimit (.ok (some ((a[0]!).getNat?.toOption.getD 0, (match a[1]! with | .null => none | v => v.getNat?.toOption))))))
      | _ => .typed (some (.rateLimit (.ok none)))
  | "ts" =>
    if jStrD j "p" "ok" = "badBytes" then .typed (some (.typedStruct .badBytes))
    else match j.getObjVal? "tb" with
      | .ok (.arr a) =>
        let f (v : Json) : Option Nat := match v with | .null => none | v => v.getNat?.toOption
        .typed (some (.typedStruct (.ok (some (f a[0]!, f a[1]!)))))
      | _ => .typed (some (.typedStruct (.ok none)))
  | _ => .other

def parseFilter (j : Json) : PFilterCfg :=
  match jStrD j "k" "other" with
  | "typedNil" => .typed none
  | "otherUrl" => .typed (some .otherUrl)
  | "thrift" =>
    if jStrD j "p" "ok" = "badBytes" then .typed (some (.thrift .badBytes))
    else
      let rs := match jArr j "routes" with | .ok a => a.toList | .error _ => []
      let routes : List PThriftRoute := rs.map (fun r =>
        { mtch := (jObj? r "match").map (fun m =>
            { spec := match jStrD m "spec" "other" with
                | "method" => .method (jStrD m "val" "")
                | "service" => .service (jStrD m "val" "")
                | _ => .other
              headers := parseHeaders m "headers" })
          route := (jObj? r "route").map (fun a => match jStrD a "spec" "other" with
            | "cluster" => PThriftCluster.cluster (jStrD a "cluster" "")
            | "weighted" => .weighted (parseWeighted a "weighted")
            | _ => .other) })
      .typed (some (.thrift (.ok ⟨if jBoolD j "rc" false then some ("thrift-rc", routes) else none⟩)))
  | "hcm" =>
    if jStrD j "p" "ok" = "badBytes" then .typed (some (.hcm .badBytes))
    else
      let spec : PRouteSpecifier := match jStrD j "spec" "other" with
        | "rds" => .rds (match j.getObjVal? "rdsName" with | .ok (.str s) => some s | _ => none)
        | "inline" => .routeConfig ((jObj? j "rc").map parseRC)
        | _ => .other
      let hfs := match jArr j "httpFilters" with | .ok a => a.toList.map parseHttpFilter | .error _ => []
      .typed (some (.hcm (.ok ⟨spec, hfs⟩)))
  | _ => .other

def parseChain (j : Json) : PFilterChain :=
  { destPort := optNat j "port", filters := match jArr j "filters" with | .ok a => a.toList.map parseFilter | .error _ => [] }

def parseSlot {α} (j : Json) (f : Json → α) : PAny α :=
  match jStrD j "p" "ok" with
  | "badUrl" => .badUrl
  | "badBytes" => .badBytes
  | _ => .ok (f j)

/-! ### canonical summaries of model values (same shape as the harness prints for the implementation) -/

def jN (n : Nat) : Json := Json.num n
def jI (n : Int) : Json := Json.num (JsonNumber.fromInt n)

def matcherJson (e : String × Matcher) : Json :=
  match e.2 with
  | .exact s => Json.arr #[e.1, "exact", s]
  | .pfx s => Json.arr #[e.1, "prefix", s]
  | .regex s => Json.arr #[e.1, "regex", s]

def headersJson (hs : Headers) : Json :=
  Json.arr ((hs.toArray.qsort (fun a b => a.1 < b.1)).map matcherJson)

def routeJson (floats : String → String) (r : DRoute) : Json :=
  let m : Json := match r.mtch with
    | .http h => Json.mkObj [("kind", "http"), ("path", h.path), ("prefix", h.pfx), ("headers", headersJson h.headers)]
    | .thrift t => Json.mkObj [("kind", "thrift"), ("method", t.method), ("service", t.service), ("headers", headersJson t.tags)]
    | .none => Json.null
  Json.mkObj [("timeout", jI r.timeout), ("match", m),
    ("clusters", Json.arr (r.clusters.toArray.map (fun c => Json.arr #[c.1, jN c.2]))),
    ("retry", Json.mkObj [("retryOn", r.retry.retryOn), ("num", jN r.retry.numRetries), ("perTry", jI r.retry.perTry),
      ("perTryIdle", jI r.retry.perTryIdle), ("errRate", match r.retry.errRate with | some v => floats v | none => "0"),
      ("backoff", match r.retry.backoff with | some b => Json.arr #[jI b.base, jI b.max] | none => Json.null),
      ("methods", Json.arr (r.retry.methods.toArray.map Json.str))])]

def cfgJson (floats : String → String) (c : DRouteCfg) : Json :=
  Json.mkObj [("http", match c.http with
      | some vhs => Json.arr (vhs.toArray.map (fun v => Json.mkObj [("name", v.name), ("routes", Json.arr (v.routes.toArray.map (routeJson floats)))]))
      | none => Json.null),
    ("thrift", match c.thrift with | some rs => Json.arr (rs.toArray.map (routeJson floats)) | none => Json.null),
    ("maxTokens", jN c.maxTokens), ("tokensPerFill", jN c.tokensPerFill)]

def listenerJson (floats : String → String) (l : DListener) : Json :=
  Json.mkObj [("filters", Json.arr (l.filters.toArray.map (fun f => Json.mkObj [("thrift", f.isThrift), ("rcName", f.routeConfigName),
    ("port", jN f.port), ("inline", match f.inline with | some c => cfgJson floats c | none => Json.null)])))]

/-- structural comparison of JSON values (objects compared key-wise) -/
partial def jsonEq (a b : Json) : Bool :=
  match a, b with
  | .obj x, .obj y =>
    let xs := x.toList
    let ys := y.toList
    xs.length == ys.length && xs.all (fun (k, v) => match b.getObjVal? k with | .ok w => jsonEq v w | .error _ => false)
  | .arr x, .arr y => x.size == y.size && (x.toList.zip y.toList).all (fun (p, q) => jsonEq p q)
  | .num x, .num y => x == y
  | .str x, .str y => x == y
  | .bool x, .bool y => x == y
  | .null, .null => true
  | _, _ => false

/-! ### executable specification (C11): an independent projection of the message tree -/

/-- supported header conditions of a list, as (name, kind, value); duplicates of a name: all kept -/
def specHeaders (O : Oracles) (hs : List PHeader) : List (String × String × String) :=
  hs.filterMap (fun h => match h.spec with
    | .stringMatch (.exact s) => if s = "" then none else some (h.name, "exact", s)
    | .stringMatch (.pfx s) => if s = "" then none else some (h.name, "prefix", s)
    | .stringMatch (.safeRegex (some r)) => if r = "" || !O.compiles r then none else some (h.name, "regex", r)
    | _ => none)

def implHeaders (m : Json) : List (String × String × String) :=
  match jArr m "headers" with
  | .ok a => a.toList.filterMap (fun e => match e with
      | .arr p => match p[0]!, p[1]!, p[2]! with
        | .str n, .str k, .str v => some (n, k, v)
        | _, _, _ => none
      | _ => none)
  | .error _ => []

/-- does the decoded route (implementation summary) preserve the meaning of the route the control plane sent? -/
def specRoute (O : Oracles) (floats : String → String) (r : PRoute) (d : Json) (where_ : String) : Option String :=
  match r.mtch, r.action with
  | some m, .route a =>
    let dm := (d.getObjVal? "match").toOption.getD Json.null
    let wantPath := match m.path with | .path s => s | _ => ""
    let wantPfx := match m.path with | .pfx s => s | _ => ""
    let want := specHeaders O m.headers
    let got := implHeaders dm
    let dupNames := (want.map (·.1)).eraseDups.length ≠ want.length
    let sortT (l : List (String × String × String)) := (l.toArray.qsort (fun a b => a.1 < b.1 || (a.1 == b.1 && a.2.1 < b.2.1) || (a.1 == b.1 && a.2.1 == b.2.1 && a.2.2 < b.2.2))).toList
    if jStrD dm "path" "?" ≠ wantPath || jStrD dm "prefix" "?" ≠ wantPfx then some s!"C11.route_preserves: {where_}: path condition changed"
    else if !dupNames && sortT want ≠ sortT got then some s!"C11.headers_preserved: {where_}: header conditions sent {want}, decoded {got}"
    else if dupNames && !(got.all (fun g => want.contains g)) then some s!"C11.headers_preserved: {where_}: decoded a header condition that was not sent"
    else if dupNames && sortT want ≠ sortT got then some s!"S13 C11.headers_preserved: {where_}: two supported conditions on one header name, sent {want}, decoded {got}"
    else
      let wantCl : List (String × Nat) := match a.spec with
        | .cluster n => [(n, 1)]
        | .weighted (some cs) => cs.map (fun c => (c.1, c.2.getD 0))
        | _ => []
      let gotCl : List (String × Nat) := match jArr d "clusters" with
        | .ok arr => arr.toList.filterMap (fun e => match e with | .arr p => (match p[0]!, (p[1]!).getNat? with | .str n, .ok w => some (n, w) | _, _ => none) | _ => none)
        | .error _ => []
      if wantCl ≠ gotCl then some s!"C11.route_preserves: {where_}: clusters sent {wantCl}, decoded {gotCl}"
      else if (d.getObjVal? "timeout").toOption.bind (·.getInt?.toOption) ≠ some (a.timeout.getD 0) then some s!"C11.route_preserves: {where_}: timeout"
      else match a.retry with
        | none => none
        | some p =>
          let dr := (d.getObjVal? "retry").toOption.getD Json.null
          let gi (k : String) : Option Int := (dr.getObjVal? k).toOption.bind (·.getInt?.toOption)
          if gi "num" ≠ some (p.numRetries.getD 0 : Nat) then some s!"C11.retry_preserves: {where_}: attempts"
          else if gi "perTry" ≠ some (p.perTry.getD 0) || gi "perTryIdle" ≠ some (p.perTryIdle.getD 0) then some s!"C11.retry_preserves: {where_}: per-try timeouts"
          else
            let wantBo : Option (Int × Int) := p.backoff.map (fun b => (b.base.getD 0, b.max.getD 0))
            let gotBo : Option (Int × Int) := match dr.getObjVal? "backoff" with
              | .ok (.arr x) => (match (x[0]!).getInt?, (x[1]!).getInt? with | .ok b, .ok m => some (b, m) | _, _ => none)
              | _ => none
            if wantBo ≠ gotBo then some s!"C11.retry_preserves: {where_}: back-off sent (base,max)={wantBo}, decoded {gotBo}"
            else
              -- the retriable-header extensions of THIS route: the last retriable header of each extension name that carries
              -- a non-empty exact value (an error rate only when it reads as a number); none sent = none decoded
              let exact (h : PHeader) : String := match h.spec with | .stringMatch (.exact v) => v | _ => ""
              let lastOf (nm : String) (ok : String → Bool) : Option String :=
                ((p.retriable.filter (fun h => h.name = nm && exact h ≠ "" && ok (exact h))).getLast?).map exact
              let wantMethods : List String := match lastOf "kitexRetryMethods" (fun _ => true) with | some v => v.splitOn "," | none => []
              let gotMethods : List String := match jArr dr "methods" with
                | .ok arr => arr.toList.filterMap (fun e => match e with | .str x => some x | _ => none)
                | .error _ => []
              let wantRate : String := match lastOf "kitexRetryErrorRate" O.parsesFloat with | some v => floats v | none => "0"
              let gotRate : String := jStrD dr "errRate" "?"
              if wantMethods ≠ gotMethods then some s!"C11.retry_preserves: {where_}: retriable-header extension kitexRetryMethods: sent {wantMethods}, decoded {gotMethods}"
              else if wantRate ≠ gotRate then some s!"C11.retry_preserves: {where_}: retriable-header extension kitexRetryErrorRate: sent {wantRate}, decoded {gotRate}"
              else none
  | _, _ => none

/-- the bucket the control plane configured for an HTTP connection manager: the first local-rate-limit filter
(typed or TypedStruct form with both numbers), wherever it sits -/
def specBucket (fs : List PHttpFilter) : Option (Nat × Nat) :=
  (fs.filterMap (fun f => match f with
    | .typed (some (.rateLimit (.ok (some (mt, tpf))))) => some (mt, tpf.getD 0)
    | .typed (some (.typedStruct (.ok (some (some mt, some tpf))))) => some (mt, tpf)
    | _ => none)).head?

def specRC (O : Oracles) (floats : String → String) (c : PRouteConfiguration) (d : Json) (where_ : String) : Option String :=
  match d.getObjVal? "http" with
  | .ok (.arr vhs) =>
    if vhs.size ≠ c.vhosts.length then some s!"C11.vhosts_in_order: {where_}: virtual host count" else
    ((c.vhosts.zip vhs.toList).zipIdx.filterMap (fun ((v, dv), i) =>
      if jStrD dv "name" "?" ≠ v.name then some s!"C11.vhosts_in_order: {where_}: virtual host {i} name" else
      match jArr dv "routes" with
      | .ok rs =>
        if rs.size ≠ v.routes.length then some s!"C11.routes_in_order: {where_}: route count in {v.name}" else
        ((v.routes.zip rs.toList).zipIdx.filterMap (fun ((r, dr), k) => specRoute O floats r dr s!"{where_}/{v.name}/route {k}")).head?
      | .error _ => some "routes missing")).head?
  | _ => some s!"C11: {where_}: no HTTP route config decoded"

end XdsVerif.Driver.Decode

namespace XdsVerif.Driver.Decode
open Lean XdsVerif.Decode XdsVerif.Route

def oracles (j : Json) : Oracles × (String → String) :=
  let comp : List (String × Bool) := match jArr j "compiles" with
    | .ok a => a.toList.filterMap (fun e => match e with | .arr p => (match p[0]!, p[1]! with | .str s, .bool b => some (s, b) | _, _ => none) | _ => none)
    | .error _ => []
  -- float parsing of the generator's header values (strconv.ParseFloat): canonical 'g' form, or not a number
  let floats : List (String × String) := [("0.1", "0.1"), ("0.25", "0.25"), ("0.3", "0.3"), ("0.2", "0.2")]
  (⟨fun r => (comp.reverse.find? (fun e => e.1 = r)).map (·.2) |>.getD false, fun v => floats.any (fun e => e.1 = v)⟩,
   fun v => (floats.find? (fun e => e.1 = v)).map (·.2) |>.getD "0")

/-- the last slot of each name wins (Go map) -/
def lastByName {α} (l : List (String × α)) : List (String × α) :=
  l.foldl (fun acc e => acc.filter (fun x => x.1 ≠ e.1) ++ [e]) []

def httpScanInvalid (fs : List PHttpFilter) : Bool :=
  -- a payload of a rate-limit / TypedStruct filter that is inspected before a bucket is found does not decode
  let rec go : List PHttpFilter → Bool
    | [] => false
    | .typed (some (.rateLimit .badBytes)) :: _ => true
    | .typed (some (.typedStruct .badBytes)) :: _ => true
    | .typed (some (.rateLimit (.ok (some _)))) :: _ => false
    | .typed (some (.typedStruct (.ok (some (some _, some _))))) :: _ => false
    | _ :: rest => go rest
  go fs

def rcInvalid (c : PRouteConfiguration) : Bool :=
  c.vhosts.any (fun v => v.routes.any (fun r => r.mtch.isNone || (match r.action with | .none => true | _ => false)))

def filterInvalid : PFilterCfg → Bool
  | .typed (some (.thrift .badBytes)) => true
  | .typed (some (.hcm .badBytes)) => true
  | .typed (some (.thrift (.ok tp))) => (match tp.routeConfig with | some rc => rc.2.any (fun r => r.mtch.isNone || r.route.isNone) | none => false)
  | .typed (some (.hcm (.ok h))) =>
    httpScanInvalid h.httpFilters ||
    (match h.spec with
     | .rds none => true
     | .rds (some n) => n = ""
     | .routeConfig none => true
     | .routeConfig (some c) => rcInvalid c
     | .other => false)
  | _ => false

def listenerInvalid (l : PListener) : Bool :=
  (l.chains ++ (match l.dflt with | some c => [c] | none => [])).any (fun fc => fc.filters.any filterInvalid)

structure Cmp where
  mismatch : Option String := none
  specs : List String := []

def Cmp.mm (c : Cmp) (m : String) : Cmp := if c.mismatch.isNone then { c with mismatch := some m } else c
def Cmp.sf (c : Cmp) (m : Option String) : Cmp := match m with | some x => { c with specs := c.specs ++ [x] } | none => c
/-- the failure to report: any failure that is not the known finding S13 comes first, so that S13 never masks another one -/
def Cmp.spec (c : Cmp) : Option String :=
  match c.specs.filter (fun m => !m.startsWith "S13 ") with
  | m :: _ => some m
  | [] => c.specs.head?

def checkLdsRds (pid : String) (j : Json) (rt : String) : Except String Verdict := do
  let (O, floats) := oracles j
  let F := Generated.decode
  let sa ← jArr j "slots"
  let obs ← j.getObjVal? "obs"
  let implPanic := jBoolD obs "panic" false
  let implErr := jBoolD obs "err" false
  let entries := (obs.getObjVal? "entries").toOption.getD (Json.mkObj [])
  let mut c : Cmp := {}
  if rt = "rds" then
    let slots : List (PAny PRouteConfiguration) := sa.toList.map (fun s => parseSlot s (fun x => parseRC ((x.getObjVal? "rc").toOption.getD Json.null)))
    let invalid := slots.any (fun s => match s with | .ok rc => rcInvalid rc | _ => true)
    match decodeRDS F O slots with
    | .panic => if !implPanic then c := c.mm "model panics, implementation does not"
    | .err e => c := c.mm s!"model error {e}"
    | .ok d =>
      if implPanic then c := c.mm "implementation panicked, model does not"
      else
        if (!d.errors.isEmpty) != implErr then c := c.mm s!"rejected: model {!d.errors.isEmpty}, impl {implErr}"
        for (n, v) in d.entries do
          match entries.getObjVal? n with
          | .ok iv => if !jsonEq (cfgJson floats v) iv then c := c.mm s!"route table {n}: model {(cfgJson floats v).compress}, impl {iv.compress}"
          | .error _ => c := c.mm s!"route table {n}: missing in the implementation's result"
        if (jKVs entries).length ≠ d.entries.length then c := c.mm "number of decoded route tables differs"
    -- specs
    if implPanic then c := c.sf (some "C13.no_panic: UnmarshalRDS panicked")
    if pid = "C13" && !implPanic then
      if invalid != implErr then c := c.sf (some s!"C13.error_iff_invalid: response invalid={invalid} but rejected={implErr}")
      if implErr && !(jBoolD obs "errNonEmpty" false) then c := c.sf (some "C13: empty error message (the NACK would carry no error detail)")
    if pid = "C11" && !implErr && !implPanic then
      let named := lastByName (slots.filterMap (fun s => match s with | .ok rc => some (rc.name, rc) | _ => none))
      for (n, rc) in named do
        match entries.getObjVal? n with
        | .ok iv => c := c.sf (specRC O floats rc iv s!"table {n}")
        | .error _ => c := c.sf (some s!"C11: route table {n} lost")
      if (jKVs entries).length ≠ named.length then c := c.sf (some "C11: decoded tables not keyed one-to-one by their names")
    return { nontrivial := slots.any (fun s => match s with | .ok rc => rc.vhosts.any (fun v => !v.routes.isEmpty) | _ => true)
             mismatch := c.mismatch, specfail := c.spec }
  else
    let slots : List (PAny PListener) := sa.toList.map (fun s => parseSlot s (fun x =>
      { name := jStrD x "name" "", chains := (match jArr x "chains" with | .ok a => a.toList.map parseChain | .error _ => []),
        dflt := (jObj? x "dflt").map parseChain }))
    let invalid := slots.any (fun s => match s with | .ok l => listenerInvalid l | _ => true)
    match decodeLDS F O slots with
    | .panic => if !implPanic then c := c.mm "model panics, implementation does not"
    | .err e => c := c.mm s!"model error {e}"
    | .ok d =>
      if implPanic then c := c.mm "implementation panicked, model does not"
      else
        if (!d.errors.isEmpty) != implErr then c := c.mm s!"rejected: model {!d.errors.isEmpty} {d.errors}, impl {implErr}"
        if !implErr then
          for (n, v) in d.entries do
            match entries.getObjVal? n with
            | .ok iv => if !jsonEq (listenerJson floats v) iv then c := c.mm s!"listener {n}: model {(listenerJson floats v).compress}, impl {iv.compress}"
            | .error _ => c := c.mm s!"listener {n}: missing in the implementation's result"
          if (jKVs entries).length ≠ d.entries.length then c := c.mm "number of decoded listeners differs"
    if implPanic then c := c.sf (some "C13.no_panic: UnmarshalLDS panicked")
    if pid = "C13" && !implPanic then
      if invalid != implErr then c := c.sf (some s!"C13.error_iff_invalid: response invalid={invalid} but rejected={implErr}")
      if implErr && !(jBoolD obs "errNonEmpty" false) then c := c.sf (some "C13: empty error message")
    if pid = "C11" && !implErr && !implPanic then
      let named := lastByName (slots.filterMap (fun s => match s with | .ok l => some (l.name, l) | _ => none))
      for (n, l) in named do
        match entries.getObjVal? n with
        | .error _ => c := c.sf (some s!"C11: listener {n} lost")
        | .ok iv =>
          -- per filter chain, in order: the filters that carry routing information
          let chains := l.chains ++ (match l.dflt with | some x => [x] | none => [])
          let want : List (Bool × Nat × PFilterPayload) := chains.flatMap (fun fc => fc.filters.filterMap (fun f => match f with
            | .typed (some (.thrift (.ok tp))) => some (true, 0, PFilterPayload.thrift (.ok tp))
            | .typed (some (.hcm (.ok h))) => some (false, fc.destPort.getD 0, PFilterPayload.hcm (.ok h))
            | _ => none))
          let got := match jArr iv "filters" with | .ok a => a.toList | .error _ => []
          if got.length ≠ want.length then c := c.sf (some s!"C11.lds_preserves: listener {n}: {want.length} routing filters sent, {got.length} decoded")
          else
            for ((isT, port, pl), g) in want.zip got do
              if jBoolD g "thrift" false != isT then c := c.sf (some s!"C11.lds_preserves: listener {n}: filter order/kind changed")
              match pl with
              | .hcm (.ok h) =>
                if jNatD g "port" 0 ≠ port then c := c.sf (some s!"C11.lds_preserves: listener {n}: destination port sent {port}, decoded {jNatD g "port" 0}")
                let inl := (g.getObjVal? "inline").toOption.getD Json.null
                let (wmt, wtpf) := (specBucket h.httpFilters).getD (0, 0)
                match h.spec with
                | .rds (some nm) =>
                  if jStrD g "rcName" "?" ≠ nm then c := c.sf (some s!"C11.lds_preserves: listener {n}: named route table sent {nm}, decoded {jStrD g "rcName" "?"}")
                  if jNatD inl "tokensPerFill" 0 ≠ wtpf || jNatD inl "maxTokens" 0 ≠ wmt then
                    c := c.sf (some s!"C11.rate_limit_any_position: listener {n}: bucket sent (max {wmt}, per fill {wtpf}), decoded (max {jNatD inl "maxTokens" 0}, per fill {jNatD inl "tokensPerFill" 0})")
                | .routeConfig (some rc) =>
                  if jStrD g "rcName" "?" ≠ rc.name then c := c.sf (some s!"C11.lds_preserves: listener {n}: inline table name")
                  c := c.sf (specRC O floats rc inl s!"listener {n} inline table")
                  if jNatD inl "tokensPerFill" 0 ≠ wtpf || jNatD inl "maxTokens" 0 ≠ wmt then
                    c := c.sf (some s!"C11.rate_limit_any_position: listener {n}: bucket sent (max {wmt}, per fill {wtpf}), decoded (max {jNatD inl "maxTokens" 0}, per fill {jNatD inl "tokensPerFill" 0})")
                | _ => pure ()
              | .thrift (.ok tp) =>
                let inl := (g.getObjVal? "inline").toOption.getD Json.null
                let wantN := match tp.routeConfig with | some rc => rc.2.length | none => 0
                let gotN := match jArr inl "thrift" with | .ok a => a.size | .error _ => 0
                if wantN ≠ gotN then c := c.sf (some s!"C11.thrift_routes_in_order: listener {n}: {wantN} Thrift routes sent, {gotN} decoded")
              | _ => pure ()
    return { nontrivial := slots.any (fun s => match s with | .ok l => !l.chains.isEmpty | _ => true)
             mismatch := c.mismatch, specfail := c.spec }

end XdsVerif.Driver.Decode

namespace XdsVerif.Driver.Decode
open Lean XdsVerif.DecodeCE XdsVerif.Resolve

def parseClaJ (j : Json) : PCla :=
  let ls := match jArr j "localities" with | .ok a => a.toList | .error _ => []
  ⟨jStrD j "name" "", ls.map (fun l => match l with
    | .arr es => es.toList.map (fun e => ⟨jStrD e "host" "", jNatD e "port" 0, jNatD e "weight" 0⟩)
    | _ => [])⟩

def parseClusterJ (j : Json) : PCluster :=
  { name := jStrD j "name" "", typ := (jInt j "typ").toOption.getD 0, lb := (jInt j "lb").toOption.getD 0, serviceName := jStrD j "serviceName" ""
    inline := (jObj? j "inline").map parseClaJ
    outlier := (jObj? j "outlier").map (fun o => ⟨optNat o "thr", optNat o "vol"⟩) }

def slotCE {α} (j : Json) (f : Json → α) : Slot α :=
  match jStrD j "p" "ok" with
  | "badUrl" => .badUrl
  | "badBytes" => .badBytes
  | _ => .ok (f j)

def epsJson (e : Option Endpoints) : Json :=
  match e with
  | none => Json.null
  | some x => Json.arr (x.localities.toArray.map (fun l => Json.arr (l.toArray.map (fun ep => Json.arr #[ep.addr, jN ep.weight]))))

def clusterJson (d : DCluster) : Json :=
  Json.mkObj [("disc", match d.discType with | .eds => "EDS" | .logicalDns => "LOGICAL_DNS" | .static => "Static"),
    ("lb", match d.lb with | .roundRobin => "roundrobin" | .ringHash => "ringhash"),
    ("endpointName", d.endpointName), ("inline", epsJson d.inline),
    ("outlier", match d.outlier with | some (t, v) => Json.arr #[jN t, jN v] | none => Json.null)]

/-- C12 spec: independent projection of a cluster -/
def specCluster (c : PCluster) (d : Json) : Option String :=
  let wantName := if c.serviceName = "" then c.name else c.serviceName
  let wantDisc := if c.typ = 3 then "EDS" else if c.typ = 2 then "LOGICAL_DNS" else if c.typ = 0 then "Static" else "EDS"
  let wantLb := if c.lb = 2 then "ringhash" else "roundrobin"
  if jStrD d "endpointName" "?" ≠ wantName then some s!"C12.cds_preserves: {c.name}: EDS service name should be {wantName}, is {jStrD d "endpointName" "?"}"
  else if jStrD d "disc" "?" ≠ wantDisc then some s!"C12.cds_preserves: {c.name}: discovery type {jStrD d "disc" "?"}, expected {wantDisc}"
  else if jStrD d "lb" "?" ≠ wantLb then some s!"C12.cds_preserves: {c.name}: LB policy {jStrD d "lb" "?"}, expected {wantLb}"
  else
    let wantOut : Json := match c.outlier with | some o => Json.arr #[jN (o.threshold.getD 0), jN (o.volume.getD 0)] | none => Json.null
    if !jsonEq wantOut ((d.getObjVal? "outlier").toOption.getD Json.null) then some s!"C12.cds_preserves: {c.name}: outlier percentages"
    else none

def specEndpoints (a : Option PCla) (d : Json) (who : String) : Option String :=
  let locs := match a with | some x => x.localities | none => []
  if locs.isEmpty then (if d == Json.null then none else some s!"C12.eds_preserves: {who}: an empty assignment must be the explicit no-endpoints value")
  else match d with
    | .arr ls =>
      if ls.size ≠ locs.length then some s!"C12.eds_preserves: {who}: locality count" else
      ((locs.zip ls.toList).filterMap (fun (l, dl) => match dl with
        | .arr es =>
          let want := l.map (fun e => ((if (e.host.splitOn ":").length > 1 then s!"[{e.host}]:{e.port}" else s!"{e.host}:{e.port}"), e.weight))
          let got := es.toList.filterMap (fun e => match e with | .arr p => (match p[0]!, (p[1]!).getNat? with | .str s, .ok w => some (s, w) | _, _ => none) | _ => none)
          if want ≠ got then some s!"C12.eds_preserves: {who}: endpoints sent {want}, decoded {got}" else none
        | _ => some "locality shape")).head?
    | _ => some s!"C12.eds_preserves: {who}: endpoints lost"

def checkCE (pid : String) (j : Json) (rt : String) : Except String Verdict := do
  let sa ← jArr j "slots"
  let obs ← j.getObjVal? "obs"
  let implPanic := jBoolD obs "panic" false
  let implErr := jBoolD obs "err" false
  let entries := (obs.getObjVal? "entries").toOption.getD (Json.mkObj [])
  let mut c : Cmp := {}
  if implPanic then c := c.sf (some s!"C13.no_panic: the {rt} decoder panicked")
  if rt = "cds" then
    let slots := sa.toList.map (fun s => slotCE s parseClusterJ)
    let d := decodeCDS slots
    if !implPanic then
      if (d.errors ≠ 0) != implErr then c := c.mm s!"rejected: model {decide (d.errors ≠ 0)}, impl {implErr}"
      for (n, v) in d.entries do
        match entries.getObjVal? n with
        | .ok iv => if !jsonEq (clusterJson v) iv then c := c.mm s!"cluster {n}: model {(clusterJson v).compress}, impl {iv.compress}"
        | .error _ => c := c.mm s!"cluster {n} missing in the implementation's result"
      if (jKVs entries).length ≠ d.entries.length then c := c.mm "number of decoded clusters differs"
      let invalid := slots.any (fun s => match s with | .ok _ => false | _ => true)
      if pid = "C13" && invalid != implErr then c := c.sf (some s!"C13.error_iff_invalid: response invalid={invalid} but rejected={implErr}")
      if pid = "C12" then
        let named := lastByName (slots.filterMap (fun s => match s with | .ok x => some (x.name, x) | _ => none))
        for (n, x) in named do
          match entries.getObjVal? n with
          | .ok iv =>
            c := c.sf (specCluster x iv)
            c := c.sf (specEndpoints x.inline ((iv.getObjVal? "inline").toOption.getD Json.null) s!"cluster {n} inline")
          | .error _ => c := c.sf (some s!"C12.keyed_by_own_name: cluster {n} lost")
        if (jKVs entries).length ≠ named.length then c := c.sf (some "C12.keyed_by_own_name: a resource was duplicated or attributed to another name")
    return { nontrivial := slots.length ≥ 2 || slots.any (fun s => match s with | .ok x => x.inline.isSome || x.outlier.isSome | _ => true)
             mismatch := c.mismatch, specfail := c.spec }
  else if rt = "eds" then
    let slots := sa.toList.map (fun s => slotCE s (fun x => parseClaJ ((x.getObjVal? "cla").toOption.getD Json.null)))
    let d := decodeEDS slots
    if !implPanic then
      if (d.errors ≠ 0) != implErr then c := c.mm s!"rejected: model {decide (d.errors ≠ 0)}, impl {implErr}"
      for (n, v) in d.entries do
        match entries.getObjVal? n with
        | .ok iv => if !jsonEq (epsJson v) ((iv.getObjVal? "eps").toOption.getD Json.null) then c := c.mm s!"assignment {n}: model {(epsJson v).compress}, impl {iv.compress}"
        | .error _ => c := c.mm s!"assignment {n} missing in the implementation's result"
      if (jKVs entries).length ≠ d.entries.length then c := c.mm "number of decoded assignments differs"
      let invalid := slots.any (fun s => match s with | .ok _ => false | _ => true)
      if pid = "C13" && invalid != implErr then c := c.sf (some s!"C13.error_iff_invalid: response invalid={invalid} but rejected={implErr}")
      if pid = "C12" then
        let named := lastByName (slots.filterMap (fun s => match s with | .ok x => some (x.name, x) | _ => none))
        for (n, x) in named do
          match entries.getObjVal? n with
          | .ok iv => c := c.sf (specEndpoints (some x) ((iv.getObjVal? "eps").toOption.getD Json.null) s!"assignment {n}")
          | .error _ => c := c.sf (some s!"C12.keyed_by_own_name: assignment {n} lost")
        if (jKVs entries).length ≠ named.length then c := c.sf (some "C12.keyed_by_own_name: a resource was duplicated or attributed to another name")
    return { nontrivial := slots.any (fun s => match s with | .ok x => x.localities.length ≥ 1 | _ => true)
             mismatch := c.mismatch, specfail := c.spec }
  else
    let parseT (x : Json) : List (String × List String) := match jArr x "table" with
      | .ok a => a.toList.filterMap (fun e => match e with
          | .arr p => (match p[0]!, p[1]! with | .str k, .arr vs => some (k, vs.toList.filterMap (fun v => match v with | .str s => some s | _ => none)) | _, _ => none)
          | _ => none)
      | .error _ => []
    let slots := sa.toList.map (fun s => slotCE s parseT)
    let m := decodeNDS slots
    if !implPanic then
      if m.isNone != implErr then c := c.mm s!"rejected: model {m.isNone}, impl {implErr}"
      match m with
      | some t =>
        let it := (obs.getObjVal? "table").toOption.getD (Json.mkObj [])
        let got : List (String × List String) := (jKVs it).map (fun (k, v) => (k, match v with | .arr a => a.toList.filterMap (fun x => match x with | .str s => some s | _ => none) | _ => []))
        let canon (l : List (String × List String)) := (l.toArray.qsort (fun a b => a.1 < b.1)).toList
        if canon t ≠ canon got then
          c := c.mm s!"name table: model {canon t}, impl {canon got}"
          if pid = "C12" then c := c.sf (some s!"C12.nds_preserves: table sent {canon t}, decoded {canon got}")
      | none => pure ()
      let invalid := match slots with | [] => true | .ok _ :: _ => false | _ => true
      if pid = "C13" && invalid != implErr then c := c.sf (some s!"C13.error_iff_invalid: name-table response invalid={invalid} but rejected={implErr}")
    return { nontrivial := m.isSome, mismatch := c.mismatch, specfail := c.spec }

def check (pid : String) (j : Json) : Except String Verdict := do
  let rt ← jStr j "rt"
  match rt with
  | "lds" | "rds" => checkLdsRds pid j rt
  | _ => checkCE pid j rt

end XdsVerif.Driver.Decode
