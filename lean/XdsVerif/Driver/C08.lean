import XdsVerif.Driver.RouteJson
import XdsVerif.Spec.C08
namespace XdsVerif.Driver.C08
open Lean XdsVerif.Route

/-- canonical outcome: `cluster:<name>:<timeout>` or `err:<class>` -/
def showModel (r : Except RErr Route) : String :=
  match r with
  | .error e => s!"err:{errName e}"
  | .ok r => match r.clusters with
    | [(c, _)] => s!"cluster:{c}:{r.timeoutMs}"
    | [] => "err:pick"       -- the first match selects no cluster: the call fails (C09), it does not fall through
    | _ => "cluster:?"

def showSpec (r : Sum String Route) : String :=
  match r with
  | .inl e => s!"err:{e}"
  | .inr r => match r.clusters with
    | [(c, _)] => s!"cluster:{c}:{r.timeoutMs}"
    | [] => "err:pick"
    | _ => "cluster:?"

def check (j : Json) : Except String Verdict := do
  let grpc ← jBool j "grpc"
  let md ← parseMeta j
  let inv ← parseInv j
  let rxT ← parseRx j
  let rx := rxOf rxT
  let lis ← match jObj? j "listener" with
    | none => pure none
    | some l => do pure (some (← parseListener l))
  let namedL ← parseNamed j
  let named : String → Option RouteCfg := fun n => (namedL.find? (fun e => e.1 = n)).map (·.2)
  let obs ← j.getObjVal? "obs"
  if jBoolD obs "panic" false then
    return { specfail := some s!"C08: Route panicked: {jStrD obs "panicMsg" ""}" }
  let impl := match jObj? obs "cluster" with
    | some (.str c) => s!"cluster:{c}:{jNatD obs "timeoutMs" 0}"
    | _ => s!"err:{jStrD obs "err" "?"}"
  let m := showModel (matchRoute rx lis named grpc md inv)
  let s := showSpec (Spec.C08.expected rx lis named grpc md inv)
  -- non-trivial: >= 2 routes eligible somewhere, or a header condition decides
  let allRoutes : List Route :=
    (match lis with
      | none => []
      | some l => l.filters.flatMap (fun f => match f.inline with
          | some c => (match c.http with | some v => v.flatMap (·.routes) | none => []) ++ (c.thrift.getD [])
          | none => [])) ++
    namedL.flatMap (fun e => match e.2.http with | some v => v.flatMap (·.routes) | none => [])
  let elig := allRoutes.filter (Spec.C08.eligible rx md (callPath inv) inv.toMethod)
  let nt := elig.length ≥ 2
  return { nontrivial := nt
           mismatch := if m != impl then some s!"route: model {m}, impl {impl}" else none
           specfail := if s != impl then some s!"C08.first_match: spec {s}, impl {impl}" else none }

end XdsVerif.Driver.C08
