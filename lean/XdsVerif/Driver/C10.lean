import XdsVerif.Driver.Util
import XdsVerif.Model.DecodeCE
import XdsVerif.Generated.Facts
import XdsVerif.Spec.C10
namespace XdsVerif.Driver.C10
open Lean XdsVerif.Resolve XdsVerif.DecodeCE

def parseCla (j : Json) : Except String PCla := do
  let ls ← jArr j "localities"
  let locs ← ls.toList.mapM (fun l => do
    let es ← l.getArr?
    es.toList.mapM (fun e => do pure (PEndpoint.mk (← jStr e "host") (← jNat e "port") (← jNat e "weight"))))
  pure ⟨jStrD j "name" "", locs⟩

def typeNum (s : String) : Nat := match s with | "STATIC" => 0 | "LOGICAL_DNS" => 2 | _ => 3

def parseCluster (j : Json) : Except String PCluster := do
  let inl ← match jObj? j "inline" with
    | none => pure none
    | some a => do pure (some (← parseCla a))
  pure { name := ← jStr j "name", typ := typeNum (jStrD j "type" "EDS"), lb := 0, serviceName := jStrD j "serviceName" "",
         inline := inl, outlier := none }

def specCla (a : PCla) : Spec.C10.Cla := ⟨a.localities.map (fun l => l.map (fun e => ⟨e.host, e.port, e.weight⟩))⟩

def errName : Err → String
  | .fetchCluster => "fetchCluster" | .fetchEndpoints => "fetchEndpoints" | .noEndpoints => "noEndpoints"

def showEps (l : List (String × Nat)) : String := toString l

def check (j : Json) : Except String Verdict := do
  let desc ← jStr j "desc"
  let cluster ← match jObj? j "cluster" with
    | none => pure none
    | some c => do pure (some (← parseCluster c))
  let nj ← j.getObjVal? "named"
  let named ← (jKVs nj).mapM (fun (k, v) => do pure (k, ← parseCla v))
  let obs ← j.getObjVal? "obs"
  if jBoolD obs "panic" false then return { specfail := some s!"C10/C15: Resolve panicked: {jStrD obs "panicMsg" ""}" }
  let err := jStrD obs "err" ""
  let insts ← jArr obs "instances"
  let implEps ← insts.toList.mapM (fun i => do pure ((← jStr i "addr"), (← jNat i "weight")))
  let impl : String := if err != "" then s!"err:{err}" else s!"ok:{showEps implEps} cacheable={jBoolD obs "cacheable" false} key={jStrD obs "key" ""}"
  -- model: decode, then resolve
  let getC : String → Option Cluster := fun n =>
    match cluster with
    | some c => if n = desc then some (decodeCluster c).2.toResolve else none
    | none => none
  let getE : String → Option (Option Endpoints) := fun n =>
    (named.find? (fun e => e.1 = n)).map (fun e => decodeCla (some e.2))
  let m : String := match resolve Generated.resolver getC getE desc with
    | .error e => s!"err:{errName e}"
    | .ok r => s!"ok:{showEps (r.instances.map (fun e => (e.addr, e.weight)))} cacheable={r.cacheable} key={r.cacheKey}"
  -- spec
  let sc : Option Spec.C10.Cl := cluster.map (fun c => ⟨c.name, c.serviceName, c.inline.map specCla⟩)
  let sn : String → Option Spec.C10.Cla := fun n => (named.find? (fun e => e.1 = n)).map (fun e => specCla e.2)
  let s : String := match Spec.C10.expected sc sn with
    | .inl e => s!"err:{e}"
    | .inr eps => s!"ok:{showEps eps} cacheable=true key={desc}"
  let tagged := jBoolD j "tagged" false
  let tgt := jStrD obs "target" ""
  let wantT := target (if tagged then some "picked-cluster" else none) "the-service"
  let sf : Option String :=
    if s != impl then some s!"C10.resolve_exact: spec {s}, impl {impl}"
    else if tgt != wantT then some s!"C10.target_is_tag: expected {wantT}, got {tgt}"
    else none
  return { nontrivial := implEps.length ≥ 2 || err != ""
           mismatch := if m != impl then some s!"resolve: model {m}, impl {impl}" else none
           specfail := sf }

end XdsVerif.Driver.C10
