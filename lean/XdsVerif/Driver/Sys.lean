import XdsVerif.Driver.Hist
import XdsVerif.Model.Sys
/-! Trace validation of the receiver at lock-section granularity (`Model/Sys.lean`) and the executable spec
"what is cached is subscribed" (the invariant of every sequential history, `Seq.cached_is_subscribed`). -/
namespace XdsVerif.Driver.Sys
open Lean XdsVerif XdsVerif.Seq XdsVerif.Spec.Hist XdsVerif.Driver.Hist

structure W where
  r : Hist.R
  conc : Conc.S := Conc.init
  inflight : Option Sys.Inflight := none

/-- one step of the composed model; a disabled step is a trace-validation failure -/
def W.step (cfg : Cfg) (T : RType) (w : W) (l : Sys.Lbl) (what : String) : W :=
  match Sys.step cfg Generated.getVariant T (fun _ => "") { seq := w.r.s, conc := w.conc, inflight := w.inflight } l with
  | some (s', e) => { w with r := { w.r with s := s'.seq, rops := e.seq.reverse ++ w.r.rops }, conc := s'.conc, inflight := s'.inflight }
  | none => { w with r := w.r.fail s!"trace validation: step not enabled in the model: {what}" }

def parseResp (st : Json) : Except String Resp := do
  let rt ← match rtOfStr (jStrD st "rt" "?") with | some t => pure t | none => throw "response: type"
  pure { rt := rt, version := ← jStr st "v", nonce := ← jStr st "nonce", slots := ← parseSlots st }

/-- the invariant of every sequential history, evaluated on the observation alone: the cached names that are not
in the interest set of their type -/
def ghosts (o : Obs) : List String :=
  [RType.lds, .rds, .cds, .eds].flatMap (fun rt =>
    ((o.cache rt).filter (fun e => !(((o.interest rt).getD []).contains e.1))).map (fun e => s!"{rtStr rt}/{e.1}"))

def check (pid : String) (j : Json) : Except String Verdict := do
  let cj ← j.getObjVal? "cfg"
  let cfg : Cfg := { sendAborts := Generated.sendAborts, metaInitNow := Generated.metaInitNow,
                     ndsRequired := jBoolD cj "nds" true, ns := (jStrD cj "ns" "default").toList, dom := (jStrD cj "dom" "cluster.local").toList }
  let uni := universeOf j
  let T ← match rtOfStr (jStrD j "T" "?") with | some t => pure t | none => throw "sys: type"
  let mut w : W := { r := { s := init } }
  let pre ← jArr j "pre"
  for p in pre.toList do
    match jStrD p "o" "" with
    | "startup-lds" =>
      w := w.step cfg T (.op (.subscribe .lds reserved)) "startup subscribe lds"
      w := { w with r := w.r.drain cfg }
      w := w.step cfg T (.op (.push { rt := .lds, version := "lds-init", nonce := "lds-n0", slots := [.good reserved (jStrD p "stamp" "")] } 0)) "startup lds push"
      w := { w with r := w.r.drain cfg }
    | x => throw s!"pre step {x}"
  let o0j ← j.getObjVal? "obs0"
  let o0 ← parseObs o0j
  w := { w with r := w.r.compare o0 o0j uni "start-up" }
  let steps ← jArr j "steps"
  let mut idx := 0
  let mut ghost : List String := []
  let mut torn := false
  let mut current : List ((RType × String) × String) := []   -- content of the last atomic push per name
  let mut stale : Option String := none
  for st in steps.toList do
    idx := idx + 1
    let kind := jStrD st "o" "?"
    let now := jNatD st "now" 0
    let what := s!"step {idx} ({kind})"
    let oj ← st.getObjVal? "obs"
    let o ← parseObs oj
    if o.hang then
      return { nontrivial := true, mismatch := w.r.mismatch,
               specfail := some (if pid = "C05" then s!"C05.bounded_time: {what} never returned (no value, no error, far past its fetch timeout) while a response handler was between its lock sections: the lookup and the receiver wait for each other's locks, and every later lookup hangs behind them"
                 else s!"C07.no_deadlock: {what} never returned while a response handler was between its lock sections: the operation and the receiver wait for each other's locks (every later lookup hangs behind them)") }
    match kind with
    | "sub" =>
      let rt ← match rtOfStr (jStrD st "rt" "?") with | some t => pure t | none => throw "sub: type"
      w := w.step cfg T (.op (.subscribe rt (← jStr st "n"))) what
    | "evict" =>
      let rt ← match rtOfStr (jStrD st "rt" "?") with | some t => pure t | none => throw "evict: type"
      if w.inflight.isSome then torn := true
      w := w.step cfg T (.op (.evict rt (← jStr st "n") now)) what
    | "get" =>
      let rt ← match rtOfStr (jStrD st "rt" "?") with | some t => pure t | none => throw "get: type"
      let n ← jStr st "n"
      w := w.step cfg T (.op (.touch rt n now)) what
      let expected := match w.r.s.cache rt n with | some v => s!"val:{v}" | none => "err:timeout"
      if (w.r.s.cache rt n).isNone then w := w.step cfg T (.op (.subscribe rt n)) what
      if o.get != some expected then w := { w with r := w.r.fail s!"{what}: lookup {rtStr rt}/{n}: model {expected}, impl {o.get}" }
      -- served content against the control plane's last accepted response that carried the name (kept by the script)
      match current.find? (fun e => e.1 = (rt, n)) with
      | some (_, v) =>
        if (o.get.getD "").startsWith "val:" && o.get != some s!"val:{v}" && stale.isNone then
          stale := some s!"{rtStr rt}/{n}: the control plane's current value is {v}, the lookup returned {o.get.getD "?"} (a value that is no longer current, after the newer one was accepted)"
      | none => pure ()
    | "getstart" =>
      -- a lookup that misses, subscribes and waits (its caller cancels it later)
      let rt ← match rtOfStr (jStrD st "rt" "?") with | some t => pure t | none => throw "getstart: type"
      let n ← jStr st "n"
      w := w.step cfg T (.op (.touch rt n now)) what
      if (w.r.s.cache rt n).isNone then w := w.step cfg T (.op (.subscribe rt n)) what
      else w := { w with r := w.r.fail s!"{what}: the name is cached in the model" }
    | "getcancel" =>
      -- the waiting lookup gives up: that concerns this caller alone (no step of the client or the cache)
      if o.get = some "hang" then w := { w with r := w.r.fail s!"{what}: the cancelled lookup does not return" }
      else if (o.get.getD "").startsWith "val:" then w := { w with r := w.r.fail s!"{what}: the cancelled lookup returned {o.get}" }
    | "getresult" =>
      let rt ← match rtOfStr (jStrD st "rt" "?") with | some t => pure t | none => throw "getresult: type"
      let n ← jStr st "n"
      let expected := match w.r.s.cache rt n with | some v => s!"val:{v}" | none => "err"
      let got := match jStrD oj "get" "?" with | g => g
      if got != expected then w := { w with r := w.r.fail s!"{what}: the waiting lookup of {rtStr rt}/{n}: model {expected}, impl {got}" }
      if !got.startsWith "val:" && stale.isNone && (w.r.s.cache rt n).isSome then
        stale := some s!"{rtStr rt}/{n}: the lookup waited for the name, the control plane supplied it before the lookup's deadline, and the lookup ended with '{got}' (it was ended by a response to an older subscription that does not list the name)"
    | "push" =>
      let resp ← parseResp st
      w := w.step cfg T (.op (.push resp now)) what
      if resp.decodes then
        for sl in resp.slots do
          match sl with
          | .good k v => current := (current.filter (fun e => e.1 != (resp.rt, k))) ++ [((resp.rt, k), v)]
          | .bad => pure ()
    | "ack" =>
      w := w.step cfg T (.recvAck (← parseResp st)) what
      let parked := jNatD oj "recvPoint" 0
      if w.inflight.isSome != (parked == 5) then
        w := { w with r := w.r.fail s!"{what}: model {if w.inflight.isSome then "continues to the filter" else "ends the handler"}, impl receiver at point {parked}" }
    | "filter" => w := w.step cfg T .recvFilter what
    | "apply" => w := w.step cfg T (.recvApply now) what
    | x => throw s!"unknown step {x}"
    w := { w with r := w.r.drain cfg }
    w := { w with r := w.r.compare o oj uni what }
    for g in ghosts o do
      if !ghost.contains g then ghost := ghost ++ [g]
  if pid = "C10" || pid = "C01" then
    return { nontrivial := true, mismatch := w.r.mismatch,
             specfail := stale.map (fun m => s!"{if pid = "C10" then "C10.current_endpoints" else "C01.served_eq_fold"}: {m}") }
  let spec := if ghost.isEmpty || pid = "C05" then none else
    some s!"C07.atomic_update: {",".intercalate ghost} cached but not subscribed: no sequential order of the operations reaches this state (the entry will never be updated again)"
  return { nontrivial := torn || steps.size ≥ 6, mismatch := w.r.mismatch, specfail := spec }

end XdsVerif.Driver.Sys
