import XdsVerif.Driver.Util
import XdsVerif.Model.Pick
import XdsVerif.Generated.Facts
import XdsVerif.Spec.C09
namespace XdsVerif.Driver.C09
open Lean XdsVerif.Pick

/-- exact model distribution: number of draw values in `[0,tot)` selecting `o`; `pick` is
piecewise constant between the breakpoints `cum_j − 1, cum_j, cum_j + 1`, so each segment is
evaluated once (validation code, not part of any theorem) -/
def modelCount (F : PickFacts) (ws : List Nat) (tot : Nat) (o : Out) : Nat :=
  let cums := (List.range (ws.length + 1)).map (fun k => (ws.take k).foldl (fun a w => (a + w) % W) 0)
  let pts := (cums.flatMap (fun c => [c - 1, c, c + 1]) ++ [0, tot]).filter (· ≤ tot)
  let sorted := (pts.toArray.qsort (· < ·)).toList.eraseDups
  let segs := sorted.zip (sorted.drop 1)
  segs.foldl (fun acc (lo, hi) => if pick F ws lo = o then acc + (hi - lo) else acc) 0

def modelVerdict (F : PickFacts) (ws : List Nat) (n : Nat) (counts : List Nat) (errs panics : Nat) : Option String := Id.run do
  let tot := total ws
  let r := match ws with
    | [] => none
    | [_] => none
    | _ => if tot = 0 then none else drawRange F.draw tot
  match ws, r with
  | [], _ => if errs = n then return none else return some s!"ws=[] model=err impl errs={errs}"
  | [_], _ => if counts = [n] then return none else return some s!"single cluster: model always picks it, impl counts={counts}"
  | _, none =>
    match pick F ws 0 with
    | .panic => if panics = n then return none else return some s!"ws={ws} model=panic impl panics={panics}"
    | _ => if errs = n then return none else return some s!"ws={ws} model=err impl errs={errs} panics={panics}"
  | _, some dn =>
    if panics ≠ 0 then return some s!"ws={ws} model does not panic, impl panics={panics}"
    let mErr := modelCount F ws dn .err
    if !(Spec.C09.within errs n mErr dn) || (mErr = 0 && errs ≠ 0) then
      return some s!"ws={ws} model errs {mErr}/{dn}, impl {errs}/{n}"
    for i in List.range ws.length do
      let m := modelCount F ws dn (.idx i)
      let c := counts.getD i 0
      if (m = 0 && c ≠ 0) || (m = dn && c ≠ n) || !(Spec.C09.within c n m dn) then
        return some s!"ws={ws} cluster {i}: model {m}/{dn}, impl {c}/{n}"
    return none

def check (j : Json) : Except String Verdict := do
  let ws ← jNatList j "ws"
  let n ← jNat j "n"
  let obs ← j.getObjVal? "obs"
  let counts ← jNatList obs "counts"
  let errs ← jNat obs "errs"
  let panics ← jNat obs "panics"
  let nontrivial := ws.length ≥ 2 && (ws.any (· = 0) || ws.eraseDups.length > 1)
  -- picks that landed on a cluster the matched route does not list (another route of the table): the matched route's own
  -- outcome - a pick among its clusters, or a routing error - was bypassed
  let foreign := jNatD obs "foreign" 0
  if foreign > 0 then
    return { nontrivial := true
             mismatch := some s!"ws={ws}: {foreign} of {n} calls were sent to a cluster the matched route does not list (model: its clusters or a routing error)"
             specfail := some s!"C09.error_not_arbitrary_pick ws={ws}: {foreign} of {n} calls matched by this route were sent to a cluster of ANOTHER route of the table (the matched route lists weights {ws}: its outcome is a pick among them or a routing error, never a fall-through)" }
  return { nontrivial := nontrivial
           specfail := (Spec.C09.holds ws n counts errs panics).map (fun m => s!"C09.pick_count/zero_never ws={ws}: {m}")
           mismatch := modelVerdict Generated.pick ws n counts errs panics }

end XdsVerif.Driver.C09
