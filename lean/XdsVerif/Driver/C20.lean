import XdsVerif.Driver.Util
import XdsVerif.Model.Bootstrap
import XdsVerif.Model.Fqdn
import XdsVerif.Generated.Facts
import XdsVerif.Spec.C20
namespace XdsVerif.Driver.C20
open Lean XdsVerif.Bootstrap

def parseMetaObj (j : Json) : Except String Spec.C20.MetaObj := do
  let a ← j.getArr?
  a.toList.mapM (fun e => do
    let p ← e.getArr?
    let k ← (p[0]!).getStr?
    match (p[1]!).getObjVal? "s" with
    | .ok (.str s) => pure (k, some s, "")
    | _ => pure (k, none, jStrD (p[1]!) "o" "?"))

def toJObj (o : Spec.C20.MetaObj) : JObj :=
  o.map (fun (k, sv, raw) => match sv with
    | some s => (k, JV.str s.toList)
    | none => (k, JV.other raw))

def envStr (e : Json) (k : String) : Option String :=
  match e.getObjVal? k with
  | .ok (.str s) => some s
  | _ => none

def check (j : Json) : Except String Verdict := do
  let op ← jStr j "op"
  let obs ← j.getObjVal? "obs"
  match op with
  | "boot" =>
    let e ← j.getObjVal? "env"
    let parsed ← match jObj? j "parsed" with
      | none => pure none
      | some p => do pure (some (← parseMetaObj p))
    if jBoolD obs "panic" false then return { specfail := some "C20: newBootstrapConfig panicked" }
    let err ← jBool obs "err"
    let nodeId := jStrD obs "nodeId" ""
    let ns := jStrD obs "ns" ""
    let dom := jStrD obs "dom" ""
    let md ← match jObj? obs "meta" with
      | none => pure []
      | some m => parseMetaObj m
    let se : Spec.C20.Env := { ns := envStr e "POD_NAMESPACE", name := envStr e "POD_NAME", ip := envStr e "INSTANCE_IP",
                               version := (envStr e "ISTIO_VERSION").getD "", domain := (envStr e "KITEX_XDS_DOMAIN").getD "",
                               metas := (envStr e "KITEX_XDS_METAS").getD "" }
    let sf := (Spec.C20.boot se parsed err nodeId ns dom md).map (fun m => s!"C20.{m}")
    -- model
    let me : Env := { podNamespace := se.ns.getD "", podName := se.name.getD "", instanceIP := se.ip.getD "",
                      istioVersion := se.version, domain := se.domain, metas := se.metas }
    let mm : Option String :=
      match newConfig Generated.boot.ipsTest me (parsed.map toJObj) with
      | .error _ => if err then none else some "model: error, impl: configuration"
      | .ok c =>
        if err then some "model: configuration, impl: error"
        else if c.nodeId != nodeId then some s!"nodeId: model {c.nodeId}, impl {nodeId}"
        else if c.configNamespace != ns then some s!"namespace: model {c.configNamespace}, impl {ns}"
        else if c.nodeDomain != dom then some s!"domain: model {c.nodeDomain}, impl {dom}"
        else
          let canon (o : JObj) : List (String × JV) := (o.toArray.qsort (fun a b => a.1 < b.1)).toList
          if canon c.metadata != canon (toJObj md) then some s!"metadata: model {repr (canon c.metadata)}, impl {repr (canon (toJObj md))}"
          else none
    -- name expansion under this configuration: the effective namespace (metadata NAMESPACE, else the pod's) and domain
    let sfx : Option String :=
      if err then none else
      match (jStrList obs "expand").toOption with
      | some [e1, e2] =>
        let w1 := String.ofList (Fqdn.expand ns.toList dom.toList "reviews".toList)
        let w2 := String.ofList (Fqdn.expand ns.toList dom.toList "reviews.team-x".toList)
        if e1 != w1 then some s!"C20.namespace_override (name expansion): under namespace '{ns}' and domain '{dom}' the host 'reviews' expands to '{e1}', expected '{w1}'"
        else if e2 != w2 then some s!"C20.namespace_override (name expansion): 'reviews.team-x' expands to '{e2}', expected '{w2}'"
        else none
      | _ => none
    return { nontrivial := parsed.isSome, mismatch := mm <|> sfx.map (fun m => "expansion: " ++ m), specfail := sf <|> sfx }
  | "requests" =>
    let nodeId ← jStr obs "nodeId"
    let mdj ← obs.getObjVal? "meta"
    let reqs ← jArr obs "reqs"
    let bad := reqs.toList.filter (fun r => jStrD r "nodeId" "" != nodeId || (r.getObjVal? "meta").toOption != some mdj)
    let onNew := reqs.toList.filter (fun r => jNatD r "sid" 1 ≥ 2)
    return { nontrivial := true
             specfail := if !bad.isEmpty then some s!"C20.node_on_every_request: request number {(reqs.toList.findIdx? (fun r => jStrD r "nodeId" "" != nodeId || (r.getObjVal? "meta").toOption != some mdj)).getD 0 + 1} of {reqs.size} (stream {jNatD (bad.head!) "sid" 1}, type {jStrD (bad.head!) "rt" "?"}) does not carry the node identity/metadata"
                         else if reqs.isEmpty then some "C20.node_on_every_request: no request was sent"
                         else if onNew.length < 3 then some s!"C20.node_on_every_request: the scenario did not reach the re-subscription on a second stream ({onNew.length} requests there)"
                         else none }
  | "singleton" =>
    let mode ← jStr j "mode"
    let res ← jStr obs "result"
    if mode = "set-overlapping" then
      -- model: `Bootstrap.setRun` over the callers in any lock order installs one manager throughout
      let used := ((Bootstrap.setRun (none : Option Nat) (List.range 16)).eraseDups).length
      let want := s!"managers-used={used} final-used-by-all=true"
      let ok := (res.splitOn want).length > 1
      let linedUp := (res.splitOn "parked=16").length > 1
      return { nontrivial := linedUp
               mismatch := if !ok then some s!"singleton {mode}: model {want}, impl {res}" else none
               specfail := if !ok then some s!"C20.init_first_wins (overlapping first initialisations): 16 callers of SetXDSResourceManager lined up at the holder's lock; expected one manager to win for every caller and in the end ({want}), got {res}" else none }
    let want := match mode with
      | "init-missing" =>
        -- three calls of Init on an environment that is incomplete each time (model: `Bootstrap.initRun`)
        let builds : List (Except Bootstrap.BootErr Unit) := [.error .noName, .error .noNamespace, .error .noNamespace]
        let parts := (List.range builds.length).map (fun i =>
          let (fin, oks) := Bootstrap.initRun (none : Option Unit) (builds.take (i + 1))
          s!"panic=false err={!(oks.getLast?.getD true)} inited={fin.isSome}")
        " again: ".intercalate parts
      | "set-twice" => "set1=true set2=true used=first init=true inited=true"
      | _ => "?"
    return { nontrivial := true
             mismatch := if res != want then some s!"singleton {mode}: model {want}, impl {res}" else none
             specfail := if res != want then some s!"C20.init_first_wins/init_errors ({mode}): expected {want}, got {res}" else none }
  | _ => .error s!"C20: unknown op {op}"

end XdsVerif.Driver.C20
