import Lean.Data.Json
/-! JSON helpers and the verdict type for the correspondence driver. -/
namespace XdsVerif.Driver
open Lean

/-- result of one case: `mismatch` = model ≠ implementation; `specfail` = the property's
executable predicate is false on the implementation's observation -/
structure Verdict where
  nontrivial : Bool := false
  mismatch : Option String := none
  specfail : Option String := none
  deriving Repr

def jNat (j : Json) (k : String) : Except String Nat := do
  let v ← j.getObjVal? k
  v.getNat?

def jInt (j : Json) (k : String) : Except String Int := do
  let v ← j.getObjVal? k
  v.getInt?

def jStr (j : Json) (k : String) : Except String String := do
  let v ← j.getObjVal? k
  v.getStr?

def jBool (j : Json) (k : String) : Except String Bool := do
  let v ← j.getObjVal? k
  v.getBool?

def jArr (j : Json) (k : String) : Except String (Array Json) := do
  match j.getObjVal? k with
  | .error _ => pure #[]
  | .ok .null => pure #[]
  | .ok v => v.getArr?

def jNatList (j : Json) (k : String) : Except String (List Nat) := do
  let a ← jArr j k
  a.toList.mapM (·.getNat?)

def jStrList (j : Json) (k : String) : Except String (List String) := do
  let a ← jArr j k
  a.toList.mapM (·.getStr?)

def jObj? (j : Json) (k : String) : Option Json :=
  match j.getObjVal? k with
  | .ok .null => none
  | .ok v => some v
  | .error _ => none

def jStrD (j : Json) (k : String) (d : String) : String :=
  match jStr j k with | .ok s => s | .error _ => d

def jBoolD (j : Json) (k : String) (d : Bool) : Bool :=
  match jBool j k with | .ok s => s | .error _ => d

def jNatD (j : Json) (k : String) (d : Nat) : Nat :=
  match jNat j k with | .ok s => s | .error _ => d

/-- object → association list (in the order of the JSON text is not preserved; sorted by key) -/
def jKVs (j : Json) : List (String × Json) :=
  match j with
  | .obj kvs => kvs.toList
  | _ => []

/-- an eviction that arrives while a partial update of the same (merge) type is being applied: both are single steps of the
model (they hold the manager lock), so in either order the evicted name ends up neither cached nor subscribed, and the
updated name carries the update's content -/
def checkEvictDuringUpdate (pid : String) (j : Json) : Except String Verdict := do
  let o ← j.getObjVal? "obs"
  let rt := jStrD j "rt" "?"
  let cached := jBoolD o "idleCached" false
  let sub := jBoolD o "idleSubscribed" false
  let inside := jBoolD o "evictionRanInsideTheUpdate" false
  let hang := jBoolD o "hang" false
  let busy := jStrD o "busy" ""
  let ok := !cached && !sub && !hang && busy = "busy#2"
  let pfx := if pid = "C07" then "C07.explained_by_a_sequential_order" else "C01.cached_is_subscribed"
  return { nontrivial := jStrD o "order" "" = "update parked in its handler"
           mismatch := if ok && !inside then none else some s!"eviction during a partial {rt} update: model: the two exclude each other, the evicted name ends up neither cached nor subscribed; impl: eviction ran inside the update={inside}, cached={cached}, subscribed={sub}, hang={hang}, updated name={busy}"
           specfail := if ok then none
                       else if hang then some s!"{pfx}: the eviction never returned"
                       else some s!"{pfx}: an idle {rt} name was evicted (and unsubscribed) while a partial update that does not mention it was being applied; afterwards it is cached={cached}, subscribed={sub}: no order of the update and the eviction leaves it cached - the update wrote back a state it had read before the eviction" }

end XdsVerif.Driver
