import Lean.Data.Json
/-! JSON helpers and the verdict type for the correspondence driver. -/
namespace XdsVerif.Driver
open Lean

/-- result of one case: `mismatch` = model ≠ implementation; `specfail` = the property's
executable predicate is false on the implementation's observation -/
structure Verdict where
  nontrivial : Bool := false
  mismatch : Option String := none
  specfail : Option String := none
  deriving Repr

def jNat (j : Json) (k : String) : Except String Nat := do
  let v ← j.getObjVal? k
  v.getNat?

def jInt (j : Json) (k : String) : Except String Int := do
  let v ← j.getObjVal? k
  v.getInt?

def jStr (j : Json) (k : String) : Except String String := do
  let v ← j.getObjVal? k
  v.getStr?

def jBool (j : Json) (k : String) : Except String Bool := do
  let v ← j.getObjVal? k
  v.getBool?

def jArr (j : Json) (k : String) : Except String (Array Json) := do
  match j.getObjVal? k with
  | .error _ => pure #[]
  | .ok .null => pure #[]
  | .ok v => v.getArr?

def jNatList (j : Json) (k : String) : Except String (List Nat) := do
  let a ← jArr j k
  a.toList.mapM (·.getNat?)

def jStrList (j : Json) (k : String) : Except String (List String) := do
  let a ← jArr j k
  a.toList.mapM (·.getStr?)

def jObj? (j : Json) (k : String) : Option Json :=
  match j.getObjVal? k with
  | .ok .null => none
  | .ok v => some v
  | .error _ => none

def jStrD (j : Json) (k : String) (d : String) : String :=
  match jStr j k with | .ok s => s | .error _ => d

def jBoolD (j : Json) (k : String) (d : Bool) : Bool :=
  match jBool j k with | .ok s => s | .error _ => d

def jNatD (j : Json) (k : String) (d : Nat) : Nat :=
  match jNat j k with | .ok s => s | .error _ => d

/-- object → association list (in the order of the JSON text is not preserved; sorted by key) -/
def jKVs (j : Json) : List (String × Json) :=
  match j with
  | .obj kvs => kvs.toList
  | _ => []

end XdsVerif.Driver
