import XdsVerif.Driver.Util
import XdsVerif.Model.Fqdn
import XdsVerif.Spec.C14
namespace XdsVerif.Driver.C14
open Lean XdsVerif.Fqdn

def parseTable (j : Json) : Except String (List (String × List String)) := do
  let a ← jArr j "table"
  a.toList.mapM (fun e => do
    let p ← e.getArr?
    let k ← (p[0]!).getStr?
    let vs ← (p[1]!).getArr?
    let vs ← vs.toList.mapM (·.getStr?)
    pure (k, vs))

def toTable (t : List (String × List String)) : Table := t.map (fun (k, vs) => (k.toList, vs.map String.toList))

def optStr (j : Json) (k : String) : Option String :=
  match j.getObjVal? k with
  | .ok (.str s) => some s
  | _ => none

def showO (o : Option String) : String := match o with | some s => s!"some {s}" | none => "none(error)"

def check (j : Json) : Except String Verdict := do
  let op ← jStr j "op"
  let ns ← jStr j "ns"
  let dom ← jStr j "dom"
  let obs ← j.getObjVal? "obs"
  match op with
  | "expand" =>
    let host ← jStr j "host"
    let out ← jStr obs "out"
    let m := String.ofList (expand ns.toList dom.toList host.toList)
    let s := Spec.C14.expand ns dom host
    let nt := out != host
    -- spec-level laws on the implementation's own output
    let spec : Option String :=
      if out != s then some s!"C14.expand_shape host={host}: spec {s}, impl {out}"
      else none
    return { nontrivial := nt
             mismatch := if m != out then some s!"expand host={host}: model {m}, impl {out}" else none
             specfail := spec }
  | "bind" =>
    let tbl ← parseTable j
    let name ← jStr j "name"
    let host ← jStr j "host"
    let ln := optStr obs "ln"
    let res ← jStr obs "resolve"
    let panicked := jBoolD obs "panic" false
    if panicked then return { specfail := some s!"C14: getListenerName/resolveAddr panicked on {name}" }
    let t := toTable tbl
    let mLn := (listenerName ns.toList dom.toList t name.toList).map String.ofList
    let mRes := String.ofList (resolve ns.toList dom.toList t host.toList)
    let sLn := Spec.C14.listenerFor ns dom tbl name
    let sRes := (Spec.C14.designated ns dom tbl host).getD ""
    let mm : Option String :=
      if mLn != ln then some s!"listenerName {name}: model {showO mLn}, impl {showO ln}"
      else if mRes != res then some s!"resolveAddr {host}: model {mRes}, impl {res}"
      else none
    let sf : Option String :=
      if sLn != ln then some s!"C14.listener_name_format name={name}: spec {showO sLn}, impl {showO ln}"
      else if sRes != res then some s!"C14.resolve host={host}: spec {sRes}, impl {res}"
      else none
    return { nontrivial := ln.isSome || host.toLower != host, mismatch := mm, specfail := sf }
  | "e2e" =>
    let tbl ← parseTable j
    let subs ← jStrList j "subs"
    let la ← jArr j "listeners"
    let listeners ← la.toList.mapM (fun e => do
      let p ← e.getArr?
      pure ((← (p[0]!).getStr?), (← (p[1]!).getStr?)))
    let get ← obs.getObjVal? "get"
    let t := toTable tbl
    let mut mm : Option String := none
    let mut sf : Option String := none
    let mut nt := false
    for n in subs do
      let impl := jStrD get n "?"
      let expect (ln : Option String) : String :=
        match ln.bind (fun l => (listeners.find? (fun e => e.1 = l)).map (·.2)) with
        | some st => s!"val:{st}"
        | none => "err:timeout"
      let m := expect ((listenerName ns.toList dom.toList t n.toList).map String.ofList)
      let s := expect (Spec.C14.listenerFor ns dom tbl n)
      if s.startsWith "val:" then nt := true
      if m != impl && mm.isNone then mm := some s!"e2e lookup {n}: model {m}, impl {impl}"
      if s != impl && sf.isNone then sf := some s!"C14.lds_binding lookup {n}: spec {s}, impl {impl}"
    return { nontrivial := nt, mismatch := mm, specfail := sf }
  | "hang" => return { specfail := some "C14: client did not become quiescent" }
  | _ => .error s!"C14: unknown op {op}"

end XdsVerif.Driver.C14
