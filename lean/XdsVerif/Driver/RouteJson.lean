import XdsVerif.Driver.Util
import XdsVerif.Model.Route
import XdsVerif.Model.Decode
/-! JSON → decoded route structures (shared by the C08 / C15 / C11 drivers). -/
namespace XdsVerif.Driver
open Lean XdsVerif.Route

/-- the header conditions of a route as the control plane sent them, through the decoder's `BuildMatchers` model
(`"bad"` marks a regular expression the engine rejects: that condition is dropped, the others stay) -/
def parseConds (j : Json) (k : String) : Except String Headers := do
  let a ← jArr j k
  let hs ← a.toList.mapM (fun e => do
    let p ← e.getArr?
    let key ← (p[0]!).getStr?
    let t ← jStr (p[1]!) "t"
    let v ← jStr (p[1]!) "v"
    let bad := jBoolD (p[1]!) "bad" false
    match t with
    | "exact" => pure ((⟨key, .stringMatch (.exact v)⟩ : Decode.PHeader), bad)
    | "prefix" => pure (⟨key, .stringMatch (.pfx v)⟩, bad)
    | "regex" => pure (⟨key, .stringMatch (.safeRegex (some v))⟩, bad)
    | _ => throw s!"matcher kind {t}")
  let rejected := (hs.filter (·.2)).map (fun h => match h.1.spec with | .stringMatch (.safeRegex (some r)) => r | _ => "")
  pure (Decode.buildMatchers { compiles := fun r => !rejected.contains r, parsesFloat := fun _ => true } (hs.map (·.1)))

def parseRoute (j : Json) : Except String Route := do
  let cl ← jArr j "clusters"
  let clusters ← cl.toList.mapM (fun e => do
    let p ← e.getArr?
    pure ((← (p[0]!).getStr?), (← (p[1]!).getNat?)))
  let t := jNatD j "timeoutMs" 0
  let m ← match jObj? j "match" with
    | none => pure RMatch.none
    | some mj => do
      let kind ← jStr mj "kind"
      match kind with
      | "http" => pure (RMatch.http ⟨← jStr mj "path", ← jStr mj "prefix", ← parseConds mj "headers"⟩)
      | "thrift" => pure (RMatch.thrift ⟨← jStr mj "method", ← jStr mj "service", ← parseConds mj "tags"⟩)
      | _ => throw s!"match kind {kind}"
  pure ⟨m, clusters, t⟩

def parseCfg (j : Json) : Except String RouteCfg := do
  let http ← match jObj? j "http" with
    | none => pure none
    | some (.arr a) => do
      let vhs ← a.toList.mapM (fun v => do
        let rs ← jArr v "routes"
        pure (VHost.mk (jStrD v "name" "") (← rs.toList.mapM parseRoute)))
      pure (some vhs)
    | some _ => throw "http"
  let thrift ← match jObj? j "thrift" with
    | none => pure none
    | some (.arr a) => do pure (some (← a.toList.mapM parseRoute))
    | some _ => throw "thrift"
  pure { http := http, thrift := thrift, maxTokens := jNatD j "maxTokens" 0, tokensPerFill := jNatD j "tokensPerFill" 0 }

def parseListener (j : Json) : Except String Listener := do
  let fs ← jArr j "filters"
  let filters ← fs.toList.mapM (fun f => do
    let inl ← match jObj? f "inline" with
      | none => pure none
      | some c => do pure (some (← parseCfg c))
    pure (Filter.mk (jBoolD f "thrift" false) (jStrD f "rcName" "") (jNatD f "port" 0) inl))
  pure ⟨filters⟩

/-- regular-expression oracle from the truth table supplied by the harness -/
def rxOf (tbl : List (String × String × Bool)) : String → String → Bool :=
  fun r v => match tbl.find? (fun e => e.1 = r && e.2.1 = v) with
    | some e => e.2.2
    | none => false

def parseRx (j : Json) : Except String (List (String × String × Bool)) := do
  let a ← jArr j "rx"
  a.toList.mapM (fun e => do
    let p ← e.getArr?
    pure ((← (p[0]!).getStr?), (← (p[1]!).getStr?), (← (p[2]!).getBool?)))

def parseMeta (j : Json) : Except String Meta := do
  let a ← jArr j "md"
  a.toList.mapM (fun e => do
    let p ← e.getArr?
    pure ((← (p[0]!).getStr?), (← (p[1]!).getStr?)))

def parseInv (j : Json) : Except String Invocation := do
  let i ← j.getObjVal? "inv"
  pure ⟨← jStr i "pkg", ← jStr i "svc", ← jStr i "method", ← jStr i "toMethod"⟩

def parseNamed (j : Json) : Except String (List (String × RouteCfg)) := do
  let n ← j.getObjVal? "named"
  (jKVs n).mapM (fun (k, v) => do pure (k, ← parseCfg v))

def errName : RErr → String
  | .listener => "listener"
  | .noHttpFilter => "noHttpFilter"
  | .routeTable => "routeTable"
  | .noMatch => "noMatch"

end XdsVerif.Driver
