import XdsVerif.Driver.Util
import XdsVerif.Model.Flow
import XdsVerif.Generated.Facts
/-! Trace validation of the request-path model (`Model/Flow.lean`) against scripted scenarios on the real client
(`harness/flow.go`), and the executable specifications on what the control plane received.

The script of a scenario is known (the harness enforces it); what the implementation decides by itself — how many
lookups get through while `Send` is stalled, whether the sender takes queued requests or the new stream first — is
read off the observations, and the model has to be able to do the same and end where the implementation ended. -/
namespace XdsVerif.Driver.Flow
open Lean XdsVerif.Flow

abbrev St := S Nat
def ackId : Nat := 1000000

structure Sim where
  s : St
  err : Option String := none
  next : Nat := 1            -- next lookup to start
  cur : Option Nat := none   -- the lookup that is inside `Watch`

def Sim.step (cap : Nat) (m : Sim) (l : Lbl Nat) (what : String) : Sim :=
  if m.err.isSome then m else
  match Flow.step cap m.s l with
  | some s' => { m with s := s' }
  | none => { m with err := some s!"trace validation (request path): step not enabled in the model: {what}" }

/-- producers are sequential (one goroutine issues the lookups): start the next one if none is under way, let the one
under way enqueue if it can; returns whether anything moved -/
def Sim.producers (cap n : Nat) (m : Sim) : Sim × Bool :=
  match m.cur with
  | some i =>
    match Flow.step cap m.s (.pEnq i) with
    | some s' => ({ m with s := s', cur := none }, true)
    | none => (m, false)
  | none =>
    if m.next ≤ n then
      let i := m.next
      let m1 := (m.step cap (.pStart i i) s!"lookup {i} calls Watch").step cap (.pLock i) s!"lookup {i} takes the client lock"
      ({ m1 with next := i + 1, cur := some i }, true)
    else (m, false)

/-- lookups run until one cannot enqueue -/
def Sim.fill (cap n : Nat) (m : Sim) : Nat → Sim
  | 0 => m
  | fuel + 1 =>
    let (m', moved) := m.producers cap n
    if moved && m'.err.isNone then m'.fill cap n fuel else m'

def Sim.completed (m : Sim) : Nat := m.next - 1 - (if m.cur.isSome then 1 else 0)

/-- the sender works (in-flight `Send` first, then queued requests; a pending stream only when `streamFirst` or when
there is nothing queued), the producers follow; until nothing moves -/
def Sim.settle (cap n : Nat) (streamFirst : Bool) (m : Sim) : Nat → Sim
  | 0 => m
  | fuel + 1 =>
    if m.err.isSome then m else
    let s := m.s
    let m1 : Sim × Bool :=
      match s.spc with
      | .sending _ _ => (m.step cap .sSendDone "the in-flight Send returns", true)
      | .adoptWait _ => if s.cmu.isNone then (m.step cap (.sAdopt []) "reqWhenReconnect", true) else (m, false)
      | .sel =>
        if s.streamCh.isSome && (streamFirst || s.queue.isEmpty) then (m.step cap .sTakeStream "the sender takes the new stream", true)
        else if !s.queue.isEmpty then (m.step cap .sTakeReq "the sender takes a request", true)
        else (m, false)
      | .exited => (m, false)
    let (m2, moved2) := m1.1.producers cap n
    if m1.2 || moved2 then m2.settle cap n streamFirst fuel else m2

def isS12 (cap : Nat) (s : St) : Bool :=
  (match s.spc with | .adoptWait _ => true | _ => false) && s.queue.length == cap && !s.closed &&
  (match s.cmu with
   | some (.prod i) => (match s.pc i with | .locked _ => true | _ => false)
   | some .recv => (match s.rpc with | .ackLocked _ _ => true | _ => false)
   | none => false)

structure WReq where
  sid : Nat
  rt : String
  n : Nat
  deriving DecidableEq, Repr

def parseWire (o : Json) : List WReq :=
  match o.getObjVal? "wire" with
  | .ok (.arr a) => a.toList.map (fun q => ⟨jNatD q "sid" 0, jStrD q "rt" "?", jNatD q "n" 0⟩)
  | _ => []

/-- what the model's wire looks like to the control plane: lookup `i` is the `i+1`-th name of its type -/
def modelWire (s : St) : List WReq :=
  s.sent.map (fun (k, id) => if id = ackId then ⟨k, "lds", 1⟩ else ⟨k, "cds", id + 1⟩)

def check (pid : String) (j : Json) : Except String Verdict := do
  let cap := Generated.seq.reqCap
  let kind ← jStr j "kind"
  let n ← jNat j "n"
  let o ← j.getObjVal? "obs"
  if kind = "slow-outage" then
    -- model: while stream creation fails the receiver holds nothing (`rFail` then nothing until a stream exists): a lookup
    -- takes its own steps - cached: served; unknown: subscribes (the request waits in the channel), gives up at its deadline
    let miss := jStrD o "miss" "?"
    let hit := jStrD o "hit" "?"
    let missMs := jNatD o "missMs" 0
    let hitMs := jNatD o "hitMs" 0
    let ft := jNatD o "fetchTimeoutMs" 50
    let slack := 700
    let ok := miss = "err:timeout" && hit.startsWith "val:" && missMs ≤ ft + slack && hitMs ≤ slack && jBoolD o "reconnected" false
    return { nontrivial := jNatD o "attemptsWhenLookedUp" 0 ≥ 2
             mismatch := if ok then none else some s!"slow outage: model: lookups take their own steps while the client reconnects; impl: unknown name -> {miss} after {missMs} ms (fetch timeout {ft} ms), cached name -> {hit} after {hitMs} ms, reconnected={jBoolD o "reconnected" false}"
             specfail := if ok then none else some s!"{if pid = "C05" then "C05.bounded_time" else "C04.lookups_during_outage"}: while stream creation kept failing (the client's own back-off between attempts), a lookup of an unknown name returned '{miss}' after {missMs} ms (fetch timeout {ft} ms) and a lookup of a CACHED name '{hit}' after {hitMs} ms: lookups wait for the reconnect instead of returning at their deadline" }
  if kind = "drain-race" then
    -- model: `rDrain` takes what is in the channel at that moment and never waits (fact `drainThenPublish`); the hand-off and
    -- the adoption follow whatever the sender took meanwhile (`comes_to_rest`)
    let resub := jBoolD o "resubscribed" false
    let lk := jStrD o "lookupAfter" "?"
    let ok := resub && lk != "hang"
    return { nontrivial := jNatD o "queuedAtFailure" 0 > 0
             mismatch := if ok then none else some s!"drain race: in the model the reconnect's drain never waits; impl: re-subscription on the new stream={resub}, lookup afterwards={lk}"
             specfail := if ok then none else some s!"C04.resubscribe_after_failure: the stream failed with {jNatD o "queuedAtFailure" 0} requests queued and the sender emptying the channel at the same time; five seconds later the new stream has {if resub then "" else "NOT "}received the full re-subscription and a lookup afterwards returned '{lk}': {jStrD o "state" ""}" }
  let r1 := jNatD o "returnedWhileStalled" 0
  let r2 := jNatD o "returned" 0
  let hang := jBoolD o "hang" false
  let wire := parseWire o
  let fuel := 8 * n + 100
  let mut m : Sim := { s := Flow.init }
  let mut mm : Option String := none
  let mut sf : Option String := none
  -- the scripted prefix
  if kind = "outage" then
    m := m.step cap .rFail "Recv fails; the stream is closed; no new stream can be created"
    m := m.settle cap n false fuel
    if m.completed != r1 then mm := some s!"outage: model lets {m.completed} of {n} lookups through while there is no stream, impl {r1}"
    if hang || r2 != n then
      sf := some s!"{if pid = "C05" then "C05.bounded_time" else "C03"}: while the control plane was unreachable lookup number {r2 + 1} never returned"
    else if !wire.isEmpty then sf := some "C04: a request reached a stream although none exists"
    return { nontrivial := true, mismatch := m.err <|> mm, specfail := sf }
  m := m.step cap .stall "the connection stalls"
  m := (m.step cap (.pStart 0 0) "lookup s0").step cap (.pLock 0) "lookup s0"
  m := m.step cap (.pEnq 0) "lookup s0 enqueues"
  m := m.step cap .sTakeReq "the sender takes the request and blocks in Send"
  if kind = "ack" then
    m := ((m.step cap (.rResp ackId) "a response arrives").step cap .rAckLock "updateAndACK takes the client lock").step cap .rAckEnq "the acknowledgement is queued"
  if kind = "flood" then
    m := ((m.step cap .rFail "Recv fails").step cap .rDrain "reconnect: reset + drain").step cap .rPublish "the new stream is published"
  m := m.fill cap n fuel
  if m.completed != r1 then
    mm := some s!"{kind}: while Send is stalled the model lets {m.completed} lookups through (capacity {cap}), impl {r1}"
  if kind = "stop" then
    -- authentication failure while a lookup is parked in sendRequest: close() releases it (fact `sendAborts`), every
    -- later lookup gives up at once; the sender stays in the stalled Send
    m := m.step cap .rAuthFail "Recv fails with an authentication error: close()"
    m := m.fill cap n fuel
    if m.completed != n then
      mm := mm <|> some s!"stop: after close() the model lets {m.completed} of {n} lookups return (a stopped client never blocks a producer)"
    if r2 != n && !hang then mm := mm <|> some s!"stop: impl returned {r2} of {n} lookups without hanging"
    if hang then
      mm := mm <|> some s!"stop: the implementation hangs at lookup {r2 + 1}; in the model close() releases the producer that waits for room"
      sf := some s!"{if pid = "C05" then "C05.bounded_time" else "C04.lookup_returns_after_stop"}: the client was stopped (authentication rejected) while lookup number {r2 + 1} waited for room in the full request channel; the stop did not release it: it never returns and holds the client and the manager lock, so every other lookup — cache hits included — hangs behind it"
    else if !(jBoolD o "closed" false) then sf := some "C04.stop_is_final: the client is not stopped after the authentication error"
    return { nontrivial := true, mismatch := m.err <|> mm, specfail := sf }
  m := m.step cap .resume "the connection resumes"
  if kind = "flood" then
    m := m.step cap .sSendDone "the stalled Send fails on the dead stream"
    if hang then
      -- the sender dropped `r2 - r1` queued requests (it has no stream), then took the new stream
      for _ in List.range (r2 - r1) do
        m := m.step cap .sTakeReq "the sender takes a queued request (no stream: dropped)"
        m := (m.producers cap n).1
        m := (m.producers cap n).1
      m := m.step cap .sTakeStream "the sender takes the new stream"
      if m.err.isNone && !isS12 cap m.s then
        mm := mm <|> some s!"flood: the implementation hangs after {r2} lookups; the model is not in the S12 shape there"
      if !(jBoolD o "senderInAdopt" false && jBoolD o "producerInSend" false) then
        mm := mm <|> some "flood: the implementation hangs, but not with the sender in reqWhenReconnect and a lookup in sendRequest"
      sf := some (if jBoolD o "senderInAdopt" false && jBoolD o "producerInSend" false then
          s!"{if pid = "C05" then "C05.bounded_time" else "C07.no_deadlock"}: S12: after a reconnect with the request channel full, lookup number {r2 + 1} never returns: it waits for room in the channel holding the client lock, and the sender, which has taken the new stream, waits for that lock in reqWhenReconnect; every other lookup hangs behind the manager lock"
        else s!"{if pid = "C05" then "C05.bounded_time" else "C07.no_deadlock"}: lookup number {r2 + 1} never returns after the connection resumed")
      return { nontrivial := true, mismatch := m.err <|> mm, specfail := sf }
    -- no hang: the number of requests dropped before the adoption is read off the first request after the batch
    let onNew := wire.filter (fun q => q.sid = 2)
    let rest := (onNew.drop 2)
    let d := match rest.head? with | some q => q.n - 2 | none => n
    for idx in List.range d do
      m := m.step cap .sTakeReq "the sender takes a queued request (no stream: dropped)"
      m := (m.producers cap n).1
      if idx + 1 < d then m := (m.producers cap n).1
    -- the sender takes the stream while no lookup is inside Watch (the issuing goroutine is between two lookups)
    m := m.step cap .sTakeStream "the sender takes the new stream"
    m := m.step cap (.sAdopt []) "reqWhenReconnect"
    m := m.settle cap n false fuel
    if m.completed != n || r2 != n then mm := mm <|> some s!"flood: model completes {m.completed} lookups, impl {r2} of {n}"
    if modelWire m.s != rest then
      mm := mm <|> some s!"flood: requests on the new stream after the re-subscription: model {(modelWire m.s).length} (first {repr ((modelWire m.s).head?)}), impl {rest.length} (first {repr rest.head?})"
    -- spec: the last request on the live stream lists every name
    match rest.getLast? with
    | some q => if q.n != n + 1 then sf := some s!"C03.quiescent_last_request: the last request on the live stream lists {q.n} names, the interest set has {n + 1}"
    | none => pure ()
    return { nontrivial := true, mismatch := m.err <|> mm, specfail := sf }
  -- burst / ack
  if hang then
    return { nontrivial := true, mismatch := some s!"{kind}: implementation hangs after the connection resumed; the model does not",
             specfail := some s!"{if pid = "C05" then "C05.bounded_time" else "C07.no_deadlock"}: lookup number {r2 + 1} never returns after the connection resumed" }
  m := m.settle cap n false fuel
  if m.completed != n || r2 != n then mm := mm <|> some s!"{kind}: model completes {m.completed} lookups, impl {r2} of {n}"
  if modelWire m.s != wire then
    mm := mm <|> some s!"{kind}: requests on the wire: model {(modelWire m.s).length}, impl {wire.length}; first difference at {((modelWire m.s).zip wire).findIdx? (fun (a, b) => a != b)}"
  -- C05: every lookup returns by its deadline (fetch timeout) plus scheduling slack, however long the transport is stalled
  let slowest := jNatD o "slowestMs" 0
  let fetch := jNatD j "fetchTimeoutMs" 1
  if pid = "C05" && slowest > fetch + 1500 then
    let k := jNatD o "slowestLookup" 0
    -- the model's explanation: lookup `k` is the producer that found the channel full; it holds the client lock in `locked`
    -- until the sender makes room, and the sender is in `Send` for as long as the transport is stalled
    if k != r1 + 1 then mm := mm <|> some s!"{kind}: the slow lookup is number {k}; in the model the one that waits for room is number {r1 + 1}"
    sf := some s!"C05.deadline_bounded: S16: lookup number {k} (fetch timeout {fetch} ms) returned after {slowest} ms: it found the request channel full while the transport was stalled and waited for room inside Watch — sendRequest has no deadline arm — holding the client lock and the manager lock, so every other lookup (cache hits included) waited behind it"
    return { nontrivial := true, mismatch := m.err <|> mm, specfail := sf }
  -- specs on the observation alone
  let cds := wire.filter (fun q => q.rt = "cds")
  if cds.length != n + 1 then
    sf := some s!"C03.each_change_requested: {n + 1} lookups missed distinct names, {cds.length} requests reached the control plane"
  else if cds.map (·.n) != (List.range (n + 1)).map (· + 1) then
    sf := some "C03.req_names_eq_interest: the requests do not arrive in the order the interest set grew"
  else if kind = "ack" && (wire.filter (fun q => q.rt = "lds")).length != 1 then
    sf := some s!"C02.ack_exact: the response acknowledged while the connection was stalled was echoed {(wire.filter (fun q => q.rt = "lds")).length} times on the wire, expected exactly once"
  return { nontrivial := true, mismatch := m.err <|> mm, specfail := sf }

end XdsVerif.Driver.Flow
