import XdsVerif.Driver.Util
import XdsVerif.Model.Handlers
import XdsVerif.Generated.Facts
import XdsVerif.Spec.Handlers
namespace XdsVerif.Driver.Handlers
open Lean XdsVerif.Handlers

/-! ### C16 -/
def parseCUpdate (j : Json) : Except String Spec.Handlers.CUpdate := do
  let a ← j.getArr?
  a.toList.mapM (fun c => do
    let n ← jStr c "n"
    match jObj? c "outlier" with
    | some (.arr o) => pure (n, some ((← (o[0]!).getNat?), (← (o[1]!).getNat?)))
    | _ => pure (n, none))

def parseCbObs (j : Json) : Spec.Handlers.CbObs :=
  (jKVs j).filterMap (fun (k, v) => match v with
    | .arr a => match a[0]!, (a[1]!).getNat?, (a[2]!).getNat? with
      | .bool b, .ok r, .ok m => some (k, b, r, m)
      | _, _, _ => none
    | _ => none)

def toCUp (u : Spec.Handlers.CUpdate) : CUp := fun k => (u.find? (fun e => e.1 = k)).map (·.2)

def showCb (s : CbSt) (names : List String) : List (String × Bool × Nat × Nat) :=
  names.filterMap (fun n => (s.cfg n).map (fun c => (n, c.enable, c.thr, c.minSample)))

def canonCb (o : Spec.Handlers.CbObs) : List (String × Bool × Nat × Nat) :=
  ((o.map (fun (n, b, r, m) => if b then (n, b, r, m) else (n, false, 0, 0))).toArray.qsort (fun a b => a.1 < b.1)).toList

def checkCb (j : Json) : Except String Verdict := do
  let registerAt ← jNat j "registerAt"
  let ua ← jArr j "updates"
  let ups ← ua.toList.mapM parseCUpdate
  let oa ← jArr j "obs"
  let names := ["c1", "c2", "c3", "c4"]
  let mut st := cbInit
  let mut seen : List Spec.Handlers.CUpdate := []
  let mut mm : Option String := none
  let mut sf : Option String := none
  let mut idx := 0
  for (u, o) in ups.zip oa.toList do
    if idx = registerAt && idx > 0 then
      -- registration replays the cached cluster map = the previous update
      match ups[idx - 1]? with
      | some p => st := cbApply cbInit (toCUp p); seen := [p]
      | none => pure ()
    if idx ≥ registerAt then
      st := cbApply st (toCUp u)
      seen := seen ++ [u]
      match jObj? o "cb" with
      | some cb =>
        let impl := canonCb (parseCbObs cb)
        let model := (showCb st names).toArray.qsort (fun a b => a.1 < b.1) |>.toList
        if model != impl && mm.isNone then mm := some s!"update {idx + 1}: breaker config model {model}, impl {impl}"
        if sf.isNone then sf := Spec.Handlers.c16 seen (parseCbObs cb)
      | none => if mm.isNone then mm := some s!"update {idx + 1}: no breaker dump"
    else
      if (jObj? o "cb").isSome && mm.isNone then mm := some "breaker dump before registration"
    -- a rejected cluster response after this update: no step of the model, the breakers stay as they are
    match jObj? o "afterRejected", jObj? o "cb" with
    | some rj, some cb =>
      if canonCb (parseCbObs rj) != canonCb (parseCbObs cb) then
        if mm.isNone then mm := some s!"rejected response after update {idx + 1}: model leaves the breakers at {canonCb (parseCbObs cb)}, impl {canonCb (parseCbObs rj)}"
        if sf.isNone then sf := some s!"C16.latest_accepted_only: a cluster response that was rejected as a whole (NACKed) changed the breaker configuration: before {canonCb (parseCbObs cb)}, after {canonCb (parseCbObs rj)}"
    | _, _ => pure ()
    -- state right after a late registration
    match jObj? o "afterRegister" with
    | some cb =>
      let late := cbApply cbInit (toCUp u)
      let impl := canonCb (parseCbObs cb)
      let model := (showCb late names).toArray.qsort (fun a b => a.1 < b.1) |>.toList
      if model != impl && mm.isNone then mm := some s!"registration after update {idx + 1}: model {model}, impl {impl}"
      if sf.isNone then sf := (Spec.Handlers.c16 [u] (parseCbObs cb)).map (fun m => m ++ " (breaker created after updates)")
    | none => pure ()
    idx := idx + 1
  return { nontrivial := ups.length ≥ 2, mismatch := mm, specfail := sf }

/-! ### C17 -/
def parseRRoute (j : Json) : Except String (RRoute × Spec.Handlers.RRouteS) := do
  let cl ← jStrList j "clusters"
  let nr ← jNat j "numRetries"
  let pt ← jNat j "perTryMs"
  let er := jStrD j "errRate" ""
  let ms ← jStrList j "methods"
  let bo ← match jObj? j "backoff" with
    | some (.arr a) => do pure (some ((← (a[0]!).getNat?), (← (a[1]!).getNat?)))
    | _ => pure none
  -- the route as decoded: rds.go takes the back-off base from the base or (fact) from the maximum interval
  let dec := bo.map (fun (b, m) => ((if Generated.rdsBackoffBaseOk then b else m) * 1000000, m * 1000000))
  pure (⟨cl, nr, pt, er, dec, ms⟩, ⟨cl, nr, pt, er, bo, ms⟩)

def showBackoff : BackOff → String
  | .none => "none"
  | .fixed ms => s!"fixed:{ms}"
  | .random a b => s!"random:{a}:{b}"

def parseRetryObs (j : Json) : List (String × Spec.Handlers.RPol) :=
  (jKVs j).map (fun (k, v) =>
    let bo := match jObj? v "backoff" with
      | some b => match jStrD b "type" "none" with
        | "fixed" => s!"fixed:{jNatD b "ms" 0}"
        | "random" => s!"random:{jNatD b "min" 0}:{jNatD b "max" 0}"
        | _ => "none"
      | none => "none"
    (k, ⟨jNatD v "maxRetry" 0, jNatD v "maxDurationMs" 0, jStrD v "errRate" "", bo⟩))

def showPol (p : Spec.Handlers.RPol) : String := s!"retry={p.maxRetry} dur={p.maxDurationMs} rate={p.errRate} backoff={p.backoff}"
def showPols (l : List (String × Spec.Handlers.RPol)) : String := toString (l.map (fun e => s!"{e.1}: {showPol e.2}"))

def checkRetry (j : Json) : Except String Verdict := do
  let ua ← jArr j "updates"
  let oa ← jArr j "obs"
  let registerAt := jNatD j "registerAt" 0
  let F := Generated.handlers
  let mut st := retryInit
  let mut tables : List (String × List Spec.Handlers.RRouteS) := []
  let mut cached : RUp := []        -- the manager's cache of named route tables (what a registration replays)
  let mut mm : Option String := none
  let mut sf : Option String := none
  let mut idx := 0
  let mut partialSeen := false
  let canon (l : List (String × Spec.Handlers.RPol)) := (l.toArray.qsort (fun a b => a.1 < b.1)).toList
  let modelOf (st : RetrySt) (implObs : List (String × Spec.Handlers.RPol)) : List (String × Spec.Handlers.RPol) :=
    -- every key mentioned anywhere so far
    let keys := (implObs.map (·.1) ++ (allRoutes st.cache).flatMap keysOf).eraseDups
    keys.filterMap (fun k => (st.pol k).map (fun p => (k, ⟨p.maxRetry, p.maxDurationMs, p.errRate, showBackoff p.backoff⟩)))
  for (u, o) in ua.toList.zip oa.toList do
    let ts ← (← u.getArr?).toList.mapM (fun t => do
      let rs ← jArr t "routes"
      let parsed ← rs.toList.mapM parseRRoute
      pure ((← jStr t "n"), parsed))
    let up : RUp := ts.map (fun (n, rs) => (n, rs.map (·.1)))
    if idx > 0 && ts.length < 3 then partialSeen := true
    if idx = registerAt && idx > 0 then
      -- a container created after updates: the registration replays the cached tables (fact `replayOnRegister`)
      st := if F.replayOnRegister then { (retryHandler retryInit cached) with cache := cached } else { retryInit with cache := cached }
    -- route tables the cleaner evicted before this update: they leave the manager's cache (the handlers' view of it too);
    -- their policies go with the next run of the handlers, i.e. with this update
    let evs : List String := match (jArr j "evictedBefore").toOption.bind (fun a => a[idx]?) with
      | some e => (e.getArr?.toOption.getD #[]).toList.filterMap (fun x => x.getStr?.toOption)
      | none => []
    for tn in evs do
      cached := cached.filter (fun e => e.1 ≠ tn)
      tables := tables.filter (fun e => e.1 ≠ tn)
      st := { st with cache := st.cache.filter (fun e => e.1 ≠ tn) }
    if idx ≥ registerAt then st := retryUpdate F st up
    cached := mergeTables cached up
    tables := (ts.map (fun (n, rs) => (n, rs.map (·.2)))) ++ tables.filter (fun e => !(ts.any (fun t => t.1 = e.1)))
    if idx ≥ registerAt then
      match jObj? o "retry" with
      | some (.obj _) =>
        let implObs := parseRetryObs ((jObj? o "retry").getD (Json.mkObj []))
        let model := modelOf st implObs
        if canon model != canon implObs && mm.isNone then
          mm := some s!"update {idx + 1}: retry policies model {showPols (canon model)}, impl {showPols (canon implObs)}"
        if sf.isNone then sf := (Spec.Handlers.c17 tables implObs).map (fun m => s!"{m} (after update {idx + 1})")
      | _ => if mm.isNone then mm := some s!"update {idx + 1}: no dump of the retry container"
    else
      match jObj? o "retry" with
      | some (.obj _) => if mm.isNone then mm := some "retry dump before registration"
      | _ => pure ()
    -- state right after a late registration: derived from the cached tables alone
    match jObj? o "afterRegister" with
    | some ar =>
      let implObs := parseRetryObs ar
      let late : RetrySt := { (retryHandler retryInit cached) with cache := cached }
      let model := modelOf late implObs
      if canon model != canon implObs && mm.isNone then
        mm := some s!"registration after update {idx + 1}: retry policies model {showPols (canon model)}, impl {showPols (canon implObs)}"
      if sf.isNone then sf := (Spec.Handlers.c17 tables implObs).map (fun m => s!"{m} (container created after update {idx + 1})")
    | none => pure ()
    idx := idx + 1
  return { nontrivial := partialSeen, mismatch := mm, specfail := sf }

/-! ### C18 -/
/-- the network filters of the inbound listener as the decoder produces them: per chain the connection manager (with the
chain's port and, unless it has no route specifier, the bucket of its rate-limit filter — 0 when there is none), then a
Thrift-proxy filter where the chain has one (no port, an inline route table without bucket) -/
def parseFilters (j : Json) : Except String (List NFilter) := do
  let a ← j.getArr?
  let fss ← a.toList.mapM (fun c => do
    let port ← jNat c "port"
    let kind := jStrD c "kind" "rds"
    let bucket := match (c.getObjVal? "bucket").toOption.bind (fun b => b.getInt?.toOption) with
      | some b => b
      | none => -1
    let thrift : NFilter := ⟨.thrift, 0, some 0⟩
    if kind = "thrift" then pure [thrift] else
    -- an HTTP connection manager without route specifier yields no inline route config
    let hcm : NFilter := ⟨.http, port, if kind = "none" then none else some (if bucket < 0 then 0 else bucket.toNat)⟩
    pure (if jBoolD c "thriftAfter" false then [hcm, thrift] else [hcm]))
  pure fss.flatten

/-- the listener as `getLimiterPolicy` reads it (scope: fact from the source) -/
def parseChains (j : Json) : Except String Chains := do
  pure (chainsOf Generated.limiterScope (← parseFilters j))

/-- the filter chains that carry an HTTP rate limit, for the specification: a Thrift-proxy filter configures none -/
def parseHttpChains (j : Json) : Except String Chains := do
  pure (chainsOf .httpOnly (← parseFilters j))

def showLimit (q : Option Nat) : String := match q with | none => "inf" | some n => toString n

def implLimit (j : Json) : String :=
  match j.getObjVal? "qps" with
  | .ok (.str s) => s
  | .ok v => match v.getNat? with | .ok n => toString n | _ => "?"
  | _ => "?"

def checkLimit (j : Json) : Except String Verdict := do
  let port ← jNat j "port"
  let evs ← jArr j "events"
  let mut st := limitInit
  let mut registered := false
  -- the start-up handshake already delivered an inbound listener: one chain, no port, no rate-limit filter
  let mut last : Option (Option Chains) := some (some [(0, some 0)])
  let mut lastSpec : Option (Option Chains) := some (some [(0, some 0)])
  let mut mm : Option String := none
  let mut sf : Option String := none
  let mut updates := 0
  for e in evs.toList do
    let kind := jStrD e "e" "?"
    let obs ← e.getObjVal? "obs"
    match kind with
    | "register" =>
      registered := true
      -- replay of the cached listener map, when there is one
      match last with
      | some inb => st := limitApply port st inb
      | none => pure ()
    | "install" =>
      st := limitInstall st
      if jBoolD obs "noUpdateControl" false then
        mm := mm <|> some "install: the limiter's option carries no UpdateControl (model: the hand-over function is part of the option for good)"
        sf := sf <|> some "C18.every_change_pushed: when the server started, the limiter's option carried no UpdateControl any more (it had been there at creation): the running server's limiter is never connected and every later change of the inbound listener is lost"
    | "rejected" => pure ()       -- a response that was NACKed: no step of the model, nothing may change
    | "update" =>
      let inb ← match jObj? e "inbound" with
        | some c => do pure (some (← parseChains c))
        | none => pure none
      last := some inb
      lastSpec := some (← match jObj? e "inbound" with
        | some c => do pure (some (← parseHttpChains c))
        | none => pure none)
      updates := updates + 1
      if registered then st := limitApply port st inb
    | x => throw s!"event {x}"
    if registered then
      let lim ← obs.getObjVal? "limit"
      let mq := match st.qps with | none => "0" | some q => showLimit q
      if mq != implLimit lim && mm.isNone then mm := some s!"{kind}: QPS limit model {mq}, impl {implLimit lim}"
      let conns := match lim.getObjVal? "conns" with | .ok (.str s) => s | .ok v => (match v.getNat? with | .ok n => toString n | _ => "?") | _ => "?"
      -- spec
      if sf.isNone then
        match lastSpec with
        | some inb =>
          let want := showLimit (Spec.Handlers.wantLimit port inb)
          if implLimit lim != want then sf := some s!"C18.limit_latest: expected QPS {want}, got {implLimit lim}"
          else if conns != "inf" then sf := some s!"C18: connection limit restricted to {conns}"
        | none => pure ()
      match jArr obs "pushed" with
      | .ok pa =>
        let implP := pa.toList.map implLimit
        let modelP := st.pushed.map (fun q => match q with | some 0 => "0" | x => showLimit x)
        if (obs.getObjVal? "pushed").toOption.isSome && implP != modelP && mm.isNone then
          mm := some s!"{kind}: limits pushed to the server model {modelP}, impl {implP}"
        if sf.isNone && st.hasUpdater && kind = "update" then
          match implP.getLast? with
          | some l => if l != implLimit lim then sf := some "C18.every_change_pushed: the last pushed limit is not the current one"
          | none => sf := some "C18.every_change_pushed: nothing was pushed to the running server"
      | .error _ => pure ()
  return { nontrivial := updates ≥ 2, mismatch := mm, specfail := sf }

end XdsVerif.Driver.Handlers
