import XdsVerif.Model.Route
/-!
# C08 — route matching: first match in order; path and all header conditions hold

For every regular-expression semantics `rx`, every route table, metadata map and call.
-/
namespace XdsVerif.Properties.C08
open XdsVerif.Route

/-- declarative reading of "the route's conditions hold for the call" (HTTP route) -/
def HttpHolds (rx : String → String → Bool) (path : String) (md : Meta) (m : HTTPMatch) : Prop :=
  (if m.path ≠ "" then m.path = path else m.pfx = "/") ∧
  ∀ k c, (k, c) ∈ m.headers → ∃ v, lookup md k = some v ∧ c.holds rx v = true

theorem matchMeta_iff (rx : String → String → Bool) (hs : Headers) (md : Meta) :
    matchMeta rx hs md = true ↔ ∀ k c, (k, c) ∈ hs → ∃ v, lookup md k = some v ∧ c.holds rx v = true := by
  unfold matchMeta
  rw [List.all_eq_true]
  constructor
  · intro h k c hm
    have := h (k, c) hm
    simp only at this
    cases hl : lookup md k with
    | none => simp [hl] at this
    | some v => simp only [hl] at this; exact ⟨v, rfl, this⟩
  · intro h km hm
    obtain ⟨v, hv, hc⟩ := h km.1 km.2 hm
    simp [hv, hc]

/-- a condition on an absent key is false -/
theorem absent_key_false (rx : String → String → Bool) (hs : Headers) (md : Meta) (k : String) (c : Matcher)
    (hm : (k, c) ∈ hs) (ha : lookup md k = none) : matchMeta rx hs md = false := by
  cases h : matchMeta rx hs md with
  | false => rfl
  | true =>
    obtain ⟨v, hv, _⟩ := (matchMeta_iff rx hs md).mp h k c hm
    rw [ha] at hv; cases hv

/-- path semantics: an exact path, or else only the catch-all prefix "/" -/
theorem path_semantics (m : HTTPMatch) (path : String) :
    httpPathOk m path = true ↔ (if m.path ≠ "" then m.path = path else m.pfx = "/") := by
  unfold httpPathOk
  by_cases h : m.path = "" <;> simp [h]

/-- an HTTP route is used only if its path condition and every header condition hold -/
theorem routeMatched_http_iff (rx : String → String → Bool) (path : String) (md : Meta) (r : Route) (m : HTTPMatch)
    (hr : r.mtch = .http m) : routeMatched rx path md r = true ↔ HttpHolds rx path md m := by
  unfold routeMatched HttpHolds
  rw [hr]
  simp only [Bool.and_eq_true, path_semantics, matchMeta_iff]

/-- the matched path is `/<package>.<service>/<method>`, or `/<service>/<method>` without a package -/
theorem call_path (inv : Invocation) :
    callPath inv = (if inv.pkg = "" then "/" ++ inv.svc ++ "/" ++ inv.method
                    else "/" ++ (inv.pkg ++ "." ++ inv.svc) ++ "/" ++ inv.method) := by
  unfold callPath
  by_cases h : inv.pkg = "" <;> simp [h]

/-- index form of "first in list order" -/
theorem find_first {α} (p : α → Bool) (l : List α) (r : α) :
    l.find? p = some r ↔ ∃ i : Nat, l[i]? = some r ∧ p r = true ∧ ∀ j : Nat, j < i → ∀ r', l[j]? = some r' → p r' = false := by
  induction l with
  | nil => simp
  | cons a l ih =>
    by_cases ha : p a = true
    · rw [List.find?_cons_of_pos ha]
      constructor
      · intro h; cases h
        exact ⟨0, by simp, ha, by intro j hj; omega⟩
      · rintro ⟨i, hi, _, hmin⟩
        cases i with
        | zero => simpa using hi
        | succ i =>
          have := hmin 0 (by omega) a (by simp)
          rw [ha] at this; cases this
    · have ha' : p a = false := by simpa using ha
      rw [List.find?_cons_of_neg (by simp [ha']), ih]
      constructor
      · rintro ⟨i, hi, hp, hmin⟩
        refine ⟨i + 1, by simpa using hi, hp, ?_⟩
        intro j hj r' hr'
        cases j with
        | zero => simp at hr'; subst hr'; exact ha'
        | succ j => exact hmin j (by omega) r' (by simpa using hr')
      · rintro ⟨i, hi, hp, hmin⟩
        cases i with
        | zero => simp at hi; subst hi; rw [ha'] at hp; cases hp
        | succ i =>
          refine ⟨i, by simpa using hi, hp, ?_⟩
          intro j hj r' hr'
          exact hmin (j + 1) (by omega) r' (by simpa using hr')

/-- all routes of a table in the order the control plane listed them: virtual hosts, then routes -/
def allRoutes (vhs : List VHost) : List Route := vhs.flatMap (·.routes)

/-- **first match**: the route used is the first, in virtual-host-then-route order, that matches -/
theorem first_match (rx : String → String → Bool) (md : Meta) (inv : Invocation) (vhs : List VHost)
    (th : Option (List Route)) (mt tf : Nat) (r : Route) :
    matchHTTP rx md inv ⟨some vhs, th, mt, tf⟩ = some r ↔
      ∃ i : Nat, (allRoutes vhs)[i]? = some r ∧ routeMatched rx (callPath inv) md r = true ∧
        ∀ j : Nat, j < i → ∀ r', (allRoutes vhs)[j]? = some r' → routeMatched rx (callPath inv) md r' = false := by
  unfold matchHTTP allRoutes
  simp only
  rw [← List.find?_flatMap]
  exact find_first _ _ _

/-- nothing matches ⇒ no route -/
theorem no_match_none (rx : String → String → Bool) (md : Meta) (inv : Invocation) (vhs : List VHost)
    (th : Option (List Route)) (mt tf : Nat)
    (h : ∀ r ∈ allRoutes vhs, routeMatched rx (callPath inv) md r = false) :
    matchHTTP rx md inv ⟨some vhs, th, mt, tf⟩ = none := by
  unfold matchHTTP allRoutes at *
  simp only
  rw [← List.find?_flatMap, List.find?_eq_none]
  intro r hr; simp [h r hr]

/-- Thrift-proxy routes: first in order whose method name and headers match -/
theorem thrift_first_match (rx : String → String → Bool) (md : Meta) (inv : Invocation) (rs : List Route)
    (hc : Option (List VHost)) (mt tf : Nat) (r : Route) :
    matchThrift rx md inv ⟨hc, some rs, mt, tf⟩ = some r ↔
      ∃ i : Nat, rs[i]? = some r ∧ routeMatched rx inv.toMethod md r = true ∧
        ∀ j : Nat, j < i → ∀ r', rs[j]? = some r' → routeMatched rx inv.toMethod md r' = false := by
  unfold matchThrift
  exact find_first _ _ _

/-- for non-gRPC calls a matching Thrift-proxy route takes precedence over HTTP routes -/
theorem thrift_before_http (rx : String → String → Bool) (l : Listener) (named : String → Option RouteCfg)
    (md : Meta) (inv : Invocation) (f : Filter) (cfg : RouteCfg) (r : Route)
    (hf : lastFilter true l.filters = some f) (hi : f.inline = some cfg)
    (hm : matchThrift rx md inv cfg = some r) :
    matchRoute rx (some l) named false md inv = .ok r := by
  unfold matchRoute viaThrift
  simp [hf, hi, hm]

/-- gRPC calls never consult Thrift-proxy routes: the result does not depend on them -/
theorem grpc_skips_thrift (rx : String → String → Bool) (l : Listener) (named : String → Option RouteCfg)
    (md : Meta) (inv : Invocation) :
    matchRoute rx (some l) named true md inv =
      matchRoute rx (some ⟨l.filters.filter (fun f => !f.isThrift)⟩) named true md inv := by
  have h1 : ∀ fs : List Filter, lastFilter false (fs.filter (fun f => !f.isThrift)) = lastFilter false fs := by
    intro fs
    unfold lastFilter
    suffices ∀ acc, List.foldl (fun acc f => if f.isThrift = false then some f else acc) acc
        (fs.filter (fun f => !f.isThrift)) =
        List.foldl (fun acc f => if f.isThrift = false then some f else acc) acc fs from this none
    induction fs with
    | nil => intro acc; rfl
    | cons f fs ih =>
      intro acc
      cases hft : f.isThrift with
      | true =>
        have : List.filter (fun f => !f.isThrift) (f :: fs) = List.filter (fun f => !f.isThrift) fs := by
          simp [List.filter, hft]
        rw [this]
        simp only [List.foldl_cons, hft, Bool.true_eq_false, if_false]
        exact ih acc
      | false =>
        have : List.filter (fun f => !f.isThrift) (f :: fs) = f :: List.filter (fun f => !f.isThrift) fs := by
          simp [List.filter, hft]
        rw [this]
        simp only [List.foldl_cons, hft, if_true]
        exact ih (some f)
  unfold matchRoute viaThrift
  simp only [if_true, h1]

/-- an inline route table is consulted before the named one -/
theorem inline_before_named (rx : String → String → Bool) (l : Listener) (named : String → Option RouteCfg)
    (md : Meta) (inv : Invocation) (f : Filter) (cfg : RouteCfg) (r : Route)
    (hf : lastFilter false l.filters = some f) (hi : f.inline = some cfg)
    (hm : matchHTTP rx md inv cfg = some r) :
    matchRoute rx (some l) named true md inv = .ok r := by
  unfold matchRoute viaThrift viaInline
  simp [hf, hi, hm]

/-- when nothing matches the call fails with a routing error (never an arbitrary route) -/
theorem no_match_error (rx : String → String → Bool) (l : Listener) (named : String → Option RouteCfg)
    (grpc : Bool) (md : Meta) (inv : Invocation)
    (hth : ∀ f cfg, lastFilter true l.filters = some f → f.inline = some cfg → matchThrift rx md inv cfg = none)
    (hin : ∀ f cfg, lastFilter false l.filters = some f → f.inline = some cfg → matchHTTP rx md inv cfg = none)
    (hnm : ∀ f cfg, lastFilter false l.filters = some f → named f.routeConfigName = some cfg → matchHTTP rx md inv cfg = none) :
    ∃ e, matchRoute rx (some l) named grpc md inv = .error e := by
  have hv : viaThrift rx l grpc md inv = none := by
    unfold viaThrift
    split
    · rfl
    · cases hf : lastFilter true l.filters with
      | none => rfl
      | some f =>
        cases hi : f.inline with
        | none => simp [hi]
        | some cfg => simp [hi, hth f cfg hf hi]
  unfold matchRoute
  simp only [hv]
  cases hf : lastFilter false l.filters with
  | none => exact ⟨_, rfl⟩
  | some f =>
    have hv2 : viaInline rx f md inv = none := by
      unfold viaInline
      cases hi : f.inline with
      | none => rfl
      | some cfg => simp [hin f cfg hf hi]
    simp only [hv2]
    cases hn : named f.routeConfigName with
    | none => exact ⟨_, rfl⟩
    | some cfg =>
      simp only [hnm f cfg hf hn]
      exact ⟨_, rfl⟩

/-- any route returned satisfies its own conditions (soundness of every path through `matchRoute`) -/
theorem matched_route_holds (rx : String → String → Bool) (l : Listener) (named : String → Option RouteCfg)
    (grpc : Bool) (md : Meta) (inv : Invocation) (r : Route)
    (h : matchRoute rx (some l) named grpc md inv = .ok r) :
    routeMatched rx (callPath inv) md r = true ∨ routeMatched rx inv.toMethod md r = true := by
  have hH : ∀ cfg, matchHTTP rx md inv cfg = some r → routeMatched rx (callPath inv) md r = true := by
    intro cfg hc
    unfold matchHTTP at hc
    split at hc
    · cases hc
    · rw [← List.find?_flatMap] at hc
      exact List.find?_some hc
  have hT : ∀ cfg, matchThrift rx md inv cfg = some r → routeMatched rx inv.toMethod md r = true := by
    intro cfg hc
    unfold matchThrift at hc
    split at hc
    · cases hc
    · exact List.find?_some hc
  unfold matchRoute at h
  simp only at h
  split at h
  · rename_i r0 hv
    cases h
    right
    unfold viaThrift at hv
    split at hv
    · cases hv
    · split at hv
      · split at hv
        · exact hT _ hv
        · cases hv
      · cases hv
  · split at h
    · cases h
    · split at h
      · rename_i r1 hv
        cases h
        left
        unfold viaInline at hv
        split at hv
        · exact hH _ hv
        · cases hv
      · split at h
        · cases h
        · split at h
          · rename_i r2 hv; cases h; left; exact hH _ hv
          · cases h

/-! non-vacuity -/
def exRoute (c : String) (m : HTTPMatch) : Route := ⟨.http m, [(c, 1)], 0⟩
example : (matchHTTP (fun _ _ => false) [("k", "v1")] ⟨"pkg", "svc", "m", "m"⟩
    ⟨some [⟨"vh", [exRoute "a" ⟨"/other", "", []⟩, exRoute "b" ⟨"", "/", [("k", .exact "v1")]⟩,
                    exRoute "c" ⟨"/pkg.svc/m", "", []⟩]⟩], none, 0, 0⟩).map (·.clusters)
    = some [("b", 1)] := by decide

end XdsVerif.Properties.C08
