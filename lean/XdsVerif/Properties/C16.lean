import XdsVerif.Proofs.Reg
import XdsVerif.Model.Handlers
import XdsVerif.Generated.Facts
/-!
# C16 — circuit-breaker configuration tracks the latest cluster state
For every sequence of accepted cluster updates (the maps `UpdateResource` hands to the handler; clusters
are a full type, so each map is the whole accepted set) and every destination name.
-/
namespace XdsVerif.Properties.C16
open XdsVerif.Handlers

/-- bridge: handlers run before the cache write, and registration replays the cached map of the type -/
theorem facts_handlers : Generated.handlers.handlersFirst = true ∧ Generated.handlers.replayOnRegister = true := by decide

/-- is the destination configured by this update (outlier detection present)? -/
def conf (u : CUp) (c : String) : Bool := match u c with | some (some _) => true | _ => false

/-- what one update says about a destination it configures -/
def latestCfg (u : CUp) (c : String) : Option CbCfg :=
  match u c with
  | some (some (thr, vol)) => if thr ≠ 0 ∧ vol ≠ 0 then some ⟨true, thr, vol⟩ else some ⟨false, 0, 0⟩
  | _ => none

/-- the specification, most recent update first: the latest update alone decides; a destination configured by an
earlier update and not by the latest is disabled; a destination never configured has no entry -/
def specCb : List CUp → String → Option CbCfg
  | [], _ => none
  | u :: rest, c =>
    match latestCfg u c with
    | some x => some x
    | none => if rest.any (conf · c) then some ⟨false, 0, 0⟩ else none

def run (us : List CUp) : CbSt := us.foldl cbApply cbInit

theorem cbPolicy_eq (u : CUp) (c : String) : cbPolicy u c = latestCfg u c := by
  unfold cbPolicy latestCfg
  cases u c with
  | none => rfl
  | some o => cases o with
    | none => rfl
    | some p =>
      obtain ⟨t, v⟩ := p
      simp only
      by_cases h : v ≠ 0 ∧ t ≠ 0
      · have h' : t ≠ 0 ∧ v ≠ 0 := ⟨h.2, h.1⟩
        simp [h, h']
      · have h' : ¬ (t ≠ 0 ∧ v ≠ 0) := fun x => h ⟨x.2, x.1⟩
        simp [h, h', cbDisabled]

theorem latestCfg_isSome (u : CUp) (c : String) : (latestCfg u c).isSome = conf u c := by
  unfold latestCfg conf
  cases u c with
  | none => rfl
  | some o => cases o with
    | none => rfl
    | some p => obtain ⟨t, v⟩ := p; simp only; split <;> rfl

def lastOf : List CUp → String → Bool
  | [], _ => false
  | u :: _, c => conf u c

theorem spec_of_not_last (rus : List CUp) (c : String) (h : lastOf rus c = false) :
    specCb rus c = if rus.any (conf · c) then some ⟨false, 0, 0⟩ else none := by
  cases rus with
  | nil => rfl
  | cons w rest =>
    simp only [lastOf] at h
    have : latestCfg w c = none := by
      have := latestCfg_isSome w c
      rw [h] at this
      cases hl : latestCfg w c with
      | none => rfl
      | some x => rw [hl] at this; cases this
    simp [specCb, this, h]

/-- invariant of the handler state along any update sequence (`rus` = updates so far, most recent first) -/
theorem cb_invariant (us : List CUp) (s : CbSt) (rus : List CUp)
    (hc : ∀ c, s.cfg c = specCb rus c) (hl : ∀ c, s.last c = lastOf rus c) :
    ∀ c, (us.foldl cbApply s).cfg c = specCb (us.reverse ++ rus) c := by
  induction us generalizing s rus with
  | nil => simpa using hc
  | cons u us ih =>
    intro c
    have := ih (cbApply s u) (u :: rus) ?_ ?_ c
    · simpa [List.reverse_cons, List.append_assoc] using this
    · intro c
      simp only [cbApply, specCb, cbPolicy_eq]
      cases hp : latestCfg u c with
      | some x => rfl
      | none =>
        simp only
        by_cases hlast : lastOf rus c = true
        · rw [hl c, hlast]
          simp only [if_true]
          have : rus.any (conf · c) = true := by
            cases rus with
            | nil => simp [lastOf] at hlast
            | cons w rest => simp only [lastOf] at hlast; simp [hlast]
          simp [this, cbDisabled]
        · have hlast' : lastOf rus c = false := by simpa using hlast
          rw [hl c, hlast']
          simp only [Bool.false_eq_true, if_false]
          rw [hc c, spec_of_not_last rus c hlast']
    · intro c
      simp only [cbApply, lastOf, cbPolicy_eq, latestCfg_isSome]

/-- **the configuration after any sequence of updates is the one derived from the latest update alone** -/
theorem cb_latest (us : List CUp) (c : String) : (run us).cfg c = specCb us.reverse c := by
  have := cb_invariant us cbInit [] (by intro c; rfl) (by intro c; rfl) c
  simpa [run] using this

/-- both fields non-zero ⇒ enabled with error rate threshold/100 and minimum sample = volume -/
theorem enabled_case (us : List CUp) (u : CUp) (c : String) (t v : Nat)
    (hu : u c = some (some (t, v))) (ht : t ≠ 0) (hv : v ≠ 0) :
    (run (us ++ [u])).cfg c = some ⟨true, t, v⟩ := by
  rw [cb_latest]; simp [specCb, latestCfg, hu, ht, hv]

/-- a zero in either field ⇒ disabled -/
theorem zero_disables (us : List CUp) (u : CUp) (c : String) (t v : Nat)
    (hu : u c = some (some (t, v))) (hz : t = 0 ∨ v = 0) :
    (run (us ++ [u])).cfg c = some ⟨false, 0, 0⟩ := by
  rw [cb_latest]
  have : ¬ (t ≠ 0 ∧ v ≠ 0) := by rcases hz with h | h <;> simp [h]
  simp [specCb, latestCfg, hu, this]

/-- a destination an earlier update configured and the latest does not ⇒ disabled -/
theorem leftover_disabled (us : List CUp) (u : CUp) (c : String)
    (hu : u c = none ∨ u c = some none)
    (he : ∃ w ∈ us, ∃ o, w c = some (some o)) :
    (run (us ++ [u])).cfg c = some ⟨false, 0, 0⟩ := by
  rw [cb_latest]
  simp only [List.reverse_append, List.reverse_cons, List.reverse_nil, List.nil_append, List.cons_append, specCb]
  obtain ⟨w, hw, o, ho⟩ := he
  have hany : (us.reverse.any (conf · c)) = true := by
    rw [List.any_eq_true]
    exact ⟨w, by simpa using hw, by simp [conf, ho]⟩
  rcases hu with h | h <;> simp [latestCfg, h, hany]

/-- a breaker created after updates were received starts from the current state: registration replays the
cached cluster map (fact `replayOnRegister`), which for a full type is the latest update -/
theorem late_registration (u : CUp) (c : String) : (cbApply cbInit u).cfg c = latestCfg u c := by
  simp only [cbApply, cbInit, cbPolicy_eq]
  cases latestCfg u c <;> rfl

/-! non-vacuity -/
def exU (l : List (String × Option (Nat × Nat))) : CUp := fun k => (l.find? (fun e => e.1 = k)).map (·.2)
example : ((run [exU [("a", some (50, 10)), ("b", some (0, 5))], exU [("b", some (20, 5))]]).cfg "a",
           (run [exU [("a", some (50, 10)), ("b", some (0, 5))], exU [("b", some (20, 5))]]).cfg "b")
    = (some ⟨false, 0, 0⟩, some ⟨true, 20, 5⟩) := by decide

/-! ## A handler created while updates arrive (`Model/Reg.lean`) -/

theorem facts_registration : Generated.regShape = .atomic := by decide

/-- **a circuit-breaker configuration handler created at any moment tracks the latest state**: over every interleaving of accepted updates and
registrations (any number of handlers — one per client suite), every registered handler has completed for exactly the
content the cache holds; in particular a handler registered between two updates has seen the second one -/
theorem created_anytime_tracks_latest (ops : List Reg.Op) (s : Reg.S) (h : Reg.run Generated.regShape Reg.init ops = some s)
    (k v : Nat) (hk : k ∈ s.handlers) (hv : s.cache = some v) : s.applied k = some v := by
  rw [facts_registration] at h
  obtain ⟨hP, hp⟩ := Reg.policy_before_data_all ops s h
  exact hP k hk (by simp [hp k]) v hv

example : (Reg.run Generated.regShape Reg.init [.update 1, .regBegin 7, .update 2, .regBegin 8]).map
    (fun s => (s.cache, s.handlers, s.applied 7, s.applied 8)) = some (some 2, [7, 8], some 2, some 2) := by decide

/-! ## Consequences of `cb_latest` for whole histories (added in the last session) -/

/-- a destination no update ever configured has no entry at all (the suite's default applies) -/
theorem never_configured_no_entry (us : List CUp) (c : String) (h : ∀ u ∈ us, conf u c = false) :
    (run us).cfg c = none := by
  rw [cb_latest]
  cases hr : us.reverse with
  | nil => rfl
  | cons u rest =>
    have hu : conf u c = false := h u (by have : u ∈ us.reverse := by rw [hr]; simp
                                          simpa using this)
    have hrest : rest.any (conf · c) = false := by
      rw [List.any_eq_false]
      intro w hw
      have : w ∈ us := by have : w ∈ us.reverse := by rw [hr]; simp [hw]
                          simpa using this
      simp [h w this]
    have hl : latestCfg u c = none := by
      have := latestCfg_isSome u c
      rw [hu] at this
      cases hx : latestCfg u c with
      | none => rfl
      | some x => rw [hx] at this; simp at this
    simp [specCb, hl, hrest]

/-- the history before the latest update is irrelevant for every destination the latest update configures:
two clients with different pasts that receive the same cluster set agree on it -/
theorem past_irrelevant_when_configured (us vs : List CUp) (u : CUp) (c : String) (h : conf u c = true) :
    (run (us ++ [u])).cfg c = (run (vs ++ [u])).cfg c := by
  rw [cb_latest, cb_latest]
  have hs : (latestCfg u c).isSome = true := by rw [latestCfg_isSome]; exact h
  cases hx : latestCfg u c with
  | none => rw [hx] at hs; simp at hs
  | some x => simp [specCb, hx]

/-- re-delivery of the same cluster set (the control plane re-sends its state under a new version) changes nothing -/
theorem redelivery_idempotent (us : List CUp) (u : CUp) (c : String) :
    (run (us ++ [u, u])).cfg c = (run (us ++ [u])).cfg c := by
  rw [cb_latest, cb_latest]
  simp only [List.reverse_append, List.reverse_cons, List.reverse_nil, List.nil_append, List.cons_append, specCb]
  cases hx : latestCfg u c with
  | some x => rfl
  | none =>
    have hc : conf u c = false := by
      have := latestCfg_isSome u c
      rw [hx] at this
      simpa using this.symm
    simp [List.any_cons, hc]

/-- removal followed by re-addition: the re-added destination carries the values of the re-addition, whatever it had before -/
theorem readded_takes_new_values (us : List CUp) (u0 u1 u2 : CUp) (c : String) (t v : Nat)
    (_h0 : conf u0 c = true) (_h1 : conf u1 c = false) (h2 : u2 c = some (some (t, v))) (ht : t ≠ 0) (hv : v ≠ 0) :
    (run (us ++ [u0, u1, u2])).cfg c = some ⟨true, t, v⟩ := by
  have : us ++ [u0, u1, u2] = (us ++ [u0, u1]) ++ [u2] := by simp
  rw [this]
  exact enabled_case _ u2 c t v h2 ht hv

example : (run [exU [("a", some (50, 10))], exU [], exU [("a", some (30, 7))]]).cfg "a" = some ⟨true, 30, 7⟩ := by decide
example : (run [exU [("a", some (50, 10))], exU []]).cfg "zz" = none := by decide

end XdsVerif.Properties.C16
