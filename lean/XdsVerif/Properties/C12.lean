import XdsVerif.Model.DecodeCE
/-!
# C12 — cluster, endpoint and name-table decoding preserves meaning
For all message trees (every field the decoders read, absent optional sub-messages, any number of
resources per response). `proto.Unmarshal` is trusted; the theorems start at its output.
-/
namespace XdsVerif.Properties.C12
open XdsVerif.DecodeCE XdsVerif.Resolve

/-- a cluster keeps its name, discovery type, LB policy, EDS service name (cluster name when none is given),
outlier percentages and inline endpoints -/
theorem cds_preserves (c : PCluster) :
    (decodeCluster c).1 = c.name ∧
    (decodeCluster c).2.endpointName = (if c.serviceName ≠ "" then c.serviceName else c.name) ∧
    (decodeCluster c).2.outlier = c.outlier.map (fun o => (o.threshold.getD 0, o.volume.getD 0)) ∧
    (decodeCluster c).2.inline = decodeCla c.inline ∧
    (decodeCluster c).2.discType = convType c.typ ∧ (decodeCluster c).2.lb = convLb c.lb :=
  ⟨rfl, rfl, rfl, rfl, rfl, rfl⟩

/-- the enum mappings, including the defaults for values the code does not know -/
theorem disc_type_map (n : Int) :
    convType n = (if n = 3 then .eds else if n = 2 then .logicalDns else if n = 0 then .static else .eds) := rfl
theorem lb_map (n : Int) : convLb n = (if n = 2 then .ringHash else .roundRobin) := rfl

/-- a load assignment keeps its localities and endpoints in order with address, port and weight;
an assignment without localities is the explicit "no endpoints" value -/
theorem eds_preserves (a : PCla) :
    (a.localities = [] → decodeCla (some a) = none) ∧
    (a.localities ≠ [] → ∃ e, decodeCla (some a) = some e ∧
        e.localities.length = a.localities.length ∧
        ∀ (i : Nat) (l : List PEndpoint), a.localities[i]? = some l →
          e.localities[i]? = some (l.map (fun p => (⟨joinHostPort p.host p.port, p.weight⟩ : Endpoint)))) := by
  constructor
  · intro h; simp [decodeCla, h]
  · intro h
    have : ¬ a.localities.length = 0 := by
      intro h0; exact h (List.length_eq_zero_iff.mp h0)
    refine ⟨⟨a.localities.map (fun l => l.map (fun e => ⟨joinHostPort e.host e.port, e.weight⟩))⟩,
      by simp [decodeCla, this], by simp, ?_⟩
    intro i l hl
    simp [hl]

/-- endpoints inside a locality keep their order and count -/
theorem endpoints_in_order (l : List PEndpoint) (j : Nat) (p : PEndpoint) (h : l[j]? = some p) :
    (l.map (fun p => (⟨joinHostPort p.host p.port, p.weight⟩ : Endpoint)))[j]? = some ⟨joinHostPort p.host p.port, p.weight⟩ := by
  simp [h]

/-- the name table keeps every host with its addresses in order (first resource; an empty response is an error) -/
theorem nds_preserves (t : List (String × List String)) (rest : List (Slot (List (String × List String)))) :
    decodeNDS (.ok t :: rest) = some t ∧ decodeNDS ([] : List (Slot (List (String × List String)))) = none := ⟨rfl, rfl⟩

def lookupE {α} (l : List (String × α)) (k : String) : Option α := (l.find? (fun e => e.1 = k)).map (·.2)

theorem lookup_addEntry {α} (d : Decoded α) (k : String) (v : α) (k' : String) :
    lookupE (addEntry d k v).entries k' =
      if k' = k then (match lookupE d.entries k with | some w => some w | none => some v) else lookupE d.entries k' := by
  unfold addEntry lookupE
  by_cases hany : d.entries.any (fun e => e.1 = k) = true
  · simp only [hany, if_true]
    by_cases hk : k' = k
    · subst hk
      simp only [if_true]
      obtain ⟨e, he, hek⟩ := List.any_eq_true.mp hany
      have : (d.entries.find? (fun e => decide (e.1 = k'))).isSome = true := by
        rw [List.find?_isSome]; exact ⟨e, he, hek⟩
      cases hf : d.entries.find? (fun e => decide (e.1 = k')) with
      | none => rw [hf] at this; cases this
      | some x => rfl
    · simp [hk]
  · simp only [hany, Bool.false_eq_true, if_false]
    by_cases hk : k' = k
    · subst hk
      have hnone : d.entries.find? (fun e => decide (e.1 = k')) = none := by
        rw [List.find?_eq_none]
        intro e he hek
        exact hany (List.any_eq_true.mpr ⟨e, he, hek⟩)
      simp [List.find?, hnone]
    · have : ¬ k = k' := fun e => hk e.symm
      simp [List.find?, this, hk]

theorem addEntry_errors {α} (d : Decoded α) (k : String) (v : α) : (addEntry d k v).errors = d.errors := by
  unfold addEntry; split <;> rfl

theorem addEntry_fresh {α} (d : Decoded α) (k : String) (v : α) (h : d.entries.any (fun e => e.1 = k) = false) :
    (addEntry d k v).entries = (k, v) :: d.entries := by
  unfold addEntry; simp [h]

theorem decodeCDS_cons_ok (c : PCluster) (rest : List (Slot PCluster)) :
    decodeCDS (.ok c :: rest) = addEntry (decodeCDS rest) c.name (decodeCluster c).2 := rfl

/-- every stored name comes from a resource of the response -/
theorem cds_keys_from_input (l : List PCluster) (k : String)
    (h : (decodeCDS (l.map .ok)).entries.any (fun e => e.1 = k) = true) : k ∈ l.map (·.name) := by
  induction l with
  | nil => simp [decodeCDS] at h
  | cons x xs ih =>
    simp only [List.map_cons, decodeCDS_cons_ok] at h
    by_cases hb : (decodeCDS (xs.map .ok)).entries.any (fun e => e.1 = x.name) = true
    · have : (addEntry (decodeCDS (xs.map .ok)) x.name (decodeCluster x).2) = decodeCDS (xs.map .ok) := by
        unfold addEntry; simp [hb]
      rw [this] at h
      exact List.mem_cons_of_mem _ (ih h)
    · have hb' : (decodeCDS (xs.map .ok)).entries.any (fun e => e.1 = x.name) = false := by
        cases hq : (decodeCDS (xs.map .ok)).entries.any (fun e => e.1 = x.name) with
        | false => rfl
        | true => exact absurd hq hb
      rw [addEntry_fresh _ _ _ hb'] at h
      simp only [List.any_cons, Bool.or_eq_true, decide_eq_true_eq] at h
      rcases h with h | h
      · simp [← h]
      · exact List.mem_cons_of_mem _ (ih h)

/-- **resources are keyed by their own names; none is lost, duplicated or attributed to another name**:
with pairwise distinct names every cluster of the response is stored under its own name with its own content -/
theorem cds_keyed_by_own_name (cs : List PCluster) (hd : (cs.map (·.name)).Nodup) :
    (decodeCDS (cs.map .ok)).errors = 0 ∧
    (decodeCDS (cs.map .ok)).entries.length = cs.length ∧
    ∀ c ∈ cs, lookupE (decodeCDS (cs.map .ok)).entries c.name = some (decodeCluster c).2 := by
  induction cs with
  | nil => simp [decodeCDS]
  | cons c cs ih =>
    simp only [List.map_cons, List.nodup_cons] at hd
    obtain ⟨hnot, hd'⟩ := hd
    obtain ⟨h1, h2, h3⟩ := ih hd'
    have hfresh : (decodeCDS (cs.map .ok)).entries.any (fun e => e.1 = c.name) = false := by
      cases hb : (decodeCDS (cs.map .ok)).entries.any (fun e => e.1 = c.name) with
      | false => rfl
      | true => exact absurd (cds_keys_from_input cs c.name hb) hnot
    simp only [List.map_cons, decodeCDS_cons_ok]
    refine ⟨by rw [addEntry_errors]; exact h1, by rw [addEntry_fresh _ _ _ hfresh]; simp [h2], ?_⟩
    intro x hx
    rw [lookup_addEntry]
    simp only [List.mem_cons] at hx
    rcases hx with rfl | hx
    · have hl : lookupE (decodeCDS (cs.map .ok)).entries x.name = none := by
        unfold lookupE
        rw [List.find?_eq_none.mpr]
        · rfl
        · intro e he hek
          have : (decodeCDS (cs.map .ok)).entries.any (fun e => e.1 = x.name) = true :=
            List.any_eq_true.mpr ⟨e, he, hek⟩
          rw [hfresh] at this; cases this
      simp [hl]
    · have hne : x.name ≠ c.name := by
        intro e
        exact hnot (by rw [← e]; exact List.mem_map_of_mem hx)
      simp only [hne, if_false]
      exact h3 x hx

/-- duplicates of a name count once: the later resource wins (the behaviour of the Go map) -/
theorem cds_dup_last_wins (a b : PCluster) (h : a.name = b.name) :
    lookupE (decodeCDS [.ok a, .ok b]).entries a.name = some (decodeCluster b).2 := by
  simp [decodeCDS, addEntry, lookupE, decodeCluster, h]

/-- a response is rejected exactly when some resource has the wrong type URL or does not decode -/
theorem cds_error_iff (slots : List (Slot PCluster)) :
    (decodeCDS slots).errors = 0 ↔ ∀ s ∈ slots, ∃ c, s = .ok c := by
  induction slots with
  | nil => simp [decodeCDS]
  | cons s rest ih =>
    cases s with
    | ok c =>
      have : (decodeCDS (.ok c :: rest)).errors = (decodeCDS rest).errors := by
        simp only [decodeCDS, addEntry]; split <;> rfl
      rw [this, ih]
      simp
    | badUrl => simp [decodeCDS]
    | badBytes => simp [decodeCDS]

theorem eds_error_iff (slots : List (Slot PCla)) :
    (decodeEDS slots).errors = 0 ↔ ∀ s ∈ slots, ∃ c, s = .ok c := by
  induction slots with
  | nil => simp [decodeEDS]
  | cons s rest ih =>
    cases s with
    | ok c =>
      have : (decodeEDS (.ok c :: rest)).errors = (decodeEDS rest).errors := by
        simp only [decodeEDS, addEntry]; split <;> rfl
      rw [this, ih]
      simp
    | badUrl => simp [decodeEDS]
    | badBytes => simp [decodeEDS]

/-! non-vacuity -/
example : (decodeCluster ⟨"c", 3, 0, "", some ⟨"c", [[⟨"fd00::1", 80, 3⟩], []]⟩, some ⟨some 50, none⟩⟩).2
    = ⟨.eds, .roundRobin, "c", some ⟨[[⟨"[fd00::1]:80", 3⟩], []]⟩, some (50, 0)⟩ := by decide

end XdsVerif.Properties.C12
