import XdsVerif.Proofs.Decode
import XdsVerif.Properties.C12
import XdsVerif.Generated.Facts
/-!
# C13 — decoders are total: hostile payloads produce errors, never panics

The byte level belongs to `proto.Unmarshal` (trusted, total: it returns an error or a message whose
`oneof` wrappers carry non-nil payloads). The theorems start at its output: message trees in which
every pointer the code dereferences *directly* is explicit (`Option`, `none` = nil). `…Wire` says the
tree is one `proto.Unmarshal` can produce. Which accesses are direct is re-read from the source on
every run (bridge `facts_derefs`).
-/
namespace XdsVerif.Properties.C13
open XdsVerif.Decode XdsVerif.Route

abbrev F : DecodeFacts := Generated.decode

/-- bridge: every direct field access in the decoder files is one the model accounts for -/
theorem facts_derefs : Generated.unknownDerefs = [] := by decide

/-! ### route configurations -/

def slotWireR : PAny PRouteConfiguration → Bool
  | .ok c => rcWire c
  | _ => true

/-- `UnmarshalRDS` never panics on anything `proto.Unmarshal` can hand it -/
theorem rds_no_panic (compiles : Oracles) (xs : List (PAny PRouteConfiguration))
    (h : xs.all slotWireR = true) : decodeRDS F compiles xs ≠ .panic := by
  induction xs with
  | nil => simp [decodeRDS]
  | cons x xs ih =>
    simp only [List.all_cons, Bool.and_eq_true] at h
    have h2 := ih h.2
    simp only [decodeRDS]
    cases hr : decodeRDS F compiles xs with
    | panic => exact absurd hr h2
    | err e => simp
    | ok d =>
      simp only
      cases x with
      | badUrl => simp
      | badBytes => simp
      | ok c =>
        simp only
        have := decodeRouteConfig_no_panic F compiles c h.1
        cases hc : decodeRouteConfig F compiles c with
        | panic => exact absurd hc this
        | err e => simp
        | ok v => simp

/-- a route table is valid when every route has a match and an action -/
def rcValid (c : PRouteConfiguration) : Bool :=
  c.vhosts.all (fun v => v.routes.all (fun r => r.mtch.isSome && (match r.action with | .none => false | _ => true)))

def slotValidR : PAny PRouteConfiguration → Bool
  | .ok c => rcValid c
  | _ => false

theorem decodeRoute_err_iff (compiles : Oracles) (r : PRoute) (hw : routeWire r = true) :
    (∃ d, decodeRoute F compiles r = .ok d) ↔ (r.mtch.isSome = true ∧ r.action ≠ .none) := by
  unfold decodeRoute
  cases hm : r.mtch with
  | none => simp
  | some m =>
    simp only
    unfold routeWire at hw
    cases ha : r.action with
    | none => simp
    | other => simp
    | route a =>
      rw [ha] at hw
      simp only at hw ⊢
      cases hs : a.spec with
      | cluster n => simp
      | other => simp
      | weighted cs =>
        cases cs with
        | none => rw [hs] at hw; simp [clusterSpecWire] at hw
        | some l => simp

theorem decodeRoutes_ok_iff (compiles : Oracles) (rs : List PRoute) (hw : rs.all routeWire = true) :
    (∃ ds, decodeRoutes F compiles rs = .ok ds) ↔
      rs.all (fun r => r.mtch.isSome && (match r.action with | .none => false | _ => true)) = true := by
  induction rs with
  | nil => simp [decodeRoutes]
  | cons r rs ih =>
    simp only [List.all_cons, Bool.and_eq_true] at hw ⊢
    have h1 := decodeRoute_err_iff compiles r hw.1
    have h2 := ih hw.2
    have hnp := decodeRoutes_no_panic F compiles rs hw.2
    have hact : (match r.action with | .none => false | _ => true) = true ↔ r.action ≠ .none := by
      cases r.action <;> simp
    simp only [decodeRoutes]
    cases hr : decodeRoute F compiles r with
    | panic => exact absurd hr (decodeRoute_no_panic F compiles r hw.1)
    | err e =>
      simp only
      constructor
      · rintro ⟨_, h⟩; cases h
      · rintro ⟨⟨ha, hb⟩, _⟩
        have := h1.mpr ⟨ha, hact.mp hb⟩
        rw [hr] at this; obtain ⟨_, h⟩ := this; cases h
    | ok d =>
      simp only
      have hd := h1.mp ⟨d, hr⟩
      cases hrs : decodeRoutes F compiles rs with
      | panic => exact absurd hrs hnp
      | err e =>
        simp only
        constructor
        · rintro ⟨_, h⟩; cases h
        · rintro ⟨_, hb⟩
          have := h2.mpr hb
          rw [hrs] at this; obtain ⟨_, h⟩ := this; cases h
      | ok ds =>
        simp only
        constructor
        · intro _
          exact ⟨⟨hd.1, hact.mpr hd.2⟩, h2.mp ⟨ds, hrs⟩⟩
        · intro _; exact ⟨_, rfl⟩

theorem decodeVHosts_ok_iff (compiles : Oracles) (vs : List PVirtualHost)
    (hw : vs.all (fun v => v.routes.all routeWire) = true) :
    (∃ ds, decodeVHosts F compiles vs = .ok ds) ↔
      vs.all (fun v => v.routes.all (fun r => r.mtch.isSome && (match r.action with | .none => false | _ => true))) = true := by
  induction vs with
  | nil => simp [decodeVHosts]
  | cons v vs ih =>
    simp only [List.all_cons, Bool.and_eq_true] at hw ⊢
    have h1 := decodeRoutes_ok_iff compiles v.routes hw.1
    have h2 := ih hw.2
    simp only [decodeVHosts]
    cases hr : decodeRoutes F compiles v.routes with
    | panic => exact absurd hr (decodeRoutes_no_panic F compiles v.routes hw.1)
    | err e =>
      simp only
      constructor
      · rintro ⟨_, h⟩; cases h
      · rintro ⟨ha, _⟩
        have := h1.mpr ha
        rw [hr] at this; obtain ⟨_, h⟩ := this; cases h
    | ok d =>
      simp only
      cases hrs : decodeVHosts F compiles vs with
      | panic => exact absurd hrs (decodeVHosts_no_panic F compiles vs hw.2)
      | err e =>
        simp only
        constructor
        · rintro ⟨_, h⟩; cases h
        · rintro ⟨_, hb⟩
          have := h2.mpr hb
          rw [hrs] at this; obtain ⟨_, h⟩ := this; cases h
      | ok ds =>
        simp only
        constructor
        · intro _; exact ⟨h1.mp ⟨d, hr⟩, h2.mp ⟨ds, hrs⟩⟩
        · intro _; exact ⟨_, rfl⟩

/-- **error iff invalid**: the response is rejected exactly when some resource has the wrong type URL, is not a
valid encoding, or contains a route without match or action; a well-formed response is never rejected -/
theorem rds_error_iff_invalid (compiles : Oracles) (xs : List (PAny PRouteConfiguration))
    (hw : xs.all slotWireR = true) (d : Decoded DRouteCfg) (h : decodeRDS F compiles xs = .ok d) :
    d.errors = [] ↔ xs.all slotValidR = true := by
  induction xs generalizing d with
  | nil => simp [decodeRDS] at h; subst h; simp
  | cons x xs ih =>
    simp only [List.all_cons, Bool.and_eq_true] at hw ⊢
    simp only [decodeRDS] at h
    cases hr : decodeRDS F compiles xs with
    | panic => rw [hr] at h; cases h
    | err e => rw [hr] at h; cases h
    | ok d0 =>
      rw [hr] at h
      simp only at h
      have ih0 := ih hw.2 d0 hr
      cases x with
      | badUrl => simp only at h; cases h; simp [slotValidR]
      | badBytes => simp only at h; cases h; simp [slotValidR]
      | ok c =>
        simp only at h
        have hv := decodeVHosts_ok_iff compiles c.vhosts hw.1
        unfold decodeRouteConfig at h
        cases hc : decodeVHosts F compiles c.vhosts with
        | panic => rw [hc] at h; cases h
        | err e =>
          rw [hc] at h; simp only at h; cases h
          have : ¬ rcValid c = true := by
            intro hval
            have := hv.mpr hval
            rw [hc] at this; obtain ⟨_, h⟩ := this; cases h
          simp [slotValidR, this]
        | ok vs =>
          rw [hc] at h; simp only at h; cases h
          have : rcValid c = true := hv.mp ⟨vs, hc⟩
          simp only [slotValidR, this, true_and]
          exact ih0

/-! ### listeners -/

def thriftClusterWire : PThriftCluster → Bool
  | .weighted none => false
  | _ => true

def thriftWire (tp : PThriftProxy) : Bool :=
  match tp.routeConfig with
  | some rc => rc.2.all (fun r => match r.route with | some a => thriftClusterWire a | none => true)
  | none => true

def hcmWire (h : PHcm) : Bool :=
  match h.spec with
  | .routeConfig (some c) => rcWire c
  | _ => true

def filterWire : PFilterCfg → Bool
  | .typed none => false
  | .typed (some (.thrift (.ok tp))) => thriftWire tp
  | .typed (some (.hcm (.ok h))) => hcmWire h
  | _ => true

def listenerWire (l : PListener) : Bool :=
  (l.chains ++ (match l.dflt with | some c => [c] | none => [])).all (fun fc => fc.filters.all filterWire)

theorem thriftRoutes_no_panic (compiles : Oracles) (rs : List PThriftRoute)
    (h : rs.all (fun r => match r.route with | some a => thriftClusterWire a | none => true) = true) :
    decodeThriftRoutes compiles rs ≠ .panic := by
  induction rs with
  | nil => simp [decodeThriftRoutes]
  | cons r rs ih =>
    simp only [List.all_cons, Bool.and_eq_true] at h
    have h2 := ih h.2
    simp only [decodeThriftRoutes]
    cases r.mtch with
    | none => simp
    | some m =>
      simp only
      cases hr : r.route with
      | none => simp
      | some a =>
        have h1 := h.1
        rw [hr] at h1
        simp only at h1 ⊢
        cases a with
        | cluster n =>
          simp only
          cases hrs : decodeThriftRoutes compiles rs with
          | panic => exact absurd hrs h2
          | err e => simp
          | ok ds => simp
        | other =>
          simp only
          cases hrs : decodeThriftRoutes compiles rs with
          | panic => exact absurd hrs h2
          | err e => simp
          | ok ds => simp
        | weighted cs =>
          cases cs with
          | none => simp [thriftClusterWire] at h1
          | some l =>
            simp only
            cases hrs : decodeThriftRoutes compiles rs with
            | panic => exact absurd hrs h2
            | err e => simp
            | ok ds => simp

theorem rateLimitOf_no_panic (fs : List PHttpFilter) : rateLimitOf F fs ≠ .panic := by
  induction fs with
  | nil => simp [rateLimitOf]
  | cons f fs ih =>
    unfold rateLimitOf
    cases f with
    | other => exact ih
    | typed c =>
      cases c with
      | none => exact ih
      | some src =>
        cases src with
        | otherUrl => simp only; split <;> first | exact ih | simp
        | rateLimit p =>
          cases p with
          | badUrl => simp only; split <;> first | exact ih | simp
          | badBytes => simp
          | ok o => cases o with
            | none => simp only; split <;> first | exact ih | simp
            | some v => simp
        | typedStruct p =>
          cases p with
          | badUrl => simp only; split <;> first | exact ih | simp
          | badBytes => simp
          | ok o => cases o with
            | none => exact ih
            | some v =>
              obtain ⟨a, b⟩ := v
              cases a <;> cases b <;> first | exact ih | simp

theorem decodeHcm_no_panic (compiles : Oracles) (h : PHcm) (hw : hcmWire h = true) :
    decodeHcm F compiles h ≠ .panic := by
  unfold decodeHcm
  have := rateLimitOf_no_panic h.httpFilters
  cases hr : rateLimitOf F h.httpFilters with
  | panic => exact absurd hr this
  | err e => simp
  | ok v =>
    obtain ⟨mt, tpf⟩ := v
    simp only
    unfold hcmWire at hw
    cases hs : h.spec with
    | other => simp
    | rds n => cases n with
      | none => simp
      | some n => simp only; split <;> simp
    | routeConfig c =>
      cases c with
      | none => simp
      | some c =>
        rw [hs] at hw
        simp only at hw ⊢
        have := decodeRouteConfig_no_panic F compiles c hw
        cases hc : decodeRouteConfig F compiles c with
        | panic => exact absurd hc this
        | err e => simp
        | ok d => simp

theorem decodeChain_no_panic (compiles : Oracles) (fc : PFilterChain) (hw : fc.filters.all filterWire = true) :
    decodeChain F compiles fc ≠ .panic := by
  unfold decodeChain
  simp only
  suffices h : ∀ (fs : List PFilterCfg) (acc : Outcome (List DFilter × List String)), fs.all filterWire = true → acc ≠ .panic →
      fs.foldl _ acc ≠ .panic from h fc.filters _ hw (by simp)
  intro fs
  induction fs with
  | nil => intro acc _ ha; exact ha
  | cons f fs ih =>
    intro acc hall ha
    simp only [List.all_cons, Bool.and_eq_true] at hall
    simp only [List.foldl_cons]
    apply ih _ hall.2
    cases acc with
    | panic => exact absurd rfl ha
    | err e => simp
    | ok p =>
      obtain ⟨fs0, errs⟩ := p
      simp only
      cases f with
      | other => simp
      | typed a =>
        cases a with
        | none => simp [filterWire] at hall
        | some pl =>
          cases pl with
          | otherUrl => simp
          | thrift p =>
            cases p with
            | badUrl => simp
            | badBytes => simp
            | ok tp =>
              simp only
              have hw1 : thriftWire tp = true := by simpa [filterWire] using hall.1
              have : decodeThriftRoutes compiles (match tp.routeConfig with | some rc => rc.2 | none => []) ≠ .panic := by
                unfold thriftWire at hw1
                cases hrc : tp.routeConfig with
                | none => simp [decodeThriftRoutes]
                | some rc => rw [hrc] at hw1; exact thriftRoutes_no_panic compiles rc.2 hw1
              cases hd : decodeThriftRoutes compiles (match tp.routeConfig with | some rc => rc.2 | none => []) with
              | panic => exact absurd hd this
              | err e => simp
              | ok rs => simp
          | hcm p =>
            cases p with
            | badUrl => simp
            | badBytes => simp
            | ok h =>
              simp only
              have hw1 : hcmWire h = true := by simpa [filterWire] using hall.1
              have := decodeHcm_no_panic compiles h hw1
              cases hd : decodeHcm F compiles h with
              | panic => exact absurd hd this
              | err e => simp
              | ok v => obtain ⟨n, inl⟩ := v; simp

theorem decodeListener_no_panic (compiles : Oracles) (l : PListener) (hw : listenerWire l = true) :
    decodeListener F compiles l ≠ .panic := by
  unfold decodeListener listenerWire at *
  simp only
  suffices h : ∀ (cs : List PFilterChain) (acc : Outcome (DListener × List String)),
      cs.all (fun fc => fc.filters.all filterWire) = true → acc ≠ .panic → cs.foldl _ acc ≠ .panic from h _ _ hw (by simp)
  intro cs
  induction cs with
  | nil => intro acc _ ha; exact ha
  | cons fc cs ih =>
    intro acc hall ha
    simp only [List.all_cons, Bool.and_eq_true] at hall
    simp only [List.foldl_cons]
    apply ih _ hall.2
    cases acc with
    | panic => exact absurd rfl ha
    | err e => simp
    | ok p =>
      obtain ⟨d, errs⟩ := p
      simp only
      have := decodeChain_no_panic compiles fc hall.1
      cases hc : decodeChain F compiles fc with
      | panic => exact absurd hc this
      | err e => simp
      | ok v => obtain ⟨fs, es⟩ := v; simp only; split <;> simp

def slotWireL : PAny PListener → Bool
  | .ok l => listenerWire l
  | _ => true

/-- `UnmarshalLDS` (with its nested HttpConnectionManager, ThriftProxy, rate-limit and TypedStruct payloads)
never panics on anything `proto.Unmarshal` can hand it -/
theorem lds_no_panic (compiles : Oracles) (xs : List (PAny PListener))
    (h : xs.all slotWireL = true) : decodeLDS F compiles xs ≠ .panic := by
  induction xs with
  | nil => simp [decodeLDS]
  | cons x xs ih =>
    simp only [List.all_cons, Bool.and_eq_true] at h
    have h2 := ih h.2
    simp only [decodeLDS]
    cases hr : decodeLDS F compiles xs with
    | panic => exact absurd hr h2
    | err e => simp
    | ok d =>
      simp only
      cases x with
      | badUrl => simp
      | badBytes => simp
      | ok l =>
        simp only
        have := decodeListener_no_panic compiles l h.1
        cases hc : decodeListener F compiles l with
        | panic => exact absurd hc this
        | err e => simp
        | ok v => obtain ⟨dl, es⟩ := v; simp

/-- a resource slot with the wrong type URL or with bytes that are not a valid encoding is an error -/
theorem lds_bad_slot_is_error (compiles : Oracles) (xs ys : List (PAny PListener)) (d : Decoded DListener)
    (hb : ∃ pre post, xs = pre ++ PAny.badUrl :: post ∨ xs = pre ++ PAny.badBytes :: post)
    (h : decodeLDS F compiles xs = .ok d) : d.errors ≠ [] := by
  obtain ⟨pre, post, hx⟩ := hb
  have key : ∀ (pre : List (PAny PListener)) (bad : PAny PListener) (d : Decoded DListener),
      (bad = .badUrl ∨ bad = .badBytes) → decodeLDS F compiles (pre ++ bad :: post) = .ok d → d.errors ≠ [] := by
    intro pre
    induction pre with
    | nil =>
      intro bad d hbad h
      simp only [List.nil_append, decodeLDS] at h
      cases hr : decodeLDS F compiles post with
      | panic => rw [hr] at h; cases h
      | err e => rw [hr] at h; cases h
      | ok d0 =>
        rw [hr] at h
        rcases hbad with rfl | rfl <;> (simp only at h; cases h; simp)
    | cons p pre ih =>
      intro bad d hbad h
      simp only [List.cons_append, decodeLDS] at h
      cases hr : decodeLDS F compiles (pre ++ bad :: post) with
      | panic => rw [hr] at h; cases h
      | err e => rw [hr] at h; cases h
      | ok d0 =>
        rw [hr] at h
        have hne := ih bad d0 hbad hr
        simp only at h
        cases p with
        | badUrl => simp only at h; cases h; simp
        | badBytes => simp only at h; cases h; simp
        | ok l =>
          simp only at h
          cases hl : decodeListener F compiles l with
          | panic => rw [hl] at h; cases h
          | err e => rw [hl] at h; simp only at h; cases h; simp
          | ok v =>
            obtain ⟨dl, es⟩ := v
            rw [hl] at h; simp only at h; cases h
            simp [hne]
  rcases hx with hx | hx
  · exact key pre _ d (Or.inl rfl) (hx ▸ h)
  · exact key pre _ d (Or.inr rfl) (hx ▸ h)

/-- clusters, load assignments and the name table: total by construction; rejected iff a slot is bad / the response is empty -/
theorem cds_eds_error_iff (cs : List (DecodeCE.Slot DecodeCE.PCluster)) (es : List (DecodeCE.Slot DecodeCE.PCla)) :
    ((DecodeCE.decodeCDS cs).errors = 0 ↔ ∀ s ∈ cs, ∃ c, s = .ok c) ∧
    ((DecodeCE.decodeEDS es).errors = 0 ↔ ∀ s ∈ es, ∃ c, s = .ok c) :=
  ⟨C12.cds_error_iff cs, C12.eds_error_iff es⟩

theorem nds_error_iff (slots : List (DecodeCE.Slot (List (String × List String)))) :
    DecodeCE.decodeNDS slots = none ↔ (slots = [] ∨ ∃ rest, slots = .badUrl :: rest ∨ slots = .badBytes :: rest) := by
  cases slots with
  | nil => simp [DecodeCE.decodeNDS]
  | cons s rest => cases s <;> simp [DecodeCE.decodeNDS]

/-! non-vacuity: a tree that is not wire-producible does panic in the model (so the hypothesis is not decoration) -/
example : (match decodeRoute F ⟨fun _ => true, fun _ => true⟩ ⟨"r", some ⟨.pfx "/", []⟩, .route ⟨.weighted none, none, none⟩⟩ with | .panic => true | _ => false) = true := by decide
example : slotWireR (.ok ⟨"rc", [⟨"vh", [⟨"r", some ⟨.pfx "/", []⟩, .route ⟨.cluster "c", none, none⟩⟩]⟩]⟩) = true := by decide

end XdsVerif.Properties.C13
