import XdsVerif.Model.Resolve
import XdsVerif.Generated.Facts
/-!
# C10 — resolution returns exactly the control plane's endpoints for the cluster
For every pair of lookup functions (i.e. every cache content / failure pattern) and every name.
Address, port and weight preservation *into* the cached values is C12; their history is C01.
-/
namespace XdsVerif.Properties.C10
open XdsVerif.Resolve

abbrev F : ResolveFacts := Generated.resolver

theorem facts_resolver : F = expectedFacts := by decide

/-- the load assignment the resolver must use: inline if present, else the one named by the cluster -/
def Chosen (getE : String → Option (Option Endpoints)) (c : Cluster) (e : Endpoints) : Prop :=
  c.inline = some e ∨ (c.inline = none ∧ getE c.endpointName = some (some e))

/-- **exactness**: success means exactly the chosen assignment's endpoints, localities concatenated in order -/
theorem resolve_exact (getC : String → Option Cluster) (getE : String → Option (Option Endpoints))
    (desc : String) (is : List Endpoint) :
    getEndpoints F getC getE desc = .ok is ↔
      ∃ c e, getC desc = some c ∧ Chosen getE c e ∧ is = e.localities.flatten ∧ is ≠ [] := by
  rw [facts_resolver]
  unfold getEndpoints Chosen expectedFacts
  constructor
  · intro h
    cases hc : getC desc with
    | none => simp [hc] at h
    | some c =>
      simp only [hc] at h
      cases hi : c.inline with
      | some e =>
        simp only [hi] at h
        split at h
        · cases h
        · split at h
          · cases h
          · cases h
            rename_i hl
            exact ⟨c, e, rfl, Or.inl hi, rfl, by intro h0; simp [h0] at hl⟩
      | none =>
        simp only [hi] at h
        cases he : getE c.endpointName with
        | none => simp [he] at h
        | some v =>
          cases v with
          | none => simp [he] at h
          | some e =>
            simp only [he] at h
            split at h
            · cases h
            · split at h
              · cases h
              · cases h
                rename_i hl
                exact ⟨c, e, rfl, Or.inr ⟨hi, he⟩, rfl, by intro h0; simp [h0] at hl⟩
  · rintro ⟨c, e, hc, hch, rfl, hne⟩
    have hl : ¬ e.localities.length = 0 := by
      intro h0
      have : e.localities = [] := List.length_eq_zero_iff.mp h0
      simp [this] at hne
    have hf : ¬ e.localities.flatten.length = 0 := by
      intro h0; exact hne (List.length_eq_zero_iff.mp h0)
    rw [List.length_flatten] at hf
    rcases hch with hi | ⟨hi, he⟩
    · simp [hc, hi, hl, hf]
    · simp [hc, hi, he, hl, hf]

/-- never an empty success -/
theorem no_empty_success (getC : String → Option Cluster) (getE : String → Option (Option Endpoints))
    (desc : String) (r : Result) (h : resolve F getC getE desc = .ok r) : r.instances ≠ [] := by
  unfold resolve at h
  split at h
  · cases h
  · rename_i eps he
    cases h
    obtain ⟨_, _, _, _, _, hne⟩ := (resolve_exact getC getE desc eps).mp he
    exact hne

/-- a cluster that cannot be fetched yields an error -/
theorem fetch_error_propagates (getC : String → Option Cluster) (getE : String → Option (Option Endpoints))
    (desc : String) :
    (getC desc = none → resolve F getC getE desc = .error .fetchCluster) ∧
    (∀ c, getC desc = some c → c.inline = none → getE c.endpointName = none →
        resolve F getC getE desc = .error .fetchEndpoints) := by
  unfold resolve getEndpoints
  constructor
  · intro h; simp [h]
  · intro c hc hi he; simp [hc, hi, he]

/-- an empty / absent load assignment yields the "no endpoints" error -/
theorem no_endpoints_error (getC : String → Option Cluster) (getE : String → Option (Option Endpoints))
    (desc : String) (c : Cluster) (hc : getC desc = some c)
    (h : (∃ e, c.inline = some e ∧ e.localities.flatten = []) ∨
         (c.inline = none ∧ (getE c.endpointName = some none ∨ ∃ e, getE c.endpointName = some (some e) ∧ e.localities.flatten = []))) :
    resolve F getC getE desc = .error .noEndpoints := by
  cases hr : resolve F getC getE desc with
  | ok r =>
    exfalso
    unfold resolve at hr
    split at hr
    · cases hr
    · rename_i eps he
      obtain ⟨c', e', hc', hch, hflat, hne⟩ := (resolve_exact getC getE desc eps).mp he
      rw [hc] at hc'; cases hc'
      rcases h with ⟨e, hi, hf⟩ | ⟨hi, hv⟩
      · rcases hch with h1 | ⟨h1, _⟩
        · rw [hi] at h1; cases h1; exact hne (hflat.trans hf)
        · rw [hi] at h1; cases h1
      · rcases hch with h1 | ⟨_, h2⟩
        · rw [hi] at h1; cases h1
        · rcases hv with hv | ⟨e, hv, hf⟩
          · rw [hv] at h2; cases h2
          · rw [hv] at h2; cases h2; exact hne (hflat.trans hf)
  | error e =>
    unfold resolve at hr
    split at hr
    · rename_i e' he
      cases hr
      -- which error: not a fetch error, since both lookups succeeded
      rw [facts_resolver] at he
      unfold getEndpoints expectedFacts at he
      simp only [hc] at he
      rcases h with ⟨e0, hi, _⟩ | ⟨hi, hv⟩
      · simp only [hi] at he
        split at he
        · cases he; rfl
        · split at he
          · cases he; rfl
          · cases he
      · simp only [hi] at he
        rcases hv with hv | ⟨e0, hv, _⟩
        · simp [hv] at he; rw [← he]
        · simp only [hv] at he
          split at he
          · cases he; rfl
          · split at he
            · cases he; rfl
            · cases he
    · cases hr

/-- results are cacheable under the cluster name -/
theorem cacheable_key (getC : String → Option Cluster) (getE : String → Option (Option Endpoints))
    (desc : String) (r : Result) (h : resolve F getC getE desc = .ok r) :
    r.cacheable = true ∧ r.cacheKey = desc := by
  rw [facts_resolver] at h
  unfold resolve expectedFacts at h
  split at h
  · cases h
  · cases h; exact ⟨rfl, rfl⟩

/-- the description resolved is the routed cluster when one was selected -/
theorem target_is_tag (c svc : String) : target (some c) svc = c ∧ target none svc = svc := ⟨rfl, rfl⟩

/-! non-vacuity -/
example : getEndpoints F (fun _ => some ⟨"e", none⟩)
    (fun _ => some (some ⟨[[⟨"10.0.0.1:80", 1⟩], [], [⟨"10.0.0.2:80", 3⟩]]⟩)) "c"
    = .ok [⟨"10.0.0.1:80", 1⟩, ⟨"10.0.0.2:80", 3⟩] := by rfl
example : getEndpoints F (fun _ => some ⟨"e", none⟩) (fun _ => some (some ⟨[[]]⟩)) "c" = .error .noEndpoints := by rfl

/-! ## Non-interference and counting (added in the last session) -/

/-- **only the routed cluster and its own load assignment matter**: two states of the cache that agree on the cluster
and on the load assignment it names give the same answer, success or error alike — no other cluster's endpoints can leak
into a resolution, whatever else the control plane has pushed -/
theorem resolve_frame (getC getC' : String → Option Cluster) (getE getE' : String → Option (Option Endpoints))
    (desc : String) (hc : getC desc = getC' desc)
    (he : ∀ c, getC desc = some c → getE c.endpointName = getE' c.endpointName) :
    resolve F getC getE desc = resolve F getC' getE' desc := by
  unfold resolve getEndpoints
  rw [← hc]
  cases hd : getC desc with
  | none => rfl
  | some c =>
    have := he c hd
    simp only [this]

/-- an inline load assignment shadows the named one completely -/
theorem inline_shadows_named (getC : String → Option Cluster) (getE getE' : String → Option (Option Endpoints))
    (desc : String) (c : Cluster) (e : Endpoints) (hc : getC desc = some c) (hi : c.inline = some e) :
    getEndpoints F getC getE desc = getEndpoints F getC getE' desc := by
  unfold getEndpoints
  simp only [hc, hi]

/-- nothing is dropped or duplicated: a success has as many instances as the localities have endpoints in total -/
theorem instance_count (getC : String → Option Cluster) (getE : String → Option (Option Endpoints))
    (desc : String) (is : List Endpoint) (h : getEndpoints F getC getE desc = .ok is) :
    ∃ c e, getC desc = some c ∧ Chosen getE c e ∧ is.length = (e.localities.map List.length).sum := by
  obtain ⟨c, e, hc, hch, rfl, _⟩ := (resolve_exact getC getE desc is).mp h
  exact ⟨c, e, hc, hch, List.length_flatten⟩

/-- every listed endpoint is returned, and every returned endpoint is listed (with its address and weight) -/
theorem instance_mem (getC : String → Option Cluster) (getE : String → Option (Option Endpoints))
    (desc : String) (is : List Endpoint) (h : getEndpoints F getC getE desc = .ok is) :
    ∃ c e, getC desc = some c ∧ Chosen getE c e ∧ ∀ x, x ∈ is ↔ ∃ l ∈ e.localities, x ∈ l := by
  obtain ⟨c, e, hc, hch, rfl, _⟩ := (resolve_exact getC getE desc is).mp h
  exact ⟨c, e, hc, hch, fun x => List.mem_flatten⟩

example : resolve F (fun d => if d = "c" then some ⟨"e", none⟩ else some ⟨"other", none⟩)
      (fun n => if n = "e" then some (some ⟨[[⟨"10.0.0.1:80", 1⟩]]⟩) else some (some ⟨[[⟨"6.6.6.6:80", 1⟩]]⟩)) "c"
    = .ok ⟨true, "c", [⟨"10.0.0.1:80", 1⟩]⟩ := by rfl

end XdsVerif.Properties.C10
