import XdsVerif.Proofs.Pick
import XdsVerif.Generated.Facts
/-!
# C09 — weighted cluster selection is proportional; zero weight is never picked

Theorems are about `Pick.pick` instantiated with the facts regenerated from
`xdssuite/router.go` (`Generated.pick`). `t` is the value of the random draw; the draw
primitive is trusted to be uniform on `[0,total)`, so "`w` of the `total` draw values select
cluster `k`" is "probability `w/total`".
Domain: `NoWrap ws` — the weights sum below 2^32 (Envoy rejects larger totals; beyond it
`calTotalWeight` itself wraps).
-/
namespace XdsVerif.Properties.C09
open XdsVerif.Pick

abbrev F : PickFacts := Generated.pick

/-- bridge: the source has the strict comparison, the unsigned draw and the guards -/
theorem facts_pick : Good F := by unfold Good; decide

abbrev NoWrap (ws : List Nat) : Prop := ws.sum < W

/-- the selected index is the one whose cumulative interval contains the draw -/
theorem pick_interval (a b : Nat) (rest : List Nat) (t k : Nat)
    (hnw : NoWrap (a :: b :: rest)) (hpos : 0 < (a :: b :: rest).sum) :
    pick F (a :: b :: rest) t = .idx k ↔
      ∃ w, (a :: b :: rest)[k]? = some w ∧ ((a :: b :: rest).take k).sum ≤ t
           ∧ t < ((a :: b :: rest).take k).sum + w := by
  rw [pick_eq_scanN F facts_pick a b rest t hnw hpos]
  have := scanN_iff (a :: b :: rest) 0 t 0 k (Nat.zero_le _)
  simp only [Nat.zero_add] at this
  rw [← this]
  split <;> simp_all

/-- exact proportionality: of the `total` equally likely draw values exactly `w_k` select cluster `k` -/
theorem pick_count (a b : Nat) (rest : List Nat) (k w : Nat)
    (hnw : NoWrap (a :: b :: rest)) (hpos : 0 < (a :: b :: rest).sum)
    (hk : (a :: b :: rest)[k]? = some w) :
    countOut F (a :: b :: rest) (a :: b :: rest).sum (.idx k) = w := by
  unfold countOut
  have hle := take_sum_add_le _ k w hk
  have hfilter : (List.range (a :: b :: rest).sum).filter (fun t => decide (pick F (a :: b :: rest) t = .idx k))
      = (List.range (a :: b :: rest).sum).filter
          (fun t => decide (((a :: b :: rest).take k).sum ≤ t ∧ t < ((a :: b :: rest).take k).sum + w)) := by
    apply List.filter_congr
    intro t _
    have := pick_interval a b rest t k hnw hpos
    simp only [hk, Option.some.injEq, exists_eq_left'] at this
    simp only [this]
  rw [hfilter, count_interval_gen]
  omega

/-- a cluster of weight 0 never receives traffic, whatever the draw -/
theorem zero_never (a b : Nat) (rest : List Nat) (k t : Nat)
    (hnw : NoWrap (a :: b :: rest)) (hk : (a :: b :: rest)[k]? = some 0) :
    pick F (a :: b :: rest) t ≠ .idx k := by
  by_cases hpos : 0 < (a :: b :: rest).sum
  · intro h
    obtain ⟨w, hw, h1, h2⟩ := (pick_interval a b rest t k hnw hpos).mp h
    rw [hk] at hw; cases hw; omega
  · have h0 : (a :: b :: rest).sum = 0 := by omega
    unfold pick
    simp [total_eq_sum _ hnw, h0]

/-- a cluster holding all the weight is always chosen -/
theorem sole_always (a b : Nat) (rest : List Nat) (k t : Nat)
    (hnw : NoWrap (a :: b :: rest)) (hpos : 0 < (a :: b :: rest).sum)
    (hk : (a :: b :: rest)[k]? = some (a :: b :: rest).sum) (ht : t < (a :: b :: rest).sum) :
    pick F (a :: b :: rest) t = .idx k := by
  rw [pick_interval a b rest t k hnw hpos]
  refine ⟨_, hk, ?_, ?_⟩
  · have := take_sum_add_le _ k _ hk; omega
  · omega

/-- every draw below a positive total selects some cluster ("random pick failed" is unreachable) -/
theorem positive_total_picks (a b : Nat) (rest : List Nat) (t : Nat)
    (hnw : NoWrap (a :: b :: rest)) (ht : t < (a :: b :: rest).sum) :
    ∃ k, pick F (a :: b :: rest) t = .idx k ∧ k < (a :: b :: rest).length := by
  have hpos : 0 < (a :: b :: rest).sum := by omega
  obtain ⟨j, hj⟩ := scanN_total (a :: b :: rest) 0 t 0 (Nat.zero_le _) (by omega)
  refine ⟨j, ?_, ?_⟩
  · rw [pick_eq_scanN F facts_pick a b rest t hnw hpos, hj]
  · have := (scanN_iff (a :: b :: rest) 0 t 0 j (Nat.zero_le _)).mp (by simpa using hj)
    obtain ⟨w, hw, _⟩ := this
    rcases Nat.lt_or_ge j (a :: b :: rest).length with h | h
    · exact h
    · rw [List.getElem?_eq_none h] at hw; cases hw

/-- a single listed cluster is always chosen, whatever its weight -/
theorem single_always (w t : Nat) : pick F [w] t = .idx 0 := rfl

/-- no clusters ⇒ routing error -/
theorem empty_error (t : Nat) : pick F [] t = .err := rfl

/-- zero total weight ⇒ routing error, never an arbitrary pick -/
theorem zero_total_error (a b : Nat) (rest : List Nat) (t : Nat) (h : total (a :: b :: rest) = 0) :
    pick F (a :: b :: rest) t = .err := by
  unfold pick; simp [h]

/-- the draw primitive is never called outside its domain: no panic for any weight vector -/
theorem never_panics (ws : List Nat) (t : Nat) : pick F ws t ≠ .panic := by
  have hd : F.draw = .uint32n := facts_pick.2.1
  unfold pick
  split
  · simp
  · simp
  · simp only
    split
    · simp
    · rw [hd]; simp only [drawRange]
      split <;> simp

/-! non-vacuity: concrete vectors meeting the hypotheses -/
example : NoWrap [0, 1] ∧ 0 < [0, 1].sum ∧ pick F [0, 1] 0 = .idx 1 := by decide
example : countOut F [1, 2, 1] 4 (.idx 1) = 2 := by decide
example : pick F [3000000000, 1] 2999999999 = .idx 0 := by decide

end XdsVerif.Properties.C09
