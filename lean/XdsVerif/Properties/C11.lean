import XdsVerif.Proofs.Decode
import XdsVerif.Generated.Facts
/-!
# C11 — listener and route decoding preserves the control plane's meaning
For all message trees (every field the decoder reads, every `oneof` alternative, empty and repeated
collections) and every regex-compilation oracle.
-/
namespace XdsVerif.Properties.C11
open XdsVerif.Decode XdsVerif.Route

abbrev F : DecodeFacts := Generated.decode

/-- bridge: back-off base read from base_interval; the rate-limit scan goes through all HTTP filters -/
theorem facts_decode : F = Decode.expectedFacts := by decide

/-- **header conditions**: when no two *supported* conditions of a route share a header name, the decoded
matcher set is exactly the supported conditions, in order (nothing lost, nothing invented) -/
theorem headers_preserved (compiles : Oracles) (hs : List PHeader)
    (hd : ((hs.filterMap (supported compiles)).map (·.1)).Nodup) :
    buildMatchers compiles hs = hs.filterMap (supported compiles) := by
  rw [buildMatchers_eq_foldl]
  have := foldl_step_nodup compiles hs [] (by simpa using hd)
  simpa using this

/-- what counts as supported: a non-empty exact or prefix pattern, or a non-empty regular expression that compiles;
everything else (empty patterns, non-compiling regexes, other matcher kinds) is dropped -/
theorem supported_exact (compiles : Oracles) (n s : String) :
    supported compiles ⟨n, .stringMatch (.exact s)⟩ = if s ≠ "" then some (n, .exact s) else none := rfl
theorem supported_prefix (compiles : Oracles) (n s : String) :
    supported compiles ⟨n, .stringMatch (.pfx s)⟩ = if s ≠ "" then some (n, .pfx s) else none := rfl
theorem supported_regex (compiles : Oracles) (n r : String) :
    supported compiles ⟨n, .stringMatch (.safeRegex (some r))⟩ = if r ≠ "" ∧ compiles.compiles r then some (n, .regex r) else none := rfl
theorem supported_other (compiles : Oracles) (n : String) :
    supported compiles ⟨n, .other⟩ = none ∧ supported compiles ⟨n, .stringMatch .other⟩ = none ∧
    supported compiles ⟨n, .stringMatch (.safeRegex none)⟩ = none := ⟨rfl, rfl, rfl⟩

/-- known limitation made explicit (finding S13): with two supported conditions on one header name only the last
survives — the hypothesis of `headers_preserved` is needed -/
theorem dup_header_names_shadow :
    buildMatchers ⟨fun _ => true, fun _ => true⟩ [⟨"k", .stringMatch (.exact "a")⟩, ⟨"k", .stringMatch (.pfx "b")⟩] = [("k", .pfx "b")] := by
  decide

theorem retryExtStep_frame (O : Oracles) (d0 : DRetry) (h : PHeader) :
    (retryExtStep O d0 h).numRetries = d0.numRetries ∧ (retryExtStep O d0 h).perTry = d0.perTry ∧
    (retryExtStep O d0 h).perTryIdle = d0.perTryIdle ∧ (retryExtStep O d0 h).retryOn = d0.retryOn ∧
    (retryExtStep O d0 h).backoff = d0.backoff := by
  unfold retryExtStep
  by_cases h1 : extValue h = ""
  · simp [h1]
  · by_cases h2 : h.name = "kitexRetryErrorRate"
    · by_cases h4 : O.parsesFloat (extValue h) = true <;> simp [h1, h2, h4]
    · by_cases h3 : h.name = "kitexRetryMethods" <;> simp [h1, h2, h3]

/-- the retriable-header extensions touch only the error rate and the method list -/
theorem retryExt_frame (O : Oracles) (hs : List PHeader) (d0 : DRetry) :
    (retryExt O hs d0).numRetries = d0.numRetries ∧ (retryExt O hs d0).perTry = d0.perTry ∧
    (retryExt O hs d0).perTryIdle = d0.perTryIdle ∧ (retryExt O hs d0).retryOn = d0.retryOn ∧
    (retryExt O hs d0).backoff = d0.backoff := by
  unfold retryExt
  induction hs generalizing d0 with
  | nil => exact ⟨rfl, rfl, rfl, rfl, rfl⟩
  | cons h hs ih =>
    simp only [List.foldl_cons]
    obtain ⟨a, b, c, d, e⟩ := ih (retryExtStep O d0 h)
    obtain ⟨a', b', c', d', e'⟩ := retryExtStep_frame O d0 h
    exact ⟨a.trans a', b.trans b', c.trans c', d.trans d', e.trans e'⟩

/-- **the retry policy**: attempts, per-try timeouts, retry-on, and back-off base and maximum *as sent* -/
theorem retry_preserves (O : Oracles) (p : PRetry) :
    (decodeRetry F O p).numRetries = p.numRetries.getD 0 ∧ (decodeRetry F O p).perTry = p.perTry.getD 0 ∧
    (decodeRetry F O p).perTryIdle = p.perTryIdle.getD 0 ∧ (decodeRetry F O p).retryOn = p.retryOn ∧
    (decodeRetry F O p).backoff = p.backoff.map (fun b => ⟨b.base.getD 0, b.max.getD 0⟩) := by
  rw [facts_decode]
  unfold decodeRetry
  obtain ⟨a, b, c, d, e⟩ := retryExt_frame O p.retriable
    { retryOn := p.retryOn, numRetries := p.numRetries.getD 0, perTry := p.perTry.getD 0, perTryIdle := p.perTryIdle.getD 0 }
  cases hb : p.backoff with
  | none => exact ⟨a, b, c, d, e⟩
  | some bo => exact ⟨a, b, c, d, rfl⟩

/-- the two retriable-header extensions: the last non-empty exact value of each name wins -/
theorem retry_ext_headers (O : Oracles) (v : String) (hv : v ≠ "") (hp : O.parsesFloat v = true) (d0 : DRetry) :
    (retryExt O [⟨"kitexRetryErrorRate", .stringMatch (.exact v)⟩] d0).errRate = some v ∧
    (retryExt O [⟨"kitexRetryMethods", .stringMatch (.exact v)⟩] d0).methods = splitComma v := by
  simp [retryExt, retryExtStep, extValue, hv, hp]

/-- the destination clusters a route action lists, with weights (a single cluster has weight 1) -/
def clustersOf : PClusterSpec → List (String × Nat)
  | .cluster n => [(n, 1)]
  | .weighted (some cs) => cs.map (fun c => (c.1, c.2.getD 0))
  | _ => []

/-- **one route**: path condition, header conditions, clusters with weights, timeout and retry policy -/
theorem route_preserves (compiles : Oracles) (r : PRoute) (m : PRouteMatch) (a : PRouteAction) (d : DRoute)
    (hm : r.mtch = some m) (ha : r.action = .route a) (h : decodeRoute F compiles r = .ok d) :
    d.mtch = .http { path := (match m.path with | .path s => s | _ => ""),
                     pfx := (match m.path with | .pfx s => s | _ => ""),
                     headers := buildMatchers compiles m.headers } ∧
    d.clusters = clustersOf a.spec ∧
    d.timeout = a.timeout.getD 0 ∧
    d.retry = (match a.retry with | some p => decodeRetry F compiles p | none => {}) := by
  unfold decodeRoute at h
  simp only [hm, ha] at h
  cases hs : a.spec with
  | other => simp only [hs] at h; cases h; exact ⟨rfl, rfl, rfl, rfl⟩
  | cluster n => simp only [hs] at h; cases h; exact ⟨rfl, rfl, rfl, rfl⟩
  | weighted cs =>
    cases cs with
    | none => simp only [hs] at h; cases h
    | some l => simp only [hs] at h; cases h; exact ⟨rfl, rfl, rfl, rfl⟩

/-- **order**: routes are decoded one for one, in the order listed -/
theorem routes_in_order (compiles : Oracles) (rs : List PRoute) (ds : List DRoute)
    (h : decodeRoutes F compiles rs = .ok ds) :
    ds.length = rs.length ∧ ∀ (i : Nat) (r : PRoute), rs[i]? = some r → ∃ d, ds[i]? = some d ∧ decodeRoute F compiles r = .ok d := by
  induction rs generalizing ds with
  | nil => simp [decodeRoutes] at h; subst h; simp
  | cons r rs ih =>
    simp only [decodeRoutes] at h
    cases hr : decodeRoute F compiles r with
    | panic => rw [hr] at h; cases h
    | err e => rw [hr] at h; cases h
    | ok d =>
      rw [hr] at h; simp only at h
      cases hrs : decodeRoutes F compiles rs with
      | panic => rw [hrs] at h; cases h
      | err e => rw [hrs] at h; cases h
      | ok ds0 =>
        rw [hrs] at h; simp only at h; cases h
        obtain ⟨h1, h2⟩ := ih ds0 hrs
        refine ⟨by simp [h1], ?_⟩
        intro i r' hi
        cases i with
        | zero => simp at hi; subst hi; exact ⟨d, by simp, hr⟩
        | succ i => simpa using h2 i r' (by simpa using hi)

/-- virtual hosts are decoded one for one, in order, keeping their names -/
theorem vhosts_in_order (compiles : Oracles) (vs : List PVirtualHost) (ds : List DVirtualHost)
    (h : decodeVHosts F compiles vs = .ok ds) :
    ds.length = vs.length ∧ ∀ (i : Nat) (v : PVirtualHost), vs[i]? = some v →
      ∃ d, ds[i]? = some d ∧ d.name = v.name ∧ decodeRoutes F compiles v.routes = .ok d.routes := by
  induction vs generalizing ds with
  | nil => simp [decodeVHosts] at h; subst h; simp
  | cons v vs ih =>
    simp only [decodeVHosts] at h
    cases hr : decodeRoutes F compiles v.routes with
    | panic => rw [hr] at h; cases h
    | err e => rw [hr] at h; cases h
    | ok rs =>
      rw [hr] at h; simp only at h
      cases hvs : decodeVHosts F compiles vs with
      | panic => rw [hvs] at h; cases h
      | err e => rw [hvs] at h; cases h
      | ok ds0 =>
        rw [hvs] at h; simp only at h; cases h
        obtain ⟨h1, h2⟩ := ih ds0 hvs
        refine ⟨by simp [h1], ?_⟩
        intro i v' hi
        cases i with
        | zero => simp at hi; subst hi; exact ⟨⟨v.name, rs⟩, by simp, rfl, hr⟩
        | succ i => simpa using h2 i v' (by simpa using hi)

/-- a filter that neither carries a token bucket nor makes the scan fail -/
def transparent : PHttpFilter → Bool
  | .other => true
  | .typed none => true
  | .typed (some .otherUrl) => true
  | .typed (some (.rateLimit (.ok none))) => true
  | .typed (some (.rateLimit .badUrl)) => true
  | .typed (some (.typedStruct .badUrl)) => true
  | .typed (some (.typedStruct (.ok none))) => true
  | .typed (some (.typedStruct (.ok (some (none, _))))) => true
  | .typed (some (.typedStruct (.ok (some (some _, none))))) => true
  | _ => false

/-- **the local rate-limit bucket is found wherever the rate-limit filter sits in the HTTP filter chain** -/
theorem rate_limit_any_position (pre post : List PHttpFilter) (mt : Nat) (tpf : Option Nat)
    (hpre : pre.all transparent = true) :
    rateLimitOf F (pre ++ PHttpFilter.typed (some (.rateLimit (.ok (some (mt, tpf))))) :: post) = .ok (mt, tpf.getD 0) := by
  rw [facts_decode]
  induction pre with
  | nil => simp [rateLimitOf]
  | cons f pre ih =>
    simp only [List.all_cons, Bool.and_eq_true] at hpre
    have := ih hpre.2
    simp only [List.cons_append]
    unfold rateLimitOf
    simp only [Decode.expectedFacts, if_true]
    cases f with
    | other => exact this
    | typed c =>
      cases c with
      | none => exact this
      | some src =>
        cases src with
        | otherUrl => exact this
        | rateLimit p =>
          cases p with
          | badUrl => exact this
          | badBytes => simp [transparent] at hpre
          | ok o => cases o with
            | none => exact this
            | some v => simp [transparent] at hpre
        | typedStruct p =>
          cases p with
          | badUrl => exact this
          | badBytes => simp [transparent] at hpre
          | ok o => cases o with
            | none => exact this
            | some v =>
              obtain ⟨a, b⟩ := v
              cases a with
              | none => exact this
              | some a => cases b with
                | none => exact this
                | some b => simp [transparent] at hpre

/-- the same for the `TypedStruct` form of the filter -/
theorem rate_limit_typed_struct (pre post : List PHttpFilter) (mt tpf : Nat) (hpre : pre.all transparent = true) :
    rateLimitOf F (pre ++ PHttpFilter.typed (some (.typedStruct (.ok (some (some mt, some tpf))))) :: post) = .ok (mt, tpf) := by
  rw [facts_decode]
  induction pre with
  | nil => simp [rateLimitOf]
  | cons f pre ih =>
    simp only [List.all_cons, Bool.and_eq_true] at hpre
    have := ih hpre.2
    simp only [List.cons_append]
    unfold rateLimitOf
    simp only [Decode.expectedFacts, if_true]
    cases f with
    | other => exact this
    | typed c =>
      cases c with
      | none => exact this
      | some src =>
        cases src with
        | otherUrl => exact this
        | rateLimit p =>
          cases p with
          | badUrl => exact this
          | badBytes => simp [transparent] at hpre
          | ok o => cases o with
            | none => exact this
            | some v => simp [transparent] at hpre
        | typedStruct p =>
          cases p with
          | badUrl => exact this
          | badBytes => simp [transparent] at hpre
          | ok o => cases o with
            | none => exact this
            | some v =>
              obtain ⟨a, b⟩ := v
              cases a with
              | none => exact this
              | some a => cases b with
                | none => exact this
                | some b => simp [transparent] at hpre

/-- **an HTTP connection manager filter**: the named table (RDS) or the inline table, with the bucket attached -/
theorem hcm_preserves (compiles : Oracles) (h : PHcm) (mt tpf : Nat) (hr : rateLimitOf F h.httpFilters = .ok (mt, tpf)) :
    (∀ n, h.spec = .rds (some n) → n ≠ "" →
        decodeHcm F compiles h = .ok (n, some { http := none, thrift := none, maxTokens := mt, tokensPerFill := tpf })) ∧
    (∀ c d, h.spec = .routeConfig (some c) → decodeRouteConfig F compiles c = .ok d →
        decodeHcm F compiles h = .ok (c.name, some { d with maxTokens := mt, tokensPerFill := tpf })) ∧
    (h.spec = .other → decodeHcm F compiles h = .ok ("", none)) := by
  unfold decodeHcm
  rw [hr]
  refine ⟨?_, ?_, ?_⟩
  · intro n hs hn; simp [hs, hn]
  · intro c d hs hd; simp [hs, hd]
  · intro hs; simp [hs]

/-- Thrift-proxy routes are decoded one for one, in order (method / service name, tags, clusters) -/
theorem thrift_routes_in_order (compiles : Oracles) (rs : List PThriftRoute) (ds : List DRoute)
    (h : decodeThriftRoutes compiles rs = .ok ds) : ds.length = rs.length := by
  induction rs generalizing ds with
  | nil => simp [decodeThriftRoutes] at h; subst h; rfl
  | cons r rs ih =>
    simp only [decodeThriftRoutes] at h
    cases hm : r.mtch with
    | none => rw [hm] at h; cases h
    | some m =>
      rw [hm] at h; simp only at h
      cases hr : r.route with
      | none => rw [hr] at h; cases h
      | some a =>
        rw [hr] at h; simp only at h
        cases a with
        | cluster n =>
          simp only at h
          cases hrs : decodeThriftRoutes compiles rs with
          | panic => rw [hrs] at h; cases h
          | err e => rw [hrs] at h; cases h
          | ok ds0 => rw [hrs] at h; simp only at h; cases h; simp [ih ds0 hrs]
        | other =>
          simp only at h
          cases hrs : decodeThriftRoutes compiles rs with
          | panic => rw [hrs] at h; cases h
          | err e => rw [hrs] at h; cases h
          | ok ds0 => rw [hrs] at h; simp only at h; cases h; simp [ih ds0 hrs]
        | weighted cs =>
          cases cs with
          | none => simp only at h; cases h
          | some l =>
            simp only at h
            cases hrs : decodeThriftRoutes compiles rs with
            | panic => rw [hrs] at h; cases h
            | err e => rw [hrs] at h; cases h
            | ok ds0 => rw [hrs] at h; simp only at h; cases h; simp [ih ds0 hrs]

/-! non-vacuity -/
example : rateLimitOf F [.other, .typed (some .otherUrl), .typed (some (.rateLimit (.ok (some (10, some 101)))))] = .ok (10, 101) := by rfl
example : (match decodeRoute F ⟨fun _ => true, fun _ => true⟩
    ⟨"r", some ⟨.path "/p", [⟨"k", .stringMatch (.exact "v")⟩]⟩,
     .route ⟨.weighted (some [("a", some 3), ("b", none)]), some 5000000, some ⟨"5xx", some 2, some 100000000, none, [], some ⟨some 10000000, some 30000000⟩⟩⟩⟩ with
   | .ok d => (d.clusters, d.timeout, d.retry.backoff) | _ => ([], 0, none))
   = ([("a", 3), ("b", 0)], 5000000, some ⟨10000000, 30000000⟩) := by decide

end XdsVerif.Properties.C11
