import XdsVerif.Proofs.Seq
import XdsVerif.Proofs.Sys
import XdsVerif.Generated.Facts
/-!
# C01 — the served cache equals the fold of the accepted responses

`run cfg init ops = some s`: `ops` is a valid history of the state machine (every operation was
enabled when it happened). The theorem is pointwise in the resource type and name, for both
configurations (`cfg.ndsRequired`), histories of any length with pushes (full, partial, with
unsolicited extras, undecodable slots), subscriptions, evictions, stream failures and sender steps
in any order.
-/
namespace XdsVerif.Properties.C01
open XdsVerif.Seq XdsVerif.Spec.Seq

/-- bridge: the facts the state machine was written against are the ones the source has now -/
theorem facts_seq : Generated.seq = Seq.expectedFacts := by decide

/-- **refinement**: what a lookup is served is what the backward-scan specification says -/
theorem served_eq_fold (cfg : Cfg) (ops : List Op) (s : St) (h : run cfg init ops = some s) (rt : RType) (n : Name) :
    s.cache rt n = served cfg ops.reverse rt n := by
  have := agree_run cfg ops init s [] (agree_init cfg) h
  simpa using this.cache rt n

/-- an accepted response of a *full* type (listeners, clusters) replaces the whole set: omitted names are dropped -/
theorem full_replaces (cfg : Cfg) (rest : List Op) (r : Resp) (now : Nat) (n : Name)
    (hf : isFull r.rt = true) (ha : accepted rest r = true) (hn : r.rt ≠ .nds) :
    served cfg (.push r now :: rest) r.rt n = carried cfg rest r n := by
  simp only [served, ha, hn, ne_eq, not_false_eq_true, and_self, if_true, hf]
  cases carried cfg rest r n <;> rfl

/-- an accepted response of a *merge* type (route tables, endpoint sets) keeps what it does not mention -/
theorem merge_keeps (cfg : Cfg) (rest : List Op) (r : Resp) (now : Nat) (n : Name)
    (hf : isFull r.rt = false) (hc : carried cfg rest r n = none) :
    served cfg (.push r now :: rest) r.rt n = served cfg rest r.rt n := by
  simp only [served]
  split
  · simp [hc, hf]
  · rfl

/-- ... and replaces what it does mention with the newest content -/
theorem latest_wins (cfg : Cfg) (rest : List Op) (r : Resp) (now : Nat) (n : Name) (v : Val)
    (ha : accepted rest r = true) (hn : r.rt ≠ .nds) (hc : carried cfg rest r n = some v) :
    served cfg (.push r now :: rest) r.rt n = some v := by
  simp [served, ha, hn, hc]

/-- a rejected response (undecodable slot, or a type that was never watched) is not part of the fold -/
theorem rejected_not_in_fold (cfg : Cfg) (rest : List Op) (r : Resp) (now : Nat) (rt : RType) (n : Name)
    (ha : accepted rest r = false) : served cfg (.push r now :: rest) rt n = served cfg rest rt n := by
  simp [served, ha]

/-- a response of one type never changes what is served for another type -/
theorem other_type_untouched (cfg : Cfg) (rest : List Op) (r : Resp) (now : Nat) (rt : RType) (n : Name)
    (h : r.rt ≠ rt) : served cfg (.push r now :: rest) rt n = served cfg rest rt n := by
  simp [served, h]

/-- the same on the state itself (cache, access records, interest set, acknowledged version): handling a response of one
type touches nothing that belongs to another type - e.g. removing a cluster never drops the endpoint set it names -/
theorem push_touches_only_its_type (cfg : Cfg) (s s' : St) (r : Resp) (now : Nat) (t : RType) (ht : t ≠ r.rt)
    (hs : step cfg s (.push r now) = some s') :
    s'.cache t = s.cache t ∧ s'.acc t = s.acc t ∧ s'.watched t = s.watched t ∧ s'.version t = s.version t := by
  simp only [step] at hs
  split at hs; · cases hs
  split at hs
  · cases hs; exact ⟨rfl, rfl, rfl, rfl⟩
  · split at hs; · cases hs
    split at hs; · cases hs
    split at hs
    · cases hs; simp [ack, ht]
    · split at hs
      · cases hs; simp [ack, ht]
      · cases hs; simp [applyUpdate, ack, ht]

/-- names that were never asked for are never stored or served: whatever is served was carried by an
accepted response at a moment when the name was subscribed -/
theorem never_unsolicited (cfg : Cfg) (rops : List Op) (rt : RType) (n : Name) (v : Val)
    (h : served cfg rops rt n = some v) :
    ∃ pre r now rest, rops = pre ++ .push r now :: rest ∧ r.rt = rt ∧ accepted rest r = true ∧
      subscribedAt rest rt n = true ∧ carried cfg rest r n = some v := by
  induction rops with
  | nil => simp [served] at h
  | cons op rest ih =>
    have skip : served cfg rest rt n = some v →
        ∃ pre r now rest', op :: rest = pre ++ .push r now :: rest' ∧ r.rt = rt ∧ accepted rest' r = true ∧
          subscribedAt rest' rt n = true ∧ carried cfg rest' r n = some v := by
      intro h'
      obtain ⟨pre, r, now, rest', e, h1, h2, h3, h4⟩ := ih h'
      exact ⟨op :: pre, r, now, rest', by rw [e]; rfl, h1, h2, h3, h4⟩
    cases op with
    | push r now =>
      simp only [served] at h
      split at h
      · rename_i hc
        obtain ⟨h1, _, h3⟩ := hc
        cases hcar : carried cfg rest r n with
        | some w =>
          rw [hcar] at h
          simp only [Option.some.injEq] at h
          subst h
          refine ⟨[], r, now, rest, rfl, h1, h3, ?_, hcar⟩
          unfold carried at hcar
          split at hcar
          · rename_i hs; rw [← h1]; exact hs
          · cases hcar
        | none =>
          rw [hcar] at h
          simp only at h
          split at h
          · cases h
          · exact skip h
      · exact skip h
    | evict rt' n' now =>
      simp only [served] at h
      split at h
      · cases h
      · exact skip h
    | pushUnknown => exact skip (by simpa [served] using h)
    | subscribe _ _ => exact skip (by simpa [served] using h)
    | touch _ _ _ => exact skip (by simpa [served] using h)
    | authFail => exact skip (by simpa [served] using h)
    | reconnectDrain => exact skip (by simpa [served] using h)
    | publish => exact skip (by simpa [served] using h)
    | senderAdopt _ _ => exact skip (by simpa [served] using h)
    | senderSend _ => exact skip (by simpa [served] using h)

/-- C14 over histories: a listener lookup name is served by the listener the control plane named
`<ip>_<port>` for the name table current at that response (Istio configuration) -/
theorem lds_binding (cfg : Cfg) (rest : List Op) (r : Resp) (n : Name)
    (hl : r.rt = .lds) (hnds : cfg.ndsRequired = true) (hres : n ≠ reserved) (hs : subscribedAt rest .lds n = true) :
    carried cfg rest r n = (listenerNameOf cfg (tableAt rest) n).bind (resOf r.slots) := by
  unfold carried
  rw [hl] at *
  simp only [hs, if_true, hnds, true_and, ne_eq, hres, not_false_eq_true]
  cases listenerNameOf cfg (tableAt rest) n <;> rfl

/-- without a name table (or for the reserved inbound listener) the name is looked up literally -/
theorem lds_literal (cfg : Cfg) (rest : List Op) (r : Resp) (n : Name)
    (h : cfg.ndsRequired = false ∨ n = reserved) (hs : subscribedAt rest r.rt n = true) :
    carried cfg rest r n = resOf r.slots n := by
  unfold carried
  simp only [hs, if_true]
  rcases h with h | h
  · simp [h]
  · simp [h]

/-- no two values for one name: a response with duplicate names counts once, the later slot wins -/
theorem dup_last_wins (k : Name) (v w : Val) (rest : List Slot) (h : resOf rest k = none) :
    resOf (.good k v :: .good k w :: rest) k = some w := by
  simp [resOf, h]


/-- **what is cached is subscribed** (all histories): a cached name is in the interest set of its type, so it keeps
receiving updates and an eviction really ends its subscription -/
theorem cached_is_subscribed (cfg : Cfg) (ops : List Op) (s : St) (h : run cfg init ops = some s)
    (rt : RType) (n : Name) (v : Val) (hc : s.cache rt n = some v) :
    ((s.watched rt).getD []).contains n = true :=
  Seq.cached_is_subscribed cfg ops s h rt n v hc

/-- **the refinement holds with any number of concurrent lookups**: in the composed system (`Model/Sys.lean`: the
lookup threads of C05–C07 acting on the client's cache, at the granularity of `Get`'s lock sections), every schedule
whose response handlers run their sections back to back serves exactly the fold of the accepted responses of the
history it performed — whatever the lookups do in between (miss, subscribe, wait, time out, re-read) -/
theorem served_eq_fold_concurrent (cfg : Cfg) (V : Conc.Variant) (T : RType) (tn : Nat → Name)
    (ls : List Sys.Lbl) (s : Sys.St) (e : Sys.Emit) (ha : Sys.atomic ls = true)
    (h : Sys.run cfg V T tn Sys.init ls = some (s, e)) (rt : RType) (n : Name) :
    s.seq.cache rt n = served cfg e.seq.reverse rt n :=
  served_eq_fold cfg e.seq s.seq (Sys.run_seq cfg V T tn ls Sys.init s e rfl ha h).1 rt n

/-- ... and what a lookup thread reads is that same cache -/
theorem lookups_read_the_served_cache (cfg : Cfg) (V : Conc.Variant) (T : RType) (tn : Nat → Name)
    (ls : List Sys.Lbl) (s : Sys.St) (e : Sys.Emit) (ha : Sys.atomic ls = true)
    (h : Sys.run cfg V T tn Sys.init ls = some (s, e)) (n : Name) :
    s.conc.cache n = served cfg e.seq.reverse T n := by
  rw [Sys.coupled_run cfg V T tn ls Sys.init s e (Sys.coupled_init T) h n]
  exact served_eq_fold_concurrent cfg V T tn ls s e ha h T n

/-! non-vacuity: a concrete Istio-style history (subscribe, name table, listener set, replacement) -/
def exCfg : Cfg := { sendAborts := true, metaInitNow := true, ndsRequired := true, ns := "default".toList, dom := "cluster.local".toList }
def exOps : List Op :=
  [.subscribe .nds "", .senderSend false,
   .push { rt := .nds, version := "1", nonce := "a", slots := [.good "" ""],
           table := some [("echo.default.svc.cluster.local", ["10.0.0.1"])] } 0,
   .senderSend false,
   .subscribe .lds "echo:8888", .senderSend false,
   .push { rt := .lds, version := "1", nonce := "b", slots := [.good "10.0.0.1_8888" "L1", .good "10.0.0.9_80" "X"] } 0,
   .senderSend false]
example : (run exCfg init exOps).map (fun s => (s.cache .lds "echo:8888", s.cache .lds "10.0.0.9_80"))
    = some (some "L1", none) := by decide

end XdsVerif.Properties.C01
