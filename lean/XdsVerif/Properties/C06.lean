import XdsVerif.Proofs.Conc
import XdsVerif.Proofs.Sys
import XdsVerif.Generated.Facts
/-!
# C06 — no lost wake-ups: a resource accepted before the deadline is returned

All schedules of the interleaving semantics (`Model/Conc.lean`), any number of threads, any names.
The theorems are stated for the shape of `Get` that is re-read from the source (`Generated.getVariant`);
the bridge `facts_get` says it is the one with the re-check under the lock, the last-waiter cleanup and
the checked re-read.
-/
namespace XdsVerif.Properties.C06
open XdsVerif.Conc

abbrev V : Variant := Generated.getVariant

theorem facts_get : V = expectedVariant := by decide

/-- bridge: the bodies of `Get`, `getFromCache`, `notifier.notify` are the ones the model mirrors (see C05) -/
theorem facts_get_body : Generated.getFingerprint = expectedGetFingerprint := by decide

/-- **WaitInv** for every reachable state: a thread that waits on an open notifier is reachable from the notifier
table under its own name, and the resource it waits for is not in the cache -/
theorem wait_inv (tn : Nat → Name) (ls : List Lbl) (s : S) (h : runL V tn init ls = some s) (i nf : Nat)
    (hw : s.pc i = .waiting nf) (ho : s.closed nf = false) :
    s.notif (tn i) = some nf ∧ s.cache (tn i) = none := by
  rw [facts_get] at h
  have hI := inv_reach tn ls init s (inv_init tn) h
  have := hI.wait i nf hw ho
  exact ⟨this, hI.nocache _ _ this⟩

/-- **no lost wake-up**: when an accepted update carries the name a thread is waiting for, the thread's notifier
is closed by that very step: from then on its wake-up step is enabled (it does not need its deadline), and the
re-read finds the delivered content -/
theorem no_lost_wakeup (tn : Nat → Name) (ls : List Lbl) (s s' : S) (h : runL V tn init ls = some s)
    (i nf : Nat) (full : Bool) (items : List (Name × Val))
    (hw : s.pc i = .waiting nf) (ho : s.closed nf = false) (hmem : tn i ∈ items.map Prod.fst)
    (hs : cstep V tn s (.deliver full items) = some s') :
    s'.pc i = .waiting nf ∧ s'.closed nf = true ∧
    (∃ s'', cstep V tn s' (.getWake i) = some s'' ∧ s''.pc i = .woken) ∧
    s'.cache (tn i) = lookupL items (tn i) ∧ (lookupL items (tn i)).isSome = true := by
  have ⟨hn, _⟩ := wait_inv tn ls s h i nf hw ho
  simp only [cstep] at hs
  cases hs
  have hcl : (s.closed nf || decide (∃ n ∈ items.map Prod.fst, s.notif n = some nf)) = true := by
    simp only [Bool.or_eq_true, decide_eq_true_eq]
    exact Or.inr ⟨tn i, hmem, hn⟩
  obtain ⟨v, hv⟩ := lookupL_isSome_of_mem hmem
  refine ⟨hw, hcl, ?_, ?_, ?_⟩
  · simp only [cstep, hw, hcl, if_true]
    exact ⟨_, rfl, by simp [setPc]⟩
  · simp [hv]
  · simp [hv]

/-- an update that lands in the gap between the unlocked miss and the registration is not missed either:
the registration step re-checks the cache under the lock and returns the value -/
theorem update_before_registration (tn : Nat → Name) (s : S) (i : Nat) (v : Val)
    (hp : s.pc i = .missed) (hc : s.cache (tn i) = some v) :
    ∃ s', cstep V tn s (.getRegister i) = some s' ∧ s'.pc i = .done (.val v) := by
  rw [facts_get]
  simp only [cstep, hp, expectedVariant, if_true, hc]
  exact ⟨_, rfl, by simp [setPc]⟩

/-- the woken thread returns the content current at its re-read (the value, unless it was removed in between) -/
theorem woken_returns_current (tn : Nat → Name) (s : S) (i : Nat) (v : Val)
    (hp : s.pc i = .woken) (hc : s.cache (tn i) = some v) :
    ∃ s', cstep V tn s (.getReread i) = some s' ∧ s'.pc i = .done (.val v) := by
  simp only [cstep, hp, hc]
  exact ⟨_, rfl, by simp [setPc]⟩

/-- **one caller's timeout or cancellation affects only that caller**: whatever steps thread `j` takes on its
timeout path, every other waiting thread keeps its notifier registered (so a later delivery still wakes it) -/
theorem timeout_is_private (tn : Nat → Name) (ls : List Lbl) (s s1 s2 : S) (h : runL V tn init ls = some s)
    (i j nf : Nat) (hij : i ≠ j) (hw : s.pc i = .waiting nf) (ho : s.closed nf = false)
    (h1 : cstep V tn s (.getDeadline j) = some s1) (h2 : cstep V tn s1 (.getCleanup j) = some s2) :
    s2.pc i = .waiting nf ∧ s2.notif (tn i) = some nf := by
  rw [facts_get] at h h1 h2
  have hI := inv_reach tn ls init s (inv_init tn) h
  have hI1 := inv_step tn s s1 _ hI h1
  have hI2 := inv_step tn s1 s2 _ hI1 h2
  -- the pc of i and the closed flags are untouched by j's steps
  have hpc1 : s1.pc i = .waiting nf := by
    simp only [cstep] at h1
    split at h1 <;> try (cases h1; done)
    cases h1
    simp [setPc, hij, hw]
  have hcl1 : s1.closed = s.closed := by
    simp only [cstep] at h1
    split at h1 <;> try (cases h1; done)
    cases h1; rfl
  have hpc2 : s2.pc i = .waiting nf := by
    simp only [cstep, expectedVariant] at h2
    split at h2 <;> try (cases h2; done)
    cases h2
    simp only [setPc, hij, if_false]
    split <;> exact hpc1
  have hcl2 : s2.closed = s1.closed := by
    simp only [cstep, expectedVariant] at h2
    split at h2 <;> try (cases h2; done)
    cases h2
    split <;> rfl
  refine ⟨hpc2, hI2.wait i nf hpc2 (by rw [hcl2, hcl1]; exact ho)⟩


/-- **no lost wake-up over whole executions** (the property at full strength): take any execution in which lookup `i`
has started, is unfinished and its deadline has not fired; an accepted update then carries its name. Whatever happens
afterwards — other lookups of the same or other names arriving, timing out, being cancelled and cleaning up, further
updates, evictions of other names — as long as `i`'s own deadline does not fire and its name is not removed again: in
every later state the lookup is finished **with the value**, or has an enabled step of its own that is not its deadline
(registration returns the value; the wake-up is enabled because its notifier is closed; the re-read returns the value).
It is never parked on an open notifier and never on the timeout path. -/
theorem no_lost_wakeup_trace (tn : Nat → Name) (i : Nat) (pre post : List Lbl) (full : Bool)
    (items : List (Name × Val)) (s1 s2 s : S)
    (h1 : runL V tn init pre = some s1)
    (hstarted : s1.pc i ≠ .start) (hnt : ∀ nf, s1.pc i ≠ .timedOut nf) (hnd : ∀ r, s1.pc i ≠ .done r)
    (hmem : tn i ∈ items.map Prod.fst) (h2 : cstep V tn s1 (.deliver full items) = some s2)
    (hpost : post.all (harmless tn i) = true) (h3 : runL V tn s2 post = some s) :
    (∀ r, s.pc i = .done r → ∃ v, r = .val v) ∧
    (∀ nf, s.pc i = .waiting nf → ∃ s', cstep V tn s (.getWake i) = some s' ∧ s'.pc i = .woken) ∧
    (s.pc i = .missed → ∃ s' v, cstep V tn s (.getRegister i) = some s' ∧ s'.pc i = .done (.val v)) ∧
    (s.pc i = .woken → ∃ s' v, cstep V tn s (.getReread i) = some s' ∧ s'.pc i = .done (.val v)) ∧
    (∀ nf, s.pc i ≠ .timedOut nf) ∧ s.pc i ≠ .start := by
  rw [facts_get] at h1 h2 h3
  have hI := inv_reach tn pre init s1 (inv_init tn) h1
  have hG := supplied_run tn i post s2 s (deliver_supplies tn i s1 s2 full items hI hstarted hnt hnd hmem h2) hpost h3
  obtain ⟨v, hv⟩ := Option.isSome_iff_exists.mp hG.cached
  refine ⟨?_, ?_, ?_, ?_, hG.noTimeout, hG.notStart⟩
  · intro r hr
    cases r with
    | val w => exact ⟨w, rfl⟩
    | err => exact absurd hr hG.noErr
    | nilnil => exact absurd hr hG.noNil
  · intro nf hw
    simp only [cstep, hw, hG.woken nf hw, if_true]
    exact ⟨_, rfl, by simp [setPc]⟩
  · intro hm
    obtain ⟨s', h'⟩ := update_before_registration tn s i v hm hv
    exact ⟨s', v, h'⟩
  · intro hw
    obtain ⟨s', h'⟩ := woken_returns_current tn s i v hw hv
    exact ⟨s', v, h'⟩

/-- non-vacuity of the trace theorem: three lookups of one name, one of them times out and cleans up after the
delivery, a later full update keeps the name, another name is evicted: the supplied lookup ends with the value -/
example : (runL V (fun j => if j = 3 then "d" else "c") init
      [.getStart 0, .getStart 1, .getRegister 0, .getRegister 1, .getStart 3, .deliver true [("c", "v"), ("d", "w")],
       .getStart 2, .getDeadline 1, .getCleanup 1, .deliver true [("c", "v2"), ("d", "w")], .evict "d",
       .getWake 0, .getReread 0]).map (fun s => (s.pc 0, s.pc 1, s.pc 2))
    = some (.done (.val "v2"), .done .err, .done (.val "v")) := by decide

/-! ### the same guarantee against the real response handling (`Model/Sys.lean`)

In the composed system a delivery is the third lock section of a response handler (`UpdateResource`), applied to
the update map the handler's interest filter produced; the lookups run against the client's own cache while
acknowledgements, the sender, other lookups' `Watch` calls and the cleaner interleave at section granularity. -/

/-- **no lost wake-up, end to end**: in any reachable state of the composed system — receiver sections torn apart
by other goroutines or not — if a lookup waits on an open notifier and the response being handled carries its name
past the interest filter, then `UpdateResource` closes the notifier in that very section, the lookup's wake-up step
is enabled, and the client's cache holds the delivered content -/
theorem sys_no_lost_wakeup (cfg : Seq.Cfg) (T : Seq.RType) (tn : Nat → Name) (ls : List Sys.Lbl) (s : Sys.St)
    (e : Sys.Emit) (h : Sys.run cfg V T tn Sys.init ls = some (s, e))
    (i nf : Nat) (hw : s.conc.pc i = .waiting nf) (ho : s.conc.closed nf = false)
    (r : Seq.Resp) (items : List (Name × Val)) (now : Nat)
    (hin : s.inflight = some { r := r, items := some items }) (hrt : r.rt = T)
    (hmem : tn i ∈ items.map Prod.fst) :
    ∃ s' e', Sys.step cfg V T tn s (.recvApply now) = some (s', e') ∧
      s'.conc.pc i = .waiting nf ∧ s'.conc.closed nf = true ∧
      (∃ s'' e'', Sys.step cfg V T tn s' (.getWake i) = some (s'', e'') ∧ s''.conc.pc i = .woken) ∧
      s'.seq.cache T (tn i) = lookupL items (tn i) ∧ (lookupL items (tn i)).isSome = true := by
  have hreach := Sys.run_conc cfg V T tn ls Sys.init s e h
  have hC := Sys.coupled_run cfg V T tn ls Sys.init s e (Sys.coupled_init T) h
  -- the third section is always enabled and is a `deliver` of the filtered map on the lookup side
  have hdel : ∃ c', Conc.cstep V tn s.conc (.deliver (Seq.isFull T) items) = some c' := ⟨_, rfl⟩
  obtain ⟨c', hc'⟩ := hdel
  have hstep : Sys.step cfg V T tn s (.recvApply now) =
      some ({ seq := Seq.applyUpdate s.seq r.rt (lookupL items) (if cfg.metaInitNow then some now else none),
              conc := c', inflight := none }, { conc := [.deliver (Seq.isFull T) items] }) := by
    simp only [Sys.step, Sys.doApply, hin, hrt, if_true, hc', Option.map_some]
  obtain ⟨h1, h2, ⟨c'', hw1, hw2⟩, h4, h5⟩ :=
    no_lost_wakeup tn e.conc s.conc c' hreach i nf (Seq.isFull T) items hw ho hmem hc'
  refine ⟨_, _, hstep, h1, h2, ?_, ?_, h5⟩
  · refine ⟨{ seq := Seq.applyUpdate s.seq r.rt (lookupL items) (if cfg.metaInitNow then some now else none),
              conc := c'', inflight := none }, { conc := [.getWake i] }, ?_, hw2⟩
    simp only [Sys.step, hw1]
  · have hC' := Sys.coupled_step cfg V T tn s _ (.recvApply now) _ hC hstep (tn i)
    rw [← hC']
    exact h4

/-! ### the shape before the repairs loses wake-ups (kept as documentation; `decide`-checked schedules) -/

def current : Variant := ⟨false, .deleteEntry, false⟩

/-- S6: two lookups of one name; the first times out and deletes the shared notifier; the delivery then creates no
wake-up for the second, which keeps waiting on a notifier that is open and unreachable while the resource is cached -/
theorem s6_lost_wakeup :
    (runL current (fun _ => "c") init
      [.getStart 0, .getStart 1, .getRegister 0, .getRegister 1, .getDeadline 0, .getCleanup 0, .deliver true [("c", "v")]]).map
      (fun s => (s.pc 1, s.closed 0, s.notif "c", s.cache "c")) = some (.waiting 0, false, none, some "v") := by
  decide

/-- S7: the delivery lands between the unlocked miss and the registration -/
theorem s7_lost_wakeup :
    (runL current (fun _ => "c") init [.getStart 0, .deliver true [("c", "v")], .getRegister 0]).map
      (fun s => (s.pc 0, s.closed 0, s.cache "c")) = some (.waiting 0, false, some "v") := by
  decide

/-- ... and the same schedules with the shape the source has now -/
example : (runL V (fun _ => "c") init
      [.getStart 0, .getStart 1, .getRegister 0, .getRegister 1, .getDeadline 0, .getCleanup 0, .deliver true [("c", "v")], .getWake 1, .getReread 1]).map
      (fun s => s.pc 1) = some (.done (.val "v")) := by decide
example : (runL V (fun _ => "c") init [.getStart 0, .deliver true [("c", "v")], .getRegister 0]).map (fun s => s.pc 0)
    = some (.done (.val "v")) := by decide

end XdsVerif.Properties.C06
