import XdsVerif.Proofs.Conc
import XdsVerif.Proofs.Sys
import XdsVerif.Generated.Facts
/-!
# C06 — no lost wake-ups: a resource accepted before the deadline is returned

All schedules of the interleaving semantics (`Model/Conc.lean`), any number of threads, any names.
The theorems are stated for the shape of `Get` that is re-read from the source (`Generated.getVariant`);
the bridge `facts_get` says it is the one with the re-check under the lock, the last-waiter cleanup and
the checked re-read.
-/
namespace XdsVerif.Properties.C06
open XdsVerif.Conc

abbrev V : Variant := Generated.getVariant

theorem facts_get : V = expectedVariant := by decide

/-- bridge: the bodies of `Get`, `getFromCache`, `notifier.notify` are the ones the model mirrors (see C05) -/
theorem facts_get_body : Generated.getFingerprint = expectedGetFingerprint := by decide

/-- **WaitInv** for every reachable state: a thread that waits on an open notifier is reachable from the notifier
table under its own name, and the resource it waits for is not in the cache -/
theorem wait_inv (tn : Nat → Name) (ls : List Lbl) (s : S) (h : runL V tn init ls = some s) (i nf : Nat)
    (hw : s.pc i = .waiting nf) (ho : s.closed nf = false) :
    s.notif (tn i) = some nf ∧ s.cache (tn i) = none := by
  rw [facts_get] at h
  have hI := inv_reach tn ls init s (inv_init tn) h
  have := hI.wait i nf hw ho
  exact ⟨this, hI.nocache _ _ this⟩

/-- **no lost wake-up**: when an accepted update carries the name a thread is waiting for, the thread's notifier
is closed by that very step: from then on its wake-up step is enabled (it does not need its deadline), and the
re-read finds the delivered content -/
theorem no_lost_wakeup (tn : Nat → Name) (ls : List Lbl) (s s' : S) (h : runL V tn init ls = some s)
    (i nf : Nat) (full : Bool) (items : List (Name × Val))
    (hw : s.pc i = .waiting nf) (ho : s.closed nf = false) (hmem : tn i ∈ items.map Prod.fst)
    (hs : cstep V tn s (.deliver full items) = some s') :
    s'.pc i = .waiting nf ∧ s'.closed nf = true ∧
    (∃ s'', cstep V tn s' (.getWake i) = some s'' ∧ s''.pc i = .woken) ∧
    s'.cache (tn i) = lookupL items (tn i) ∧ (lookupL items (tn i)).isSome = true := by
  have ⟨hn, _⟩ := wait_inv tn ls s h i nf hw ho
  simp only [cstep] at hs
  cases hs
  have hcl : (s.closed nf || decide (∃ n ∈ items.map Prod.fst, s.notif n = some nf)) = true := by
    simp only [Bool.or_eq_true, decide_eq_true_eq]
    exact Or.inr ⟨tn i, hmem, hn⟩
  obtain ⟨v, hv⟩ := lookupL_isSome_of_mem hmem
  refine ⟨hw, hcl, ?_, ?_, ?_⟩
  · simp only [cstep, hw, hcl, if_true]
    exact ⟨_, rfl, by simp [setPc]⟩
  · simp [hv]
  · simp [hv]

/-- an update that lands in the gap between the unlocked miss and the registration is not missed either:
the registration step re-checks the cache under the lock and returns the value -/
theorem update_before_registration (tn : Nat → Name) (s : S) (i : Nat) (v : Val)
    (hp : s.pc i = .missed) (hc : s.cache (tn i) = some v) :
    ∃ s', cstep V tn s (.getRegister i) = some s' ∧ s'.pc i = .done (.val v) := by
  rw [facts_get]
  simp only [cstep, hp, expectedVariant, if_true, hc]
  exact ⟨_, rfl, by simp [setPc]⟩

/-- the woken thread returns the content current at its re-read (the value, unless it was removed in between) -/
theorem woken_returns_current (tn : Nat → Name) (s : S) (i : Nat) (v : Val)
    (hp : s.pc i = .woken) (hc : s.cache (tn i) = some v) :
    ∃ s', cstep V tn s (.getReread i) = some s' ∧ s'.pc i = .done (.val v) := by
  simp only [cstep, hp, hc]
  exact ⟨_, rfl, by simp [setPc]⟩

/-- **one caller's timeout or cancellation affects only that caller**: whatever steps thread `j` takes on its
timeout path, every other waiting thread keeps its notifier registered (so a later delivery still wakes it) -/
theorem timeout_is_private (tn : Nat → Name) (ls : List Lbl) (s s1 s2 : S) (h : runL V tn init ls = some s)
    (i j nf : Nat) (hij : i ≠ j) (hw : s.pc i = .waiting nf) (ho : s.closed nf = false)
    (h1 : cstep V tn s (.getDeadline j) = some s1) (h2 : cstep V tn s1 (.getCleanup j) = some s2) :
    s2.pc i = .waiting nf ∧ s2.notif (tn i) = some nf := by
  rw [facts_get] at h h1 h2
  have hI := inv_reach tn ls init s (inv_init tn) h
  have hI1 := inv_step tn s s1 _ hI h1
  have hI2 := inv_step tn s1 s2 _ hI1 h2
  -- the pc of i and the closed flags are untouched by j's steps
  have hpc1 : s1.pc i = .waiting nf := by
    simp only [cstep] at h1
    split at h1 <;> try (cases h1; done)
    cases h1
    simp [setPc, hij, hw]
  have hcl1 : s1.closed = s.closed := by
    simp only [cstep] at h1
    split at h1 <;> try (cases h1; done)
    cases h1; rfl
  have hpc2 : s2.pc i = .waiting nf := by
    simp only [cstep, expectedVariant] at h2
    split at h2 <;> try (cases h2; done)
    cases h2
    simp only [setPc, hij, if_false]
    split <;> exact hpc1
  have hcl2 : s2.closed = s1.closed := by
    simp only [cstep, expectedVariant] at h2
    split at h2 <;> try (cases h2; done)
    cases h2
    split <;> rfl
  refine ⟨hpc2, hI2.wait i nf hpc2 (by rw [hcl2, hcl1]; exact ho)⟩


/-! ### the same guarantee against the real response handling (`Model/Sys.lean`)

In the composed system a delivery is the third lock section of a response handler (`UpdateResource`), applied to
the update map the handler's interest filter produced; the lookups run against the client's own cache while
acknowledgements, the sender, other lookups' `Watch` calls and the cleaner interleave at section granularity. -/

/-- **no lost wake-up, end to end**: in any reachable state of the composed system — receiver sections torn apart
by other goroutines or not — if a lookup waits on an open notifier and the response being handled carries its name
past the interest filter, then `UpdateResource` closes the notifier in that very section, the lookup's wake-up step
is enabled, and the client's cache holds the delivered content -/
theorem sys_no_lost_wakeup (cfg : Seq.Cfg) (T : Seq.RType) (tn : Nat → Name) (ls : List Sys.Lbl) (s : Sys.St)
    (e : Sys.Emit) (h : Sys.run cfg V T tn Sys.init ls = some (s, e))
    (i nf : Nat) (hw : s.conc.pc i = .waiting nf) (ho : s.conc.closed nf = false)
    (r : Seq.Resp) (items : List (Name × Val)) (now : Nat)
    (hin : s.inflight = some { r := r, items := some items }) (hrt : r.rt = T)
    (hmem : tn i ∈ items.map Prod.fst) :
    ∃ s' e', Sys.step cfg V T tn s (.recvApply now) = some (s', e') ∧
      s'.conc.pc i = .waiting nf ∧ s'.conc.closed nf = true ∧
      (∃ s'' e'', Sys.step cfg V T tn s' (.getWake i) = some (s'', e'') ∧ s''.conc.pc i = .woken) ∧
      s'.seq.cache T (tn i) = lookupL items (tn i) ∧ (lookupL items (tn i)).isSome = true := by
  have hreach := Sys.run_conc cfg V T tn ls Sys.init s e h
  have hC := Sys.coupled_run cfg V T tn ls Sys.init s e (Sys.coupled_init T) h
  -- the third section is always enabled and is a `deliver` of the filtered map on the lookup side
  have hdel : ∃ c', Conc.cstep V tn s.conc (.deliver (Seq.isFull T) items) = some c' := ⟨_, rfl⟩
  obtain ⟨c', hc'⟩ := hdel
  have hstep : Sys.step cfg V T tn s (.recvApply now) =
      some ({ seq := Seq.applyUpdate s.seq r.rt (lookupL items) (if cfg.metaInitNow then some now else none),
              conc := c', inflight := none }, { conc := [.deliver (Seq.isFull T) items] }) := by
    simp only [Sys.step, Sys.doApply, hin, hrt, if_true, hc', Option.map_some]
  obtain ⟨h1, h2, ⟨c'', hw1, hw2⟩, h4, h5⟩ :=
    no_lost_wakeup tn e.conc s.conc c' hreach i nf (Seq.isFull T) items hw ho hmem hc'
  refine ⟨_, _, hstep, h1, h2, ?_, ?_, h5⟩
  · refine ⟨{ seq := Seq.applyUpdate s.seq r.rt (lookupL items) (if cfg.metaInitNow then some now else none),
              conc := c'', inflight := none }, { conc := [.getWake i] }, ?_, hw2⟩
    simp only [Sys.step, hw1]
  · have hC' := Sys.coupled_step cfg V T tn s _ (.recvApply now) _ hC hstep (tn i)
    rw [← hC']
    exact h4

/-! ### the shape before the repairs loses wake-ups (kept as documentation; `decide`-checked schedules) -/

def current : Variant := ⟨false, .deleteEntry, false⟩

/-- S6: two lookups of one name; the first times out and deletes the shared notifier; the delivery then creates no
wake-up for the second, which keeps waiting on a notifier that is open and unreachable while the resource is cached -/
theorem s6_lost_wakeup :
    (runL current (fun _ => "c") init
      [.getStart 0, .getStart 1, .getRegister 0, .getRegister 1, .getDeadline 0, .getCleanup 0, .deliver true [("c", "v")]]).map
      (fun s => (s.pc 1, s.closed 0, s.notif "c", s.cache "c")) = some (.waiting 0, false, none, some "v") := by
  decide

/-- S7: the delivery lands between the unlocked miss and the registration -/
theorem s7_lost_wakeup :
    (runL current (fun _ => "c") init [.getStart 0, .deliver true [("c", "v")], .getRegister 0]).map
      (fun s => (s.pc 0, s.closed 0, s.cache "c")) = some (.waiting 0, false, some "v") := by
  decide

/-- ... and the same schedules with the shape the source has now -/
example : (runL V (fun _ => "c") init
      [.getStart 0, .getStart 1, .getRegister 0, .getRegister 1, .getDeadline 0, .getCleanup 0, .deliver true [("c", "v")], .getWake 1, .getReread 1]).map
      (fun s => s.pc 1) = some (.done (.val "v")) := by decide
example : (runL V (fun _ => "c") init [.getStart 0, .deliver true [("c", "v")], .getRegister 0]).map (fun s => s.pc 0)
    = some (.done (.val "v")) := by decide

end XdsVerif.Properties.C06
