import XdsVerif.Proofs.Seq
import XdsVerif.Proofs.Sweep
import XdsVerif.Properties.C01
/-!
# C19 — idle resources are evicted and unsubscribed; used and reserved ones stay

`evict rt n now` is one firing iteration of the cleaner loop at time `now` (seconds). That the
loop visits *every* entry at every tick is the regenerated fact `cleanerShape` (two nested `range`
loops over `m.meta`) plus the correspondence runs around real ticks.
-/
namespace XdsVerif.Properties.C19
open XdsVerif.Seq XdsVerif.Spec.Seq

theorem facts_seq : Generated.seq = Seq.expectedFacts := C01.facts_seq

/-- bridge: a freshly cached entry starts its idle clock at the update (so it cannot stay forever) -/
theorem facts_meta_init : Generated.metaInitNow = true := by decide

/-- the cleaner removes an entry only if it was last looked up more than the expiry period ago and is not the
reserved inbound listener: **recently used and reserved entries are never removed** -/
theorem evict_only_expired (cfg : Cfg) (s s' : St) (rt : RType) (n : Name) (now : Nat)
    (hs : step cfg s (.evict rt n now) = some s') :
    ∃ t, s.acc rt n = some (some t) ∧ now - t > 30 ∧ ¬ (rt = .lds ∧ n = "virtualInbound") := by
  simp only [step] at hs
  split at hs; · cases hs
  split at hs
  · rename_i t hacc
    split at hs
    · cases hs
    · rename_i hc
      simp only [not_or, Decidable.not_not] at hc
      exact ⟨t, hacc, hc.2, hc.1⟩
  · cases hs

theorem recent_kept (cfg : Cfg) (s : St) (rt : RType) (n : Name) (now t : Nat)
    (ha : s.acc rt n = some (some t)) (hr : now - t ≤ 30) : step cfg s (.evict rt n now) = none := by
  cases h : step cfg s (.evict rt n now) with
  | none => rfl
  | some s' =>
    obtain ⟨t', h1, h2, _⟩ := evict_only_expired cfg s s' rt n now h
    rw [ha] at h1; cases h1; omega

theorem reserved_kept (cfg : Cfg) (s : St) (now : Nat) : step cfg s (.evict .lds "virtualInbound" now) = none := by
  cases h : step cfg s (.evict .lds "virtualInbound" now) with
  | none => rfl
  | some s' =>
    obtain ⟨_, _, _, h3⟩ := evict_only_expired cfg s s' .lds "virtualInbound" now h
    exact absurd ⟨rfl, rfl⟩ h3

/-- an expired, non-reserved entry *can* be removed (the cleaner's condition is exactly this one) -/
theorem expired_evictable (cfg : Cfg) (s : St) (rt : RType) (n : Name) (now t : Nat)
    (ha : s.acc rt n = some (some t)) (he : now - t > 30) (hres : ¬ (rt = .lds ∧ n = "virtualInbound"))
    (hq : s.closed = false) : ∃ s', step cfg s (.evict rt n now) = some s' := by
  simp only [step, ha, hq]
  have : ¬ ((rt = RType.lds ∧ n = reserved) ∨ ¬ now - t > expire) := by
    simp only [reserved, expire, not_or, Decidable.not_not]; exact ⟨hres, he⟩
  simp only [Bool.false_eq_true, false_and, if_false, this]
  exact ⟨_, rfl⟩

/-- eviction removes the entry from the cache, withdraws the name from the interest set and enqueues one
request of that type whose names omit it -/
theorem evict_effect (cfg : Cfg) (s s' : St) (rt : RType) (n : Name) (now : Nat) (hq : s.closed = false)
    (hs : step cfg s (.evict rt n now) = some s') :
    s'.cache rt n = none ∧ s'.acc rt n = none ∧
    s'.watched rt = some (((s.watched rt).getD []).filter (· ≠ n)) ∧
    (∃ q, s'.queue = s.queue ++ [q] ∧ q.rt = rt ∧ q.names = ((s.watched rt).getD []).filter (· ≠ n) ∧ n ∉ q.names) ∧
    (∀ t m, ¬ (t = rt ∧ m = n) → s'.cache t m = s.cache t m) := by
  simp only [step, hq] at hs
  split at hs; · cases hs
  split at hs
  · split at hs
    · cases hs
    · simp only [Bool.false_eq_true, false_and, if_false] at hs
      cases hs
      refine ⟨by simp [watch], by simp [watch], by simp [watch], ⟨_, rfl, rfl, by simp [watch, mkReq], ?_⟩, ?_⟩
      · simp [watch, mkReq]
      · intro t m h; simp [watch, h]
  · cases hs

/-- looking a resource up refreshes its idle clock -/
theorem touch_refreshes (cfg : Cfg) (s s' : St) (rt : RType) (n : Name) (now : Nat) (a : Option Nat)
    (ha : s.acc rt n = some a) (hs : step cfg s (.touch rt n now) = some s') : s'.acc rt n = some (some now) := by
  simp only [step] at hs
  cases hs
  simp [ha]

/-- every newly cached entry has an idle clock (with the regenerated fact `metaInitNow`): nothing cached can
escape the cleaner for ever -/
theorem cached_has_clock (s : St) (rt : RType) (up : Name → Option Val) (now : Nat) (n : Name) (v : Val)
    (hu : up n = some v) (hn : s.acc rt n = none) :
    (applyUpdate s rt up (if Generated.metaInitNow then some now else none)).acc rt n = some (some now) := by
  rw [facts_meta_init]
  simp [applyUpdate, hu, hn]

/-- a later lookup of an evicted name subscribes again and is served the control plane's current value
(in the specification of C01: eviction is followed by subscribe and an accepted response carrying the name) -/
theorem refetch_after_evict (cfg : Cfg) (rest : List Op) (rt : RType) (n : Name) (t now : Nat) (r : Resp) (v : Val)
    (hrt : r.rt = rt) (hnds : rt ≠ .nds) (hd : r.decodes = true)
    (hc : carried cfg (.subscribe rt n :: .evict rt n t :: rest) r n = some v) :
    served cfg (.evict rt n t :: rest) rt n = none ∧
    served cfg (.push r now :: .subscribe rt n :: .evict rt n t :: rest) rt n = some v := by
  constructor
  · simp [served]
  · have ha : accepted (.subscribe rt n :: .evict rt n t :: rest) r = true := by
      simp [accepted, typeWatchedAt, hrt, hd]
    subst hrt
    simp [served, ha, hnds, hc]

/-- a name the control plane removes (a complete update without it) keeps its idle clock: it is still in the
interest set, and the cleaner - which walks the clocks, not the cache - withdraws it once it has been idle for
longer than the period (`expired_evictable`, `evict_effect`) -/
theorem dropped_keeps_clock (s : St) (rt : RType) (up : Name → Option Val) (init : Option Nat) (n : Name)
    (hu : up n = none) (hfull : isFull rt = true) :
    (applyUpdate s rt up init).cache rt n = none ∧ (applyUpdate s rt up init).acc rt n = s.acc rt n ∧
    (applyUpdate s rt up init).watched = s.watched := by
  simp [applyUpdate, hu, hfull]

/-- an update never caches a name outside the interest set: a response that was on its way when the sweep
unsubscribed a name cannot bring the entry back -/
theorem unsubscribed_update_ignored (cfg : Cfg) (s s' : St) (r : Resp) (now : Nat) (n : Name)
    (hw : n ∉ (s.watched r.rt).getD []) (hc : s.cache r.rt n = none)
    (hs : step cfg s (.push r now) = some s') : s'.cache r.rt n = none := by
  simp only [step] at hs
  split at hs; · cases hs
  split at hs
  · cases hs; exact hc
  · rename_i ws hws
    split at hs; · cases hs
    split at hs; · cases hs
    split at hs
    · cases hs; simpa [ack] using hc
    · split at hs
      · cases hs; simpa [ack] using hc
      · cases hs
        have hf : filtered cfg (ack s r r.decodes s.recvStream) r n = none := by
          have : (ack s r r.decodes s.recvStream).watched r.rt = some ws := by simpa [ack] using hws
          simp only [filtered, this]
          have hn : n ∉ ws := by simpa [hws] using hw
          simp [hn]
        have hc' : (ack s r r.decodes s.recvStream).cache r.rt n = none := by simpa [ack] using hc
        simp [applyUpdate, hf, hc']

/-- after an eviction, an update of that type leaves the evicted entry out of the cache -/
theorem evicted_stays_out (cfg : Cfg) (s s1 s2 : St) (rt : RType) (n : Name) (t now : Nat) (r : Resp)
    (hrt : r.rt = rt) (hq : s.closed = false) (he : step cfg s (.evict rt n t) = some s1)
    (hp : step cfg s1 (.push r now) = some s2) : s2.cache rt n = none := by
  obtain ⟨h1, _, h3, _, _⟩ := evict_effect cfg s s1 rt n t hq he
  subst hrt
  exact unsubscribed_update_ignored cfg s1 s2 r now n (by simp [h3]) h1 hp

/-! ## the whole tick, in any visiting order -/
open XdsVerif.Sweep in
/-- the cleaner's condition, as the property words it -/
theorem expired_iff (s : St) (rt : RType) (n : Name) (now : Nat) :
    expiredB s rt n now = true ↔
      ∃ t, s.acc rt n = some (some t) ∧ now - t > 30 ∧ ¬ (rt = .lds ∧ n = "virtualInbound") := by
  unfold expiredB
  cases h : s.acc rt n with
  | none => simp
  | some a =>
    cases a with
    | none => simp
    | some t =>
      simp only [expire, reserved, Bool.and_eq_true, decide_eq_true_eq, Bool.not_eq_true', decide_eq_false_iff_not,
        Option.some.injEq, exists_eq_left']
      constructor
      · rintro ⟨h1, h2⟩
        exact ⟨of_decide_eq_true h1, of_decide_eq_false h2⟩
      · rintro ⟨h1, h2⟩
        exact ⟨decide_eq_true h1, decide_eq_false h2⟩

open XdsVerif.Sweep in
/-- **one tick of the cleaner, whatever order the map iteration visits the entries in**: every visited entry that has
been idle for longer than the period (and is not the reserved listener) is removed from the cache, withdrawn from the
interest set, and a request of its type without it is enqueued; every other entry keeps its value and its subscription -/
theorem sweep_exact (cfg : Cfg) (now : Nat) (s : St) (es : List (RType × Name)) (hq : s.closed = false) :
    (∀ rt n, (rt, n) ∈ es →
        (∃ t, s.acc rt n = some (some t) ∧ now - t > 30 ∧ ¬ (rt = .lds ∧ n = "virtualInbound")) →
        (sweep cfg now s es).cache rt n = none ∧ n ∉ ((sweep cfg now s es).watched rt).getD [] ∧
        ∃ qs, (sweep cfg now s es).queue = s.queue ++ qs ∧ ∃ q ∈ qs, q.rt = rt ∧ n ∉ q.names) ∧
    (∀ rt n, ¬ (∃ t, s.acc rt n = some (some t) ∧ now - t > 30 ∧ ¬ (rt = .lds ∧ n = "virtualInbound")) →
        (sweep cfg now s es).cache rt n = s.cache rt n ∧
        (n ∈ (s.watched rt).getD [] → n ∈ ((sweep cfg now s es).watched rt).getD [])) := by
  constructor
  · intro rt n hm hex
    have hg : gone s es now rt n = true := by
      simp [gone, hm, (expired_iff s rt n now).mpr hex]
    refine ⟨by rw [sweep_cache cfg now es s hq, hg]; rfl, ?_, ?_⟩
    · rw [sweep_watched cfg now es s hq]
      simp [hg]
    · obtain ⟨qs, h1, h2⟩ := sweep_requests cfg now es s hq
      exact ⟨qs, h1, h2 rt n hg⟩
  · intro rt n hne
    have hg : gone s es now rt n = false := by
      have : expiredB s rt n now = false := by
        cases h : expiredB s rt n now with
        | false => rfl
        | true => exact absurd ((expired_iff s rt n now).mp h) hne
      simp [gone, this]
    refine ⟨by rw [sweep_cache cfg now es s hq, hg]; rfl, ?_⟩
    intro hin
    rw [sweep_watched cfg now es s hq]
    simp [hin, hg]

open XdsVerif.Sweep in
/-- the outcome of a tick does not depend on the iteration order of `m.meta` -/
theorem sweep_any_order (cfg : Cfg) (now : Nat) (s : St) (hq : s.closed = false)
    (es es' : List (RType × Name)) (hp : ∀ e, e ∈ es ↔ e ∈ es') :
    (∀ rt n, (sweep cfg now s es).cache rt n = (sweep cfg now s es').cache rt n) ∧
    (∀ rt, ((sweep cfg now s es).watched rt).getD [] = ((sweep cfg now s es').watched rt).getD []) :=
  ⟨(sweep_order_independent cfg now s hq es es' hp).1, (sweep_order_independent cfg now s hq es es' hp).2.2⟩

/-! non-vacuity -/
example : ((run C01.exCfg init (C01.exOps ++ [.touch .lds "echo:8888" 100, .evict .lds "echo:8888" 131, .senderSend false])).map
    (fun s => (s.cache .lds "echo:8888", s.watched .lds, (s.wire.getLast?).map (fun kq => kq.2.names))))
    = some (none, some [], some []) := by decide
example : (run C01.exCfg init (C01.exOps ++ [.touch .lds "echo:8888" 100, .evict .lds "echo:8888" 130])).isNone = true := by decide
/-- an update naming the evicted listener arrives after the sweep: it is acknowledged and leaves the entry out -/
example : ((run C01.exCfg init (C01.exOps ++ [.touch .lds "echo:8888" 100, .evict .lds "echo:8888" 131, .senderSend false,
      .push { rt := .lds, version := "2", nonce := "c", slots := [.good "10.0.0.1_8888" "L2"] } 131])).map
    (fun s => (s.cache .lds "echo:8888", s.version .lds, s.watched .lds))) = some (none, "2", some []) := by decide
/-- a tick over two listeners and the reserved one, in two orders: the idle one goes, the fresh and the reserved one stay -/
example :
    let s := (run C01.exCfg init (C01.exOps ++ [.touch .lds "echo:8888" 100])).getD init
    ((Sweep.sweep C01.exCfg 131 s [(.lds, "virtualInbound"), (.lds, "echo:8888")]).cache .lds "echo:8888",
     (Sweep.sweep C01.exCfg 131 s [(.lds, "echo:8888"), (.lds, "virtualInbound"), (.lds, "echo:8888")]).watched .lds,
     (Sweep.sweep C01.exCfg 130 s [(.lds, "echo:8888")]).cache .lds "echo:8888")
      = (none, some [], some "L1") := by decide

end XdsVerif.Properties.C19
