import XdsVerif.Proofs.Seq
import XdsVerif.Properties.C01
/-!
# C19 — idle resources are evicted and unsubscribed; used and reserved ones stay

`evict rt n now` is one firing iteration of the cleaner loop at time `now` (seconds). That the
loop visits *every* entry at every tick is the regenerated fact `cleanerShape` (two nested `range`
loops over `m.meta`) plus the correspondence runs around real ticks.
-/
namespace XdsVerif.Properties.C19
open XdsVerif.Seq XdsVerif.Spec.Seq

theorem facts_seq : Generated.seq = Seq.expectedFacts := C01.facts_seq

/-- bridge: a freshly cached entry starts its idle clock at the update (so it cannot stay forever) -/
theorem facts_meta_init : Generated.metaInitNow = true := by decide

/-- the cleaner removes an entry only if it was last looked up more than the expiry period ago and is not the
reserved inbound listener: **recently used and reserved entries are never removed** -/
theorem evict_only_expired (cfg : Cfg) (s s' : St) (rt : RType) (n : Name) (now : Nat)
    (hs : step cfg s (.evict rt n now) = some s') :
    ∃ t, s.acc rt n = some (some t) ∧ now - t > 30 ∧ ¬ (rt = .lds ∧ n = "virtualInbound") := by
  simp only [step] at hs
  split at hs; · cases hs
  split at hs
  · rename_i t hacc
    split at hs
    · cases hs
    · rename_i hc
      simp only [not_or, Decidable.not_not] at hc
      exact ⟨t, hacc, hc.2, hc.1⟩
  · cases hs

theorem recent_kept (cfg : Cfg) (s : St) (rt : RType) (n : Name) (now t : Nat)
    (ha : s.acc rt n = some (some t)) (hr : now - t ≤ 30) : step cfg s (.evict rt n now) = none := by
  cases h : step cfg s (.evict rt n now) with
  | none => rfl
  | some s' =>
    obtain ⟨t', h1, h2, _⟩ := evict_only_expired cfg s s' rt n now h
    rw [ha] at h1; cases h1; omega

theorem reserved_kept (cfg : Cfg) (s : St) (now : Nat) : step cfg s (.evict .lds "virtualInbound" now) = none := by
  cases h : step cfg s (.evict .lds "virtualInbound" now) with
  | none => rfl
  | some s' =>
    obtain ⟨_, _, _, h3⟩ := evict_only_expired cfg s s' .lds "virtualInbound" now h
    exact absurd ⟨rfl, rfl⟩ h3

/-- an expired, non-reserved entry *can* be removed (the cleaner's condition is exactly this one) -/
theorem expired_evictable (cfg : Cfg) (s : St) (rt : RType) (n : Name) (now t : Nat)
    (ha : s.acc rt n = some (some t)) (he : now - t > 30) (hres : ¬ (rt = .lds ∧ n = "virtualInbound"))
    (hq : s.closed = false) : ∃ s', step cfg s (.evict rt n now) = some s' := by
  simp only [step, ha, hq]
  have : ¬ ((rt = RType.lds ∧ n = reserved) ∨ ¬ now - t > expire) := by
    simp only [reserved, expire, not_or, Decidable.not_not]; exact ⟨hres, he⟩
  simp only [Bool.false_eq_true, false_and, if_false, this]
  exact ⟨_, rfl⟩

/-- eviction removes the entry from the cache, withdraws the name from the interest set and enqueues one
request of that type whose names omit it -/
theorem evict_effect (cfg : Cfg) (s s' : St) (rt : RType) (n : Name) (now : Nat) (hq : s.closed = false)
    (hs : step cfg s (.evict rt n now) = some s') :
    s'.cache rt n = none ∧ s'.acc rt n = none ∧
    s'.watched rt = some (((s.watched rt).getD []).filter (· ≠ n)) ∧
    (∃ q, s'.queue = s.queue ++ [q] ∧ q.rt = rt ∧ q.names = ((s.watched rt).getD []).filter (· ≠ n) ∧ n ∉ q.names) ∧
    (∀ t m, ¬ (t = rt ∧ m = n) → s'.cache t m = s.cache t m) := by
  simp only [step, hq] at hs
  split at hs; · cases hs
  split at hs
  · split at hs
    · cases hs
    · simp only [Bool.false_eq_true, false_and, if_false] at hs
      cases hs
      refine ⟨by simp [watch], by simp [watch], by simp [watch], ⟨_, rfl, rfl, by simp [watch, mkReq], ?_⟩, ?_⟩
      · simp [watch, mkReq]
      · intro t m h; simp [watch, h]
  · cases hs

/-- looking a resource up refreshes its idle clock -/
theorem touch_refreshes (cfg : Cfg) (s s' : St) (rt : RType) (n : Name) (now : Nat) (a : Option Nat)
    (ha : s.acc rt n = some a) (hs : step cfg s (.touch rt n now) = some s') : s'.acc rt n = some (some now) := by
  simp only [step] at hs
  cases hs
  simp [ha]

/-- every newly cached entry has an idle clock (with the regenerated fact `metaInitNow`): nothing cached can
escape the cleaner for ever -/
theorem cached_has_clock (s : St) (rt : RType) (up : Name → Option Val) (now : Nat) (n : Name) (v : Val)
    (hu : up n = some v) (hn : s.acc rt n = none) :
    (applyUpdate s rt up (if Generated.metaInitNow then some now else none)).acc rt n = some (some now) := by
  rw [facts_meta_init]
  simp [applyUpdate, hu, hn]

/-- a later lookup of an evicted name subscribes again and is served the control plane's current value
(in the specification of C01: eviction is followed by subscribe and an accepted response carrying the name) -/
theorem refetch_after_evict (cfg : Cfg) (rest : List Op) (rt : RType) (n : Name) (t now : Nat) (r : Resp) (v : Val)
    (hrt : r.rt = rt) (hnds : rt ≠ .nds) (hd : r.decodes = true)
    (hc : carried cfg (.subscribe rt n :: .evict rt n t :: rest) r n = some v) :
    served cfg (.evict rt n t :: rest) rt n = none ∧
    served cfg (.push r now :: .subscribe rt n :: .evict rt n t :: rest) rt n = some v := by
  constructor
  · simp [served]
  · have ha : accepted (.subscribe rt n :: .evict rt n t :: rest) r = true := by
      simp [accepted, typeWatchedAt, hrt, hd]
    subst hrt
    simp [served, ha, hnds, hc]

/-! non-vacuity -/
example : ((run C01.exCfg init (C01.exOps ++ [.touch .lds "echo:8888" 100, .evict .lds "echo:8888" 131, .senderSend false])).map
    (fun s => (s.cache .lds "echo:8888", s.watched .lds, (s.wire.getLast?).map (fun kq => kq.2.names))))
    = some (none, some [], some []) := by decide
example : (run C01.exCfg init (C01.exOps ++ [.touch .lds "echo:8888" 100, .evict .lds "echo:8888" 130])).isNone = true := by decide

end XdsVerif.Properties.C19
