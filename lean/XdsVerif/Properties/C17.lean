import XdsVerif.Proofs.Reg
import XdsVerif.Model.Handlers
import XdsVerif.Generated.Facts
/-!
# C17 — retry policies track the route tables currently in force
For every sequence of accepted route-table updates (full or partial: route tables are a merge type).
Determinism hypothesis, where needed: Go iterates the update map in random order, so when the *same*
key is mentioned by several tables the surviving policy is not determined; the statements below are
exact in the table order chosen by the run (`mergeTables` order) and the correspondence generator
keeps cluster names distinct across tables.
-/
namespace XdsVerif.Properties.C17
open XdsVerif.Handlers

abbrev F : HandlerFacts := Generated.handlers

theorem facts_handlers : F = Handlers.expectedFacts := by decide

def run (ups : List RUp) : RetrySt := ups.foldl (retryUpdate F) retryInit

/-- the invariant: installed policies are exactly those derived from the cached tables -/
def Tracks (s : RetrySt) : Prop :=
  ∀ k, s.pol k = derive (allRoutes s.cache) k ∧ s.last k = (derive (allRoutes s.cache) k).isSome

theorem tracks_step (s : RetrySt) (up : RUp) (h : Tracks s) : Tracks (retryUpdate F s up) := by
  rw [facts_handlers]
  intro k
  simp only [retryUpdate, Handlers.expectedFacts, retryHandler]
  obtain ⟨h1, h2⟩ := h k
  constructor
  · cases hd : derive (allRoutes (mergeTables s.cache up)) k with
    | some p => rfl
    | none =>
      simp only
      by_cases hl : s.last k = true
      · simp [hl]
      · simp only [hl, Bool.false_eq_true, if_false]
        rw [h1]
        rw [h2] at hl
        cases hx : derive (allRoutes s.cache) k with
        | none => rfl
        | some x => rw [hx] at hl; simp at hl
  · trivial

/-- **after any sequence of updates the installed retry policies are exactly those derived from the named
route tables currently cached** -/
theorem retry_tracks_cache (ups : List RUp) (k : String) :
    (run ups).pol k = derive (allRoutes (run ups).cache) k := by
  have : ∀ (s : RetrySt), Tracks s → Tracks (ups.foldl (retryUpdate F) s) := by
    induction ups with
    | nil => intro s h; exact h
    | cons u us ih => intro s h; exact ih _ (tracks_step s u h)
  exact (this retryInit (by intro k; exact ⟨rfl, rfl⟩) k).1

/-- the cache the policies track is the merge by name of all updates -/
theorem cache_is_merge (s : RetrySt) (up : RUp) : (retryUpdate F s up).cache = mergeTables s.cache up := by
  simp [retryUpdate, retryHandler]

/-- policies of clusters no longer referenced by any cached table are removed -/
theorem unreferenced_removed (ups : List RUp) (k : String)
    (h : ∀ r ∈ allRoutes (run ups).cache, (keysOf r).contains k = false) : (run ups).pol k = none := by
  rw [retry_tracks_cache]
  unfold derive
  rw [List.find?_eq_none.mpr]
  · rfl
  · intro r hr
    have := h r (by simpa using hr)
    simpa using this

/-- a table merely omitted from a partial update keeps its policies: if no table of the update mentions the key
and the tables that do are not replaced, the policy is unchanged -/
theorem partial_update_keeps (s : RetrySt) (up : RUp) (k : String) (hT : Tracks s)
    (hup : ∀ r ∈ allRoutes up, (keysOf r).contains k = false)
    (hkeep : derive (allRoutes (s.cache.filter (fun e => !(up.any (fun u => u.1 = e.1))))) k = derive (allRoutes s.cache) k) :
    (retryUpdate F s up).pol k = s.pol k := by
  have hT' := tracks_step s up hT
  rw [(hT' k).1, (hT k).1, cache_is_merge]
  unfold mergeTables
  have : derive (allRoutes (up ++ s.cache.filter (fun e => !(up.any (fun u => u.1 = e.1))))) k
      = derive (allRoutes (s.cache.filter (fun e => !(up.any (fun u => u.1 = e.1))))) k := by
    unfold derive allRoutes
    rw [List.flatMap_append, List.reverse_append, List.find?_append]
    cases hf : List.find? (fun r => (keysOf r).contains k) (List.flatMap (fun x => x.2) (List.filter (fun e => !up.any fun u => decide (u.1 = e.1)) s.cache)).reverse with
    | some x => rfl
    | none =>
      simp only [Option.or_none, Option.none_or]
      rw [List.find?_eq_none.mpr]
      intro r hr
      have := hup r (by simpa [allRoutes] using hr)
      simpa using this
  rw [this, hkeep]

/-- the policy a route installs: attempts, total duration attempts × per-try timeout (in `uint32` milliseconds),
error-rate ceiling, and back-off none / fixed at the base / random between base and maximum -/
theorem policy_shape (r : RRoute) :
    (polOf r).maxRetry = r.numRetries ∧
    (polOf r).maxDurationMs = ((r.perTryMs % W32) * (r.numRetries % W32)) % W32 ∧
    (polOf r).errRate = r.errRate ∧
    (r.backoff = none → (polOf r).backoff = .none) ∧
    (∀ b m, r.backoff = some (b, m) → m > b → (polOf r).backoff = .random (b / 1000000) (m / 1000000)) ∧
    (∀ b m, r.backoff = some (b, m) → ¬ m > b → (polOf r).backoff = .fixed (b / 1000000)) := by
  refine ⟨rfl, rfl, rfl, ?_, ?_, ?_⟩
  · intro h; simp [polOf, h]
  · intro b m h hm; simp [polOf, h, hm]
  · intro b m h hm; simp [polOf, h, hm]

/-- within the ranges Kitex accepts the duration does not wrap -/
theorem duration_no_wrap (r : RRoute) (h : r.perTryMs * r.numRetries < W32) :
    (polOf r).maxDurationMs = r.perTryMs * r.numRetries := by
  have h1 : r.numRetries = 0 ∨ r.perTryMs < W32 := by
    rcases Nat.eq_zero_or_pos r.numRetries with h0 | h0
    · exact Or.inl h0
    · right
      calc r.perTryMs ≤ r.perTryMs * r.numRetries := Nat.le_mul_of_pos_right _ h0
        _ < W32 := h
  have h2 : r.perTryMs = 0 ∨ r.numRetries < W32 := by
    rcases Nat.eq_zero_or_pos r.perTryMs with h0 | h0
    · exact Or.inl h0
    · right
      calc r.numRetries ≤ r.perTryMs * r.numRetries := Nat.le_mul_of_pos_left _ h0
        _ < W32 := h
  simp only [polOf]
  rcases h1 with h1 | h1
  · simp [h1]
  · rcases h2 with h2 | h2
    · simp [h2]
    · rw [Nat.mod_eq_of_lt h1, Nat.mod_eq_of_lt h2, Nat.mod_eq_of_lt h]

/-! non-vacuity: a partial update keeps the omitted table's policies (and would not with the update-map view) -/
def rA : RRoute := ⟨["ca"], 2, 100, "0.1", none, ["m"]⟩
def rB : RRoute := ⟨["cb"], 1, 50, "", some (10000000, 30000000), []⟩
example : ((run [[("ta", [rA]), ("tb", [rB])], [("tb", [rB])]]).pol "ca|m").map (·.maxDurationMs) = some 200 := by decide
example : ((([[("ta", [rA]), ("tb", [rB])], [("tb", [rB])]] : List RUp).foldl
    (retryUpdate { mergeView := .update, handlersFirst := true, replayOnRegister := true }) retryInit).pol "ca") = none := by decide

/-! ## A handler created while updates arrive (`Model/Reg.lean`) -/

theorem facts_registration : Generated.regShape = .atomic := by decide

/-- **a retry policies handler created at any moment tracks the latest state**: over every interleaving of accepted updates and
registrations (any number of handlers — one per client suite), every registered handler has completed for exactly the
content the cache holds; in particular a handler registered between two updates has seen the second one -/
theorem created_anytime_tracks_latest (ops : List Reg.Op) (s : Reg.S) (h : Reg.run Generated.regShape Reg.init ops = some s)
    (k v : Nat) (hk : k ∈ s.handlers) (hv : s.cache = some v) : s.applied k = some v := by
  rw [facts_registration] at h
  obtain ⟨hP, hp⟩ := Reg.policy_before_data_all ops s h
  exact hP k hk (by simp [hp k]) v hv

example : (Reg.run Generated.regShape Reg.init [.update 1, .regBegin 7, .update 2, .regBegin 8]).map
    (fun s => (s.cache, s.handlers, s.applied 7, s.applied 8)) = some (some 2, [7, 8], some 2, some 2) := by decide

/-! ## Re-delivery and empty updates (added in the last session) -/

theorem mergeTables_nil (c : List (String × RTable)) : mergeTables c [] = c := by
  simp [mergeTables]

/-- merging the same update twice is merging it once (the control plane re-sends its state under a new version) -/
theorem mergeTables_idem (c up : List (String × RTable)) : mergeTables (mergeTables c up) up = mergeTables c up := by
  unfold mergeTables
  rw [List.filter_append]
  have h1 : up.filter (fun e => !(up.any (fun u => decide (u.1 = e.1)))) = [] := by
    rw [List.filter_eq_nil_iff]
    intro e he
    have : up.any (fun u => decide (u.1 = e.1)) = true := by
      rw [List.any_eq_true]; exact ⟨e, he, by simp⟩
    simp [this]
  rw [h1, List.nil_append, List.filter_filter]
  simp

/-- an update that carries no table leaves every installed policy as it was -/
theorem empty_update_keeps_policies (ups : List RUp) (k : String) :
    (run (ups ++ [[]])).pol k = (run ups).pol k := by
  rw [retry_tracks_cache (ups ++ [[]]) k, retry_tracks_cache ups k]
  have : (run (ups ++ [[]])).cache = (run ups).cache := by
    simp only [run, List.foldl_append, List.foldl_cons, List.foldl_nil]
    rw [cache_is_merge, mergeTables_nil]
  rw [this]

/-- **re-delivery of the same route tables changes no policy** -/
theorem redelivery_idempotent (ups : List RUp) (up : RUp) (k : String) :
    (run (ups ++ [up, up])).pol k = (run (ups ++ [up])).pol k := by
  rw [retry_tracks_cache (ups ++ [up, up]) k, retry_tracks_cache (ups ++ [up]) k]
  have : (run (ups ++ [up, up])).cache = (run (ups ++ [up])).cache := by
    simp only [run, List.foldl_append, List.foldl_cons, List.foldl_nil]
    rw [cache_is_merge, cache_is_merge, mergeTables_idem]
  rw [this]

end XdsVerif.Properties.C17
